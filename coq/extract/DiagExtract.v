(** Extraction of the diagnostic-renderer model for the C19 `render` correspondence.
    The entry points below drive the model through the same constructor sequence as harness/src/diag.rs.
    Directives: ExtrOcamlBasic, ExtrOcamlString (string -> char list); Z/positive/nat stay datatypes. *)
From Coq Require Import Extraction ExtrOcamlBasic ExtrOcamlString.
From Coq Require Import String Ascii List ZArith.
From MambaModel Require Import gen.DiagConsts model.Diag.
Import ListNotations.
Local Open Scope Z_scope.

(** decimal text -> Z (protocol parsing only) *)
Fixpoint z_of_dec_go (s : string) (acc : Z) : Z :=
  match s with
  | EmptyString => acc
  | String c r => z_of_dec_go r (10 * acc + Z.of_nat (nat_of_ascii c - 48))
  end.
Definition z_of_dec (s : string) : Z := z_of_dec_go s 0.

Definition mk_pos (a b c d : Z) : position := Position (Caret a b) (Caret c d).

Definition add_type_causes (e : type_err) (cs : list (string * position)) : type_err :=
  fold_left (fun e c => type_with_cause e (fst c) (snd c)) cs e.
Definition add_parse_causes (e : parse_err) (cs : list (string * position)) : parse_err :=
  fold_left (fun e c => parse_with_cause e (fst c) (snd c)) cs e.

Definition run_type (p : position) (msg : string) (cs : list (string * position))
  (src path : option string) : outcome :=
  render_type (type_with_source (add_type_causes (type_err_new p msg) cs) src path).
Definition run_typenp (msg : string) (cs : list (string * position)) (src path : option string) : outcome :=
  render_type (type_with_source (add_type_causes (type_err_new_no_pos msg) cs) src path).
Definition run_parse (p : position) (msg : string) (cs : list (string * position))
  (src path : option string) : outcome :=
  render_parse (ParseErr p msg src path (map (fun c => Cause (snd c) (fst c)) cs)).
Definition run_parsec (p : position) (msg : string) (cs : list (string * position))
  (src path : option string) : outcome :=
  render_parse (parse_with_source (add_parse_causes (parse_custom msg p) cs) src path).
Definition run_gen (p : position) (msg : string) (src path : option string) : outcome :=
  render_gen (GenErr p msg src path).
Definition run_lex (l c : Z) (w : option Z) (msg : string) (src path : option string) : outcome :=
  render_lex (LexErr (Caret l c) w msg src path).

Extraction Language OCaml.
Extraction "diag_model.ml" z_of_dec mk_pos run_type run_typenp run_parse run_parsec run_gen run_lex.
