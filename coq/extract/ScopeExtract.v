(** Extraction of the scope model (model/Scope.v) for the verdict correspondence of C07, C08, C09.
    Directives: ExtrOcamlBasic (bool, option, list, prod), ExtrOcamlNatInt (nat -> OCaml int: names,
    offsets and arities are small numbers; used by the correspondence only, never by a theorem). *)
From Coq Require Import Extraction ExtrOcamlBasic ExtrOcamlNatInt.
From Coq Require Import List.
From MambaModel Require Import model.Scope.

Extraction Language OCaml.
Extraction "scope_model.ml" verdict_program verdict_strict verdict_restored.
