(* Hand-written protocol layer around the extracted model (trusted for the correspondence only).
   stdin : id \t command \t payload        stdout: id \t status \t payload *)
open Model

(* ---------- S-expressions ---------- *)
type sx = Atom of string | Node of string * sx list | List of sx list

let sx_tokens (s : string) : string list =
  let out = ref [] and cur = Buffer.create 16 in
  let flush () = if Buffer.length cur > 0 then (out := Buffer.contents cur :: !out; Buffer.clear cur) in
  String.iter (fun c ->
    match c with
    | '(' | ')' | '[' | ']' -> flush (); out := String.make 1 c :: !out
    | ' ' | '\t' | '\n' | '\r' -> flush ()
    | c -> Buffer.add_char cur c) s;
  flush (); List.rev !out

exception Bad of string

let parse_sx (s : string) : sx =
  let toks = ref (sx_tokens s) in
  let next () = match !toks with [] -> raise (Bad "eof") | t :: r -> toks := r; t in
  let peek () = match !toks with [] -> raise (Bad "eof") | t :: _ -> t in
  let rec go () =
    match next () with
    | "(" ->
        let h = next () in
        let args = ref [] in
        while peek () <> ")" do args := go () :: !args done;
        ignore (next ()); Node (h, List.rev !args)
    | "[" ->
        let items = ref [] in
        while peek () <> "]" do items := go () :: !items done;
        ignore (next ()); List (List.rev !items)
    | ")" | "]" -> raise (Bad "unexpected closer")
    | a -> Atom a in
  let r = go () in
  if !toks <> [] then raise (Bad "trailing"); r

let unhex (h : string) : string =
  let n = String.length h / 2 in
  String.init n (fun i -> Char.chr (int_of_string ("0x" ^ String.sub h (2 * i) 2)))
let hex (s : string) : string =
  String.concat "" (List.map (fun c -> Printf.sprintf "%02x" (Char.code c)) (List.of_seq (String.to_seq s)))
let explode (s : string) : char list = List.of_seq (String.to_seq s)
let implode (l : char list) : string = String.of_seq (List.to_seq l)

let str = function
  | Atom a when String.length a >= 2 && String.sub a 0 2 = "s:" -> explode (unhex (String.sub a 2 (String.length a - 2)))
  | _ -> raise (Bad "string expected")
let boolean = function Atom "T" -> true | Atom "F" -> false | _ -> raise (Bad "bool expected")
let lst = function List l -> l | _ -> raise (Bad "list expected")

(* ---------- Core S-expression -> cexpr (expression fragment only) ---------- *)
let binop = function
  | "Add" -> Some BAdd | "Sub" -> Some BSub | "Mul" -> Some BMul | "Div" -> Some BDiv
  | "FDiv" -> Some BFDiv | "Mod" -> Some BMod | "Pow" -> Some BPow | "BAnd" -> Some BBAnd
  | "BOr" -> Some BBOr | "BXOr" -> Some BBXOr | "BLShift" -> Some BBLShift | "BRShift" -> Some BBRShift
  | "And" -> Some BAnd | "Or" -> Some BOr | "Ge" -> Some BGe | "Geq" -> Some BGeq | "Le" -> Some BLe
  | "Leq" -> Some BLeq | "Eq" -> Some BEq | "Neq" -> Some BNeq | "Is" -> Some BIs | "IsN" -> Some BIsN
  | "In" -> Some BIn | _ -> None
let unop = function
  | "AddU" -> Some UAddU | "SubU" -> Some USubU | "BOneCmpl" -> Some UBOneCmpl | "Not" -> Some UNot
  | _ -> None

let rec cexpr (s : sx) : cexpr =
  match s with
  | Atom "None" | Node ("None", []) -> CNone
  | Node ("Id", [a]) -> CId (str a)
  | Node ("Int", [a]) -> CInt (str a)
  | Node ("Float", [a]) -> CFloat (str a)
  | Node ("Str", [a]) -> CStr (str a)
  | Node ("Bool", [a]) -> CBool (boolean a)
  | Node ("ENum", [a; b]) -> CENum (str a, str b)
  | Node ("IsA", [l; r]) -> CIsA (cexpr l, cexpr r)
  | Node ("Sqrt", [x]) -> CSqrt (cexpr x)
  | Node ("Ternary", [c; t; e]) -> CTernary (cexpr c, cexpr t, cexpr e)
  | Node ("AnonFun", [args; b]) ->
      let name = function
        | Node ("Id", [a]) -> str a
        | Node ("FunArg", [Atom "F"; Node ("Id", [a]); Atom "~"; Atom "~"]) -> str a
        | _ -> raise (Bad "lambda argument outside the model") in
      CLambda (List.map name (lst args), cexpr b)
  | Node ("FunctionCall", [f; args]) -> CCall (cexpr f, cexprs (lst args))
  | Node ("Index", [i; r]) -> CIndex (cexpr i, cexpr r)
  | Node ("PropertyCall", [o; p]) -> CProp (cexpr o, cexpr p)
  | Node ("Tuple", [es]) -> CTuple (cexprs (lst es))
  | Node ("List", [es]) -> CList (cexprs (lst es))
  | Node ("Set", [es]) -> CSet (cexprs (lst es))
  | Node (h, [l; r]) when binop h <> None ->
      (match binop h with Some o -> CBin (o, cexpr l, cexpr r) | None -> assert false)
  | Node (h, [x]) when unop h <> None ->
      (match unop h with Some o -> CUn (o, cexpr x) | None -> assert false)
  | Node (h, _) -> raise (Bad ("constructor outside the expression model: " ^ h))
  | Atom a -> raise (Bad ("atom outside the expression model: " ^ a))
  | List _ -> raise (Bad "list where expression expected")
and cexprs = function [] -> CNil | x :: r -> CCons (cexpr x, cexprs r)

(* ---------- printing ---------- *)
let tok_text = function
  | TName s -> implode s | TNum s -> implode s | TStr s -> "\"" ^ implode s ^ "\""
  | TLPar -> "(" | TRPar -> ")" | TLBr -> "[" | TRBr -> "]" | TLCb -> "{" | TRCb -> "}"
  | TComma -> "," | TColon -> ":" | TDot -> "." | TPlus -> "+" | TMinus -> "-" | TStar -> "*"
  | TSlash -> "/" | TDSlash -> "//" | TPercent -> "%" | TDStar -> "**" | TAmp -> "&" | TPipe -> "|"
  | TCaret -> "^" | TTilde -> "~" | TLShift -> "<<" | TRShift -> ">>" | TLt -> "<" | TGt -> ">"
  | TLe -> "<=" | TGe -> ">=" | TEqEq -> "==" | TNe -> "!=" | TNot -> "not" | TAnd -> "and"
  | TOr -> "or" | TIs -> "is" | TIn -> "in" | TIf -> "if" | TElse -> "else" | TLambda -> "lambda"
  | TTrue -> "True" | TFalse -> "False" | TNone -> "None"

let tok_of_text (t : string) : tok =
  match t with
  | "(" -> TLPar | ")" -> TRPar | "[" -> TLBr | "]" -> TRBr | "{" -> TLCb | "}" -> TRCb
  | "," -> TComma | ":" -> TColon | "." -> TDot | "+" -> TPlus | "-" -> TMinus | "*" -> TStar
  | "/" -> TSlash | "//" -> TDSlash | "%" -> TPercent | "**" -> TDStar | "&" -> TAmp | "|" -> TPipe
  | "^" -> TCaret | "~" -> TTilde | "<<" -> TLShift | ">>" -> TRShift | "<" -> TLt | ">" -> TGt
  | "<=" -> TLe | ">=" -> TGe | "==" -> TEqEq | "!=" -> TNe | "not" -> TNot | "and" -> TAnd
  | "or" -> TOr | "is" -> TIs | "in" -> TIn | "if" -> TIf | "else" -> TElse | "lambda" -> TLambda
  | "True" -> TTrue | "False" -> TFalse | "None" -> TNone
  | _ ->
      let c = t.[0] in
      if c = '"' then TStr (explode (String.sub t 1 (String.length t - 2)))
      else if c >= '0' && c <= '9' then TNum (explode t)
      else TName (explode t)

let hs (s : char list) = "s:" ^ hex (implode s)
let pbin = function
  | PAdd -> "Add" | PSub -> "Sub" | PMul -> "Mult" | PDiv -> "Div" | PFDiv -> "FloorDiv" | PMod -> "Mod"
  | PPow -> "Pow" | PBitAnd -> "BitAnd" | PBitOr -> "BitOr" | PBitXor -> "BitXor" | PLSh -> "LShift"
  | PRSh -> "RShift"
let pcmp = function
  | CLt -> "Lt" | CGt -> "Gt" | CLe -> "LtE" | CGe -> "GtE" | CEq -> "Eq" | CNe -> "NotEq" | CIs -> "Is"
  | CIsNot -> "IsNot" | CIn -> "In" | CNotIn -> "NotIn"
let pun = function PUAdd -> "UAdd" | PUSub -> "USub" | PInvert -> "Invert" | PNot -> "Not"
let rec pexpr (e : pexpr) : string =
  let l es = "[" ^ String.concat " " (List.map pexpr es) ^ "]" in
  match e with
  | PName s -> "(Name " ^ hs s ^ ")" | PNum s -> "(Num " ^ hs s ^ ")" | PStr s -> "(Str " ^ hs s ^ ")"
  | PTrue -> "True" | PFalse -> "False" | PNoneC -> "None"
  | PBin (o, a, b) -> "(BinOp " ^ pbin o ^ " " ^ pexpr a ^ " " ^ pexpr b ^ ")"
  | PBoolOp (o, es) -> "(BoolOp " ^ (match o with PAnd -> "And" | POr -> "Or") ^ " " ^ l es ^ ")"
  | PCompare (a, ops) ->
      "(Compare " ^ pexpr a ^ " ["
      ^ String.concat " " (List.map (fun (c, x) -> "(" ^ pcmp c ^ " " ^ pexpr x ^ ")") ops) ^ "])"
  | PUn (o, a) -> "(UnaryOp " ^ pun o ^ " " ^ pexpr a ^ ")"
  | PIfExp (t, b, o) -> "(IfExp " ^ pexpr t ^ " " ^ pexpr b ^ " " ^ pexpr o ^ ")"
  | PLambda (ns, b) -> "(Lambda [" ^ String.concat " " (List.map hs ns) ^ "] " ^ pexpr b ^ ")"
  | PCall (f, args) -> "(Call " ^ pexpr f ^ " " ^ l args ^ ")"
  | PSubscript (v, i) -> "(Subscript " ^ pexpr v ^ " " ^ pexpr i ^ ")"
  | PAttr (v, s) -> "(Attribute " ^ pexpr v ^ " " ^ hs s ^ ")"
  | PTuple es -> "(Tuple " ^ l es ^ ")" | PList es -> "(List " ^ l es ^ ")" | PSet es -> "(Set " ^ l es ^ ")"


(* ---------- lexer ---------- *)
let rec pos_to_int = function XH -> 1 | XO p -> 2 * pos_to_int p | XI p -> 2 * pos_to_int p + 1
let z_to_int = function Z0 -> 0 | Zpos p -> pos_to_int p | Zneg p -> - (pos_to_int p)

let kind (t : token) : string =
  match t with
  | MFrom -> "From" | MType -> "Type" | MClass -> "Class" | MPure -> "Pure" | MIsA -> "IsA" | MAs -> "As"
  | MImport -> "Import" | MForward -> "Forward" | MPoint -> "Point" | MComma -> "Comma"
  | MDoublePoint -> "DoublePoint" | MVararg -> "Vararg" | MBSlash -> "BSlash" | MId _ -> "Id" | MFin -> "Fin"
  | MAssign -> "Assign" | MAddAssign -> "AddAssign" | MSubAssign -> "SubAssign" | MMulAssign -> "MulAssign"
  | MDivAssign -> "DivAssign" | MPowAssign -> "PowAssign" | MBLShiftAssign -> "BLShiftAssign"
  | MBRShiftAssign -> "BRShiftAssign" | MDef -> "Def" | MReal _ -> "Real" | MInt _ -> "Int" | MENum _ -> "ENum"
  | MStr _ -> "Str" | MDocStr _ -> "DocStr" | MRange -> "Range" | MRangeIncl -> "RangeIncl" | MSlice -> "Slice"
  | MSliceIncl -> "SliceIncl" | MAdd -> "Add" | MSub -> "Sub" | MMul -> "Mul" | MDiv -> "Div" | MFDiv -> "FDiv"
  | MPow -> "Pow" | MMod -> "Mod" | MSqrt -> "Sqrt" | MBAnd -> "BAnd" | MBOr -> "BOr" | MBXOr -> "BXOr"
  | MBOneCmpl -> "BOneCmpl" | MBLShift -> "BLShift" | MBRShift -> "BRShift" | MGe -> "Ge" | MGeq -> "Geq"
  | MLe -> "Le" | MLeq -> "Leq" | MEq -> "Eq" | MIs -> "Is" | MNeq -> "Neq" | MAnd -> "And" | MOr -> "Or"
  | MNot -> "Not" | MLRBrack -> "LRBrack" | MRRBrack -> "RRBrack" | MLSBrack -> "LSBrack" | MRSBrack -> "RSBrack"
  | MLCBrack -> "LCBrack" | MRCBrack -> "RCBrack" | MVer -> "Ver" | MTo -> "To" | MBTo -> "BTo" | MNL -> "NL"
  | MIndent -> "Indent" | MDedent -> "Dedent" | MUnderscore -> "Underscore" | MRaise -> "Raise" | MWhen -> "When"
  | MWhile -> "While" | MFor -> "For" | MIn -> "In" | MIf -> "If" | MThen -> "Then" | MMatch -> "Match"
  | MElse -> "Else" | MDo -> "Do" | MContinue -> "Continue" | MBreak -> "Break" | MRet -> "Ret" | MWith -> "With"
  | MQuestion -> "Question" | MHandle -> "Handle" | MPass -> "Pass" | MComment _ -> "Comment" | MEof -> "Eof"

let lex_cmd (payload : string) : string =
  let src = explode (unhex payload) in
  match tokenize src with
  | LexOk ts ->
      "OK\t" ^ String.concat ";" (List.map (fun l ->
        Printf.sprintf "%s%s,%s,%d,%d,%d,%d" (if l.lnested then "Str." else "") (kind l.ltok)
          (hex (implode (spell l.ltok)))
          (z_to_int l.lstart.line) (z_to_int l.lstart.col) (z_to_int l.lend.line) (z_to_int l.lend.col)) ts)
  | LexErr (p, e) ->
      let msg = match e with
        | ErrCR -> "return carriage not followed by newline"
        | ErrBang -> "'!' is not a valid character on its own"
        | ErrChar c -> "unrecognized character: " ^ String.make 1 c in
      Printf.sprintf "ERR\t%d\t%d\t%s" (z_to_int p.line) (z_to_int p.col) (hex msg)
  | OutOfFuel -> "BAD\tout of fuel"

let rec nat_of_int n = if n <= 0 then O else S (nat_of_int (n - 1))

let split_tab s = String.split_on_char '\t' s

let handle cmd payload =
  match cmd with
  | "ptoks" ->
      let e = cexpr (parse_sx payload) in
      "OK\t" ^ (if wf e then "T" else "F") ^ "\t"
      ^ String.concat " " (List.map (fun t -> hex (tok_text t)) (ptoks generated e))
      ^ "\t" ^ pexpr (as_py e)
  | "pyparse" ->
      (* payload: space separated hex token texts *)
      let texts = List.filter (fun s -> s <> "") (String.split_on_char ' ' payload) in
      let toks = List.map (fun h -> tok_of_text (unhex h)) texts in
      let fuel = nat_of_int (6 * List.length toks + 40) in
      (match py_parse fuel toks with
       | Some e -> "OK\t" ^ pexpr e
       | None -> "NONE")
  | "lex" -> lex_cmd payload
  | "tableok" -> if table_ok generated then "OK\tT" else "OK\tF"
  | _ -> "BAD\tunknown command"

let () =
  try
    while true do
      let line = input_line stdin in
      if line <> "" then begin
        match split_tab line with
        | id :: cmd :: rest ->
            let payload = String.concat "\t" rest in
            let res = try handle cmd payload with
              | Bad m -> "OUTSIDE\t" ^ m
              | Stack_overflow -> "BAD\tstack overflow"
              | e -> "BAD\t" ^ Printexc.to_string e in
            print_string (id ^ "\t" ^ res ^ "\n"); flush stdout
        | _ -> ()
      end
    done
  with End_of_file -> ()
