(* Hand-written protocol layer around the extracted model (trusted for the correspondence only).
   stdin : id \t command \t payload        stdout: id \t status \t payload *)
open Model

(* ---------- S-expressions ---------- *)
type sx = Atom of string | Node of string * sx list | List of sx list

let sx_tokens (s : string) : string list =
  let out = ref [] and cur = Buffer.create 16 in
  let flush () = if Buffer.length cur > 0 then (out := Buffer.contents cur :: !out; Buffer.clear cur) in
  String.iter (fun c ->
    match c with
    | '(' | ')' | '[' | ']' -> flush (); out := String.make 1 c :: !out
    | ' ' | '\t' | '\n' | '\r' -> flush ()
    | c -> Buffer.add_char cur c) s;
  flush (); List.rev !out

exception Bad of string

let parse_sx (s : string) : sx =
  let toks = ref (sx_tokens s) in
  let next () = match !toks with [] -> raise (Bad "eof") | t :: r -> toks := r; t in
  let peek () = match !toks with [] -> raise (Bad "eof") | t :: _ -> t in
  let rec go () =
    match next () with
    | "(" ->
        let h = next () in
        let args = ref [] in
        while peek () <> ")" do args := go () :: !args done;
        ignore (next ()); Node (h, List.rev !args)
    | "[" ->
        let items = ref [] in
        while peek () <> "]" do items := go () :: !items done;
        ignore (next ()); List (List.rev !items)
    | ")" | "]" -> raise (Bad "unexpected closer")
    | a -> Atom a in
  let r = go () in
  if !toks <> [] then raise (Bad "trailing"); r

let unhex (h : string) : string =
  let n = String.length h / 2 in
  String.init n (fun i -> Char.chr (int_of_string ("0x" ^ String.sub h (2 * i) 2)))
let hex (s : string) : string =
  String.concat "" (List.map (fun c -> Printf.sprintf "%02x" (Char.code c)) (List.of_seq (String.to_seq s)))
let explode (s : string) : char list = List.of_seq (String.to_seq s)
let implode (l : char list) : string = String.of_seq (List.to_seq l)

let str = function
  | Atom a when String.length a >= 2 && String.sub a 0 2 = "s:" -> explode (unhex (String.sub a 2 (String.length a - 2)))
  | _ -> raise (Bad "string expected")
let boolean = function Atom "T" -> true | Atom "F" -> false | _ -> raise (Bad "bool expected")
let lst = function List l -> l | _ -> raise (Bad "list expected")

(* ---------- Core S-expression -> cexpr (expression fragment only) ---------- *)
let binop = function
  | "Add" -> Some BAdd | "Sub" -> Some BSub | "Mul" -> Some BMul | "Div" -> Some BDiv
  | "FDiv" -> Some BFDiv | "Mod" -> Some BMod | "Pow" -> Some BPow | "BAnd" -> Some BBAnd
  | "BOr" -> Some BBOr | "BXOr" -> Some BBXOr | "BLShift" -> Some BBLShift | "BRShift" -> Some BBRShift
  | "And" -> Some BAnd | "Or" -> Some BOr | "Ge" -> Some BGe | "Geq" -> Some BGeq | "Le" -> Some BLe
  | "Leq" -> Some BLeq | "Eq" -> Some BEq | "Neq" -> Some BNeq | "Is" -> Some BIs | "IsN" -> Some BIsN
  | "In" -> Some BIn | _ -> None
let unop = function
  | "AddU" -> Some UAddU | "SubU" -> Some USubU | "BOneCmpl" -> Some UBOneCmpl | "Not" -> Some UNot
  | _ -> None

let rec cexpr (s : sx) : cexpr =
  match s with
  | Atom "None" | Node ("None", []) -> CNone
  | Node ("Id", [a]) -> CId (str a)
  | Node ("Int", [a]) -> CInt (str a)
  | Node ("Float", [a]) -> CFloat (str a)
  | Node ("Str", [a]) -> CStr (str a)
  | Node ("Bool", [a]) -> CBool (boolean a)
  | Node ("ENum", [a; b]) -> CENum (str a, str b)
  | Node ("IsA", [l; r]) -> CIsA (cexpr l, cexpr r)
  | Node ("Sqrt", [x]) -> CSqrt (cexpr x)
  | Node ("Ternary", [c; t; e]) -> CTernary (cexpr c, cexpr t, cexpr e)
  | Node ("AnonFun", [args; b]) ->
      let name = function
        | Node ("Id", [a]) -> str a
        | Node ("FunArg", [Atom "F"; Node ("Id", [a]); Atom "~"; Atom "~"]) -> str a
        | _ -> raise (Bad "lambda argument outside the model") in
      CLambda (List.map name (lst args), cexpr b)
  | Node ("FunctionCall", [f; args]) -> CCall (cexpr f, cexprs (lst args))
  | Node ("Index", [i; r]) -> CIndex (cexpr i, cexpr r)
  | Node ("PropertyCall", [o; p]) -> CProp (cexpr o, cexpr p)
  | Node ("Tuple", [es]) -> CTuple (cexprs (lst es))
  | Node ("List", [es]) -> CList (cexprs (lst es))
  | Node ("Set", [es]) -> CSet (cexprs (lst es))
  | Node (h, [l; r]) when binop h <> None ->
      (match binop h with Some o -> CBin (o, cexpr l, cexpr r) | None -> assert false)
  | Node (h, [x]) when unop h <> None ->
      (match unop h with Some o -> CUn (o, cexpr x) | None -> assert false)
  | Node (h, _) -> raise (Bad ("constructor outside the expression model: " ^ h))
  | Atom a -> raise (Bad ("atom outside the expression model: " ^ a))
  | List _ -> raise (Bad "list where expression expected")
and cexprs = function [] -> CNil | x :: r -> CCons (cexpr x, cexprs r)

(* ---------- printing ---------- *)
let tok_text = function
  | TName s -> implode s | TNum s -> implode s | TStr s -> "\"" ^ implode s ^ "\""
  | TLPar -> "(" | TRPar -> ")" | TLBr -> "[" | TRBr -> "]" | TLCb -> "{" | TRCb -> "}"
  | TComma -> "," | TColon -> ":" | TDot -> "." | TPlus -> "+" | TMinus -> "-" | TStar -> "*"
  | TSlash -> "/" | TDSlash -> "//" | TPercent -> "%" | TDStar -> "**" | TAmp -> "&" | TPipe -> "|"
  | TCaret -> "^" | TTilde -> "~" | TLShift -> "<<" | TRShift -> ">>" | TLt -> "<" | TGt -> ">"
  | TLe -> "<=" | TGe -> ">=" | TEqEq -> "==" | TNe -> "!=" | TNot -> "not" | TAnd -> "and"
  | TOr -> "or" | TIs -> "is" | TIn -> "in" | TIf -> "if" | TElse -> "else" | TLambda -> "lambda"
  | TTrue -> "True" | TFalse -> "False" | TNone -> "None"

let tok_of_text (t : string) : tok =
  match t with
  | "(" -> TLPar | ")" -> TRPar | "[" -> TLBr | "]" -> TRBr | "{" -> TLCb | "}" -> TRCb
  | "," -> TComma | ":" -> TColon | "." -> TDot | "+" -> TPlus | "-" -> TMinus | "*" -> TStar
  | "/" -> TSlash | "//" -> TDSlash | "%" -> TPercent | "**" -> TDStar | "&" -> TAmp | "|" -> TPipe
  | "^" -> TCaret | "~" -> TTilde | "<<" -> TLShift | ">>" -> TRShift | "<" -> TLt | ">" -> TGt
  | "<=" -> TLe | ">=" -> TGe | "==" -> TEqEq | "!=" -> TNe | "not" -> TNot | "and" -> TAnd
  | "or" -> TOr | "is" -> TIs | "in" -> TIn | "if" -> TIf | "else" -> TElse | "lambda" -> TLambda
  | "True" -> TTrue | "False" -> TFalse | "None" -> TNone
  | _ ->
      let c = t.[0] in
      if c = '"' then TStr (explode (String.sub t 1 (String.length t - 2)))
      else if c >= '0' && c <= '9' then TNum (explode t)
      else TName (explode t)

let hs (s : char list) = "s:" ^ hex (implode s)
let pbin = function
  | PAdd -> "Add" | PSub -> "Sub" | PMul -> "Mult" | PDiv -> "Div" | PFDiv -> "FloorDiv" | PMod -> "Mod"
  | PPow -> "Pow" | PBitAnd -> "BitAnd" | PBitOr -> "BitOr" | PBitXor -> "BitXor" | PLSh -> "LShift"
  | PRSh -> "RShift"
let pcmp = function
  | CLt -> "Lt" | CGt -> "Gt" | CLe -> "LtE" | CGe -> "GtE" | CEq -> "Eq" | CNe -> "NotEq" | CIs -> "Is"
  | CIsNot -> "IsNot" | CIn -> "In" | CNotIn -> "NotIn"
let pun = function PUAdd -> "UAdd" | PUSub -> "USub" | PInvert -> "Invert" | PNot -> "Not"
let rec pexpr (e : pexpr) : string =
  let l es = "[" ^ String.concat " " (List.map pexpr es) ^ "]" in
  match e with
  | PName s -> "(Name " ^ hs s ^ ")" | PNum s -> "(Num " ^ hs s ^ ")" | PStr s -> "(Str " ^ hs s ^ ")"
  | PTrue -> "True" | PFalse -> "False" | PNoneC -> "None"
  | PBin (o, a, b) -> "(BinOp " ^ pbin o ^ " " ^ pexpr a ^ " " ^ pexpr b ^ ")"
  | PBoolOp (o, es) -> "(BoolOp " ^ (match o with PAnd -> "And" | POr -> "Or") ^ " " ^ l es ^ ")"
  | PCompare (a, ops) ->
      "(Compare " ^ pexpr a ^ " ["
      ^ String.concat " " (List.map (fun (c, x) -> "(" ^ pcmp c ^ " " ^ pexpr x ^ ")") ops) ^ "])"
  | PUn (o, a) -> "(UnaryOp " ^ pun o ^ " " ^ pexpr a ^ ")"
  | PIfExp (t, b, o) -> "(IfExp " ^ pexpr t ^ " " ^ pexpr b ^ " " ^ pexpr o ^ ")"
  | PLambda (ns, b) -> "(Lambda [" ^ String.concat " " (List.map hs ns) ^ "] " ^ pexpr b ^ ")"
  | PCall (f, args) -> "(Call " ^ pexpr f ^ " " ^ l args ^ ")"
  | PSubscript (v, i) -> "(Subscript " ^ pexpr v ^ " " ^ pexpr i ^ ")"
  | PAttr (v, s) -> "(Attribute " ^ pexpr v ^ " " ^ hs s ^ ")"
  | PTuple es -> "(Tuple " ^ l es ^ ")" | PList es -> "(List " ^ l es ^ ")" | PSet es -> "(Set " ^ l es ^ ")"



(* ---------- typed AST S-expression -> Convert.ast ; Core -> S-expression ---------- *)
let opt f = function Atom "~" -> None | x -> Some (f x)
let rec nm_of = function
  | Node ("NM", [ms]) -> NM (List.map tn_of (lst ms))
  | _ -> raise (Bad "nm")
and tn_of = function
  | Node ("TN", [n; name; gs]) ->
      let nmstr = str name in
      if implode nmstr = "Union" then raise (Bad "type named Union is outside the model");
      TN (boolean n, nmstr, List.map nm_of (lst gs))
  | _ -> raise (Bad "tn")
let nbin_of = function
  | "Add" -> SAdd | "Sub" -> SSub | "Mul" -> SMul | "Div" -> SDiv | "FDiv" -> SFDiv | "Mod" -> SMod | "Pow" -> SPow
  | "BAnd" -> SBAnd | "BOr" -> SBOr | "BXOr" -> SBXOr | "BLShift" -> SBLShift | "BRShift" -> SBRShift
  | "And" -> SAnd | "Or" -> SOr | "Eq" -> SEq | "Neq" -> SNeq | "Is" -> SIs | "IsN" -> SIsN | "IsA" -> SIsA
  | "IsNA" -> SIsNA | "In" -> SIn | "Le" -> SLe | "Leq" -> SLeq | "Ge" -> SGe | "Geq" -> SGeq
  | "Question" -> SQuestion | o -> raise (Bad ("binary " ^ o))
let nun_of = function
  | "AddU" -> SAddU | "SubU" -> SSubU | "Not" -> SNot | "BOneCmpl" -> SBOneCmpl | "Sqrt" -> SSqrt
  | o -> raise (Bad ("unary " ^ o))
let nodeop_of = function
  | "Assign" -> NAssign | "Add" -> NAdd | "Sub" -> NSub | "Sqrt" -> NSqrt | "Mul" -> NMul | "FDiv" -> NFDiv
  | "Div" -> NDiv | "Pow" -> NPow | "Mod" -> NMod | "Eq" -> NEq | "Le" -> NLe | "Ge" -> NGe
  | "BLShift" -> NBLShift | "BRShift" -> NBRShift | o -> raise (Bad ("nodeop " ^ o))
let atom = function Atom a -> a | _ -> raise (Bad "atom expected")
let rec ast_of = function
  | Node ("A", [ty; n]) -> A (opt nm_of ty, node_of n)
  | _ -> raise (Bad "ast")
and asts l = List.map ast_of (lst l)
and node_of (s : sx) : node =
  match s with
  | Node ("NInt", [a]) -> NInt (str a) | Node ("NReal", [a]) -> NReal (str a)
  | Node ("NENum", [a; b]) -> NENum (str a, str b)
  | Node ("NStr", [a; b]) -> NStr (str a, boolean b) | Node ("NDocStr", [a]) -> NDocStr (str a)
  | Node ("NBool", [a]) -> NBool (boolean a) | Node ("NId", [a]) -> NId (str a)
  | Atom "NUndefined" -> NUndefined | Atom "NUnderscore" -> NUnderscore | Atom "NPass" -> NPass
  | Atom "NBreak" -> NBreak | Atom "NContinue" -> NContinue | Atom "NReturnEmpty" -> NReturnEmpty
  | Node ("NBin", [o; l; r]) -> NBin (nbin_of (atom o), ast_of l, ast_of r)
  | Node ("NUn", [o; e]) -> NUn (nun_of (atom o), ast_of e)
  | Node ("NTuple", [es]) -> NTuple (asts es) | Node ("NList", [es]) -> NList (asts es)
  | Node ("NSet", [es]) -> NSet (asts es)
  | Node ("NIndex", [a; b]) -> NIndex (ast_of a, ast_of b)
  | Node ("NRange", [f; t; i; st]) -> NRange (ast_of f, ast_of t, boolean i, opt ast_of st)
  | Node ("NSlice", [f; t; i; st]) -> NSlice (ast_of f, ast_of t, boolean i, opt ast_of st)
  | Node ("NCall", [n; gs; args]) ->
      if implode (str n) = "Union" then raise (Bad "call of Union");
      NCall (str n, List.map nm_of (lst gs), asts args)
  | Node ("NProp", [a; b]) -> NProp (ast_of a, ast_of b)
  | Node ("NAnonFun", [args; b]) -> NAnonFun (asts args, ast_of b)
  | Node ("NExprType", [e; t]) -> NExprType (ast_of e, opt nm_of t)
  | Node ("NVarDef", [v; t; e]) -> NVarDef (ast_of v, opt nm_of t, opt ast_of e)
  | Node ("NReassign", [l; r; o]) -> NReassign (ast_of l, ast_of r, nodeop_of (atom o))
  | Node ("NFunDef", [i; args; r; b]) -> NFunDef (ast_of i, asts args, opt nm_of r, opt ast_of b)
  | Node ("NFunArg", [v; var; t; d]) -> NFunArg (boolean v, ast_of var, opt nm_of t, opt ast_of d)
  | Node ("NBlock", [l]) -> NBlock (asts l)
  | Node ("NReturn", [e]) -> NReturn (ast_of e)
  | Node ("NIfElse", [c; t; e]) -> NIfElse (ast_of c, ast_of t, opt ast_of e)
  | Node ("NMatch", [c; cs]) -> NMatch (ast_of c, asts cs)
  | Node ("NCase", [c; b]) -> NCase (ast_of c, ast_of b)
  | Node ("NWhile", [c; b]) -> NWhile (ast_of c, ast_of b)
  | Node ("NFor", [e; c; b]) -> NFor (ast_of e, ast_of c, ast_of b)
  | Node ("NRaise", [e]) -> NRaise (ast_of e)
  | Node ("NHandle", [e; cs]) -> NHandle (ast_of e, asts cs)
  | Node ("NImport", [f; i; a]) -> NImport (opt ast_of f, asts i, asts a)
  | Node ("NDict", [es]) ->
      NDict (List.map (function List [k; v] -> (ast_of k, ast_of v) | _ -> raise (Bad "dict pair")) (lst es))
  | Node ("NListBuilder", [i; cs]) -> NListBuilder (ast_of i, asts cs)
  | Node ("NSetBuilder", [i; cs]) -> NSetBuilder (ast_of i, asts cs)
  | Node ("NDictBuilder", [f; t; cs]) -> NDictBuilder (ast_of f, ast_of t, asts cs)
  | Node ("NWith", [r; a; b]) -> NWith (ast_of r, opt ast_of a, ast_of b)
  | Node ("NClass", [n; gs; args; ps; b]) ->
      NClass (str n, List.map nm_of (lst gs), asts args, asts ps, opt ast_of b)
  | Node ("NParent", [n; gs; args]) -> NParent (str n, List.map nm_of (lst gs), asts args)
  | Node ("NTypeDef", [n; gs; isa; b; ab]) ->
      NTypeDef (str n, List.map nm_of (lst gs), opt nm_of isa, opt ast_of b, boolean ab)
  | Node ("NTypeAlias", [n; gs; isa]) -> NTypeAlias (str n, List.map nm_of (lst gs), nm_of isa)
  | Node (h, _) -> raise (Bad ("node outside the model: " ^ h))
  | Atom a -> raise (Bad ("node outside the model: " ^ a))
  | List _ -> raise (Bad "node")

let cbin_name = function
  | CbAdd -> "Add" | CbSub -> "Sub" | CbMul -> "Mul" | CbDiv -> "Div" | CbFDiv -> "FDiv" | CbMod -> "Mod" | CbPow -> "Pow"
  | CbBAnd -> "BAnd" | CbBOr -> "BOr" | CbBXOr -> "BXOr" | CbBLShift -> "BLShift" | CbBRShift -> "BRShift"
  | CbAnd -> "And" | CbOr -> "Or" | CbGe -> "Ge" | CbGeq -> "Geq" | CbLe -> "Le" | CbLeq -> "Leq" | CbEq -> "Eq"
  | CbNeq -> "Neq" | CbIs -> "Is" | CbIsN -> "IsN" | CbIn -> "In" | CbIsA -> "IsA"
let cun_name = function
  | CuAddU -> "AddU" | CuSubU -> "SubU" | CuBOneCmpl -> "BOneCmpl" | CuNot -> "Not" | CuSqrt -> "Sqrt"
  | CuReturn -> "Return" | CuRaise -> "Raise"
let coreop_name = function
  | OpAssign -> "Assign" | OpAddAssign -> "AddAssign" | OpSubAssign -> "SubAssign" | OpMulAssign -> "MulAssign"
  | OpDivAssign -> "DivAssign" | OpPowAssign -> "PowAssign" | OpBLShiftAssign -> "BLShiftAssign"
  | OpBRShiftAssign -> "BRShiftAssign"
let funop_name0 = function
  | FGe -> "Ge" | FGeq -> "Geq" | FLe -> "Le" | FLeq -> "Leq" | FEq -> "Eq" | FNeq -> "Neq" | FAdd -> "Add"
  | FSub -> "Sub" | FMul -> "Mul" | FDiv -> "Div" | FPow -> "Pow" | FMod -> "Mod" | FFDiv -> "FDiv"
let rec core_sx (c : core) : string =
  let l cs = "[" ^ String.concat " " (List.map core_sx cs) ^ "]" in
  let o = function Some x -> core_sx x | None -> "~" in
  let b x = if x then "T" else "F" in
  match c with
  | Import (f, i, a) -> "(Import " ^ o f ^ " " ^ l i ^ " " ^ l a ^ ")"
  | ClassDef (n, p, bd) -> "(ClassDef " ^ core_sx n ^ " " ^ l p ^ " " ^ core_sx bd ^ ")"
  | FunctionCall (f, a) -> "(FunctionCall " ^ core_sx f ^ " " ^ l a ^ ")"
  | PropertyCall (x, p) -> "(PropertyCall " ^ core_sx x ^ " " ^ core_sx p ^ ")"
  | Id s -> "(Id " ^ hs s ^ ")"
  | Type_ (s, g) -> "(Type " ^ hs s ^ " " ^ l g ^ ")"
  | ExpressionType (e, t) -> "(ExpressionType " ^ core_sx e ^ " " ^ core_sx t ^ ")"
  | Assign (x, y, op) -> "(Assign " ^ core_sx x ^ " " ^ core_sx y ^ " " ^ coreop_name op ^ ")"
  | VarDef (v, t, e) -> "(VarDef " ^ core_sx v ^ " " ^ o t ^ " " ^ o e ^ ")"
  | FunDefOp (op, a, t, bd) -> "(FunDefOp " ^ funop_name0 op ^ " " ^ l a ^ " " ^ o t ^ " " ^ core_sx bd ^ ")"
  | FunDef (d, i, a, t, bd) ->
      "(FunDef [" ^ String.concat " " (List.map hs d) ^ "] " ^ hs i ^ " " ^ l a ^ " " ^ o t ^ " " ^ core_sx bd ^ ")"
  | FunArg (v, x, t, d) -> "(FunArg " ^ b v ^ " " ^ core_sx x ^ " " ^ o t ^ " " ^ o d ^ ")"
  | AnonFun (a, bd) -> "(AnonFun " ^ l a ^ " " ^ core_sx bd ^ ")"
  | Block s -> "(Block " ^ l s ^ ")"
  | Float s -> "(Float " ^ hs s ^ ")" | Int s -> "(Int " ^ hs s ^ ")"
  | ENum (n, e) -> "(ENum " ^ hs n ^ " " ^ hs e ^ ")"
  | DocStr s -> "(DocStr " ^ hs s ^ ")" | Str s -> "(Str " ^ hs s ^ ")" | FStr s -> "(FStr " ^ hs s ^ ")"
  | Bool x -> "(Bool " ^ b x ^ ")"
  | Tuple e -> "(Tuple " ^ l e ^ ")" | TupleLiteral e -> "(TupleLiteral " ^ l e ^ ")"
  | DictComprehension (f, t, cl, cs) ->
      "(DictComprehension " ^ core_sx f ^ " " ^ core_sx t ^ " " ^ core_sx cl ^ " " ^ l cs ^ ")"
  | Comprehension (e, cl, cs) -> "(Comprehension " ^ core_sx e ^ " " ^ core_sx cl ^ " " ^ l cs ^ ")"
  | Dictionary es ->
      "(Dictionary [" ^ String.concat " " (List.map (fun (k, v) -> "[" ^ core_sx k ^ " " ^ core_sx v ^ "]") es) ^ "])"
  | Set_ e -> "(Set " ^ l e ^ ")" | List_ e -> "(List " ^ l e ^ ")"
  | Index (i, r) -> "(Index " ^ core_sx i ^ " " ^ core_sx r ^ ")"
  | Bin (op, x, y) -> "(" ^ cbin_name op ^ " " ^ core_sx x ^ " " ^ core_sx y ^ ")"
  | Un (op, x) -> "(" ^ cun_name op ^ " " ^ core_sx x ^ ")"
  | For (e, cl, bd) -> "(For " ^ core_sx e ^ " " ^ core_sx cl ^ " " ^ core_sx bd ^ ")"
  | If (cn, t) -> "(If " ^ core_sx cn ^ " " ^ core_sx t ^ ")"
  | IfElse (cn, t, e) -> "(IfElse " ^ core_sx cn ^ " " ^ core_sx t ^ " " ^ core_sx e ^ ")"
  | Match (e, cs) -> "(Match " ^ core_sx e ^ " " ^ l cs ^ ")"
  | Case (e, bd) -> "(Case " ^ core_sx e ^ " " ^ core_sx bd ^ ")"
  | Ternary (cn, t, e) -> "(Ternary " ^ core_sx cn ^ " " ^ core_sx t ^ " " ^ core_sx e ^ ")"
  | KeyValue (k, v) -> "(KeyValue " ^ core_sx k ^ " " ^ core_sx v ^ ")"
  | While (cn, bd) -> "(While " ^ core_sx cn ^ " " ^ core_sx bd ^ ")"
  | Break -> "Break" | Continue -> "Continue" | UnderScore -> "UnderScore" | Pass -> "Pass"
  | None_ -> "None" | Empty -> "Empty"
  | TryExcept (s, a, ex) -> "(TryExcept " ^ o s ^ " " ^ core_sx a ^ " " ^ l ex ^ ")"
  | ExceptId (i, cl, bd) -> "(ExceptId " ^ core_sx i ^ " " ^ core_sx cl ^ " " ^ core_sx bd ^ ")"
  | Except (cl, bd) -> "(Except " ^ core_sx cl ^ " " ^ core_sx bd ^ ")"
  | With (r, e) -> "(With " ^ core_sx r ^ " " ^ core_sx e ^ ")"
  | WithAs (r, a, e) -> "(WithAs " ^ core_sx r ^ " " ^ core_sx a ^ " " ^ core_sx e ^ ")"

let gen_cmd (payload : string) : string =
  match String.index_opt payload '\t' with
  | None -> "BAD\tgen needs annotate and tree"
  | Some k ->
      let ann = String.sub payload 0 k = "1" in
      let tree = ast_of (parse_sx (String.sub payload (k + 1) (String.length payload - k - 1))) in
      (match gen ann tree with
       | Some c -> "OK\t" ^ core_sx c
       | None -> "NONE")


(* ---------- Core S-expression -> Core.core ---------- *)
let cbin_of = function
  | "Add" -> Some CbAdd | "Sub" -> Some CbSub | "Mul" -> Some CbMul | "Div" -> Some CbDiv | "FDiv" -> Some CbFDiv
  | "Mod" -> Some CbMod | "Pow" -> Some CbPow | "BAnd" -> Some CbBAnd | "BOr" -> Some CbBOr | "BXOr" -> Some CbBXOr
  | "BLShift" -> Some CbBLShift | "BRShift" -> Some CbBRShift | "And" -> Some CbAnd | "Or" -> Some CbOr
  | "Ge" -> Some CbGe | "Geq" -> Some CbGeq | "Le" -> Some CbLe | "Leq" -> Some CbLeq | "Eq" -> Some CbEq
  | "Neq" -> Some CbNeq | "Is" -> Some CbIs | "IsN" -> Some CbIsN | "In" -> Some CbIn | "IsA" -> Some CbIsA
  | _ -> None
let cun_of = function
  | "AddU" -> Some CuAddU | "SubU" -> Some CuSubU | "BOneCmpl" -> Some CuBOneCmpl | "Not" -> Some CuNot
  | "Sqrt" -> Some CuSqrt | "Return" -> Some CuReturn | "Raise" -> Some CuRaise | _ -> None
let coreop_of = function
  | "Assign" -> OpAssign | "AddAssign" -> OpAddAssign | "SubAssign" -> OpSubAssign | "MulAssign" -> OpMulAssign
  | "DivAssign" -> OpDivAssign | "PowAssign" -> OpPowAssign | "BLShiftAssign" -> OpBLShiftAssign
  | "BRShiftAssign" -> OpBRShiftAssign | o -> raise (Bad ("coreop " ^ o))
let funop_of0 = function
  | "Ge" -> FGe | "Geq" -> FGeq | "Le" -> FLe | "Leq" -> FLeq | "Eq" -> FEq | "Neq" -> FNeq | "Add" -> FAdd
  | "Sub" -> FSub | "Mul" -> FMul | "Div" -> FDiv | "Pow" -> FPow | "Mod" -> FMod | "FDiv" -> FFDiv
  | o -> raise (Bad ("funop " ^ o))
let rec core_of (s : sx) : core =
  let l x = List.map core_of (lst x) in
  let o = function Atom "~" -> None | x -> Some (core_of x) in
  match s with
  | Atom "Break" -> Break | Atom "Continue" -> Continue | Atom "UnderScore" -> UnderScore | Atom "Pass" -> Pass
  | Atom "None" -> None_ | Atom "Empty" -> Empty
  | Node ("Import", [f; i; a]) -> Import (o f, l i, l a)
  | Node ("ClassDef", [n; p; b]) -> ClassDef (core_of n, l p, core_of b)
  | Node ("FunctionCall", [f; a]) -> FunctionCall (core_of f, l a)
  | Node ("PropertyCall", [x; p]) -> PropertyCall (core_of x, core_of p)
  | Node ("Id", [a]) -> Id (str a)
  | Node ("Type", [a; g]) -> Type_ (str a, l g)
  | Node ("ExpressionType", [e; t]) -> ExpressionType (core_of e, core_of t)
  | Node ("Assign", [x; y; op]) -> Assign (core_of x, core_of y, coreop_of (atom op))
  | Node ("VarDef", [v; t; e]) -> VarDef (core_of v, o t, o e)
  | Node ("FunDefOp", [op; a; t; b]) -> FunDefOp (funop_of0 (atom op), l a, o t, core_of b)
  | Node ("FunDef", [d; i; a; t; b]) -> FunDef (List.map str (lst d), str i, l a, o t, core_of b)
  | Node ("FunArg", [v; x; t; d]) -> FunArg (boolean v, core_of x, o t, o d)
  | Node ("AnonFun", [a; b]) -> AnonFun (l a, core_of b)
  | Node ("Block", [s]) -> Block (l s)
  | Node ("Float", [a]) -> Float (str a) | Node ("Int", [a]) -> Int (str a)
  | Node ("ENum", [a; b]) -> ENum (str a, str b)
  | Node ("DocStr", [a]) -> DocStr (str a) | Node ("Str", [a]) -> Str (str a) | Node ("FStr", [a]) -> FStr (str a)
  | Node ("Bool", [a]) -> Bool (boolean a)
  | Node ("Tuple", [e]) -> Tuple (l e) | Node ("TupleLiteral", [e]) -> TupleLiteral (l e)
  | Node ("DictComprehension", [f; t; c; cs]) -> DictComprehension (core_of f, core_of t, core_of c, l cs)
  | Node ("Comprehension", [e; c; cs]) -> Comprehension (core_of e, core_of c, l cs)
  | Node ("Dictionary", [es]) ->
      Dictionary (List.map (function List [k; v] -> (core_of k, core_of v) | _ -> raise (Bad "dict")) (lst es))
  | Node ("Set", [e]) -> Set_ (l e) | Node ("List", [e]) -> List_ (l e)
  | Node ("Index", [i; r]) -> Index (core_of i, core_of r)
  | Node ("For", [e; c; b]) -> For (core_of e, core_of c, core_of b)
  | Node ("If", [c; t]) -> If (core_of c, core_of t)
  | Node ("IfElse", [c; t; e]) -> IfElse (core_of c, core_of t, core_of e)
  | Node ("Match", [e; cs]) -> Match (core_of e, l cs)
  | Node ("Case", [e; b]) -> Case (core_of e, core_of b)
  | Node ("Ternary", [c; t; e]) -> Ternary (core_of c, core_of t, core_of e)
  | Node ("KeyValue", [k; v]) -> KeyValue (core_of k, core_of v)
  | Node ("While", [c; b]) -> While (core_of c, core_of b)
  | Node ("TryExcept", [s; a; ex]) -> TryExcept (o s, core_of a, l ex)
  | Node ("ExceptId", [i; c; b]) -> ExceptId (core_of i, core_of c, core_of b)
  | Node ("Except", [c; b]) -> Except (core_of c, core_of b)
  | Node ("With", [r; e]) -> With (core_of r, core_of e)
  | Node ("WithAs", [r; a; e]) -> WithAs (core_of r, core_of a, core_of e)
  | Node (h, [x; y]) when cbin_of h <> None ->
      (match cbin_of h with Some op -> Bin (op, core_of x, core_of y) | None -> assert false)
  | Node (h, [x]) when cun_of h <> None ->
      (match cun_of h with Some op -> Un (op, core_of x) | None -> assert false)
  | Node (h, _) -> raise (Bad ("core constructor " ^ h))
  | Atom a -> raise (Bad ("core atom " ^ a))
  | List _ -> raise (Bad "core list")

let rec nat_to_int = function O -> 0 | S n -> 1 + nat_to_int n
let stok_text = function E t -> tok_text t | K s -> implode s
let plines_cmd (payload : string) : string =
  let c = core_of (parse_sx payload) in
  match plines c O with
  | None -> "OUTSIDE\tnot in the statement model"
  | Some ls ->
      "OK\t" ^ (if module_layout_ok ls then "T" else "F") ^ "\t"
      ^ String.concat ";" (List.map (fun (n, ts) ->
          string_of_int (nat_to_int n) ^ ":" ^ String.concat " " (List.map (fun t -> hex (stok_text t)) ts)) ls)

(* ---------- lexer ---------- *)
let rec pos_to_int = function XH -> 1 | XO p -> 2 * pos_to_int p | XI p -> 2 * pos_to_int p + 1
let z_to_int = function Z0 -> 0 | Zpos p -> pos_to_int p | Zneg p -> - (pos_to_int p)

let kind (t : token) : string =
  match t with
  | MFrom -> "From" | MType -> "Type" | MClass -> "Class" | MPure -> "Pure" | MIsA -> "IsA" | MAs -> "As"
  | MImport -> "Import" | MForward -> "Forward" | MPoint -> "Point" | MComma -> "Comma"
  | MDoublePoint -> "DoublePoint" | MVararg -> "Vararg" | MBSlash -> "BSlash" | MId _ -> "Id" | MFin -> "Fin"
  | MAssign -> "Assign" | MAddAssign -> "AddAssign" | MSubAssign -> "SubAssign" | MMulAssign -> "MulAssign"
  | MDivAssign -> "DivAssign" | MPowAssign -> "PowAssign" | MBLShiftAssign -> "BLShiftAssign"
  | MBRShiftAssign -> "BRShiftAssign" | MDef -> "Def" | MReal _ -> "Real" | MInt _ -> "Int" | MENum _ -> "ENum"
  | MStr _ -> "Str" | MDocStr _ -> "DocStr" | MRange -> "Range" | MRangeIncl -> "RangeIncl" | MSlice -> "Slice"
  | MSliceIncl -> "SliceIncl" | MAdd -> "Add" | MSub -> "Sub" | MMul -> "Mul" | MDiv -> "Div" | MFDiv -> "FDiv"
  | MPow -> "Pow" | MMod -> "Mod" | MSqrt -> "Sqrt" | MBAnd -> "BAnd" | MBOr -> "BOr" | MBXOr -> "BXOr"
  | MBOneCmpl -> "BOneCmpl" | MBLShift -> "BLShift" | MBRShift -> "BRShift" | MGe -> "Ge" | MGeq -> "Geq"
  | MLe -> "Le" | MLeq -> "Leq" | MEq -> "Eq" | MIs -> "Is" | MNeq -> "Neq" | MAnd -> "And" | MOr -> "Or"
  | MNot -> "Not" | MLRBrack -> "LRBrack" | MRRBrack -> "RRBrack" | MLSBrack -> "LSBrack" | MRSBrack -> "RSBrack"
  | MLCBrack -> "LCBrack" | MRCBrack -> "RCBrack" | MVer -> "Ver" | MTo -> "To" | MBTo -> "BTo" | MNL -> "NL"
  | MIndent -> "Indent" | MDedent -> "Dedent" | MUnderscore -> "Underscore" | MRaise -> "Raise" | MWhen -> "When"
  | MWhile -> "While" | MFor -> "For" | MIn -> "In" | MIf -> "If" | MThen -> "Then" | MMatch -> "Match"
  | MElse -> "Else" | MDo -> "Do" | MContinue -> "Continue" | MBreak -> "Break" | MRet -> "Ret" | MWith -> "With"
  | MQuestion -> "Question" | MHandle -> "Handle" | MPass -> "Pass" | MComment _ -> "Comment" | MEof -> "Eof"

let lex_cmd (payload : string) : string =
  let src = explode (unhex payload) in
  match tokenize src with
  | LexOk ts ->
      "OK\t" ^ String.concat ";" (List.map (fun l ->
        Printf.sprintf "%s%s,%s,%d,%d,%d,%d" (if l.lnested then "Str." else "") (kind l.ltok)
          (hex (implode (spell l.ltok)))
          (z_to_int l.lstart.line) (z_to_int l.lstart.col) (z_to_int l.lend.line) (z_to_int l.lend.col)) ts)
  | LexErr (p, e) ->
      let msg = match e with
        | ErrCR -> "return carriage not followed by newline"
        | ErrBang -> "'!' is not a valid character on its own"
        | ErrChar c -> "unrecognized character: " ^ String.make 1 c in
      Printf.sprintf "ERR\t%d\t%d\t%s" (z_to_int p.line) (z_to_int p.col) (hex msg)
  | OutOfFuel -> "BAD\tout of fuel"

let rec nat_of_int n = if n <= 0 then O else S (nat_of_int (n - 1))

(* C01: run the reference semantics of Mamba on a typed AST / the model of Python on a Core tree.
   answer: OK <status> <hex lines separated by spaces> *)
let status_text = function
  | Done -> "done" | Uncaught c -> "uncaught:" ^ implode c | Unsupported -> "unsupported" | Fuel -> "fuel"
let run_answer (lines, st) =
  "OK\t" ^ status_text st ^ "\t" ^ String.concat " " (List.map (fun l -> "h" ^ hex (implode l)) lines)
let mrun_cmd (payload : string) : string =
  run_answer (run_mamba (nat_of_int 400) (ast_of (parse_sx payload)))
(* mrundev <q><i> <ast>: the reference semantics with the recorded deviations switched on *)
let mrundev_cmd (payload : string) : string =
  match String.index_opt payload '\t' with
  | None -> "BAD\tmrundev needs flags and tree"
  | Some k ->
      let fl = String.sub payload 0 k in
      let tree = ast_of (parse_sx (String.sub payload (k + 1) (String.length payload - k - 1))) in
      run_answer (run_mamba_dev (fl.[0] = '1') (fl.[1] = '1') (nat_of_int 400) tree)
let pyrun_cmd (payload : string) : string =
  run_answer (run_py (nat_of_int 400) (core_of (parse_sx payload)))

let split_tab s = String.split_on_char '\t' s

let handle cmd payload =
  match cmd with
  | "ptoks" ->
      let e = cexpr (parse_sx payload) in
      "OK\t" ^ (if wf e then "T" else "F") ^ "\t"
      ^ String.concat " " (List.map (fun t -> hex (tok_text t)) (ptoks generated e))
      ^ "\t" ^ pexpr (as_py e)
  | "pyparse" ->
      (* payload: space separated hex token texts *)
      let texts = List.filter (fun s -> s <> "") (String.split_on_char ' ' payload) in
      let toks = List.map (fun h -> tok_of_text (unhex h)) texts in
      let fuel = nat_of_int (6 * List.length toks + 40) in
      (match py_parse fuel toks with
       | Some e -> "OK\t" ^ pexpr e
       | None -> "NONE")
  | "lex" -> lex_cmd payload
  | "gen" -> gen_cmd payload
  | "plines" -> plines_cmd payload
  | "mrun" -> mrun_cmd payload
  | "mrundev" -> mrundev_cmd payload
  | "pyrun" -> pyrun_cmd payload
  | "tableok" -> if table_ok generated then "OK\tT" else "OK\tF"
  | _ -> "BAD\tunknown command"

let () =
  try
    while true do
      let line = input_line stdin in
      if line <> "" then begin
        match split_tab line with
        | id :: cmd :: rest ->
            let payload = String.concat "\t" rest in
            let res = try handle cmd payload with
              | Bad m -> "OUTSIDE\t" ^ m
              | Stack_overflow -> "BAD\tstack overflow"
              | e -> "BAD\t" ^ Printexc.to_string e in
            print_string (id ^ "\t" ^ res ^ "\n"); flush stdout
        | _ -> ()
      end
    done
  with End_of_file -> ()
