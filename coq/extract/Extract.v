(** Extraction of the executable models for the correspondence checks.
    Directives used: ExtrOcamlBasic (bool, option, unit, list, prod, sumbool -> OCaml's),
    ExtrOcamlString (ascii -> char, string -> char list).  nat/positive/Z stay extracted datatypes. *)
From Coq Require Import Extraction ExtrOcamlBasic ExtrOcamlString.
From MambaModel Require Import model.PyExpr model.CoreExpr gen.PrinterTable.
From MambaModel Require Import model.LexTok gen.LexTables model.Lex.
From MambaModel Require Import model.Core gen.Names model.Convert model.PyStmt.
From MambaModel Require Import model.SemDom model.PySem model.PyEval model.MEval.
Extraction Language OCaml.
Extraction "model.ml" ptoks as_py py_parse pexp wf generated canon table_ok
  tokenize spell synthetic
  gen plines module_layout_ok
  run_py run_mamba run_mamba_dev.
