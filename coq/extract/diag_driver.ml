(* Protocol layer around the extracted model/Diag.v (trusted for the C19 correspondence only).
   Reads the same request lines as the harness endpoint `render`:
     id \t render \t kind \t pos \t hexmsg \t causes \t source \t path [\t extra]
   and answers  id \t OK \t hex(text)  |  id \t PANIC  |  id \t BIG  |  id \t BAD \t why *)
open Diag_model

exception Bad of string

let unhex (h : string) : string =
  let n = String.length h / 2 in
  String.init n (fun i -> Char.chr (int_of_string ("0x" ^ String.sub h (2 * i) 2)))
let explode (s : string) : char list =
  let r = ref [] in
  for i = String.length s - 1 downto 0 do r := s.[i] :: !r done; !r
let hex_of_chars (l : char list) : string =
  let b = Buffer.create 256 in
  List.iter (fun c -> Buffer.add_string b (Printf.sprintf "%02x" (Char.code c))) l;
  Buffer.contents b

let z (s : string) = if s = "" then raise (Bad "number") else z_of_dec (explode s)
let pos (s : string) =
  match String.split_on_char ',' s with
  | [a; b; c; d] -> mk_pos (z a) (z b) (z c) (z d)
  | _ -> raise (Bad ("position " ^ s))
let opt (s : string) =
  if s = "~" then None
  else if String.length s >= 2 && String.sub s 0 2 = "s:" then Some (explode (unhex (String.sub s 2 (String.length s - 2))))
  else raise (Bad "optional string")
let causes (s : string) =
  if s = "-" || s = "" then []
  else List.map (fun c ->
      match String.index_opt c ':' with
      | Some i -> (explode (unhex (String.sub c 0 i)), pos (String.sub c (i + 1) (String.length c - i - 1)))
      | None -> raise (Bad "cause")) (String.split_on_char ';' s)

let answer = function
  | Rendered t -> "OK\t" ^ hex_of_chars t
  | Panic -> "PANIC"
  | OutOfModel -> "BIG"

let handle (f : string list) : string =
  match f with
  | kind :: p :: msg :: cs :: src :: path :: rest ->
      let msg = explode (unhex msg) and src = opt src and path = opt path in
      (match kind with
       | "type" -> answer (run_type (pos p) msg (causes cs) src path)
       | "typenp" -> answer (run_typenp msg (causes cs) src path)
       | "parse" -> answer (run_parse (pos p) msg (causes cs) src path)
       | "parsec" -> answer (run_parsec (pos p) msg (causes cs) src path)
       | "gen" -> answer (run_gen (pos p) msg src path)
       | "lex" ->
           let w = match rest with
             | [] | "~" :: _ -> None
             | h :: _ -> Some (z (string_of_int (String.length (unhex h)))) in
           (match String.split_on_char ',' p with
            | l :: c :: _ -> answer (run_lex (z l) (z c) w msg src path)
            | _ -> raise (Bad "lex position"))
       | k -> "BAD\tunknown kind " ^ k)
  | _ -> "BAD\tfields"

let () =
  try
    while true do
      let line = input_line stdin in
      if line <> "" then begin
        match String.split_on_char '\t' line with
        | id :: "render" :: fields ->
            let r = (try handle fields with
                     | Bad w -> "BAD\t" ^ w
                     | Stack_overflow -> "BAD\tstack overflow in the extracted model"
                     | e -> "BAD\t" ^ Printexc.to_string e) in
            print_string (id ^ "\t" ^ r ^ "\n"); flush stdout
        | id :: _ -> print_string (id ^ "\tBAD\tunknown command\n"); flush stdout
        | [] -> ()
      end
    done
  with End_of_file -> ()
