(* Line-protocol driver around the extracted scope model (coq/extract/ScopeExtract.v).
   stdin : id \t class-table \t method-table \t field-table \t program      (space separated prefix notation)
   stdout: id \t verdict(as_is) \t verdict(repaired) \t verdict(restored)
   expr   k | r N | b E E | c N n E.. | p n E.. | m N N n E.. | f N N
   simple xe E | xd B n N.. O | xa n N.. E | xg N E | xf N N E | xr O | xx N | xp       (O = ~ | ! E)
   stmt   s X | h X n (N D SS).. | i E SS | ie E SS SS | m E n (D SS).. | w E SS | fo n N.. E SS
          | fu N n (B N).. n N.. B SS                                                   (D = ~ | ! B N)
   SS     n S..          B = T | F
   tables n (N n N..)..  /  fields n (N B).. *)
open Scope_model

exception Bad of string

let toks = ref [||]
let pos = ref 0
let next () =
  if !pos >= Array.length !toks then raise (Bad "end of input");
  let t = !toks.(!pos) in incr pos; t
let int () = let t = next () in try int_of_string t with _ -> raise (Bad ("int expected: " ^ t))
let boolean () = match next () with "T" -> true | "F" -> false | t -> raise (Bad ("bool expected: " ^ t))
let rec times n f = if n <= 0 then [] else let x = f () in x :: times (n - 1) f
let counted f = let n = int () in times n f

let rec expr () =
  match next () with
  | "k" -> EConst
  | "r" -> ERead (int ())
  | "b" -> let a = expr () in let b = expr () in EBin (a, b)
  | "c" -> let f = int () in ECall (f, exprs ())
  | "p" -> EPrint (exprs ())
  | "m" -> let r = int () in let m = int () in EMCall (r, m, exprs ())
  | "f" -> let r = int () in let f = int () in EField (r, f)
  | t -> raise (Bad ("expr: " ^ t))
and exprs () =
  let l = counted expr in
  List.fold_right (fun e acc -> ECons (e, acc)) l ENil

let oexpr () = match next () with "~" -> None | "!" -> Some (expr ()) | t -> raise (Bad ("oexpr: " ^ t))

let simple () =
  match next () with
  | "xe" -> XExpr (expr ())
  | "xd" -> let m = boolean () in let p = counted int in let o = oexpr () in XDef (m, p, o)
  | "xa" -> let p = counted int in XAssign (p, expr ())
  | "xg" -> let x = int () in XAug (x, expr ())
  | "xf" -> let r = int () in let f = int () in XFieldSet (r, f, expr ())
  | "xr" -> XReturn (oexpr ())
  | "xx" -> XRaise (int ())
  | "xp" -> XPass
  | t -> raise (Bad ("simple: " ^ t))

let binder () =
  match next () with
  | "~" -> None
  | "!" -> let m = boolean () in let x = int () in Some (m, x)
  | t -> raise (Bad ("binder: " ^ t))

let rec stmt () =
  match next () with
  | "s" -> SSimple (simple ())
  | "h" ->
    let x = simple () in
    let arms = counted (fun () -> let c = int () in let b = binder () in let body = stmts () in (c, b, body)) in
    SHandle (x, List.fold_right (fun (c, b, body) acc -> HCons (c, b, body, acc)) arms HNil)
  | "i" -> let c = expr () in SIf (c, stmts ())
  | "ie" -> let c = expr () in let t = stmts () in let e = stmts () in SIfElse (c, t, e)
  | "m" ->
    let c = expr () in
    let arms = counted (fun () -> let b = binder () in let body = stmts () in (b, body)) in
    SMatch (c, List.fold_right (fun (b, body) acc -> ACons (b, body, acc)) arms ANil)
  | "w" -> let c = expr () in SWhile (c, stmts ())
  | "fo" -> let p = counted int in let col = expr () in SFor (p, col, stmts ())
  | "fu" ->
    let f = int () in
    let ps = counted (fun () -> let m = boolean () in let x = int () in (m, x)) in
    let rs = counted int in
    let ret = boolean () in
    SFun (f, ps, rs, ret, stmts ())
  | t -> raise (Bad ("stmt: " ^ t))
and stmts () =
  let l = counted stmt in
  List.fold_right (fun s acc -> SCons (s, acc)) l SNil

let table () = counted (fun () -> let k = int () in let v = counted int in (k, v))
let fields () = counted (fun () -> let k = int () in let v = boolean () in (k, v))

let load s f =
  toks := Array.of_list (List.filter (fun t -> t <> "") (String.split_on_char ' ' s));
  pos := 0;
  let v = f () in
  if !pos <> Array.length !toks then raise (Bad "trailing tokens");
  v

let kind = function
  | KUndef -> "KUndef" | KUndefFun -> "KUndefFun" | KImmut -> "KImmut" | KUnhandled -> "KUnhandled"
  | KOther -> "KOther" | KPanic -> "KPanic" | KDiverge -> "KDiverge"
let verdict = function VAccept -> "VAccept" | VReject k -> "VReject " ^ kind k

let () =
  try
    while true do
      let line = input_line stdin in
      match String.split_on_char '\t' line with
      | [id; ct; mt; fl; prog] ->
        (try
           let ct = load ct table and mt = load mt table and fl = load fl fields in
           let p = load prog stmts in
           Printf.printf "%s\t%s\t%s\t%s\n%!" id
             (verdict (verdict_program ct mt fl p)) (verdict (verdict_strict ct mt fl p))
             (verdict (verdict_restored ct mt fl p))
         with Bad m -> Printf.printf "%s\tBAD\t%s\n%!" id m
            | Stack_overflow -> Printf.printf "%s\tBAD\tstack overflow\n%!" id)
      | id :: _ -> Printf.printf "%s\tBAD\tfields\n%!" id
      | [] -> ()
    done
  with End_of_file -> ()
