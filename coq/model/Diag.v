(** * Diag: executable model of the diagnostic renderers

    Mirrors, function by function,
    - [src/common/position.rs]  [Position], [CaretPos], [get_width], [invisible], [union]
    - [src/common/result.rs]    [format_err], [format_location], [an_or_a]
    - [src/check/result.rs]     [impl Display for TypeErr], [new], [new_no_pos], [with_cause], [with_source]
    - [src/parse/result.rs]     [impl Display for ParseErr], [with_cause], [custom], [title_case]
    - [src/generate/result.rs]  [impl Display for UnimplementedErr]
    - [src/parse/lex/result.rs] [impl Display for LexErr]

    Text is a Coq [string], i.e. a list of bytes: Rust [String]s are UTF-8 and every operation the
    renderers perform (splitting at '\n', stripping '\r', emptiness, concatenation, the ASCII tests of
    [an_or_a]/[title_case]) acts on bytes below 128, so the byte-level model is exact for valid UTF-8.

    [usize] values are [Z] in [0, 2^64); arithmetic is the arithmetic of a debug build (the harness
    and `cargo test` profile): [-] [+] [*] panic on overflow, [as i32] truncates to 32 bits and
    reinterprets, [as usize] sign-extends.  Building a byte vector of more than [isize::MAX] bytes
    panics (capacity overflow); one of more than [alloc_cap] bytes is outside the model ([Big]). *)
From Coq Require Import String Ascii List ZArith Bool.
From MambaModel Require Import gen.DiagConsts.
Import ListNotations.
Local Open Scope string_scope.
Local Open Scope Z_scope.

(** ** Machine integers *)

Definition usize_max : Z := 18446744073709551615.
Definition isize_max : Z := 9223372036854775807.
Definition two32 : Z := 4294967296.
Definition two31 : Z := 2147483648.
Definition two64 : Z := 18446744073709551616.

Definition is_usize (n : Z) : Prop := 0 <= n <= usize_max.

(** [u as i32] for a [usize] [u]. *)
Definition as_i32 (u : Z) : Z :=
  let m := u mod two32 in if m <? two31 then m else m - two32.

(** [x as usize] for an [i32] [x]. *)
Definition i32_to_usize (x : Z) : Z := if x <? 0 then x + two64 else x.

(** Result of a computation that may panic ([Pan]) or leave the model ([Big]). *)
Inductive res (A : Type) : Type :=
| Val (a : A)
| Pan
| Big.
Arguments Val {A} a.
Arguments Pan {A}.
Arguments Big {A}.

Definition bind {A B : Type} (r : res A) (f : A -> res B) : res B :=
  match r with
  | Val a => f a
  | Pan => Pan
  | Big => Big
  end.

Definition i32_sub (a b : Z) : res Z :=
  let r := a - b in
  if (- two31 <=? r) && (r <? two31) then Val r else Pan.

Definition usize_sub (a b : Z) : res Z := if b <=? a then Val (a - b) else Pan.
Definition usize_add (a b : Z) : res Z := if a + b <=? usize_max then Val (a + b) else Pan.
Definition usize_mul (a b : Z) : res Z := if a * b <=? usize_max then Val (a * b) else Pan.

(** ** Text helpers *)

Fixpoint rep (c : ascii) (n : nat) : string :=
  match n with
  | O => EmptyString
  | S k => String c (rep c k)
  end.

(** The model evaluates [vec![b; n]] only up to this many bytes. *)
Definition alloc_cap : Z := 65536.

(** [String::from_utf8(vec![c; n]).unwrap()] for an ASCII byte [c]. *)
Definition byte_vec (c : ascii) (n : Z) : res string :=
  if n >? isize_max then Pan
  else if n >? alloc_cap then Big
  else Val (rep c (Z.to_nat n)).

Definition digit (n : Z) : ascii := ascii_of_nat (48 + Z.to_nat n).

Fixpoint dec_go (fuel : nat) (n : Z) (acc : string) : string :=
  match fuel with
  | O => acc
  | S f =>
      let acc' := String (digit (n mod 10)) acc in
      if n <? 10 then acc' else dec_go f (n / 10) acc'
  end.

(** [format!("{}", n)] for a [usize] (at most 20 digits). *)
Definition dec (n : Z) : string := dec_go 20 n EmptyString.

(** [format!("{:w}", n)] for a [usize]: numbers are right aligned. *)
Definition pad_left (w : nat) (s : string) : string :=
  rep " " (w - String.length s) ++ s.

Definition is_empty (s : string) : bool :=
  match s with EmptyString => true | _ => false end.

Definition nl : ascii := ascii_of_nat 10.
Definition cr : ascii := ascii_of_nat 13.
Definition NL : string := String nl EmptyString.

(** [str::split_inclusive('\n')]: the pieces without their terminator, and whether they had one. *)
Fixpoint split_nl (s : string) : list (string * bool) :=
  match s with
  | EmptyString => []
  | String c r =>
      if Ascii.eqb c nl then (EmptyString, true) :: split_nl r
      else match split_nl r with
           | [] => [(String c EmptyString, false)]
           | (l, t) :: tl => (String c l, t) :: tl
           end
  end.

(** [line.strip_suffix('\r')], identity when there is none. *)
Fixpoint strip_cr (s : string) : string :=
  match s with
  | EmptyString => EmptyString
  | String c EmptyString => if Ascii.eqb c cr then EmptyString else s
  | String c r => String c (strip_cr r)
  end.

(** [str::lines()] (Rust >= 1.77 semantics: a line's "\n" is removed, then one "\r" before it;
    a last line without "\n" keeps a trailing "\r"; no final empty line). *)
Definition lines (s : string) : list string :=
  map (fun lt : string * bool => if snd lt then strip_cr (fst lt) else fst lt) (split_nl s).

(** [iter.nth(i)] for a [usize] index. *)
Definition nth_z {A : Type} (l : list A) (i : Z) : option A :=
  if i <? Z.of_nat (List.length l) then nth_error l (Z.to_nat i) else None.

(** ** Positions *)

Record caret : Type := Caret { line : Z; col : Z }.
Record position : Type := Position { start : caret; end_ : caret }.
Record cause : Type := Cause { cpos : position; cmsg : string }.

Definition caret_eqb (a b : caret) : bool := (line a =? line b) && (col a =? col b).
Definition pos_eqb (p q : position) : bool :=
  caret_eqb (start p) (start q) && caret_eqb (end_ p) (end_ q).

Definition invisible : position := Position (Caret 0 0) (Caret 0 0).

Definition union (p q : position) : position :=
  Position (Caret (Z.min (line (start p)) (line (start q))) (Z.min (col (start p)) (col (start q))))
           (Caret (Z.max (line (end_ p)) (line (end_ q))) (Z.max (col (end_ p)) (col (end_ q)))).

Definition caret_position (c : caret) : position := Position c c.

(** [Position::get_width]. *)
Definition get_width (p : position) : res Z :=
  let e := as_i32 (col (end_ p)) in
  let s := as_i32 (col (start p)) in
  bind (i32_sub e s) (fun d1 =>
  bind (i32_sub s e) (fun d2 =>
  Val (Z.max 1 (i32_to_usize (Z.max d1 d2))))).

(** ** [format_location] *)

Definition SEP : string := " | ".
Definition UNKNOWN : string := "<unknown>".
Definition GUTTER : string := "       ".

(** [format!("{offset_str}{:4} | {line}\n", n)] *)
Definition quote_row (offset_str : string) (n : Z) (l : string) : string :=
  offset_str ++ pad_left 4 (dec n) ++ SEP ++ l ++ NL.

(** [format!("{offset_str} {HOOK_ARROW} {msg}\n")] or the empty string *)
Definition hook_line (offset_str : string) (msg : option string) : string :=
  match msg with
  | Some m => offset_str ++ " " ++ HOOK_ARROW ++ " " ++ m ++ NL
  | None => EmptyString
  end.

(** The three excerpt pieces [(source_before, source_line, source_after)]. *)
Definition source_parts (offset_str : string) (p : position) (source : option string)
  : res (string * string * string) :=
  match source with
  | None => Val (EmptyString, UNKNOWN ++ NL, NL)
  | Some src =>
      let sl := line (start p) in
      bind (i32_sub (as_i32 sl) 2) (fun b0 =>
      let before_idx := i32_to_usize (Z.max b0 (as_i32 usize_max)) in
      bind (i32_sub (as_i32 sl) 1) (fun l0 =>
      let line_idx := i32_to_usize (Z.max l0 (as_i32 usize_max)) in
      let after_idx := Z.max sl usize_max in
      let ls := lines src in
      bind (match nth_z ls before_idx with
            | None => Val EmptyString
            | Some l => if is_empty l then Val EmptyString
                        else bind (usize_sub sl 1) (fun n => Val (quote_row offset_str n l))
            end) (fun before =>
      bind (match nth_z ls line_idx with
            | None => Val (UNKNOWN ++ NL)
            | Some l => if is_empty l then Val (UNKNOWN ++ NL)
                        else Val (quote_row offset_str sl l)
            end) (fun ln =>
      bind (match nth_z ls after_idx with
            | None => Val NL
            | Some l => if is_empty l then Val NL
                        else bind (usize_add sl 1) (fun n => Val (NL ++ quote_row offset_str n l))
            end) (fun after =>
      Val (before, ln, after))))))
  end.

(** The caret row: seven blanks, [offset * OFFSET_WIDTH + pos.start.pos - 1] blanks, [get_width] carets. *)
Definition caret_row (offset : Z) (p : position) : res string :=
  bind (usize_mul offset OFFSET_WIDTH) (fun a =>
  bind (usize_add a (col (start p))) (fun b =>
  bind (usize_sub b 1) (fun n =>
  bind (byte_vec " " n) (fun sp =>
  bind (get_width p) (fun w =>
  bind (byte_vec "^" w) (fun carets =>
  Val (GUTTER ++ sp ++ carets))))))).

Definition format_location (offset : Z) (msg : option string) (p : position) (source : option string)
  : res string :=
  bind (usize_mul OFFSET_WIDTH offset) (fun ow =>
  bind (byte_vec " " ow) (fun offset_str =>
  let m := hook_line offset_str msg in
  if pos_eqb p invisible then Val (m ++ NL)
  else
    bind (source_parts offset_str p source) (fun parts =>
    bind (caret_row offset p) (fun row =>
    Val (m ++ fst (fst parts) ++ snd (fst parts) ++ row ++ snd parts))))).

(** ** [format_err] *)

(** [path.strip_suffix(MAIN_SEPARATOR).unwrap_or(path)] (MAIN_SEPARATOR = '/'). *)
Fixpoint strip_sep (s : string) : string :=
  match s with
  | EmptyString => EmptyString
  | String c EmptyString => if Ascii.eqb c "/" then EmptyString else s
  | String c r => String c (strip_sep r)
  end.

Definition path_text (path : option string) : string :=
  strip_sep (match path with Some p => p | None => UNKNOWN end).

(** First line(s) of a diagnostic: message, arrow, path and (if present) [line:pos]. *)
Definition header (msg : string) (path : option string) (pos : option position) : string :=
  match pos with
  | Some p => msg ++ NL ++ " " ++ RIGHT_ARROW ++ " " ++ path_text path ++ ":"
              ++ dec (line (start p)) ++ ":" ++ dec (col (start p)) ++ NL
  | None => msg ++ NL ++ " " ++ RIGHT_ARROW ++ " " ++ path_text path ++ NL
  end.

Fixpoint format_causes (first : bool) (pos : option position) (source : option string)
  (cs : list cause) : res string :=
  match cs with
  | [] => Val EmptyString
  | c :: r =>
      bind (if first && match pos with Some p => negb (pos_eqb p (cpos c)) | None => false end
            then format_location 1 (Some (cmsg c)) (cpos c) source
            else bind (byte_vec " " OFFSET_WIDTH) (fun o =>
                 Val (o ++ " " ++ HOOK_ARROW ++ " " ++ cmsg c ++ NL))) (fun x =>
      bind (format_causes false pos source r) (fun y => Val (x ++ y)))
  end.

Definition format_err (msg : string) (path : option string) (pos : option position)
  (source : option string) (cs : list cause) : res string :=
  bind (match pos with
        | Some p => bind (format_location 0 None p source) (fun loc => Val (header msg path pos ++ loc))
        | None => Val (header msg path pos)
        end) (fun head =>
  bind (format_causes true pos source cs) (fun tail => Val (head ++ tail))).

(** ** The error values and their [Display] *)

Inductive outcome : Type :=
| Rendered (text : string)
| Panic
| OutOfModel.

Definition to_outcome (r : res string) : outcome :=
  match r with Val s => Rendered s | Pan => Panic | Big => OutOfModel end.

Record type_err : Type := TypeErr {
  te_pos : option position; te_msg : string; te_path : option string;
  te_source : option string; te_causes : list cause }.

Definition type_err_new (p : position) (msg : string) : type_err := TypeErr (Some p) msg None None [].
Definition type_err_new_no_pos (msg : string) : type_err := TypeErr None msg None None [].
Definition type_with_cause (e : type_err) (msg : string) (p : position) : type_err :=
  TypeErr (te_pos e) (te_msg e) (te_path e) (te_source e) (te_causes e ++ [Cause p msg]).
Definition type_with_source (e : type_err) (source path : option string) : type_err :=
  TypeErr (te_pos e) (te_msg e) path source (te_causes e).

Definition render_type (e : type_err) : outcome :=
  to_outcome (format_err (te_msg e) (te_path e) (te_pos e) (te_source e) (te_causes e)).

Record parse_err : Type := ParseErr {
  pe_pos : position; pe_msg : string; pe_source : option string;
  pe_path : option string; pe_causes : list cause }.

Definition lower (c : ascii) : ascii :=
  let n := nat_of_ascii c in
  if (65 <=? n)%nat && (n <=? 90)%nat then ascii_of_nat (n + 32) else c.
Definition upper (c : ascii) : ascii :=
  let n := nat_of_ascii c in
  if (97 <=? n)%nat && (n <=? 122)%nat then ascii_of_nat (n - 32) else c.

Fixpoint last_byte (s : string) : option ascii :=
  match s with
  | EmptyString => None
  | String c EmptyString => Some c
  | String _ r => last_byte r
  end.

Definition is_vowel (c : ascii) : bool :=
  existsb (Ascii.eqb c) ["a"; "e"; "i"; "o"; "u"]%char.

(** [an_or_a]: "" when the word ends in s/S or is empty, "an " before a vowel, else "a ". *)
Definition an_or_a (s : string) : string :=
  match last_byte s with
  | None => EmptyString
  | Some l =>
      if Ascii.eqb (lower l) "s" then EmptyString
      else match s with
           | String c _ => if is_vowel (lower c) then "an " else "a "
           | EmptyString => EmptyString
           end
  end.

(** [title_case]: the first byte is upper-cased when it is an ASCII letter. *)
Definition title_case (s : string) : string :=
  match s with
  | String c r => String (upper c) r
  | EmptyString => EmptyString
  end.

Definition parse_custom (msg : string) (p : position) : parse_err :=
  ParseErr p (title_case msg) None None [].
Definition parse_with_cause (e : parse_err) (msg : string) (p : position) : parse_err :=
  ParseErr (pe_pos e) (pe_msg e) (pe_source e) (pe_path e)
           (pe_causes e ++ [Cause p ("While parsing " ++ an_or_a msg ++ msg)]).
Definition parse_with_source (e : parse_err) (source path : option string) : parse_err :=
  ParseErr (pe_pos e) (pe_msg e) source path (pe_causes e).

(** [&self.causes[0..min(max(len as i32 - 1, 0) as usize, SYNTAX_ERR_MAX_DEPTH)]] *)
Definition parse_shown_causes (cs : list cause) : res (list cause) :=
  bind (i32_sub (as_i32 (Z.of_nat (List.length cs))) 1) (fun d =>
  let n := Z.min (i32_to_usize (Z.max d 0)) SYNTAX_ERR_MAX_DEPTH in
  if n <=? Z.of_nat (List.length cs) then Val (firstn (Z.to_nat n) cs) else Pan).

Definition render_parse (e : parse_err) : outcome :=
  to_outcome (bind (parse_shown_causes (pe_causes e)) (fun cs =>
              format_err (pe_msg e) (pe_path e) (Some (pe_pos e)) (pe_source e) cs)).

Record gen_err : Type := GenErr {
  ge_pos : position; ge_msg : string; ge_source : option string; ge_path : option string }.

Definition render_gen (e : gen_err) : outcome :=
  to_outcome (format_err (ge_msg e) (ge_path e) (Some (ge_pos e)) (ge_source e) []).

Record lex_err : Type := LexErr {
  le_pos : caret; le_width : option Z; (* token.map(|t| t.width()) *)
  le_msg : string; le_source : option string; le_path : option string }.

Definition lex_source_line (e : lex_err) : res string :=
  match le_source e with
  | Some src =>
      if line (le_pos e) >? 0
      then bind (usize_sub (line (le_pos e)) 1) (fun i =>
           Val (match nth_z (lines src) i with Some l => l | None => UNKNOWN end))
      else Val UNKNOWN
  | None => Val UNKNOWN
  end.

Definition format_lex (e : lex_err) : res string :=
  bind (lex_source_line e) (fun sl =>
  bind (byte_vec " " (col (le_pos e))) (fun sp =>
  bind (byte_vec "^" (match le_width e with Some w => w | None => 1 end)) (fun carets =>
  Val ("--> " ++ match le_path e with Some p => p | None => UNKNOWN end ++ ":"
       ++ dec (line (le_pos e)) ++ ":" ++ dec (col (le_pos e)) ++ NL
       ++ "     | " ++ le_msg e ++ NL
       ++ pad_left 3 (dec (line (le_pos e))) ++ "  |- " ++ sl ++ NL
       ++ "     | " ++ sp ++ carets)))).

Definition render_lex (e : lex_err) : outcome := to_outcome (format_lex e).

(** [ParseErr::from(LexErr)] -- what the pipeline does with every lexical error. *)
Definition parse_of_lex (e : lex_err) : parse_err :=
  ParseErr (caret_position (le_pos e)) (le_msg e) (le_source e) (le_path e) [].

(** ** Hex transport (used only by the correspondence run, not by any theorem) *)

Definition hex_digit (n : nat) : ascii :=
  if (n <? 10)%nat then ascii_of_nat (48 + n) else ascii_of_nat (87 + n).

Fixpoint to_hex (s : string) : string :=
  match s with
  | EmptyString => EmptyString
  | String c r => let n := nat_of_ascii c in
                  String (hex_digit (n / 16)) (String (hex_digit (n mod 16)) (to_hex r))
  end.

Definition hex_val (c : ascii) : nat :=
  let n := nat_of_ascii c in
  if (n <? 58)%nat then n - 48 else n - 87.

Fixpoint of_hex (s : string) : string :=
  match s with
  | String a (String b r) => String (ascii_of_nat (16 * hex_val a + hex_val b)) (of_hex r)
  | _ => EmptyString
  end.

Definition show (o : outcome) : string :=
  match o with
  | Rendered s => "R" ++ to_hex s
  | Panic => "PANIC"
  | OutOfModel => "BIG"
  end.
