(** * Model of Python 3 expression syntax (token level)

    Trusted, validated part of the development: a token type for the Python
    expression alphabet that the generator emits, the Python expression AST
    (mirroring CPython's [ast] module: n-ary [BoolOp], chained [Compare]) and a
    fuel-indexed precedence parser [pexp] implementing the CPython grammar levels

      lambda/ternary < or < and < not < comparison < | < ^ < & < shifts
      < + - < * / // % < unary + - ~ < ** < primary (atom trailers)

    The correspondence check compares [pexp] with python3's [ast.parse] on
    printed strings and on strings with parentheses removed at random. *)
From Coq Require Import List String Arith Bool.
Import ListNotations.


Inductive tok :=
| TName (s : string) | TNum (s : string) | TStr (s : string)
| TLPar | TRPar | TLBr | TRBr | TLCb | TRCb | TComma | TColon | TDot
| TPlus | TMinus | TStar | TSlash | TDSlash | TPercent | TDStar
| TAmp | TPipe | TCaret | TTilde | TLShift | TRShift
| TLt | TGt | TLe | TGe | TEqEq | TNe
| TNot | TAnd | TOr | TIs | TIn | TIf | TElse | TLambda | TTrue | TFalse | TNone.

Inductive pbin := PAdd | PSub | PMul | PDiv | PFDiv | PMod | PPow
                | PBitAnd | PBitOr | PBitXor | PLSh | PRSh.
Inductive pbool := PAnd | POr.
Inductive pun := PUAdd | PUSub | PInvert | PNot.
Inductive pcmp := CLt | CGt | CLe | CGe | CEq | CNe | CIs | CIsNot | CIn | CNotIn.

Inductive pexpr :=
| PName (s : string) | PNum (s : string) | PStr (s : string)
| PTrue | PFalse | PNoneC
| PBin (o : pbin) (l r : pexpr)
| PBoolOp (o : pbool) (es : list pexpr)
| PCompare (l : pexpr) (ops : list (pcmp * pexpr))
| PUn (o : pun) (e : pexpr)
| PIfExp (test body orelse : pexpr)
| PLambda (args : list string) (body : pexpr)
| PCall (f : pexpr) (args : list pexpr)
| PSubscript (v i : pexpr)
| PAttr (v : pexpr) (s : string)
| PTuple (es : list pexpr) | PList (es : list pexpr) | PSet (es : list pexpr).

Definition res := option (pexpr * list tok).

(** Comparison operators, including the two-token ones. *)
Definition cmp_of (ts : list tok) : option (pcmp * list tok) :=
  match ts with
  | TLt :: r => Some (CLt, r) | TGt :: r => Some (CGt, r)
  | TLe :: r => Some (CLe, r) | TGe :: r => Some (CGe, r)
  | TEqEq :: r => Some (CEq, r) | TNe :: r => Some (CNe, r)
  | TIs :: TNot :: r => Some (CIsNot, r)
  | TIs :: r => Some (CIs, r)
  | TIn :: r => Some (CIn, r)
  | TNot :: TIn :: r => Some (CNotIn, r)
  | _ => None
  end.

(** Left-associative binary operators with their binding power. *)
Definition bin_of (t : tok) : option (pbin * nat) :=
  match t with
  | TPipe => Some (PBitOr, 5) | TCaret => Some (PBitXor, 6) | TAmp => Some (PBitAnd, 7)
  | TLShift => Some (PLSh, 8) | TRShift => Some (PRSh, 8)
  | TPlus => Some (PAdd, 9) | TMinus => Some (PSub, 9)
  | TStar => Some (PMul, 10) | TSlash => Some (PDiv, 10)
  | TDSlash => Some (PFDiv, 10) | TPercent => Some (PMod, 10)
  | _ => None
  end.

(** What the infix loop sees at the head of the remaining input. *)
Inductive infix :=
| KIf (r : list tok)
| KBool (o : pbool) (p : nat)
| KCmp
| KPow (r : list tok)
| KBin (o : pbin) (p : nat) (r : list tok)
| KStop.

Definition classify (ts : list tok) : infix :=
  match ts with
  | TIf :: r => KIf r
  | TOr :: _ => KBool POr 1
  | TAnd :: _ => KBool PAnd 2
  | TDStar :: r => KPow r
  | t :: r =>
      match cmp_of ts with
      | Some _ => KCmp
      | None => match bin_of t with Some (o, p) => KBin o p r | None => KStop end
      end
  | [] => KStop
  end.

Definition bool_tok (o : pbool) : tok := match o with PAnd => TAnd | POr => TOr end.

Definition is_tok (a b : tok) : bool :=
  match a, b with
  | TRPar, TRPar | TRBr, TRBr | TRCb, TRCb | TAnd, TAnd | TOr, TOr => true
  | _, _ => false
  end.

(** [lambda] parameter list: names separated by commas, up to the colon. *)
Fixpoint plam_args (ts : list tok) : option (list string * list tok) :=
  match ts with
  | TColon :: r => Some ([], r)
  | TName s :: TColon :: r => Some ([s], r)
  | TName s :: TComma :: r =>
      match plam_args r with
      | Some (ss, r') => match ss with [] => None | _ => Some (s :: ss, r') end
      | None => None
      end
  | _ => None
  end.

Fixpoint pexp (f : nat) (min : nat) (ts : list tok) {struct f} : res :=
  match f with
  | O => None
  | S f =>
      match ts with
      | TLambda :: r =>
          if min =? 0 then
            match plam_args r with
            | Some (names, r1) =>
                match pexp f 0 r1 with
                | Some (b, r2) => Some (PLambda names b, r2)
                | None => None
                end
            | None => None
            end
          else None
      | TNot :: r =>
          if min <=? 3 then
            match pexp f 3 r with
            | Some (e, r1) => ploop f min (PUn PNot e) r1
            | None => None
            end
          else None
      | TMinus :: r =>
          if min <=? 11 then
            match pexp f 11 r with
            | Some (e, r1) => ploop f min (PUn PUSub e) r1
            | None => None
            end
          else None
      | TPlus :: r =>
          if min <=? 11 then
            match pexp f 11 r with
            | Some (e, r1) => ploop f min (PUn PUAdd e) r1
            | None => None
            end
          else None
      | TTilde :: r =>
          if min <=? 11 then
            match pexp f 11 r with
            | Some (e, r1) => ploop f min (PUn PInvert e) r1
            | None => None
            end
          else None
      | _ =>
          match pprim f ts with
          | Some (e, r1) => ploop f min e r1
          | None => None
          end
      end
  end

with ploop (f : nat) (min : nat) (lhs : pexpr) (ts : list tok) {struct f} : res :=
  match f with
  | O => None
  | S f =>
      match classify ts with
      | KIf r =>
          if min =? 0 then
            match pexp f 1 r with
            | Some (c, TElse :: r1) =>
                match pexp f 0 r1 with
                | Some (el, r2) => Some (PIfExp c lhs el, r2)
                | None => None
                end
            | _ => None
            end
          else Some (lhs, ts)
      | KBool o p =>
          if min <=? p then
            match pbools f (bool_tok o) p [lhs] ts with
            | Some (es, r1) => ploop f min (PBoolOp o es) r1
            | None => None
            end
          else Some (lhs, ts)
      | KCmp =>
          if min <=? 4 then
            match pcmps f [] ts with
            | Some (ops, r1) => ploop f min (PCompare lhs ops) r1
            | None => None
            end
          else Some (lhs, ts)
      | KPow r =>
          if min <=? 12 then
            match pexp f 11 r with
            | Some (e, r1) => ploop f min (PBin PPow lhs e) r1
            | None => None
            end
          else Some (lhs, ts)
      | KBin o p r =>
          if min <=? p then
            match pexp f (S p) r with
            | Some (e, r1) => ploop f min (PBin o lhs e) r1
            | None => None
            end
          else Some (lhs, ts)
      | KStop => Some (lhs, ts)
      end
  end

with pbools (f : nat) (tk : tok) (p : nat) (acc : list pexpr) (ts : list tok) {struct f}
  : option (list pexpr * list tok) :=
  match f with
  | O => None
  | S f =>
      match ts with
      | t :: r =>
          if is_tok t tk then
            match pexp f (S p) r with
            | Some (e, r1) => pbools f tk p (e :: acc) r1
            | None => None
            end
          else Some (rev acc, ts)
      | [] => Some (rev acc, ts)
      end
  end

with pcmps (f : nat) (acc : list (pcmp * pexpr)) (ts : list tok) {struct f}
  : option (list (pcmp * pexpr) * list tok) :=
  match f with
  | O => None
  | S f =>
      match cmp_of ts with
      | Some (c, r) =>
          match pexp f 5 r with
          | Some (e, r1) => pcmps f ((c, e) :: acc) r1
          | None => None
          end
      | None => Some (rev acc, ts)
      end
  end

with pprim (f : nat) (ts : list tok) {struct f} : res :=
  match f with
  | O => None
  | S f =>
      match ts with
      | TName s :: r => ptrail f (PName s) r
      | TNum s :: r => ptrail f (PNum s) r
      | TStr s :: r => ptrail f (PStr s) r
      | TTrue :: r => ptrail f PTrue r
      | TFalse :: r => ptrail f PFalse r
      | TNone :: r => ptrail f PNoneC r
      | TLPar :: TRPar :: r => ptrail f (PTuple []) r
      | TLPar :: r =>
          match pexp f 0 r with
          | Some (e, TRPar :: r2) => ptrail f e r2
          | Some (e, TComma :: r2) =>
              match pitems f TRPar r2 with
              | Some (es, r3) => ptrail f (PTuple (e :: es)) r3
              | None => None
              end
          | _ => None
          end
      | TLBr :: r =>
          match pitems f TRBr r with
          | Some (es, r1) => ptrail f (PList es) r1
          | None => None
          end
      | TLCb :: r =>
          match pitems f TRCb r with
          | Some (e :: es, r1) => ptrail f (PSet (e :: es)) r1
          | _ => None
          end
      | _ => None
      end
  end

with ptrail (f : nat) (x : pexpr) (ts : list tok) {struct f} : res :=
  match f with
  | O => None
  | S f =>
      match ts with
      | TLPar :: r =>
          match pitems f TRPar r with
          | Some (args, r1) => ptrail f (PCall x args) r1
          | None => None
          end
      | TLBr :: r =>
          match pexp f 0 r with
          | Some (i, TRBr :: r1) => ptrail f (PSubscript x i) r1
          | _ => None
          end
      | TDot :: TName s :: r => ptrail f (PAttr x s) r
      | TDot :: _ => None
      | _ => Some (x, ts)
      end
  end

with pitems (f : nat) (closer : tok) (ts : list tok) {struct f}
  : option (list pexpr * list tok) :=
  match f with
  | O => None
  | S f =>
      match ts with
      | [] => None
      | t :: r =>
          if is_tok t closer then Some ([], r)
          else
            match pexp f 0 ts with
            | Some (e, TComma :: r2) =>
                match pitems f closer r2 with
                | Some (es, r3) => Some (e :: es, r3)
                | None => None
                end
            | Some (e, t' :: r2) => if is_tok t' closer then Some ([e], r2) else None
            | _ => None
            end
      end
  end.

(** Parse a complete expression: all input consumed. *)
Definition py_parse (f : nat) (ts : list tok) : option pexpr :=
  match pexp f 0 ts with
  | Some (e, []) => Some e
  | _ => None
  end.
