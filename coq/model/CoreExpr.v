(** * Model of the expression fragment of [Core] and of its printer [to_py]

    [cexpr] mirrors the expression constructors of
    [src/generate/ast/node.rs::Core].  The printer is a template interpreter:
    every constructor kind has a template (a list of literal tokens and holes,
    a hole being printed plainly or through [operand], which parenthesises
    compound expressions) and a flag saying whether [operand] treats the
    constructor as compound.  The table of templates is REGENERATED from
    [src/generate/ast/mod.rs] on every run ([gen/PrinterTable.v]); the
    reference table [canon] below is what the round-trip theorem is proved
    for, and the generated table has to be equal to it
    ([table_ok generated = true], discharged by computation). *)
From Coq Require Import List String Arith Bool.
From MambaModel Require Import model.PyExpr.
Import ListNotations.


Inductive binop :=
| BAdd | BSub | BMul | BDiv | BFDiv | BMod | BPow
| BBAnd | BBOr | BBXOr | BBLShift | BBRShift
| BAnd | BOr
| BGe | BGeq | BLe | BLeq | BEq | BNeq | BIs | BIsN | BIn.

Inductive unop := UAddU | USubU | UBOneCmpl | UNot.

Inductive cexpr :=
| CId (s : string) | CInt (s : string) | CFloat (s : string) | CStr (s : string)
| CBool (b : bool) | CNone
| CENum (n e : string)
| CBin (o : binop) (l r : cexpr)
| CUn (o : unop) (e : cexpr)
| CIsA (l r : cexpr)
| CSqrt (e : cexpr)
| CTernary (c t e : cexpr)
| CLambda (args : list string) (body : cexpr)
| CCall (f : cexpr) (args : cexprs)
| CIndex (item range : cexpr)
| CProp (obj prop : cexpr)
| CTuple (es : cexprs) | CList (es : cexprs) | CSet (es : cexprs)
with cexprs := CNil | CCons (e : cexpr) (es : cexprs).

Scheme cexpr_mut := Induction for cexpr Sort Prop
  with cexprs_mut := Induction for cexprs Sort Prop.
Combined Scheme cexpr_cexprs_ind from cexpr_mut, cexprs_mut.

(** ** Constructor kinds and templates *)

Inductive ckind :=
| KId | KInt | KFloat | KStr | KBoolLit | KNoneLit | KENum
| KBinop (o : binop) | KUnop (o : unop)
| KIsA | KSqrt | KTernary | KLambda | KCall | KIndex | KProp | KTuple | KList | KSet.

Inductive piece :=
| PT (t : tok)              (* literal token *)
| PH (i : nat) (w : bool).  (* i-th child; [w]: printed through [operand] *)

Record table := { tpl : ckind -> list piece; compound : ckind -> bool }.

Definition all_binops : list binop :=
  [BAdd; BSub; BMul; BDiv; BFDiv; BMod; BPow; BBAnd; BBOr; BBXOr; BBLShift; BBRShift;
   BAnd; BOr; BGe; BGeq; BLe; BLeq; BEq; BNeq; BIs; BIsN; BIn].
Definition all_unops : list unop := [UAddU; USubU; UBOneCmpl; UNot].
Definition all_kinds : list ckind :=
  [KId; KInt; KFloat; KStr; KBoolLit; KNoneLit; KENum]
    ++ map KBinop all_binops ++ map KUnop all_unops
    ++ [KIsA; KSqrt; KTernary; KLambda; KCall; KIndex; KProp; KTuple; KList; KSet].

Definition kind_of (e : cexpr) : ckind :=
  match e with
  | CId _ => KId | CInt _ => KInt | CFloat _ => KFloat | CStr _ => KStr
  | CBool _ => KBoolLit | CNone => KNoneLit | CENum _ _ => KENum
  | CBin o _ _ => KBinop o | CUn o _ => KUnop o
  | CIsA _ _ => KIsA | CSqrt _ => KSqrt | CTernary _ _ _ => KTernary
  | CLambda _ _ => KLambda | CCall _ _ => KCall | CIndex _ _ => KIndex
  | CProp _ _ => KProp | CTuple _ => KTuple | CList _ => KList | CSet _ => KSet
  end.

(** ** The reference table *)

Definition bin_toks (o : binop) : list tok :=
  match o with
  | BAdd => [TPlus] | BSub => [TMinus] | BMul => [TStar] | BDiv => [TSlash]
  | BFDiv => [TDSlash] | BMod => [TPercent] | BPow => [TDStar]
  | BBAnd => [TAmp] | BBOr => [TPipe] | BBXOr => [TCaret]
  | BBLShift => [TLShift] | BBRShift => [TRShift]
  | BAnd => [TAnd] | BOr => [TOr]
  | BGe => [TGt] | BGeq => [TGe] | BLe => [TLt] | BLeq => [TLe]
  | BEq => [TEqEq] | BNeq => [TNe] | BIs => [TIs] | BIsN => [TIs; TNot] | BIn => [TIn]
  end.

Definition un_tok (o : unop) : tok :=
  match o with UAddU => TPlus | USubU => TMinus | UBOneCmpl => TTilde | UNot => TNot end.

Definition canon_tpl (k : ckind) : list piece :=
  match k with
  | KId | KInt | KFloat | KStr | KBoolLit | KNoneLit => [PH 0 false]
  | KENum => [PT TLPar; PH 0 false; PT TStar; PT (TNum "10"%string); PT TDStar; PH 1 false; PT TRPar]
  | KBinop o => [PH 0 true] ++ map PT (bin_toks o) ++ [PH 1 true]
  | KUnop o => [PT (un_tok o); PH 0 true]
  | KIsA => [PT (TName "isinstance"%string); PT TLPar; PH 0 false; PT TComma; PH 1 false; PT TRPar]
  | KSqrt => [PT (TName "math"%string); PT TDot; PT (TName "sqrt"%string); PT TLPar; PH 0 false; PT TRPar]
  | KTernary => [PH 1 true; PT TIf; PH 0 true; PT TElse; PH 2 true]
  | KLambda => [PT TLambda; PH 0 false; PT TColon; PH 1 false]
  | KCall => [PH 0 true; PT TLPar; PH 1 false; PT TRPar]
  | KIndex => [PH 0 true; PT TLBr; PH 1 false; PT TRBr]
  | KProp => [PH 0 true; PT TDot; PH 1 false]
  | KTuple => [PT TLPar; PH 0 false; PT TRPar]
  | KList => [PT TLBr; PH 0 false; PT TRBr]
  | KSet => [PT TLCb; PH 0 false; PT TRCb]
  end.

Definition canon_compound (k : ckind) : bool :=
  match k with
  | KBinop _ | KUnop _ | KTernary | KLambda => true
  | _ => false
  end.

Definition canon : table := {| tpl := canon_tpl; compound := canon_compound |}.

(** ** Template interpreter *)

Definition wrap (w c : bool) (ts : list tok) : list tok :=
  if w && c then TLPar :: ts ++ [TRPar] else ts.

Fixpoint interp (ps : list piece) (children : list (list tok * bool)) : list tok :=
  match ps with
  | [] => []
  | PT t :: ps' => t :: interp ps' children
  | PH i w :: ps' =>
      let '(ts, c) := nth i children ([], false) in
      wrap w c ts ++ interp ps' children
  end.

Fixpoint name_toks (ns : list string) : list tok :=
  match ns with
  | [] => []
  | [n] => [TName n]
  | n :: ns' => TName n :: TComma :: name_toks ns'
  end.

Section Printer.
  Variable T : table.

  Fixpoint ptoks (e : cexpr) : list tok :=
    interp (tpl T (kind_of e))
      match e with
      | CId s => [([TName s], false)]
      | CInt s | CFloat s => [([TNum s], false)]
      | CStr s => [([TStr s], false)]
      | CBool b => [([if b then TTrue else TFalse], false)]
      | CNone => [([TNone], false)]
      | CENum n x => [([TNum n], false); ([TNum x], false)]
      | CBin _ l r => [(ptoks l, compound T (kind_of l)); (ptoks r, compound T (kind_of r))]
      | CUn _ x => [(ptoks x, compound T (kind_of x))]
      | CIsA l r => [(ptoks l, compound T (kind_of l)); (ptoks r, compound T (kind_of r))]
      | CSqrt x => [(ptoks x, compound T (kind_of x))]
      | CTernary c t x =>
          [(ptoks c, compound T (kind_of c)); (ptoks t, compound T (kind_of t));
           (ptoks x, compound T (kind_of x))]
      | CLambda ns b => [(name_toks ns, false); (ptoks b, compound T (kind_of b))]
      | CCall g args => [(ptoks g, compound T (kind_of g)); (ptoks_list args, false)]
      | CIndex i r => [(ptoks i, compound T (kind_of i)); (ptoks r, compound T (kind_of r))]
      | CProp o p => [(ptoks o, compound T (kind_of o)); (ptoks p, compound T (kind_of p))]
      | CTuple es | CList es | CSet es => [(ptoks_list es, false)]
      end
  with ptoks_list (es : cexprs) : list tok :=
    match es with
    | CNil => []
    | CCons e CNil => ptoks e
    | CCons e es' => ptoks e ++ TComma :: ptoks_list es'
    end.

  Definition operand (e : cexpr) : list tok :=
    wrap true (compound T (kind_of e)) (ptoks e).
End Printer.

(** ** The Python tree a [Core] expression denotes *)

Definition bin_class (o : binop) : pbin + (pbool + pcmp) :=
  match o with
  | BAdd => inl PAdd | BSub => inl PSub | BMul => inl PMul | BDiv => inl PDiv
  | BFDiv => inl PFDiv | BMod => inl PMod | BPow => inl PPow
  | BBAnd => inl PBitAnd | BBOr => inl PBitOr | BBXOr => inl PBitXor
  | BBLShift => inl PLSh | BBRShift => inl PRSh
  | BAnd => inr (inl PAnd) | BOr => inr (inl POr)
  | BGe => inr (inr CGt) | BGeq => inr (inr CGe) | BLe => inr (inr CLt) | BLeq => inr (inr CLe)
  | BEq => inr (inr CEq) | BNeq => inr (inr CNe) | BIs => inr (inr CIs)
  | BIsN => inr (inr CIsNot) | BIn => inr (inr CIn)
  end.

Definition un_class (o : unop) : pun :=
  match o with UAddU => PUAdd | USubU => PUSub | UBOneCmpl => PInvert | UNot => PNot end.

Fixpoint as_py (e : cexpr) : pexpr :=
  match e with
  | CId s => PName s
  | CInt s | CFloat s => PNum s
  | CStr s => PStr s
  | CBool b => if b then PTrue else PFalse
  | CNone => PNoneC
  | CENum n x => PBin PMul (PNum n) (PBin PPow (PNum "10"%string) (PNum x))
  | CBin o l r =>
      match bin_class o with
      | inl b => PBin b (as_py l) (as_py r)
      | inr (inl b) => PBoolOp b [as_py l; as_py r]
      | inr (inr c) => PCompare (as_py l) [(c, as_py r)]
      end
  | CUn o x => PUn (un_class o) (as_py x)
  | CIsA l r => PCall (PName "isinstance"%string) [as_py l; as_py r]
  | CSqrt x => PCall (PAttr (PName "math"%string) "sqrt"%string) [as_py x]
  | CTernary c t x => PIfExp (as_py c) (as_py t) (as_py x)
  | CLambda ns b => PLambda ns (as_py b)
  | CCall g args => PCall (as_py g) (as_pys args)
  | CIndex i r => PSubscript (as_py i) (as_py r)
  | CProp o p => attach (as_py o) p
  | CTuple es => PTuple (as_pys es)
  | CList es => PList (as_pys es)
  | CSet es => PSet (as_pys es)
  end
with as_pys (es : cexprs) : list pexpr :=
  match es with
  | CNil => []
  | CCons e es' => as_py e :: as_pys es'
  end
(** [attach x p]: the tree of [x.p] where [p] is in property position (a name,
    or a call / index / further property access hanging off a name). *)
with attach (x : pexpr) (p : cexpr) : pexpr :=
  match p with
  | CId s => PAttr x s
  | CCall g args => PCall (attach x g) (as_pys args)
  | CIndex i r => PSubscript (attach x i) (as_py r)
  | CProp o q => attach (attach x o) q
  | _ => x
  end.

(** ** Well-formedness: the shapes the generator produces *)

Fixpoint clen (es : cexprs) : nat :=
  match es with CNil => 0 | CCons _ es' => S (clen es') end.

Fixpoint wf (e : cexpr) : bool :=
  match e with
  | CId _ | CInt _ | CFloat _ | CStr _ | CBool _ | CNone | CENum _ _ => true
  | CBin _ l r => wf l && wf r
  | CUn _ x => wf x
  | CIsA l r => wf l && wf r
  | CSqrt x => wf x
  | CTernary c t x => wf c && wf t && wf x
  | CLambda _ b => wf b
  | CCall g args => wf g && wfs args
  | CIndex i r => wf i && wf r
  | CProp o p =>
      wf o && wfp_ p
      && match o with CInt _ => false | _ => true end  (* [1.x] is not Python *)
  | CTuple es => wfs es && negb (clen es =? 1)  (* a one-tuple needs a trailing comma *)
  | CList es => wfs es
  | CSet es => wfs es && negb (clen es =? 0)    (* [{}] is a dict *)
  end
with wfs (es : cexprs) : bool :=
  match es with
  | CNil => true
  | CCons e es' => wf e && wfs es'
  end
with wfp_ (p : cexpr) : bool :=
  match p with
  | CId _ => true
  | CCall g args => wfp_ g && wfs args
  | CIndex i r => wfp_ i && wf r
  | CProp o q => wfp_ o && wfp_ q
  | _ => false
  end.

(** ** Table comparison (decidable side condition on the generated table) *)

Definition tok_eqb (a b : tok) : bool :=
  match a, b with
  | TName x, TName y | TNum x, TNum y | TStr x, TStr y => String.eqb x y
  | TLPar, TLPar | TRPar, TRPar | TLBr, TLBr | TRBr, TRBr | TLCb, TLCb | TRCb, TRCb
  | TComma, TComma | TColon, TColon | TDot, TDot
  | TPlus, TPlus | TMinus, TMinus | TStar, TStar | TSlash, TSlash | TDSlash, TDSlash
  | TPercent, TPercent | TDStar, TDStar | TAmp, TAmp | TPipe, TPipe | TCaret, TCaret
  | TTilde, TTilde | TLShift, TLShift | TRShift, TRShift
  | TLt, TLt | TGt, TGt | TLe, TLe | TGe, TGe | TEqEq, TEqEq | TNe, TNe
  | TNot, TNot | TAnd, TAnd | TOr, TOr | TIs, TIs | TIn, TIn | TIf, TIf | TElse, TElse
  | TLambda, TLambda | TTrue, TTrue | TFalse, TFalse | TNone, TNone => true
  | _, _ => false
  end.

Definition piece_eqb (a b : piece) : bool :=
  match a, b with
  | PT x, PT y => tok_eqb x y
  | PH i w, PH j v => (i =? j) && Bool.eqb w v
  | _, _ => false
  end.

Fixpoint pieces_eqb (a b : list piece) : bool :=
  match a, b with
  | [], [] => true
  | x :: a', y :: b' => piece_eqb x y && pieces_eqb a' b'
  | _, _ => false
  end.

Definition table_ok (T : table) : bool :=
  forallb (fun k => pieces_eqb (tpl T k) (canon_tpl k)
                    && Bool.eqb (compound T k) (canon_compound k)) all_kinds.
