(** * Renaming of user-chosen identifiers (C15)

    [rho] renames identifiers; [rfs] is the same renaming applied to the text of an
    interpolated string (the generator carries that text verbatim, so it is a parameter).
    - [ren_ast]: on the typed AST the checker hands to the generator: identifiers ([NId]),
      called names ([NCall]), class/type names ([NClass], [NParent], [NTypeDef],
      [NTypeAlias]) and every recorded type ([nm]/[tn]).
    - [ren_core]: on the generator's target language: [Id], [Type_], the name of a [FunDef],
      the imported and alias names of an [Import] (NOT the module after `from`: a module
      name binds nothing in the emitted file), and the string that is the first argument of
      the generator's [NewType(..)] call (it spells the alias).  Decorators are untouched.
    - [reserved]: the names a renaming must leave alone for [conv] to commute with it.  The
      list is the content of the property: see the comment at each member. *)
From Coq Require Import List String Bool.
From MambaModel Require Import model.Core gen.Names model.Convert.
Import ListNotations.
Local Open Scope string_scope.

Section Rename.
  Variable rho : string -> string.
  Variable rfs : string -> string.

  Fixpoint ren_nm (n : nm) : nm :=
    match n with
    | NM ms => NM (map (fun t => match t with TN b s gs => TN b (rho s) (map ren_nm gs) end) ms)
    end.
  Definition ren_tn (t : tn) : tn :=
    match t with TN b s gs => TN b (rho s) (map ren_nm gs) end.

  Definition ren_onm (o : option nm) : option nm := option_map ren_nm o.

  (** one layer of the AST, given the renaming of sub-trees *)
  Definition ren_node_with (ren_ast : ast -> ast) (n : node) : node :=
    match n with
    | NInt s => NInt s | NReal s => NReal s | NENum a b => NENum a b
    | NStr s b => NStr (if b then rfs s else s) b
    | NDocStr s => NDocStr s | NBool b => NBool b
    | NId s => NId (rho s)
    | NUndefined => NUndefined | NUnderscore => NUnderscore | NPass => NPass | NBreak => NBreak
    | NContinue => NContinue | NReturnEmpty => NReturnEmpty
    | NBin o l r => NBin o (ren_ast l) (ren_ast r)
    | NUn o e => NUn o (ren_ast e)
    | NTuple es => NTuple (map ren_ast es)
    | NList es => NList (map ren_ast es)
    | NSet es => NSet (map ren_ast es)
    | NIndex i r => NIndex (ren_ast i) (ren_ast r)
    | NRange f t incl s => NRange (ren_ast f) (ren_ast t) incl (option_map ren_ast s)
    | NSlice f t incl s => NSlice (ren_ast f) (ren_ast t) incl (option_map ren_ast s)
    | NCall name gs args => NCall (rho name) (map ren_nm gs) (map ren_ast args)
    | NProp i p => NProp (ren_ast i) (ren_ast p)
    | NAnonFun args b => NAnonFun (map ren_ast args) (ren_ast b)
    | NExprType e t => NExprType (ren_ast e) (ren_onm t)
    | NVarDef v t e => NVarDef (ren_ast v) (ren_onm t) (option_map ren_ast e)
    | NReassign l r op => NReassign (ren_ast l) (ren_ast r) op
    | NFunDef i args r b => NFunDef (ren_ast i) (map ren_ast args) (ren_onm r) (option_map ren_ast b)
    | NFunArg va v t d => NFunArg va (ren_ast v) (ren_onm t) (option_map ren_ast d)
    | NBlock es => NBlock (map ren_ast es)
    | NReturn e => NReturn (ren_ast e)
    | NIfElse c t e => NIfElse (ren_ast c) (ren_ast t) (option_map ren_ast e)
    | NMatch c cs => NMatch (ren_ast c) (map ren_ast cs)
    | NCase c b => NCase (ren_ast c) (ren_ast b)
    | NWhile c b => NWhile (ren_ast c) (ren_ast b)
    | NFor e c b => NFor (ren_ast e) (ren_ast c) (ren_ast b)
    | NRaise e => NRaise (ren_ast e)
    | NHandle e cs => NHandle (ren_ast e) (map ren_ast cs)
    | NImport f i al => NImport f (map ren_ast i) (map ren_ast al)
    | NClass name gs args ps b =>
        NClass (rho name) (map ren_nm gs) (map ren_ast args) (map ren_ast ps) (option_map ren_ast b)
    | NParent name gs args => NParent (rho name) (map ren_nm gs) (map ren_ast args)
    | NTypeDef name gs isa b ap => NTypeDef (rho name) (map ren_nm gs) (ren_onm isa) (option_map ren_ast b) ap
    | NTypeAlias name gs isa => NTypeAlias (rho name) (map ren_nm gs) (ren_nm isa)
    | NDict es => NDict (map (fun kv => (ren_ast (fst kv), ren_ast (snd kv))) es)
    | NListBuilder i cs => NListBuilder (ren_ast i) (map ren_ast cs)
    | NSetBuilder i cs => NSetBuilder (ren_ast i) (map ren_ast cs)
    | NDictBuilder f t cs => NDictBuilder (ren_ast f) (ren_ast t) (map ren_ast cs)
    | NWith r al b => NWith (ren_ast r) (option_map ren_ast al) (ren_ast b)
    end.

  Fixpoint ren_ast (a : ast) : ast :=
    match a with A ty n => A (ren_onm ty) (ren_node_with ren_ast n) end.
  Definition ren_node : node -> node := ren_node_with ren_ast.

  Definition is_newtype (c : core) : bool :=
    match c with Id s => String.eqb s "NewType" | _ => false end.

  Fixpoint ren_core (c : core) : core :=
    match c with
    | Import f im al => Import f (map ren_core im) (map ren_core al)
    | ClassDef n ps b => ClassDef (ren_core n) (map ren_core ps) (ren_core b)
    | FunctionCall f args =>
        FunctionCall (ren_core f)
          (match args with
           | Str s :: r => (if is_newtype f then Str (rho s) else Str s) :: map ren_core r
           | _ => map ren_core args
           end)
    | PropertyCall o p => PropertyCall (ren_core o) (ren_core p)
    | Id lit => Id (rho lit)
    | Type_ lit gs => Type_ (rho lit) (map ren_core gs)
    | ExpressionType e t => ExpressionType (ren_core e) (ren_core t)
    | Assign l r op => Assign (ren_core l) (ren_core r) op
    | VarDef v t e => VarDef (ren_core v) (option_map ren_core t) (option_map ren_core e)
    | FunDefOp op arg t b => FunDefOp op (map ren_core arg) (option_map ren_core t) (ren_core b)
    | FunDef dec id arg t b => FunDef dec (rho id) (map ren_core arg) (option_map ren_core t) (ren_core b)
    | FunArg va v t d => FunArg va (ren_core v) (option_map ren_core t) (option_map ren_core d)
    | AnonFun args b => AnonFun (map ren_core args) (ren_core b)
    | Block sts => Block (map ren_core sts)
    | Float s => Float s | Int s => Int s | ENum a b => ENum a b
    | DocStr s => DocStr s | Str s => Str s | FStr s => FStr (rfs s) | Bool b => Bool b
    | Tuple es => Tuple (map ren_core es)
    | TupleLiteral es => TupleLiteral (map ren_core es)
    | DictComprehension f t col cs => DictComprehension (ren_core f) (ren_core t) (ren_core col) (map ren_core cs)
    | Comprehension e col cs => Comprehension (ren_core e) (ren_core col) (map ren_core cs)
    | Dictionary es => Dictionary (map (fun kv => (ren_core (fst kv), ren_core (snd kv))) es)
    | Set_ es => Set_ (map ren_core es)
    | List_ es => List_ (map ren_core es)
    | Index i r => Index (ren_core i) (ren_core r)
    | Bin o l r => Bin o (ren_core l) (ren_core r)
    | Un o e => Un o (ren_core e)
    | For e col b => For (ren_core e) (ren_core col) (ren_core b)
    | If c t => If (ren_core c) (ren_core t)
    | IfElse c t e => IfElse (ren_core c) (ren_core t) (ren_core e)
    | Match e cs => Match (ren_core e) (map ren_core cs)
    | Case e b => Case (ren_core e) (ren_core b)
    | Ternary c t e => Ternary (ren_core c) (ren_core t) (ren_core e)
    | KeyValue k v => KeyValue (ren_core k) (ren_core v)
    | While c b => While (ren_core c) (ren_core b)
    | Break => Break | Continue => Continue | UnderScore => UnderScore | Pass => Pass
    | None_ => None_ | Empty => Empty
    | TryExcept s a ex => TryExcept (option_map ren_core s) (ren_core a) (map ren_core ex)
    | ExceptId i cl b => ExceptId (ren_core i) (ren_core cl) (ren_core b)
    | Except cl b => Except (ren_core cl) (ren_core b)
    | With r e => With (ren_core r) (ren_core e)
    | WithAs r al e => WithAs (ren_core r) (ren_core al) (ren_core e)
    end.

  Definition ren_assign (p : core * option nm) : core * option nm := (ren_core (fst p), ren_onm (snd p)).

  Definition ren_state (s : state) : state :=
    {| interface := interface s; expand_ty := expand_ty s; def_as_fun_arg := def_as_fun_arg s;
       tup_lit := tup_lit s; annotate := annotate s; last_ret := last_ret s;
       assign_to := option_map ren_assign (assign_to s); remove_ret := remove_ret s |}.

  Definition ren_names (v : list core * list core) : list core * list core :=
    (map ren_core (fst v), map ren_core (snd v)).

  Definition ren_imports (i : imports) : imports :=
    {| imps := map ren_core (imps i);
       typing_imps := option_map ren_names (typing_imps i);
       other_from := map (fun kv => (fst kv, ren_names (snd kv))) (other_from i) |}.

  Definition ren_result (r : core * imports) : core * imports := (ren_core (fst r), ren_imports (snd r)).

  Definition injective : Prop := forall x y, rho x = rho y -> x = y.
  Definition fixes (R : list string) : Prop := forall s, In s R -> rho s = s.
End Rename.

(** ** The names a renaming has to leave alone *)

Definition all_funops : list funop := [FGe; FGeq; FLe; FLeq; FEq; FNeq; FAdd; FSub; FMul; FDiv; FPow; FMod; FFDiv].

(** names the generator itself emits, looks for, or binds through an import it adds *)
Definition reserved_consts : list string :=
  [ n_range;          (* emitted for [a .. b]: [range(a, b, step)] *)
    n_slice;          (* emitted for [a :: b]: [slice(a, b, step)] *)
    n_tuple_m; n_callable_m; n_any_m;           (* type names the renderer recognises by spelling *)
    n_tuple_py; n_callable_py; n_union_py; n_any_py;   (* typing names the renderer emits and imports *)
    "Optional";       (* emitted and imported for a nullable type *)
    n_self_;          (* [self]: never annotated; first constructor argument; [self.x := x] (documented) *)
    n_init;           (* [__init__]: the constructor looked up and synthesised in a class body (documented) *)
    "size";           (* a definition named [size] is emitted as [__size__] (NOT documented: D14) *)
    "__size__";       (* ... so [__size__] and [size] denote one name at definitions *)
    "NewType";        (* emitted and imported for a type alias *)
    "ABC";            (* emitted and imported as parent of a type definition *)
    "abstractmethod"; (* imported for a body-less method of a type definition *)
    "math";           (* imported for [sqrt] *)
    "@"               (* key of the non-definition statements of a class body; not an identifier *)
  ].

(** the rows of the name table that change the spelling (rows such as [None -> None] do nothing) *)
Definition renamed_rows : list (string * string) :=
  filter (fun kv => negb (String.eqb (fst kv) (snd kv))) py_names.

Definition reserved : list string :=
  (* the Mamba spellings of built-in classes: [concrete_to_python] rewrites EVERY identifier and type
     name with one of these spellings to the Python spelling (documented: names of built-in types) *)
  map fst renamed_rows ++
  (* the Python spellings they are rewritten to: an identifier spelled [list] is left alone by the
     generator, but [List] becomes [list], so the two spellings denote one name in the output *)
  map snd renamed_rows ++
  (* operator method names: a definition whose (converted) name is one of these becomes a [FunDefOp];
     they are also the keys under which operator definitions are stored in a class body (documented:
     operator names) *)
  map snd dunder ++ map funop_name all_funops ++
  reserved_consts.
