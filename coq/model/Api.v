(** * The Python-facing API of a Mamba file and of the emitted module (C17)

    A signature lists what Python code needs in order to call generated code: for a
    function its name and, per parameter in order, the name, the variadic marker and
    whether a default is present; for a class its name, the parents in order, the
    constructor ([__init__]) and the remaining methods in order.

    [api_src] reads the signatures off the typed AST as the Mamba source states them
    (constructor = the class arguments, else the explicit [__init__], else - when there
    are parents - the synthesised [__init__(self)]); [api_py] reads them off [Core];
    [py_sig] is the renaming the generator applies to names. *)
From Coq Require Import List String Bool Arith Ascii.
From MambaModel Require Import model.Core gen.Names model.Convert.
Import ListNotations.
Local Open Scope string_scope.

Definition param := (string * bool * bool)%type.            (* name, vararg, has a default *)
Definition fsig := (string * list param)%type.              (* name, parameters in order *)

Inductive sig :=
| SFun (f : fsig)
| SClass (name : string) (parents : list string) (ctor : option fsig) (methods : list fsig).

Definition is_some {X} (o : option X) : bool := match o with Some _ => true | None => false end.

Definition is_init (f : fsig) : bool := String.eqb (fst f) n_init.
Definition self_param : param := (n_self_, false, false).
Definition first_is_self (ps : list param) : bool :=
  match ps with (n, _, _) :: _ => String.eqb n n_self_ | [] => false end.
Definition with_self (ps : list param) : list param := if first_is_self ps then ps else self_param :: ps.

(** ** The source side *)

Definition id_name (a : ast) : string := match ast_node a with NId s => s | _ => "" end.

Definition param_src (a : ast) : param :=
  match ast_node a with
  | NFunArg vararg var _ default => (id_name var, vararg, is_some default)
  | NVarDef var _ expr => (id_name var, false, is_some expr)          (* class argument [def a: T := e] *)
  | _ => ("", false, false)
  end.

Definition fsig_src (a : ast) : option fsig :=
  match ast_node a with
  | NFunDef id args _ _ => Some (id_name id, map param_src args)
  | _ => None
  end.

Definition funs_src (l : list ast) : list fsig :=
  flat_map (fun a => match fsig_src a with Some f => [f] | None => [] end) l.

Definition members_of (body : option ast) : list ast :=
  match body with
  | Some (A _ (NBlock ms)) => ms
  | Some other => [other]
  | None => []
  end.

Definition parent_src (a : ast) : string := match ast_node a with NParent name _ _ => name | _ => "" end.

(** the constructor the Mamba text promises: the class arguments; without class arguments the
    explicit [__init__]; without either, [__init__(self)] exactly when a parent has to be initialised *)
Definition ctor_src (cargs : list param) (nparents : nat) (funs : list fsig) : option fsig :=
  match cargs with
  | _ :: _ => Some (n_init, with_self cargs)
  | [] =>
      match find is_init funs with
      | Some f => Some (n_init, with_self (snd f))
      | None => match nparents with 0 => None | S _ => Some (n_init, [self_param]) end
      end
  end.

Definition class_src (name : string) (parents : list string) (cargs : list param) (body : option ast) : sig :=
  let funs := funs_src (members_of body) in
  SClass name parents (ctor_src cargs (List.length parents) funs) (filter (fun f => negb (is_init f)) funs).

Definition nm_parent (n : nm) : string := match n with NM [TN _ name _] => name | _ => "" end.

Definition stmt_api_src (a : ast) : list sig :=
  match ast_node a with
  | NFunDef _ _ _ _ => match fsig_src a with Some f => [SFun f] | None => [] end
  | NClass name _ args parents body => [class_src name (map parent_src parents) (map param_src args) body]
  | NTypeDef name _ isa body abstract_parent =>
      let ps := match isa with Some n => [nm_parent n] | None => [] end in
      let funs := funs_src (members_of body) in
      [SClass name (if abstract_parent then ps else ps ++ ["ABC"])
              (ctor_src [] (List.length ps) funs) (filter (fun f => negb (is_init f)) funs)]
  | _ => []
  end.

Definition api_src (a : ast) : list sig :=
  match a with
  | A _ (NBlock stmts) => flat_map stmt_api_src stmts
  | other => stmt_api_src other
  end.

(** ** The renaming applied by the generator *)

(** [convert_def]: operators (the parser has already turned [def +] into the identifier [__add__]) go
    through [CoreFunOp] and are printed back under the same dunder name; a function called [size]
    is renamed; every identifier goes through the Mamba -> Python name table *)
Definition py_fname (s : string) : string :=
  let lit := concrete_to_python s in
  match funop_of lit with
  | Some op => funop_name op
  | None => if String.eqb lit "size" then "__size__" else lit
  end.
Definition py_param (p : param) : param := let '(n, v, d) := p in (concrete_to_python n, v, d).
Definition py_fsig (f : fsig) : fsig := (py_fname (fst f), map py_param (snd f)).
Definition py_sig (s : sig) : sig :=
  match s with
  | SFun f => SFun (py_fsig f)
  | SClass n ps ctor ms =>
      SClass (concrete_to_python n) (map concrete_to_python ps) (option_map py_fsig ctor) (map py_fsig ms)
  end.

(** ** The Python side *)

Definition core_name (c : core) : string := match c with Id s => s | Type_ s _ => s | _ => "" end.
Definition param_py (c : core) : param :=
  match c with
  | FunArg vararg var _ default => (core_name var, vararg, is_some default)
  | other => (core_name other, false, false)           (* the bare [self] that [init] inserts *)
  end.
Definition fsig_py (c : core) : option fsig :=
  match c with
  | FunDef _ id arg _ _ => Some (id, map param_py arg)
  | FunDefOp op arg _ _ => Some (funop_name op, map param_py arg)
  | _ => None
  end.
Definition funs_py (l : list core) : list fsig :=
  flat_map (fun c => match fsig_py c with Some f => [f] | None => [] end) l.

Definition stmt_api_py (c : core) : list sig :=
  match c with
  | ClassDef name parents body =>
      let fs := funs_py (block_stmts body) in
      [SClass (core_name name) (map core_name parents) (find is_init fs) (filter (fun f => negb (is_init f)) fs)]
  | _ => match fsig_py c with Some f => [SFun f] | None => [] end
  end.

Definition api_py (c : core) : list sig := flat_map stmt_api_py (block_stmts c).

(** ** Well-formedness (decidable) *)

Definition is_alpha_ (c : ascii) : bool :=
  let n := nat_of_ascii c in
  ((65 <=? n) && (n <=? 90) || (97 <=? n) && (n <=? 122) || (n =? 95))%nat.
Definition is_alnum_ (c : ascii) : bool :=
  is_alpha_ c || (let n := nat_of_ascii c in (48 <=? n) && (n <=? 57))%nat.
Fixpoint all_chars (p : ascii -> bool) (s : string) : bool :=
  match s with EmptyString => true | String c r => p c && all_chars p r end.
Definition is_ident (s : string) : bool :=
  match s with EmptyString => false | String c r => is_alpha_ c && all_chars is_alnum_ r end.

Definition is_nid (a : ast) : bool := match ast_node a with NId _ => true | _ => false end.

Definition wf_param (a : ast) : bool :=
  match ast_node a with NFunArg _ var _ _ => is_nid var | _ => false end.
Definition wf_carg (a : ast) : bool :=
  match ast_node a with NFunArg _ var _ _ => is_nid var | NVarDef var _ _ => is_nid var | _ => false end.

Definition wf_fun (a : ast) : bool :=
  match ast_node a with
  | NFunDef (A _ (NId name)) args _ _ => is_ident name && forallb wf_param args
  | _ => false
  end.

(** nodes whose conversion is, by its head constructor alone, neither a definition nor a block *)
Definition opaque (n : node) : bool :=
  match n with
  | NFunDef _ _ _ _ | NClass _ _ _ _ _ | NTypeDef _ _ _ _ _ | NExprType _ _ | NReturn _ | NVarDef _ _ _
  | NBlock _ | NParent _ _ _ => false
  | _ => true
  end.

Definition wf_vardef (a : ast) : bool :=
  match ast_node a with
  | NVarDef _ _ None => true
  | NVarDef _ _ (Some e) => opaque (ast_node e)
  | _ => false
  end.

(** class members: methods, fields [def x ..] and other statements (doc strings, ..) *)
Definition wf_field (a : ast) : bool :=
  wf_vardef a && match ast_node a with NVarDef var _ _ => is_nid var | _ => false end.
Definition wf_member (a : ast) : bool := wf_fun a || wf_field a || opaque (ast_node a).

Definition misfun (a : ast) : bool := match ast_node a with NFunDef _ _ _ _ => true | _ => false end.
Definition mname (a : ast) : option string :=
  match ast_node a with
  | NFunDef id _ _ _ => Some (py_fname (id_name id))
  | NVarDef var _ _ => Some (concrete_to_python (id_name var))
  | _ => None
  end.
Definition same_name (a b : option string) : bool :=
  match a, b with Some x, Some y => String.eqb x y | _, _ => false end.

(** no member shares its (Python) name with a method; two fields of one name are not excluded *)
Fixpoint names_ok (l : list ast) : bool :=
  match l with
  | [] => true
  | m :: r =>
      forallb (fun m' => negb ((misfun m || misfun m') && same_name (mname m) (mname m'))) r && names_ok r
  end.

Definition no_init_field (l : list ast) : bool :=
  forallb (fun m => misfun m || negb (same_name (mname m) (Some n_init))) l.

Definition explicit_init_ok (cargs : list param) (funs : list fsig) : bool :=
  match find is_init funs with
  | Some f => match cargs with [] => first_is_self (snd f) | _ :: _ => false end
  | None => true
  end.

Definition wf_body (cargs : list param) (body : option ast) : bool :=
  let ms := members_of body in
  forallb wf_member ms && names_ok ms && no_init_field ms && explicit_init_ok cargs (funs_src ms).

Definition is_parent (a : ast) : bool := match ast_node a with NParent _ _ _ => true | _ => false end.
Definition wf_isa (o : option nm) : bool :=
  match o with None => true | Some (NM [TN false _ _]) => true | Some _ => false end.

Definition wf_stmt (a : ast) : bool :=
  match ast_node a with
  | NFunDef _ _ _ _ => wf_fun a
  | NClass _ _ args parents body =>
      forallb wf_carg args && forallb is_parent parents && wf_body (map param_src args) body
  | NTypeDef _ _ isa body _ => wf_isa isa && wf_body [] body
  | n => wf_vardef a || opaque n
  end.

Definition wf_api (a : ast) : bool :=
  match a with
  | A _ (NBlock stmts) => forallb wf_stmt stmts
  | other => wf_stmt other
  end.

(** ** A flat rendering (used by the correspondence check to compare with python3's view of the output) *)
Definition show_bool (b : bool) : string := if b then "1" else "0".
Definition show_param (p : param) : string := let '(n, v, d) := p in n ++ ":" ++ show_bool v ++ show_bool d.
Definition show_fsig (f : fsig) : string := fst f ++ "(" ++ String.concat "," (map show_param (snd f)) ++ ")".
Definition show_sig (s : sig) : string :=
  match s with
  | SFun f => "F " ++ show_fsig f
  | SClass n ps ctor ms =>
      "C " ++ n ++ " [" ++ String.concat "," ps ++ "] "
      ++ (match ctor with Some f => show_fsig f | None => "-" end)
      ++ " {" ++ String.concat ";" (map show_fsig ms) ++ "}"
  end.
Definition show_api (l : list sig) : string := String.concat "|" (map show_sig l).
