(** * Model of the Mamba lexer
    ([src/parse/lex/{mod,state,tokenize,token}.rs], [src/parse/lex/pass/docstring.rs])

    The Rust [into_tokens] consumes characters for one token and then calls
    [State::token]; the model factors this into [scan] (pure: which token, which
    characters are consumed) and [state_token] (positions, indentation, batching
    of newlines), composed by [tok_loop].  Positions are [Z]; the [i32] casts of
    the Rust code are the identity below 2^31 lines/columns (trusted bound).
    Keyword table and token spellings come from the generated [gen/LexTables.v]. *)
From Coq Require Import List Ascii ZArith Bool Lia.
From MambaModel Require Import model.LexTok gen.LexTables.
Import ListNotations.
Local Open Scope Z_scope.

Definition ch (n : nat) : ascii := ascii_of_nat n.
Definition c_nl := ch 10.   Definition c_cr := ch 13.   Definition c_sp := ch 32.
Definition c_quote := ch 34. Definition c_hash := ch 35. Definition c_bslash := ch 92.
Definition c_lcb := ch 123. Definition c_rcb := ch 125. Definition c_dot := ch 46.
Definition c_E := ch 69. Definition c_eq := ch 61. Definition c_lt := ch 60. Definition c_gt := ch 62.
Definition c_colon := ch 58. Definition c_slash := ch 47.

Definition is_digit (c : ascii) : bool := let n := N_of_ascii c in (48 <=? n)%N && (n <=? 57)%N.
Definition is_id_start (c : ascii) : bool :=
  let n := N_of_ascii c in
  ((97 <=? n)%N && (n <=? 122)%N) || ((65 <=? n)%N && (n <=? 90)%N) || (n =? 95)%N.
Definition is_id_char (c : ascii) : bool := is_id_start c || is_digit c.

Definition width (t : token) : Z := Z.of_nat (length (spell t)).

Fixpoint count_nl (s : str) : Z :=
  match s with [] => 0 | c :: r => (if Ascii.eqb c c_nl then 1 else 0) + count_nl r end.

(** [Lex::new] *)
Definition mk_lex (start : cpos) (t : token) : lex :=
  let l := match t with MStr s | MDocStr s => line start + count_nl s | _ => line start end in
  {| lstart := start; lend := {| line := l; col := col start + width t |}; ltok := t; lnested := false |}.

(** ** [State] *)
Record state := {
  newlines : list lex; cur_indent : Z; line_indent : Z; token_this_line : bool; pos : cpos }.

Definition state0 : state :=
  {| newlines := []; cur_indent := 1; line_indent := 1; token_this_line := false;
     pos := {| line := 1; col := 1 |} |}.

Definition offset_pos (p : cpos) (n : Z) : cpos := {| line := line p; col := col p + n |}.
Definition offset_line (p : cpos) (n : Z) : cpos := {| line := line p + n; col := col p |}.

Definition state_newline (st : state) : state :=
  {| newlines := newlines st ++ [mk_lex (pos st) MNL]; cur_indent := cur_indent st; line_indent := 1;
     token_this_line := false; pos := {| line := line (pos st) + 1; col := 1 |} |}.

Definition state_space (st : state) : state :=
  {| newlines := newlines st; cur_indent := cur_indent st;
     line_indent := line_indent st + (if token_this_line st then 0 else 1);
     token_this_line := token_this_line st; pos := offset_pos (pos st) 1 |}.

(** [State::token]: returns the new state and the tokens handed out. *)
Definition state_token (st : state) (t : token) : state * list lex :=
  match t with
  | MNL => (state_newline st, [])
  | _ =>
      let p := pos st in
      let popped := match rev (newlines st) with [] => [] | nl :: _ => [nl] end in
      let remaining := match rev (newlines st) with [] => [] | _ :: r => rev r end in
      let layout :=
        if cur_indent st <=? line_indent st then
          repeat (mk_lex p MIndent) (Z.to_nat (Z.quot (line_indent st - cur_indent st) 4))
        else
          repeat (mk_lex p MDedent) (Z.to_nat (Z.quot (cur_indent st - line_indent st) 4))
            ++ [mk_lex p MNL] in
      let out := popped ++ layout ++ remaining ++ [mk_lex p t] in
      let p1 := offset_pos p (width t) in
      let p2 := match t with MStr s | MDocStr s => offset_line p1 (count_nl s) | _ => p1 end in
      ({| newlines := []; cur_indent := line_indent st; line_indent := line_indent st;
          token_this_line := true; pos := p2 |}, out)
  end.

Definition flush_indents (st : state) : list lex :=
  repeat (mk_lex (pos st) MDedent) (Z.to_nat (Z.quot (cur_indent st) 4)).

(** ** The scanner *)

Fixpoint take_while (p : ascii -> bool) (s : str) : str * str :=
  match s with
  | c :: r => if p c then let '(a, b) := take_while p r in (c :: a, b) else ([], s)
  | [] => ([], [])
  end.

Fixpoint lookup_kw (tbl : list (str * token)) (w : str) : option token :=
  match tbl with
  | [] => None
  | (k, t) :: tbl' => if str_eqb k w then Some t else lookup_kw tbl' w
  end.

Definition as_op_or_id (w : str) : token :=
  match lookup_kw keywords w with Some t => t | None => MId w end.

(** Number scanning: [number], [exp], flags [float], [e_num]. *)
Fixpoint scan_number (fuel : nat) (number exp : str) (float e_num : bool) (s : str)
  : str * str * bool * bool * str :=
  match fuel with
  | O => (number, exp, float, e_num, s)
  | S fuel =>
      match s with
      | c :: r =>
          if is_digit c then
            if e_num then scan_number fuel number (exp ++ [c]) float e_num r
            else scan_number fuel (number ++ [c]) exp float e_num r
          else if Ascii.eqb c c_E then
            if e_num then (number, exp, float, e_num, s)
            else scan_number fuel number exp float true r
          else if Ascii.eqb c c_dot then
            if float || e_num then (number, exp, float, e_num, s)
            else match r with
                 | c2 :: _ => if Ascii.eqb c2 c_dot then (number, exp, float, e_num, s)
                              else scan_number fuel (number ++ [c]) exp true e_num r
                 | [] => scan_number fuel (number ++ [c]) exp true e_num r
                 end
          else (number, exp, float, e_num, s)
      | [] => (number, exp, float, e_num, s)
      end
  end.

(** String scanning.  Accumulators as in the Rust loop: the content so far, the
    [back_slash] flag, the brace counter (an [i32], may go negative), the column
    offset and text of the expression being collected, the expressions found
    (column offset relative to the opening quote, text). *)
Record sstate := {
  s_content : str; s_bslash : bool; s_depth : Z;
  s_cur_off : Z; s_cur : str; s_exprs : list (Z * str) }.

Fixpoint scan_string (st : sstate) (s : str) : sstate * str :=
  match s with
  | [] => (st, [])
  | c :: r =>
      if negb (s_bslash st) && (s_depth st =? 0) && Ascii.eqb c c_quote then (st, r)
      else
        let content := s_content st ++ [c] in
        let st1 :=
          if s_bslash st then
            {| s_content := content; s_bslash := Ascii.eqb c c_bslash; s_depth := s_depth st;
               s_cur_off := s_cur_off st; s_cur := s_cur st; s_exprs := s_exprs st |}
          else
            let cur := if 0 <? s_depth st then s_cur st ++ [c] else s_cur st in
            let off := if Ascii.eqb c c_lcb && (s_depth st =? 0)
                       then Z.of_nat (length content) + 1 else s_cur_off st in
            let depth := if Ascii.eqb c c_lcb then s_depth st + 1
                         else if Ascii.eqb c c_rcb then s_depth st - 1 else s_depth st in
            if (depth =? 0) && negb (match cur with [] => true | _ => false end) then
              let e := removelast cur in
              {| s_content := content; s_bslash := Ascii.eqb c c_bslash; s_depth := depth;
                 s_cur_off := off; s_cur := [];
                 s_exprs := match e with [] => s_exprs st | _ => s_exprs st ++ [(off, e)] end |}
            else
              {| s_content := content; s_bslash := Ascii.eqb c c_bslash; s_depth := depth;
                 s_cur_off := off; s_cur := cur; s_exprs := s_exprs st |} in
        scan_string st1 r
  end.

Inductive lexerr := ErrCR | ErrBang | ErrChar (c : ascii).

Inductive scanned :=
| STok (t : token) (rest : str)
| SString (content : str) (exprs : list (Z * str)) (rest : str)
| SSpace (rest : str)
| SErr (e : lexerr).

Definition starts_with (p s : str) : bool := str_eqb p (firstn (length p) s).
Definition ends_with (p s : str) : bool := str_eqb p (skipn (length s - length p) s).
Definition two_quotes : str := [c_quote; c_quote].
Fixpoint trim_start_matches (fuel : nat) (p s : str) : str :=
  match fuel with
  | O => s
  | S fuel => if starts_with p s then trim_start_matches fuel p (skipn (length p) s) else s
  end.
Definition trim_end_matches (p s : str) : str :=
  rev (trim_start_matches (length s) (rev p) (rev s)).

(** Operators are scanned by longest match: the peeks of [into_tokens] for the
    characters [: . < > + - * / ^ = !] and [\r] choose the longest spelling that is a
    prefix of the input.  The table lists, for every leading character, the
    longer spellings first; spellings come from the generated [spell]. *)
Definition op_tokens : list token :=
  [MComma; MSliceIncl; MSlice; MAssign; MDoublePoint; MLRBrack; MRRBrack; MLSBrack; MRSBrack;
   MLCBrack; MRCBrack; MVer; MRangeIncl; MRange; MPoint; MBLShiftAssign; MBLShift; MLeq; MLe;
   MBRShiftAssign; MBRShift; MGeq; MGe; MAddAssign; MAdd; MSubAssign; MTo; MSub; MMulAssign; MMul;
   MDivAssign; MFDiv; MDiv; MBSlash; MPowAssign; MPow; MBTo; MEq; MNeq; MQuestion].

Definition op_table : list (str * token) :=
  ([c_cr; c_nl], MNL) :: ([c_nl], MNL) :: map (fun t => (spell t, t)) op_tokens.

Fixpoint match_prefix (tbl : list (str * token)) (s : str) : option (token * str) :=
  match tbl with
  | [] => None
  | (w, t) :: tbl' =>
      if starts_with w s then Some (t, skipn (length w) s) else match_prefix tbl' s
  end.

Definition not_eol (x : ascii) : bool := negb (Ascii.eqb x c_nl) && negb (Ascii.eqb x c_cr).

(** [into_tokens c it state] up to the call of [create]. *)
Definition scan (c : ascii) (r : str) : scanned :=
  match match_prefix op_table (c :: r) with
  | Some (t, rest) => STok t rest
  | None =>
      if Ascii.eqb c c_hash then
        let '(cm, rest) := take_while not_eol r in STok (MComment cm) rest
      else if Ascii.eqb c c_quote then
        let '(st, rest) :=
          scan_string {| s_content := []; s_bslash := false; s_depth := 0; s_cur_off := 1;
                         s_cur := []; s_exprs := [] |} r in
        SString (s_content st) (s_exprs st) rest
      else if Ascii.eqb c c_sp then SSpace r
      else if Ascii.eqb c c_cr then SErr ErrCR
      else if Ascii.eqb c (ch 33) then SErr ErrBang
      else if is_digit c then
        let '(number, exp, float, e_num, rest) := scan_number (S (length r)) [c] [] false false r in
        STok (if e_num then MENum number exp else if float then MReal number else MInt number) rest
      else if is_id_start c then
        let '(w, rest) := take_while is_id_char r in
        STok (as_op_or_id (c :: w)) rest
      else SErr (ErrChar c)
  end.

(** ** The doc-string pass ([pass/docstring.rs]) *)

Definition is_empty_str (t : token) : bool := match t with MStr [] => true | _ => false end.

Definition doc_get (front middle back : option lex) : option (lex) :=
  match front, middle, back with
  | Some f, Some m, Some b =>
      match ltok f, ltok m, ltok b with
      | MStr fs, MStr ds, MStr bs =>
          if match fs with [] => true | _ => false end
             && match bs with [] => true | _ => false end
             && (col (lend f) =? col (lstart m)) && (col (lend m) =? col (lstart b))
          then Some (mk_lex (lstart f) (MDocStr ds))
          else None
      | _, _, _ => None
      end
  | _, _, _ => None
  end.

(** A top-level token with the tokens of the interpolated expressions it
    carries (in Rust they are stored inside the [Str] token), all levels flattened. *)
Record tl := { top : lex; inner : list lex }.
Definition tl0 (l : lex) : tl := {| top := l; inner := [] |}.
Definition otop (o : option tl) : option lex := match o with Some x => Some (top x) | None => None end.

(** Window [front, middle, back]; output accumulated in order. *)
Fixpoint doc_pass (front middle back : option tl) (input : list tl) : list tl :=
  match input with
  | [] =>
      (match front with Some l => [l] | None => [] end) ++
      (match middle with Some l => [l] | None => [] end) ++
      (match back with Some l => [l] | None => [] end)
  | l :: rest =>
      let f := middle in let m := back in let b := Some l in
      match doc_get (otop f) (otop m) (otop b) with
      | Some d => tl0 d :: doc_pass None None None rest
      | None =>
          match f with
          | Some x => x :: doc_pass None m b rest
          | None => doc_pass None m b rest
          end
      end
  end.

Definition docstring_pass (ls : list tl) : list tl := doc_pass None None None ls.

Definition flatten (ls : list tl) : list lex := flat_map (fun x => top x :: inner x) ls.

(** ** The main loop *)

Inductive outcome := LexOk (ts : list lex) | LexErr (p : cpos) (e : lexerr) | OutOfFuel.

(** [CaretPos::offset]: both 1-based. *)
Definition pos_offset (p off : cpos) : cpos :=
  {| line := line p + line off - 1; col := col p + col off - 1 |}.

(** The in-arm doc-string test of the string scanner (unreachable in practice: a
    string's content cannot start with two unescaped quotes) and the token made. *)
Definition is_docstring_arm (content : str) : bool :=
  starts_with two_quotes content && ends_with two_quotes content.
Definition string_tok (content : str) : token :=
  if is_docstring_arm content
  then MDocStr (trim_end_matches two_quotes (trim_start_matches (length content) two_quotes content))
  else MStr content.

Definition nest (l : lex) : lex :=
  {| lstart := lstart l; lend := lend l; ltok := ltok l; lnested := true |}.

Fixpoint tok_loop (fuel : nat) (s : str) (st : state) (acc : list tl) {struct fuel}
  : (state * list tl) + (cpos * lexerr) + unit :=
  match fuel with
  | O => inr tt
  | S fuel =>
      match s with
      | [] => inl (inl (st, acc))
      | c :: r =>
          match scan c r with
          | SErr e => inl (inr (pos st, e))
          | SSpace rest => tok_loop fuel rest (state_space st) acc
          | STok t rest =>
              let '(st', out) := state_token st t in
              tok_loop fuel rest st' (acc ++ map tl0 out)
          | SString content exprs rest =>
              if is_docstring_arm content then
                let '(st', out) := state_token st (string_tok content) in
                tok_loop fuel rest st' (acc ++ map tl0 out)
              else
                (* tokenize_direct on every interpolated expression; the first error wins *)
                let nested :=
                  fold_left
                    (fun (a : option (list lex) + (cpos * lexerr)) (oe : Z * str) =>
                       match a with
                       | inl (Some ls) =>
                           match direct fuel (snd oe) with
                           | inl (inl toks) =>
                               let off := offset_pos (pos st) (fst oe) in
                               inl (Some (ls ++ flat_map (fun x =>
                                 nest (mk_lex (pos_offset (lstart (top x)) off) (ltok (top x))) :: inner x) toks))
                           | inl (inr e) => inr e
                           | inr _ => inl None
                           end
                       | other => other
                       end)
                    exprs (inl (Some [])) in
                match nested with
                | inr e => inl (inr e)
                | inl None => inr tt
                | inl (Some inn) =>
                    let '(st', out) := state_token st (string_tok content) in
                    (* the string itself is the last token handed out *)
                    let out' := match rev out with
                                | l :: before => map tl0 (rev before) ++ [{| top := l; inner := inn |}]
                                | [] => []
                                end in
                    tok_loop fuel rest st' (acc ++ out')
                end
          end
      end
  end
with direct (fuel : nat) (s : str) {struct fuel} : (list tl) + (cpos * lexerr) + unit :=
  match fuel with
  | O => inr tt
  | S fuel =>
      match tok_loop fuel s state0 [] with
      | inl (inl (st, acc)) => inl (inl (docstring_pass (acc ++ map tl0 (flush_indents st))))
      | inl (inr e) => inl (inr e)
      | inr u => inr u
      end
  end.

Definition last_end (ts : list tl) : cpos :=
  match rev ts with
  | l :: _ => offset_pos (lend (top l)) 1
  | [] => {| line := 1; col := 1 |}
  end.

(** [tokenize] *)
Definition tokenize_fuel (fuel : nat) (s : str) : outcome :=
  match tok_loop fuel s state0 [] with
  | inl (inl (st, acc)) =>
      let ts := acc ++ map tl0 (flush_indents st) in
      LexOk (flatten (docstring_pass (ts ++ [tl0 (mk_lex (last_end ts) MEof)])))
  | inl (inr (p, e)) => LexErr p e
  | inr _ => OutOfFuel
  end.

Definition tokenize (s : str) : outcome := tokenize_fuel (S (S (length s))) s.
