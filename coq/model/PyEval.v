(** * Executable model of the emitted Python: [PySem] instantiated on [SemDom]

    Expressions are evaluated by [cexpr]; a call of a user function executes the body
    with [PySem.exec] at the next lower fuel.  The model is validated on every run against
    python3 executing the implementation's text for the same Core tree. *)
From Coq Require Import List String Bool ZArith Ascii.
From MambaModel Require Import model.Core model.SemDom model.PySem.
Import ListNotations.
Local Open Scope string_scope.

Record fundef (B : Type) := { fparams : list string; fbody : B; fvalret : bool }.
Arguments fparams {B}. Arguments fbody {B}. Arguments fvalret {B}.

(** [bad] is set when something outside the modelled fragment was met in a position that
    cannot report it (an assignment target, a pattern, a definition) *)
Record env (B : Type) := {
  globals : store; frame : option store; funs : list (string * fundef B);
  out : list string;                    (* printed lines, newest first *)
  bad : bool }.
Arguments globals {B}. Arguments frame {B}. Arguments funs {B}. Arguments out {B}. Arguments bad {B}.

Section Env.
  Context {B : Type}.
  Definition env0 : env B := {| globals := []; frame := None; funs := []; out := []; bad := false |}.
  Definition lookup_var (x : string) (e : env B) : option value :=
    match frame e with
    | Some fr => match sget x fr with Some v => Some v | None => sget x (globals e) end
    | None => sget x (globals e)
    end.
  Definition set_var (x : string) (v : value) (e : env B) : env B :=
    match frame e with
    | Some fr => {| globals := globals e; frame := Some (sset x v fr); funs := funs e; out := out e; bad := bad e |}
    | None => {| globals := sset x v (globals e); frame := None; funs := funs e; out := out e; bad := bad e |}
    end.
  Definition poison (e : env B) : env B :=
    {| globals := globals e; frame := frame e; funs := funs e; out := out e; bad := true |}.
  Definition emit (line : string) (e : env B) : env B :=
    {| globals := globals e; frame := frame e; funs := funs e; out := line :: out e; bad := bad e |}.
  Definition with_frame (fr : option store) (e : env B) : env B :=
    {| globals := globals e; frame := fr; funs := funs e; out := out e; bad := bad e |}.
  Definition add_fun (name : string) (d : fundef B) (e : env B) : env B :=
    {| globals := globals e; frame := frame e; funs := (name, d) :: funs e; out := out e; bad := bad e |}.
  Fixpoint find_fun (name : string) (l : list (string * fundef B)) : option (fundef B) :=
    match l with
    | [] => None
    | (n, d) :: r => if String.eqb n name then Some d else find_fun name r
    end.

  Fixpoint bind_params (ps : list string) (vs : list value) (fr : store) : option store :=
    match ps, vs with
    | [], [] => Some fr
    | p :: ps', v :: vs' => bind_params ps' vs' (sset p v fr)
    | _, _ => None
    end.

  (** builtins shared by both languages: [print], exception constructors, [len], [str] *)
  Definition builtin (name : string) (args : list value) (e : env B) : option ((value + value) * env B) :=
    if String.eqb name "print" then
      Some (match shows args with
            | Some ss => (inl VNone, emit (join " " ss) e)
            | None => (unsup, e)
            end)
    else if is_builtin_exception name then Some (inl (VExc name args), e)
    else if String.eqb name "len" then
      Some (match args with
            | [VList l] | [VTuple l] => (inl (VInt (Z.of_nat (List.length l))), e)
            | [VStr s] => (inl (VInt (Z.of_nat (String.length s))), e)
            | [VRange a b s] => (inl (VInt (range_len a b s)), e)
            | _ => (unsup, e)
            end)
    else if String.eqb name "str" then
      Some (match args with
            | [v] => match show v with Some s => (inl (VStr s), e) | None => (unsup, e) end
            | _ => (unsup, e)
            end)
    else None.

  Definition mk_range (args : list value) : value + value :=
    match args with
    | [VInt b] => inl (VRange 0 b 1)
    | [VInt a; VInt b] => inl (VRange a b 1)
    | [VInt a; VInt b; VInt s] => if Z.eqb s 0 then inr (exc "ValueError") else inl (VRange a b s)
    | _ => unsup
    end.

  Definition index_value (item idx : value) : value + value :=
    let at_ (l : list value) (i : Z) : value + value :=
      let n := Z.of_nat (List.length l) in
      let j := if Z.ltb i 0 then Z.add i n else i in
      if Z.ltb j 0 || Z.leb n j then inr (exc "IndexError")
      else match nth_error l (Z.to_nat j) with Some v => inl v | None => inr (exc "IndexError") end in
    match item, idx with
    | VList l, VInt i => at_ l i
    | VTuple l, VInt i => at_ l i
    | _, _ => unsup
    end.

  Definition iter (v : value) : list value + value :=
    match v with
    | VRange a b s => inl (map VInt (range_list a b s))
    | VList l | VTuple l => inl l
    | _ => unsup
    end.

  Definition as_exn (v : value) : value :=
    match v with VExc _ _ => v | _ => exc unsupported end.

  Definition plain_text (s : string) : bool := plain_string s && negb (existsb (fun c => Ascii.eqb c "{"%char || Ascii.eqb c "}"%char) (list_ascii_of_string s)).
End Env.

Definition cbin_sop (o : cbin) : option sop :=
  match o with
  | CbAdd => Some OAdd | CbSub => Some OSub | CbMul => Some OMul | CbDiv => Some ODiv | CbFDiv => Some OFDiv
  | CbMod => Some OMod | CbPow => Some OPow | CbBAnd => Some OBAnd | CbBOr => Some OBOr | CbBXOr => Some OBXor
  | CbBLShift => Some OShl | CbBRShift => Some OShr
  | CbGe => Some OGt | CbGeq => Some OGe | CbLe => Some OLt | CbLeq => Some OLe | CbEq => Some OEq | CbNeq => Some ONeq
  | CbIs => Some OIs | CbIsN => Some OIsNot | CbIn => Some OIn
  | CbAnd | CbOr | CbIsA => None
  end.

Definition coreop_sop (o : coreop) : option sop :=
  match o with
  | OpAssign => None | OpAddAssign => Some OAdd | OpSubAssign => Some OSub | OpMulAssign => Some OMul
  | OpDivAssign => Some ODiv | OpPowAssign => Some OPow | OpBLShiftAssign => Some OShl | OpBRShiftAssign => Some OShr
  end.

Notation penv := (env core).

(** assignment to a target: identifiers and tuples of targets *)
Fixpoint cassign (t : core) (v : value) (e : penv) {struct t} : penv :=
  let fix each (ts : list core) (vs : list value) (e : penv) {struct ts} : penv :=
    match ts, vs with
    | [], [] => e
    | t :: ts', v :: vs' => each ts' vs' (cassign t v e)
    | _, _ => poison e
    end in
  match t with
  | Id x => set_var x v e
  | TupleLiteral ts | Tuple ts =>
      match v with VTuple vs | VList vs => each ts vs e | _ => poison e end
  | _ => poison e
  end.

Definition cpmatch (p : core) (w : value) (e : penv) : option penv :=
  let lit (v : value) := match veq w v with Some true => Some e | Some false => None | None => Some (poison e) end in
  match p with
  | UnderScore => Some e
  | Id x => if String.eqb x "None" then lit VNone else Some (set_var x w e)   (* capture pattern *)
  | Int s => match z_of_string s with Some z => lit (VInt z) | None => Some (poison e) end
  | Str s => lit (VStr s)
  | Bool b => lit (VBool b)
  | None_ => lit VNone
  | _ => Some (poison e)                          (* not modelled: the run is discarded *)
  end.
(** patterns the model does not interpret *)
Definition pattern_known (p : core) : bool :=
  match p with UnderScore | Int _ | Str _ | Bool _ | None_ => true | _ => false end.

Definition class_name (c : core) : option string :=
  match c with Id s => Some s | Type_ s [] => Some s | _ => None end.
Definition ccatches (cl : core) (x : value) : bool :=
  match x, class_name cl with
  | VExc c _, Some n => negb (is_internal x) && exc_isa c n
  | _, _ => false
  end.

Definition param_name (a : core) : option string :=
  match a with FunArg false (Id x) _ None => Some x | _ => None end.
Fixpoint param_names (l : list core) : option (list string) :=
  match l with
  | [] => Some []
  | a :: r => match param_name a, param_names r with Some x, Some xs => Some (x :: xs) | _, _ => None end
  end.

Definition cdefine (d : core) (e : penv) : penv :=
  match d with
  | FunDef [] name args _ body =>
      match param_names args with
      | Some ps => add_fun name {| fparams := ps; fbody := body; fvalret := false |} e
      | None => poison e
      end
  | Import _ _ _ => e
  | _ => poison e
  end.

Section Eval.
  Variable ev : core -> penv -> (value + value) * penv.     (* evaluation one level down *)
  Variable call : fundef core -> list value -> penv -> (value + value) * penv.

  Fixpoint eval_list (l : list core) (e : penv) : (list value + value) * penv :=
    match l with
    | [] => (inl [], e)
    | x :: r =>
        match ev x e with
        | (inl v, e1) =>
            match eval_list r e1 with
            | (inl vs, e2) => (inl (v :: vs), e2)
            | (inr x, e2) => (inr x, e2)
            end
        | (inr x, e1) => (inr x, e1)
        end
    end.

  Definition cexpr1 (c : core) (e : penv) : (value + value) * penv :=
    match c with
    | Int s => (match z_of_string s with Some z => inl (VInt z) | None => unsup end, e)
    | Bool b => (inl (VBool b), e)
    | Str s => (if plain_text s then inl (VStr s) else unsup, e)
    | None_ => (inl VNone, e)
    | Id x => (match lookup_var x e with Some v => inl v | None => if String.eqb x "None" then inl VNone else unsup end, e)
    | Tuple es | TupleLiteral es =>
        match eval_list es e with (inl vs, e1) => (inl (VTuple vs), e1) | (inr x, e1) => (inr x, e1) end
    | List_ es =>
        match eval_list es e with (inl vs, e1) => (inl (VList vs), e1) | (inr x, e1) => (inr x, e1) end
    | Bin CbAnd l r =>
        match ev l e with
        | (inl v, e1) => if truthy v then ev r e1 else (inl v, e1)
        | other => other
        end
    | Bin CbOr l r =>
        match ev l e with
        | (inl v, e1) => if truthy v then (inl v, e1) else ev r e1
        | other => other
        end
    | Bin o l r =>
        match cbin_sop o with
        | Some so =>
            match ev l e with
            | (inl a, e1) =>
                match ev r e1 with
                | (inl b, e2) => (sbin so a b, e2)
                | other => other
                end
            | other => other
            end
        | None => (unsup, e)
        end
    | Un CuAddU x => match ev x e with (inl v, e1) => (sun UPos v, e1) | other => other end
    | Un CuSubU x => match ev x e with (inl v, e1) => (sun UNeg v, e1) | other => other end
    | Un CuBOneCmpl x => match ev x e with (inl v, e1) => (sun UInv v, e1) | other => other end
    | Un CuNot x => match ev x e with (inl v, e1) => (sun UNot v, e1) | other => other end
    | Ternary c t el =>
        match ev c e with
        | (inl v, e1) => if truthy v then ev t e1 else ev el e1
        | other => other
        end
    | Index item idx =>
        match ev item e with
        | (inl a, e1) =>
            match ev idx e1 with
            | (inl b, e2) => (index_value a b, e2)
            | other => other
            end
        | other => other
        end
    | FunctionCall fn args =>
        match class_name fn with
        | Some name =>
            match eval_list args e with
            | (inl vs, e1) =>
                if String.eqb name "range" then (mk_range vs, e1)
                else match find_fun name (funs e1) with
                     | Some d => call d vs e1
                     | None => match builtin name vs e1 with Some r => r | None => (unsup, e1) end
                     end
            | (inr x, e1) => (inr x, e1)
            end
        | None => (unsup, e)
        end
    | _ => (unsup, e)
    end.
End Eval.

Definition caugment (ev : core -> penv -> (value + value) * penv) (o : coreop) (l r : core) (e : penv)
  : (value + value) * penv :=
  match coreop_sop o with
  | Some so =>
      match ev l e with
      | (inl a, e1) => match ev r e1 with (inl b, e2) => (sbin so a b, e2) | other => other end
      | other => other
      end
  | None => (unsup, e)
  end.

Notation pexec ev :=
  (PySem.exec value penv value ev cassign (caugment ev) truthy VNone as_exn iter cpmatch ccatches cassign cdefine).

Fixpoint cexpr (f : nat) (c : core) (e : penv) {struct f} : (value + value) * penv :=
  match f with
  | O => (inr (exc out_of_fuel), e)
  | S f =>
      cexpr1 (cexpr f)
        (fun d vs e =>
           match bind_params (fparams d) vs [] with
           | Some fr =>
               let saved := frame e in
               match pexec (cexpr f) f (fbody d) (with_frame (Some fr) e) with
               | OReturn _ _ _ v e' => (inl v, with_frame saved e')
               | ONormal _ _ _ e' => (inl VNone, with_frame saved e')
               | ORaise _ _ _ x e' => (inr x, with_frame saved e')
               | OBreak _ _ _ e' | OContinue _ _ _ e' => (unsup, with_frame saved e')
               | OFuel _ _ _ => (inr (exc out_of_fuel), e)
               end
           | None => (unsup, e)
           end)
        c e
  end.

(** ** Running a module *)
Inductive status := Done | Uncaught (cls : string) | Unsupported | Fuel.

Definition run_py (f : nat) (c : core) : list string * status :=
  match pexec (cexpr f) f c env0 with
  | ONormal _ _ _ e => (rev (out e), if bad e then Unsupported else Done)
  | ORaise _ _ _ x e =>
      (rev (out e),
       if bad e then Unsupported
       else match x with
            | VExc c _ => if String.eqb c unsupported then Unsupported
                          else if String.eqb c out_of_fuel then Fuel else Uncaught c
            | _ => Unsupported
            end)
  | OFuel _ _ _ => ([], Fuel)
  | _ => ([], Unsupported)
  end.
