(** * Executable model of the emitted Python: [PySem] instantiated on [SemDom]

    Expressions are evaluated by [cexpr]; a call of a user function executes the body
    with [PySem.exec] at the next lower fuel.  The model is validated on every run against
    python3 executing the implementation's text for the same Core tree.

    Classes: a [ClassDef] records the class attributes (constant initialisers only), the methods
    and the linearisation of the class (depth first, left to right; a repeated ancestor is outside
    the model).  [C(args)] allocates an object in the heap kept in the environment and runs the
    first [__init__] found along the linearisation; [o.x] reads the instance field, then the class
    attributes along the linearisation; [o.x = v] writes the instance field; [o.m(args)] calls the
    method with [self] bound; [Parent.__init__(self, ..)] is the call of the plain function.  An
    object whose linearisation contains a builtin exception class carries the [args] of the
    exception (set by the constructor call and by [Exception.__init__]); it can be raised, is caught
    through the linearisation, and is printed as Python prints an exception.  Everything else
    (dunder methods, bound methods as values, printing of plain objects, ...) is [unsup]. *)
From Coq Require Import List String Bool ZArith Ascii.
From MambaModel Require Import model.Core model.SemDom model.PySem.
Import ListNotations.
Local Open Scope string_scope.

Record fundef (B : Type) := { fparams : list string; fbody : B; fvalret : bool }.
Arguments fparams {B}. Arguments fbody {B}. Arguments fvalret {B}.

(** A class.  The record serves both evaluators: the model of Python uses [cattrs] (class
    attributes), [cmethods] and [cmro]; the reference semantics of Mamba also [cparams] (constructor
    arguments) and the argument expressions of the parent calls in [cparents]. *)
Record classdef (B : Type) := {
  cparams : list string;
  cparents : list (string * list B);
  cattrs : store;
  cmethods : list (string * fundef B);
  cmro : list string }.
Arguments cparams {B}. Arguments cparents {B}. Arguments cattrs {B}. Arguments cmethods {B}. Arguments cmro {B}.

(** An object: its fields and, for an instance of an exception class, the exception's [args] *)
Record obj := { ocls : string; ofields : store; oargs : option (list value) }.

(** [bad] is set when something outside the modelled fragment was met in a position that
    cannot report it (an assignment target, a pattern, a definition) *)
Record env (B : Type) := {
  globals : store; frame : option store; funs : list (string * fundef B);
  classes : list (string * classdef B); heap : list obj;
  out : list string;                    (* printed lines, newest first *)
  bad : bool }.
Arguments globals {B}. Arguments frame {B}. Arguments funs {B}. Arguments classes {B}. Arguments heap {B}.
Arguments out {B}. Arguments bad {B}.

Section Env.
  Context {B : Type}.
  Definition env0 : env B :=
    {| globals := []; frame := None; funs := []; classes := []; heap := []; out := []; bad := false |}.
  Definition lookup_var (x : string) (e : env B) : option value :=
    match frame e with
    | Some fr => match sget x fr with Some v => Some v | None => sget x (globals e) end
    | None => sget x (globals e)
    end.
  Definition set_var (x : string) (v : value) (e : env B) : env B :=
    match frame e with
    | Some fr => {| globals := globals e; frame := Some (sset x v fr); funs := funs e; classes := classes e;
                    heap := heap e; out := out e; bad := bad e |}
    | None => {| globals := sset x v (globals e); frame := None; funs := funs e; classes := classes e;
                 heap := heap e; out := out e; bad := bad e |}
    end.
  Definition poison (e : env B) : env B :=
    {| globals := globals e; frame := frame e; funs := funs e; classes := classes e; heap := heap e;
       out := out e; bad := true |}.
  Definition emit (line : string) (e : env B) : env B :=
    {| globals := globals e; frame := frame e; funs := funs e; classes := classes e; heap := heap e;
       out := line :: out e; bad := bad e |}.
  Definition with_frame (fr : option store) (e : env B) : env B :=
    {| globals := globals e; frame := fr; funs := funs e; classes := classes e; heap := heap e;
       out := out e; bad := bad e |}.
  Definition add_fun (name : string) (d : fundef B) (e : env B) : env B :=
    {| globals := globals e; frame := frame e; funs := (name, d) :: funs e; classes := classes e; heap := heap e;
       out := out e; bad := bad e |}.
  Definition add_class (name : string) (d : classdef B) (e : env B) : env B :=
    {| globals := globals e; frame := frame e; funs := funs e; classes := (name, d) :: classes e; heap := heap e;
       out := out e; bad := bad e |}.
  Definition set_heap (h : list obj) (e : env B) : env B :=
    {| globals := globals e; frame := frame e; funs := funs e; classes := classes e; heap := h;
       out := out e; bad := bad e |}.
  Fixpoint find_fun (name : string) (l : list (string * fundef B)) : option (fundef B) :=
    match l with
    | [] => None
    | (n, d) :: r => if String.eqb n name then Some d else find_fun name r
    end.
  Fixpoint find_class (name : string) (l : list (string * classdef B)) : option (classdef B) :=
    match l with
    | [] => None
    | (n, d) :: r => if String.eqb n name then Some d else find_class name r
    end.

  (** *** The heap *)
  Fixpoint list_set {X} (l : list X) (n : nat) (x : X) : list X :=
    match l, n with
    | [], _ => []
    | _ :: r, O => x :: r
    | y :: r, S n' => y :: list_set r n' x
    end.
  Definition get_obj (a : nat) (e : env B) : option obj := nth_error (heap e) a.
  Definition put_obj (a : nat) (o : obj) (e : env B) : env B := set_heap (list_set (heap e) a o) e.
  Definition alloc (o : obj) (e : env B) : nat * env B :=
    (List.length (heap e), set_heap (heap e ++ [o])%list e).
  Definition field_of (a : nat) (x : string) (e : env B) : option value :=
    match get_obj a e with Some o => sget x (ofields o) | None => None end.
  Definition set_field (a : nat) (x : string) (v : value) (e : env B) : env B :=
    match get_obj a e with
    | Some o => put_obj a {| ocls := ocls o; ofields := sset x v (ofields o); oargs := oargs o |} e
    | None => poison e
    end.
  Definition set_args (a : nat) (vs : list value) (e : env B) : env B :=
    match get_obj a e with
    | Some o => put_obj a {| ocls := ocls o; ofields := ofields o; oargs := Some vs |} e
    | None => poison e
    end.

  (** *** Classes: linearisation, lookup of methods and class attributes along it *)
  Definition parent_mro (p : string) (cs : list (string * classdef B)) : option (list string) :=
    match find_class p cs with
    | Some cd => Some (cmro cd)
    | None => if is_builtin_exception p then Some (exc_ancestors p) else None
    end.
  Fixpoint parents_mro (ps : list string) (cs : list (string * classdef B)) : option (list string) :=
    match ps with
    | [] => Some []
    | p :: r => match parent_mro p cs, parents_mro r cs with
                | Some a, Some b => Some (a ++ b)%list
                | _, _ => None
                end
    end.
  (** depth first, left to right; this is Python's C3 order exactly when no ancestor is reached
      twice, which is required ([no_dup]) *)
  Definition new_mro (name : string) (ps : list string) (cs : list (string * classdef B)) : option (list string) :=
    match parents_mro ps cs with
    | Some l => let m := name :: l in if no_dup m then Some m else None
    | None => None
    end.

  Inductive mfound := MUser (d : fundef B) | MBuiltin (cls : string) | MNone.
  (** the first class of the linearisation that defines [m]; a builtin class ends the search *)
  Fixpoint find_method (m : string) (mro : list string) (cs : list (string * classdef B)) : mfound :=
    match mro with
    | [] => MNone
    | c :: r =>
        match find_class c cs with
        | Some cd => match find_fun m (cmethods cd) with Some d => MUser d | None => find_method m r cs end
        | None => if is_builtin_exception c then MBuiltin c else find_method m r cs
        end
    end.
  Fixpoint class_attr (x : string) (mro : list string) (cs : list (string * classdef B)) : option value :=
    match mro with
    | [] => None
    | c :: r =>
        match find_class c cs with
        | Some cd => match sget x (cattrs cd) with Some v => Some v | None => class_attr x r cs end
        | None => class_attr x r cs
        end
    end.

  (** attribute of a value without effects (used for assignment targets [a.b.c = v]) *)
  Definition read_attr_pure (v : value) (x : string) (e : env B) : option value :=
    match v with
    | VObj mro a =>
        if dunder_name x then None
        else match field_of a x e with
             | Some w => Some w
             | None => match find_method x mro (classes e) with
                       | MNone => class_attr x mro (classes e)
                       | _ => None
                       end
             end
    | _ => None
    end.
  Fixpoint walk (v : value) (p : list string) (e : env B) : option value :=
    match p with
    | [] => Some v
    | x :: r => match read_attr_pure v x e with Some w => walk w r e | None => None end
    end.
  Fixpoint split_last (l : list string) : option (list string * string) :=
    match l with
    | [] => None
    | [x] => Some ([], x)
    | x :: r => match split_last r with Some (i, z) => Some (x :: i, z) | None => None end
    end.
  (** [x.f1...fn.fld = v]; [must_exist]: the field has to be there already (reference semantics) *)
  Definition assign_attr (must_exist : bool) (p : list string) (v : value) (e : env B) : env B :=
    match p with
    | x :: rest =>
        match lookup_var x e, split_last rest with
        | Some base, Some (mid, fld) =>
            match walk base mid e with
            | Some (VObj _ a) =>
                if dunder_name fld then poison e
                else if must_exist && match field_of a fld e with Some _ => false | None => true end then poison e
                else set_field a fld v e
            | _ => poison e
            end
        | _, _ => poison e
        end
    | [] => poison e
    end.

  (** printing: an instance of an exception class prints as its [args]; other objects are not modelled *)
  Definition show_in (e : env B) (v : value) : option string :=
    match v with
    | VObj _ a =>
        match get_obj a e with
        | Some o => match oargs o with Some args => show (VExc "" args) | None => None end
        | None => None
        end
    | other => show other
    end.
  Fixpoint shows_in (e : env B) (l : list value) : option (list string) :=
    match l with
    | [] => Some []
    | x :: r => match show_in e x, shows_in e r with Some a, Some b => Some (a :: b) | _, _ => None end
    end.

  Fixpoint bind_params (ps : list string) (vs : list value) (fr : store) : option store :=
    match ps, vs with
    | [], [] => Some fr
    | p :: ps', v :: vs' => bind_params ps' vs' (sset p v fr)
    | _, _ => None
    end.

  (** builtins shared by both languages: [print], exception constructors, [len], [str] *)
  Definition builtin (name : string) (args : list value) (e : env B) : option ((value + value) * env B) :=
    if String.eqb name "print" then
      Some (match shows_in e args with
            | Some ss => (inl VNone, emit (join " " ss) e)
            | None => (unsup, e)
            end)
    else if is_builtin_exception name then Some (inl (VExc name args), e)
    else if String.eqb name "len" then
      Some (match args with
            | [VList l] | [VTuple l] => (inl (VInt (Z.of_nat (List.length l))), e)
            | [VStr s] => (inl (VInt (Z.of_nat (String.length s))), e)
            | [VRange a b s] => (inl (VInt (range_len a b s)), e)
            | _ => (unsup, e)
            end)
    else if String.eqb name "str" then
      Some (match args with
            | [v] => match show_in e v with Some s => (inl (VStr s), e) | None => (unsup, e) end
            | _ => (unsup, e)
            end)
    else None.

  Definition mk_range (args : list value) : value + value :=
    match args with
    | [VInt b] => inl (VRange 0 b 1)
    | [VInt a; VInt b] => inl (VRange a b 1)
    | [VInt a; VInt b; VInt s] => if Z.eqb s 0 then inr (rt_exc "ValueError") else inl (VRange a b s)
    | _ => unsup
    end.

  Definition index_value (item idx : value) : value + value :=
    let at_ (l : list value) (i : Z) : value + value :=
      let n := Z.of_nat (List.length l) in
      let j := if Z.ltb i 0 then Z.add i n else i in
      if Z.ltb j 0 || Z.leb n j then inr (rt_exc "IndexError")
      else match nth_error l (Z.to_nat j) with Some v => inl v | None => inr (rt_exc "IndexError") end in
    match item, idx with
    | VList l, VInt i => at_ l i
    | VTuple l, VInt i => at_ l i
    | _, _ => unsup
    end.

  Definition iter (v : value) : list value + value :=
    match v with
    | VRange a b s => inl (map VInt (range_list a b s))
    | VList l | VTuple l => inl l
    | _ => unsup
    end.

  Definition as_exn (v : value) : value :=
    match v with
    | VExc _ _ => v
    | VObj mro _ => if mro_is_exception mro then v else exc unsupported
    | _ => exc unsupported
    end.

  Definition plain_text (s : string) : bool := plain_string s && negb (existsb (fun c => Ascii.eqb c "{"%char || Ascii.eqb c "}"%char) (list_ascii_of_string s)).
End Env.

Definition cbin_sop (o : cbin) : option sop :=
  match o with
  | CbAdd => Some OAdd | CbSub => Some OSub | CbMul => Some OMul | CbDiv => Some ODiv | CbFDiv => Some OFDiv
  | CbMod => Some OMod | CbPow => Some OPow | CbBAnd => Some OBAnd | CbBOr => Some OBOr | CbBXOr => Some OBXor
  | CbBLShift => Some OShl | CbBRShift => Some OShr
  | CbGe => Some OGt | CbGeq => Some OGe | CbLe => Some OLt | CbLeq => Some OLe | CbEq => Some OEq | CbNeq => Some ONeq
  | CbIs => Some OIs | CbIsN => Some OIsNot | CbIn => Some OIn
  | CbAnd | CbOr | CbIsA => None
  end.

Definition coreop_sop (o : coreop) : option sop :=
  match o with
  | OpAssign => None | OpAddAssign => Some OAdd | OpSubAssign => Some OSub | OpMulAssign => Some OMul
  | OpDivAssign => Some ODiv | OpPowAssign => Some OPow | OpBLShiftAssign => Some OShl | OpBRShiftAssign => Some OShr
  end.

Notation penv := (env core).

(** the names of an attribute path [a.b.c], however the property calls are nested *)
Fixpoint path_of (c : core) : option (list string) :=
  match c with
  | Id x => Some [x]
  | PropertyCall a b =>
      match path_of a, path_of b with Some p, Some q => Some (p ++ q)%list | _, _ => None end
  | _ => None
  end.

(** assignment to a target: identifiers, tuples of targets, attributes of objects *)
Fixpoint cassign (t : core) (v : value) (e : penv) {struct t} : penv :=
  let fix each (ts : list core) (vs : list value) (e : penv) {struct ts} : penv :=
    match ts, vs with
    | [], [] => e
    | t :: ts', v :: vs' => each ts' vs' (cassign t v e)
    | _, _ => poison e
    end in
  match t with
  | Id x => set_var x v e
  | TupleLiteral ts | Tuple ts =>
      match v with VTuple vs | VList vs => each ts vs e | _ => poison e end
  | PropertyCall _ _ =>
      match path_of t with Some p => assign_attr false p v e | None => poison e end
  | _ => poison e
  end.

Definition cpmatch (p : core) (w : value) (e : penv) : option penv :=
  let lit (v : value) := match veq w v with Some true => Some e | Some false => None | None => Some (poison e) end in
  match p with
  | UnderScore => Some e
  | Id x => if String.eqb x "None" then lit VNone else Some (set_var x w e)   (* capture pattern *)
  | Int s => match z_of_string s with Some z => lit (VInt z) | None => Some (poison e) end
  | Str s => lit (VStr s)
  | Bool b => lit (VBool b)
  | None_ => lit VNone
  | _ => Some (poison e)                          (* not modelled: the run is discarded *)
  end.
(** patterns the model does not interpret *)
Definition pattern_known (p : core) : bool :=
  match p with UnderScore | Int _ | Str _ | Bool _ | None_ => true | _ => false end.

Definition class_name (c : core) : option string :=
  match c with Id s => Some s | Type_ s [] => Some s | _ => None end.
Definition ccatches (cl : core) (x : value) : bool :=
  match x, class_name cl with
  | VExc c _, Some n => negb (is_internal x) && exc_isa c n
  | VObj mro _, Some n => mro_isa mro n
  | _, _ => false
  end.

(** the synthesised constructor has a bare [self] as first parameter *)
Definition param_name (a : core) : option string :=
  match a with FunArg false (Id x) _ None => Some x | Id x => Some x | _ => None end.
Fixpoint param_names (l : list core) : option (list string) :=
  match l with
  | [] => Some []
  | a :: r => match param_name a, param_names r with Some x, Some xs => Some (x :: xs) | _, _ => None end
  end.

(** initialisers of class attributes: constants only (a class body is executed by [define],
    which has no evaluator at hand) *)
Definition const_eval (c : core) : option value :=
  match c with
  | Int s => match z_of_string s with Some z => Some (VInt z) | None => None end
  | Bool b => Some (VBool b)
  | Str s => if plain_text s then Some (VStr s) else None
  | None_ => Some VNone
  | Un CuSubU (Int s) => match z_of_string s with Some z => Some (VInt (- z)) | None => None end
  | _ => None
  end.

Fixpoint class_names (l : list core) : option (list string) :=
  match l with
  | [] => Some []
  | a :: r => match class_name a, class_names r with Some x, Some xs => Some (x :: xs) | _, _ => None end
  end.

(** the statements of a class body: attributes with constant initialisers, methods; a dunder
    method other than [__init__] changes the meaning of operators, printing, truth: not modelled *)
Fixpoint class_body (l : list core) (attrs : store) (ms : list (string * fundef core))
  : option (store * list (string * fundef core)) :=
  match l with
  | [] => Some (attrs, ms)
  | st :: r =>
      match st with
      | VarDef (Id x) _ (Some c) =>
          if dunder_name x then None
          else match const_eval c with Some v => class_body r (sset x v attrs) ms | None => None end
      | FunDef [] m args _ body =>
          if dunder_name m && negb (String.eqb m "__init__") then None
          else match param_names args with
               | Some ps => class_body r attrs ((m, {| fparams := ps; fbody := body; fvalret := false |}) :: ms)
               | None => None
               end
      | Pass | DocStr _ => class_body r attrs ms
      | _ => None
      end
  end.

Definition is_some {X} (o : option X) : bool := match o with Some _ => true | None => false end.

Definition cdefine (d : core) (e : penv) : penv :=
  match d with
  | FunDef [] name args _ body =>
      match param_names args with
      | Some ps =>
          if is_some (find_class name (classes e)) then poison e
          else add_fun name {| fparams := ps; fbody := body; fvalret := false |} e
      | None => poison e
      end
  | ClassDef cname parents (Block body) =>
      match class_name cname, class_names parents with
      | Some name, Some ps =>
          if is_builtin_exception name || is_some (find_fun name (funs e)) || is_some (find_class name (classes e))
          then poison e
          else match new_mro name ps (classes e), class_body body [] [] with
               | Some mro, Some (attrs, ms) =>
                   add_class name {| cparams := []; cparents := map (fun p => (p, [])) ps; cattrs := attrs;
                                     cmethods := ms; cmro := mro |} e
               | _, _ => poison e
               end
      | _, _ => poison e
      end
  | Import _ _ _ => e
  | _ => poison e
  end.

Section Eval.
  Variable ev : core -> penv -> (value + value) * penv.     (* evaluation one level down *)
  Variable call : fundef core -> list value -> penv -> (value + value) * penv.

  Fixpoint eval_list (l : list core) (e : penv) : (list value + value) * penv :=
    match l with
    | [] => (inl [], e)
    | x :: r =>
        match ev x e with
        | (inl v, e1) =>
            match eval_list r e1 with
            | (inl vs, e2) => (inl (v :: vs), e2)
            | (inr x, e2) => (inr x, e2)
            end
        | (inr x, e1) => (inr x, e1)
        end
    end.

  (** [o.x]: the instance field, then the class attributes; a method read as a value and the
      attributes of builtin classes are not modelled *)
  Definition read_attr (mro : list string) (a : nat) (x : string) (e : penv) : value + value :=
    if dunder_name x then unsup
    else match field_of a x e with
         | Some v => inl v
         | None =>
             match find_method x mro (classes e) with
             | MNone => match class_attr x mro (classes e) with
                        | Some v => inl v
                        | None => if mro_is_exception mro then unsup else inr (rt_exc "AttributeError")
                        end
             | _ => unsup
             end
         end.

  (** the function [o.m] is bound to *)
  Definition method_of (mro : list string) (a : nat) (m : string) (e : penv) : fundef core + value :=
    if dunder_name m then inr (exc unsupported)
    else match field_of a m e, class_attr m mro (classes e) with
         | None, None =>
             match find_method m mro (classes e) with
             | MUser d => inl d
             | MBuiltin _ => inr (exc unsupported)
             | MNone => inr (if mro_is_exception mro then exc unsupported else rt_exc "AttributeError")
             end
         | _, _ => inr (exc unsupported)
         end.

  (** [C(args)] *)
  Definition instantiate (name : string) (cd : classdef core) (vs : list value) (e : penv) : (value + value) * penv :=
    let mro := cmro cd in
    let '(a, e1) := alloc {| ocls := name; ofields := []; oargs := if mro_is_exception mro then Some vs else None |} e in
    let self := VObj mro a in
    match find_method "__init__" mro (classes e1) with
    | MUser d =>
        match call d (self :: vs) e1 with
        | (inl VNone, e2) => (inl self, e2)
        | (inl _, e2) => (unsup, e2)
        | (inr x, e2) => (inr x, e2)
        end
    | MBuiltin _ => (inl self, e1)
    | MNone => match vs with [] => (inl self, e1) | _ => (unsup, e1) end
    end.

  (** [C.m(args)] for a class [C]: the plain function, [self] among the arguments *)
  Definition static_call (mro : list string) (m : string) (vs : list value) (e : penv) : (value + value) * penv :=
    if dunder_name m && negb (String.eqb m "__init__") then (unsup, e)
    else match find_method m mro (classes e) with
         | MUser d => call d vs e
         | MBuiltin b =>
             if String.eqb m "__init__" then
               match vs with
               | VObj omro a :: rest =>
                   match get_obj a e with
                   | Some o => match oargs o with
                               | Some _ => if mro_isa omro b then (inl VNone, set_args a rest e) else (unsup, e)
                               | None => (unsup, e)
                               end
                   | None => (unsup, e)
                   end
               | _ => (unsup, e)
               end
             else (unsup, e)
         | MNone =>
             (* no class of the linearisation defines it: [object.__init__(self)] does nothing *)
             if String.eqb m "__init__" then
               match vs with [VObj _ _] => (inl VNone, e) | _ => (unsup, e) end
             else (unsup, e)
         end.

  (** the linearisation of the class an expression names, when it names one *)
  Definition static_class (o : core) (e : penv) : option (list string) :=
    match class_name o with
    | Some c =>
        match lookup_var c e with
        | Some _ => None
        | None => match find_class c (classes e) with
                  | Some cd => Some (cmro cd)
                  | None => if is_builtin_exception c then Some (exc_ancestors c) else None
                  end
        end
    | None => None
    end.

  Definition cexpr1 (c : core) (e : penv) : (value + value) * penv :=
    match c with
    | Int s => (match z_of_string s with Some z => inl (VInt z) | None => unsup end, e)
    | Bool b => (inl (VBool b), e)
    | Str s => (if plain_text s then inl (VStr s) else unsup, e)
    | None_ => (inl VNone, e)
    | Id x => (match lookup_var x e with Some v => inl v | None => if String.eqb x "None" then inl VNone else unsup end, e)
    | Tuple es | TupleLiteral es =>
        match eval_list es e with (inl vs, e1) => (inl (VTuple vs), e1) | (inr x, e1) => (inr x, e1) end
    | List_ es =>
        match eval_list es e with (inl vs, e1) => (inl (VList vs), e1) | (inr x, e1) => (inr x, e1) end
    | Bin CbAnd l r =>
        match ev l e with
        | (inl v, e1) => if truthy v then ev r e1 else (inl v, e1)
        | other => other
        end
    | Bin CbOr l r =>
        match ev l e with
        | (inl v, e1) => if truthy v then (inl v, e1) else ev r e1
        | other => other
        end
    | Bin o l r =>
        match cbin_sop o with
        | Some so =>
            match ev l e with
            | (inl a, e1) =>
                match ev r e1 with
                | (inl b, e2) => (sbin so a b, e2)
                | other => other
                end
            | other => other
            end
        | None => (unsup, e)
        end
    | Un CuAddU x => match ev x e with (inl v, e1) => (sun UPos v, e1) | other => other end
    | Un CuSubU x => match ev x e with (inl v, e1) => (sun UNeg v, e1) | other => other end
    | Un CuBOneCmpl x => match ev x e with (inl v, e1) => (sun UInv v, e1) | other => other end
    | Un CuNot x => match ev x e with (inl v, e1) => (sun UNot v, e1) | other => other end
    | Ternary c t el =>
        match ev c e with
        | (inl v, e1) => if truthy v then ev t e1 else ev el e1
        | other => other
        end
    | Index item idx =>
        match ev item e with
        | (inl a, e1) =>
            match ev idx e1 with
            | (inl b, e2) => (index_value a b, e2)
            | other => other
            end
        | other => other
        end
    | FunctionCall fn args =>
        match class_name fn with
        | Some name =>
            match eval_list args e with
            | (inl vs, e1) =>
                if String.eqb name "range" then (mk_range vs, e1)
                else match find_fun name (funs e1) with
                     | Some d => call d vs e1
                     | None =>
                         match find_class name (classes e1) with
                         | Some cd => instantiate name cd vs e1
                         | None => match builtin name vs e1 with Some r => r | None => (unsup, e1) end
                         end
                     end
            | (inr x, e1) => (inr x, e1)
            end
        | None => (unsup, e)
        end
    | PropertyCall o (PropertyCall p q) => ev (PropertyCall (PropertyCall o p) q) e      (* [o.p.q] is [(o.p).q] *)
    | PropertyCall o (FunctionCall fn args) =>
        match class_name fn with
        | Some m =>
            match static_class o e with
            | Some mro =>
                match eval_list args e with
                | (inl vs, e1) => static_call mro m vs e1
                | (inr x, e1) => (inr x, e1)
                end
            | None =>
                match ev o e with
                | (inl (VObj mro a), e1) =>
                    match method_of mro a m e1 with
                    | inl d =>
                        match eval_list args e1 with
                        | (inl vs, e2) => call d (VObj mro a :: vs) e2
                        | (inr x, e2) => (inr x, e2)
                        end
                    | inr x => (inr x, e1)
                    end
                | (inl _, e1) => (unsup, e1)
                | other => other
                end
            end
        | None => (unsup, e)
        end
    | PropertyCall o (Id x) =>
        match ev o e with
        | (inl (VObj mro a), e1) => (read_attr mro a x e1, e1)
        | (inl _, e1) => (unsup, e1)
        | other => other
        end
    | _ => (unsup, e)
    end.
End Eval.

Definition caugment (ev : core -> penv -> (value + value) * penv) (o : coreop) (l r : core) (e : penv)
  : (value + value) * penv :=
  match coreop_sop o with
  | Some so =>
      match ev l e with
      | (inl a, e1) => match ev r e1 with (inl b, e2) => (sbin so a b, e2) | other => other end
      | other => other
      end
  | None => (unsup, e)
  end.

Notation pexec ev :=
  (PySem.exec value penv value ev cassign (caugment ev) truthy VNone as_exn iter cpmatch ccatches cassign cdefine).

Fixpoint cexpr (f : nat) (c : core) (e : penv) {struct f} : (value + value) * penv :=
  match f with
  | O => (inr (exc out_of_fuel), e)
  | S f =>
      cexpr1 (cexpr f)
        (fun d vs e =>
           match bind_params (fparams d) vs [] with
           | Some fr =>
               let saved := frame e in
               match pexec (cexpr f) f (fbody d) (with_frame (Some fr) e) with
               | OReturn _ _ _ v e' => (inl v, with_frame saved e')
               | ONormal _ _ _ e' => (inl VNone, with_frame saved e')
               | ORaise _ _ _ x e' => (inr x, with_frame saved e')
               | OBreak _ _ _ e' | OContinue _ _ _ e' => (unsup, with_frame saved e')
               | OFuel _ _ _ => (inr (exc out_of_fuel), e)
               end
           | None => (unsup, e)
           end)
        c e
  end.

(** ** Running a module *)
Inductive status := Done | Uncaught (cls : string) | Unsupported | Fuel.

Definition run_py (f : nat) (c : core) : list string * status :=
  match pexec (cexpr f) f c env0 with
  | ONormal _ _ _ e => (rev (out e), if bad e then Unsupported else Done)
  | ORaise _ _ _ x e =>
      (rev (out e),
       if bad e then Unsupported
       else match x with
            | VExc c _ => if String.eqb c unsupported then Unsupported
                          else if String.eqb c out_of_fuel then Fuel else Uncaught c
            | VObj (c :: _) _ => Uncaught c
            | _ => Unsupported
            end)
  | OFuel _ _ _ => ([], Fuel)
  | _ => ([], Unsupported)
  end.
