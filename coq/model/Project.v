(** * Project.v - executable model of the project driver (property C13)

    Mirrors, line by line where it matters:
    - [src/lib.rs]   [transpile_dir] (source/target resolution, [create_dir] of the target, listing,
                     reading, the call of [mamba_to_python], the write loop with [with_extension("py")])
                     and [mamba_to_python] (strip_prefix of paths, parse ALL files, stop on any parse
                     error; ONE context from all ASTs; check ALL files, stop on any type error; generate
                     ALL files, stop on any error; only then return the Python texts);
    - [src/io.rs]    [relative_files] (glob [**/*.mamba], which also matches directories, in the
                     component-wise sorted order of the glob crate), [read_source], [write_source]
                     ([create_dir_all] of the parent, CRLF -> LF, open with create+truncate);
    - [src/check/context/{mod,generic,resource}.rs]: how the declarations of all files are merged into
      the three [HashSet]s of the [Context] (insertion keeps the FIRST element with a given key, [union]
      keeps [self]'s element) and how they are looked up ([iter().find(..)] in the set's enumeration
      order, which is an explicit parameter [ord] here).

    The per-file stages are [Section] variables: [parse], [decls_of] (the [GenericClass/Field/Function]
    extraction of one file), [check], [gen].  [check] and [gen] receive the context only through the
    four by-name look-ups the Rust code uses (record [lookups]).

    The file system is an association list from paths (lists of components) to nodes.  Not modelled:
    symbolic links, permissions, non-UTF-8 contents, short writes, paths containing "." or ".."
    components, absolute [src]/[target] arguments, failure to load the built-in stubs. *)
From Coq Require Import List String Ascii Bool Arith.
Import ListNotations.
Local Open Scope string_scope.
Local Open Scope list_scope.

(** ** Results *)
Inductive res (A E : Type) : Type := Ok (a : A) | Err (e : E).
Arguments Ok {A E} a.
Arguments Err {A E} e.

(** ** Paths: lists of components *)
Definition path := list string.
Definition path_eq_dec : forall p q : path, {p = q} + {p <> q} := list_eq_dec string_dec.
Definition path_eqb (p q : path) : bool := if path_eq_dec p q then true else false.

(** [Path::strip_prefix] (component-wise). *)
Fixpoint strip (pre p : path) : option path :=
  match pre, p with
  | [], _ => Some p
  | a :: pre', b :: p' => if String.eqb a b then strip pre' p' else None
  | _ :: _, [] => None
  end.

Definition parent (p : path) : path := removelast p.
Definition file_name (p : path) : string := last p "".

(** The closure [strip_prefix] of [mamba_to_python]: a path below [source_dir] is shown relative to it,
    prefixed with the last component of [source_dir]; any other path is left alone. *)
Definition strip_prefix (source_dir p : path) : path :=
  match strip source_dir p with
  | Some rest => match source_dir with [] => rest | _ => [last source_dir ""] ++ rest end
  | None => p
  end.

(** ** File names *)
Definition dot : ascii := "."%char.
Definition rev_s (s : string) : list ascii := rev (list_ascii_of_string s).

(** [r] is the reversed name; answer: (reversed text before the last dot, text after it). *)
Fixpoint split_dot_rev (r acc : list ascii) : option (list ascii * list ascii) :=
  match r with
  | [] => None
  | c :: r' => if Ascii.eqb c dot then Some (r', acc) else split_dot_rev r' (c :: acc)
  end.

(** [Path::file_stem] ([rsplit_file_at_dot]): the name up to the last dot, except that a name without
    dot, or whose only dot is the first character, is its own stem. *)
Definition file_stem (n : string) : string :=
  match split_dot_rev (rev_s n) [] with
  | None => n
  | Some ([], _) => n
  | Some (before_rev, _) => string_of_list_ascii (rev before_rev)
  end.

(** [Path::with_extension("py")] on the last component (".." has no file name and is left alone). *)
Definition with_extension_py (n : string) : string :=
  if String.eqb n ".." then n else file_stem n ++ ".py".

Definition with_ext_path (p : path) : path :=
  match p with
  | [] => []
  | _ => removelast p ++ [with_extension_py (last p "")]
  end.

Fixpoint starts (pre l : list ascii) : bool :=
  match pre, l with
  | [], _ => true
  | a :: pre', b :: l' => Ascii.eqb a b && starts pre' l'
  | _ :: _, [] => false
  end.

(** the glob pattern [*.mamba] on one component (an empty stem matches: ".mamba") *)
Definition is_mamba (n : string) : bool := starts (rev_s ".mamba") (rev_s n).

(** ** Order of the glob crate: depth first, every directory's entries sorted by name (byte order) *)
Fixpoint path_leb (p q : path) : bool :=
  match p, q with
  | [], _ => true
  | _ :: _, [] => false
  | a :: p', b :: q' =>
      match String.compare a b with
      | Lt => true
      | Gt => false
      | Eq => path_leb p' q'
      end
  end.

Fixpoint insert_sorted (p : path) (l : list path) : list path :=
  match l with
  | [] => [p]
  | q :: l' => if path_leb p q then p :: l else q :: insert_sorted p l'
  end.

Definition sort_paths (l : list path) : list path := fold_right insert_sorted [] l.

(** ** File system *)
Inductive node := File (t : string) | Dir.
Definition FS := list (path * node).

Fixpoint fs_get (fs : FS) (p : path) : option node :=
  match fs with
  | [] => None
  | (q, n) :: r => if path_eqb q p then Some n else fs_get r p
  end.

(** replace in place, or append *)
Fixpoint fs_set (fs : FS) (p : path) (n : node) : FS :=
  match fs with
  | [] => [(p, n)]
  | (q, m) :: r => if path_eqb q p then (q, n) :: r else (q, m) :: fs_set r p n
  end.

(** the root [[]] is a directory *)
Definition is_dir (fs : FS) (p : path) : bool :=
  match p with
  | [] => true
  | _ => match fs_get fs p with Some Dir => true | _ => false end
  end.

Definition is_file (fs : FS) (p : path) : bool :=
  match p with
  | [] => false
  | _ => match fs_get fs p with Some (File _) => true | _ => false end
  end.

Definition exists_ (fs : FS) (p : path) : bool := is_dir fs p || is_file fs p.

(** [std::fs::create_dir]: the path must be new and its parent a directory *)
Definition create_dir (fs : FS) (p : path) : option FS :=
  if exists_ fs p then None
  else if is_dir fs (parent p) then Some (fs_set fs p Dir) else None.

(** [std::fs::create_dir_all]: every missing ancestor is created; an ancestor that is a file is an
    error (on a well-formed tree nothing has been created at that point). *)
Fixpoint mkdirs_from (fs : FS) (pre rest : path) : option FS :=
  match rest with
  | [] => Some fs
  | c :: rest' =>
      let q := pre ++ [c] in
      match fs_get fs q with
      | Some Dir => mkdirs_from fs q rest'
      | Some (File _) => None
      | None => mkdirs_from (fs_set fs q Dir) q rest'
      end
  end.
Definition mkdirs (fs : FS) (p : path) : option FS := mkdirs_from fs [] p.

(** [source.replace("\r\n", "\n")] *)
Definition cr : ascii := Ascii.ascii_of_nat 13.
Definition lf : ascii := Ascii.ascii_of_nat 10.
Fixpoint crlf (s : string) : string :=
  match s with
  | EmptyString => EmptyString
  | String c s' =>
      match s' with
      | String c' s'' => if Ascii.eqb c cr && Ascii.eqb c' lf then String lf (crlf s'') else String c (crlf s')
      | EmptyString => String c EmptyString
      end
  end.

(** ** Errors returned by the driver *)
Inductive stage := SParse | SCtx | SCheck | SGen.
Inductive ioop := IoCreateTarget | IoRead | IoMkdirs | IoOpenWrite | IoNoParent.

Section Driver.
  (** payload of a diagnostic: everything but the path (message, position, source excerpt) *)
  Variable msg : Type.

  Inductive err :=
  | ESrcMissing (p : path)                       (* "Source directory does not exist: <p>" *)
  | EIo (op : ioop) (p : option path)            (* "<os error>: <p>"; create_dir of the target prints no path *)
  | EStage (st : stage) (p : option path) (m : msg).  (* rendered with " --> <p>:line:col"; None is "<unknown>" *)

  Definition is_write_err (e : err) : bool :=
    match e with
    | EIo IoMkdirs _ | EIo IoOpenWrite _ | EIo IoNoParent _ => true
    | _ => false
    end.

  (** *** io.rs *)
  Definition read_source (fs : FS) (p : path) : res string err :=
    match p with
    | [] => Err (EIo IoRead (Some p))
    | _ => match fs_get fs p with
           | Some (File t) => Ok t
           | _ => Err (EIo IoRead (Some p))
           end
    end.

  Definition write_source (fs : FS) (p : path) (t : string) : res FS err :=
    match p with
    | [] => Err (EIo IoNoParent (Some p))
    | _ =>
        match mkdirs fs (parent p) with
        | None => Err (EIo IoMkdirs (Some (parent p)))
        | Some fs1 =>
            if is_dir fs1 p then Err (EIo IoOpenWrite (Some p))
            else Ok (fs_set fs1 p (File (crlf t)))
        end
    end.

  (** suffix of [p] below [src], at least one component *)
  Definition under (src p : path) : option path :=
    match strip src p with
    | Some (c :: r) => Some (c :: r)
    | _ => None
    end.

  (** since c8709a7 glob matches that are not files (directories named [*.mamba]) are skipped *)
  Definition glob_mamba (fs : FS) (src : path) : list path :=
    sort_paths
      (flat_map (fun e : path * node =>
                   match under src (fst e), snd e with
                   | Some r, File _ => if is_mamba (file_name r) then [r] else []
                   | _, _ => []
                   end) fs).

  Definition relative_files (fs : FS) (src : path) : list path :=
    if is_file fs src then [[file_name src]] else glob_mamba fs src.

  (** *** the context (check/context/mod.rs, generic.rs, resource.rs) *)
  Variables centry dentry fentry : Type.
  Variable c_key : centry -> string.    (* Eq/Hash of GenericClass: the StringName (name and generics) *)
  Variable c_base : centry -> string.   (* c.name.name, what [Context::class] compares *)
  Variable f_key : fentry -> string.    (* Eq/Hash of GenericFunction: name, arguments, return type *)
  Variable f_name : fentry -> string.   (* what [Context::function] compares *)
  Variable d_name : dentry -> string.   (* Eq/Hash of GenericField and what [Context::field] compares *)
  Variable any_class : centry.          (* Context::default() *)
  Variables (prim_c std_c : list centry) (prim_d std_d : list dentry) (prim_f std_f : list fentry).

  (** [HashSet::insert]: an element whose key is present is NOT replaced *)
  Definition set_insert {A} (key : A -> string) (x : A) (s : list A) : list A :=
    if existsb (fun y => String.eqb (key y) (key x)) s then s else s ++ [x].
  (** [self.union(&other).cloned().collect()]: all of self, then what is new in other *)
  Definition set_union {A} (key : A -> string) (s o : list A) : list A :=
    fold_left (fun acc x => set_insert key x acc) o s.

  Record decls := { d_classes : list centry; d_fields : list dentry; d_funs : list fentry }.
  Record context := { classes : list centry; fields : list dentry; functions : list fentry }.

  Variable ast tast : Type.
  Variable parse : string -> res ast msg.
  (** the declarations of one file in statement order, or the errors of its first bad declaration *)
  Variable decls_of : ast -> res decls (list msg).

  Definition merge (acc d : decls) : decls :=
    {| d_classes := set_union c_key (d_classes acc) (d_classes d);
       d_fields := set_union d_name (d_fields acc) (d_fields d);
       d_funs := set_union f_key (d_funs acc) (d_funs d) |}.

  (** [generics(files)]: files in the order given; the first failing declaration aborts everything *)
  Fixpoint collect (asts : list ast) (acc : decls) : res decls (list msg) :=
    match asts with
    | [] => Ok acc
    | a :: r => match decls_of a with
                | Err ms => Err ms
                | Ok d => collect r (merge acc d)
                end
    end.

  Definition no_decls : decls := {| d_classes := []; d_fields := []; d_funs := [] |}.

  (** [Context::try_from]: default context (only [Any]), user entries inserted, then
      [into_with_primitives] (primitive, std) and [into_with_std_lib] (std again) *)
  Definition build_ctx (asts : list ast) : res context (list msg) :=
    match collect asts no_decls with
    | Err ms => Err ms
    | Ok d =>
        let u3 {A} (key : A -> string) (s p q : list A) :=
          set_union key (set_union key (set_union key s p) q) q in
        Ok {| classes := u3 c_key (set_union c_key [any_class] (d_classes d)) prim_c std_c;
              fields := u3 d_name (d_fields d) prim_d std_d;
              functions := u3 f_key (d_funs d) prim_f std_f |}
    end.

  (** The only ways the checker and the generator read a [Context] (grep of [.classes/.functions/.fields]):
      [find] over the set's enumeration. *)
  Record lookups := {
    lk_class : string -> option centry;   (* classes.iter().find(|c| c.name.name == name) *)
    lk_ctor : string -> option centry;    (* classes.iter().find(|c| &c.name == function) *)
    lk_fun : string -> option fentry;     (* functions.iter().find(|f| &f.name == function) *)
    lk_field : string -> option dentry    (* fields.iter().find(|f| f.name == field) *)
  }.

  (** enumeration order of a [HashSet] (RandomState): any permutation, chosen per run *)
  Variable ord : forall A : Type, list A -> list A.

  Definition lookups_of (c : context) : lookups :=
    {| lk_class := fun k => find (fun x => String.eqb (c_base x) k) (ord _ (classes c));
       lk_ctor := fun k => find (fun x => String.eqb (c_key x) k) (ord _ (classes c));
       lk_fun := fun k => find (fun x => String.eqb (f_name x) k) (ord _ (functions c));
       lk_field := fun k => find (fun x => String.eqb (d_name x) k) (ord _ (fields c)) |}.

  Variable check : lookups -> ast -> res tast (list msg).
  Variable gen : bool -> lookups -> tast -> res string msg.

  (** *** lib.rs: mamba_to_python *)
  Definition input := (string * option path)%type.

  (** [.map(parse).partition(Result::is_ok)] *)
  Fixpoint parse_all (ins : list input) : list (ast * option path) * list err :=
    match ins with
    | [] => ([], [])
    | (s, p) :: r =>
        let (oks, errs) := parse_all r in
        match parse s with
        | Ok a => ((a, p) :: oks, errs)
        | Err m => (oks, EStage SParse p m :: errs)
        end
    end.

  (** [type_errs] is a [Vec<Vec<TypeErr>>]: emptiness is tested on the outer vector, the inner ones are
      flattened for the answer (a check failing with zero errors still fails the run) *)
  Fixpoint check_all (lk : lookups) (l : list (ast * option path))
    : list (tast * option path) * list (list err) :=
    match l with
    | [] => ([], [])
    | (a, p) :: r =>
        let (oks, errs) := check_all lk r in
        match check lk a with
        | Ok t => ((t, p) :: oks, errs)
        | Err ms => (oks, map (EStage SCheck p) ms :: errs)
        end
    end.

  Fixpoint gen_all (annotate : bool) (lk : lookups) (l : list (tast * option path)) : list string * list err :=
    match l with
    | [] => ([], [])
    | (t, p) :: r =>
        let (oks, errs) := gen_all annotate lk r in
        match gen annotate lk t with
        | Ok py => (py :: oks, errs)
        | Err m => (oks, EStage SGen p m :: errs)
        end
    end.

  (** since 2d1bc77: when the shared context cannot be built, every file whose OWN context
      ([Context::try_from] of that file alone) fails contributes its errors, with its path and source,
      in file order *)
  Definition ctx_blame (asts : list (ast * option path)) : list err :=
    flat_map (fun ap : ast * option path =>
                match build_ctx [fst ap] with
                | Err ms => map (EStage SCtx (snd ap)) ms
                | Ok _ => []
                end) asts.

  Definition mamba_to_python (annotate : bool) (source : list input) (source_dir : path)
    : res (list string) (list err) :=
    let source := map (fun sp : input => (fst sp, option_map (strip_prefix source_dir) (snd sp))) source in
    match parse_all source with
    | (_, e :: es) => Err (e :: es)
    | (asts, []) =>
        match build_ctx (map fst asts) with
        | Err ms =>
            match ctx_blame asts with
            | [] => Err (map (EStage SCtx None) ms)   (* fallback: no file fails alone; no path, no text *)
            | e :: es => Err (e :: es)
            end
        | Ok ctx =>
            let lk := lookups_of ctx in
            match check_all lk asts with
            | (_, e :: es) => Err (List.concat (e :: es))
            | (typed, []) =>
                match gen_all annotate lk typed with
                | (_, e :: es) => Err (e :: es)
                | (pys, []) => Ok pys
                end
            end
        end
    end.

  (** *** lib.rs: transpile_dir *)
  Fixpoint read_all (fs : FS) (ps : list path) : res (list string) err :=
    match ps with
    | [] => Ok []
    | p :: r => match read_source fs p with
                | Err e => Err e
                | Ok t => match read_all fs r with
                          | Err e => Err e
                          | Ok ts => Ok (t :: ts)
                          end
                end
    end.

  (** the write loop: stops at the first failing write, keeping what was written before *)
  Fixpoint write_all (fs : FS) (l : list (string * path)) : FS * option err :=
    match l with
    | [] => (fs, None)
    | (py, out) :: r =>
        match write_source fs (with_ext_path out) py with
        | Ok fs' => write_all fs' r
        | Err e => (fs, Some e)
        end
    end.

  Definition src_of (dir : path) (src : option path) : path :=
    dir ++ match src with Some s => s | None => ["src"] end.
  Definition out_of (dir : path) (target : option path) : path :=
    dir ++ match target with Some t => t | None => ["target"] end.

  (** the state of the file system when [mamba_to_python] is called: the target directory exists *)
  Definition prepare (fs : FS) (out_dir : path) : option FS :=
    if exists_ fs out_dir then Some fs else create_dir fs out_dir.

  Definition inputs_of (fs1 : FS) (src_path : path) : list path :=
    if is_dir fs1 src_path then map (fun r => src_path ++ r) (relative_files fs1 src_path)
    else [src_path].

  Definition transpile_dir (fs : FS) (dir : path) (src target : option path) (annotate : bool)
    : FS * res path (list err) :=
    let src_path := src_of dir src in
    if negb (is_file fs src_path) && negb (is_dir fs src_path) then (fs, Err [ESrcMissing src_path])
    else
      let out_dir := out_of dir target in
      match prepare fs out_dir with
      | None => (fs, Err [EIo IoCreateTarget None])
      | Some fs1 =>
          let rels := relative_files fs1 src_path in
          let ins := inputs_of fs1 src_path in
          let outs := map (fun r => out_dir ++ r) rels in
          match read_all fs1 ins with
          | Err e => (fs1, Err [e])
          | Ok sources =>
              match mamba_to_python annotate (combine sources (map Some ins)) src_path with
              | Err es => (fs1, Err es)
              | Ok pys =>
                  match write_all fs1 (combine pys outs) with
                  | (fs2, Some e) => (fs2, Err [e])
                  | (fs2, None) => (fs2, Ok out_dir)
                  end
              end
          end
      end.

  (** the paths the write loop targets *)
  Definition out_paths (fs1 : FS) (src_path out_dir : path) : list path :=
    map (fun r => with_ext_path (out_dir ++ r)) (relative_files fs1 src_path).
End Driver.

Arguments ESrcMissing {msg} p.
Arguments EIo {msg} op p.
Arguments EStage {msg} st p m.
Arguments is_write_err {msg} e.

(** ** The stage parameters bundled: one [world] = one choice of per-file stages and built-in tables *)
Record world := {
  w_msg : Type; w_centry : Type; w_dentry : Type; w_fentry : Type;
  w_c_key : w_centry -> string; w_c_base : w_centry -> string;
  w_f_key : w_fentry -> string; w_f_name : w_fentry -> string;
  w_d_name : w_dentry -> string;
  w_any : w_centry;
  w_prim_c : list w_centry; w_std_c : list w_centry;
  w_prim_d : list w_dentry; w_std_d : list w_dentry;
  w_prim_f : list w_fentry; w_std_f : list w_fentry;
  w_ast : Type; w_tast : Type;
  w_parse : string -> res w_ast w_msg;
  w_decls_of : w_ast -> res (decls w_centry w_dentry w_fentry) (list w_msg);
  w_check : lookups w_centry w_dentry w_fentry -> w_ast -> res w_tast (list w_msg);
  w_gen : bool -> lookups w_centry w_dentry w_fentry -> w_tast -> res string w_msg
}.

Definition enumeration := forall A : Type, list A -> list A.

Definition w_build_ctx (W : world) (asts : list (w_ast W)) :=
  build_ctx (w_msg W) (w_centry W) (w_dentry W) (w_fentry W) (w_c_key W) (w_f_key W) (w_d_name W)
    (w_any W) (w_prim_c W) (w_std_c W) (w_prim_d W) (w_std_d W) (w_prim_f W) (w_std_f W)
    (w_ast W) (w_decls_of W) asts.

Definition w_ctx_blame (W : world) (asts : list (w_ast W * option path)) : list (err (w_msg W)) :=
  ctx_blame (w_msg W) (w_centry W) (w_dentry W) (w_fentry W) (w_c_key W) (w_f_key W) (w_d_name W)
    (w_any W) (w_prim_c W) (w_std_c W) (w_prim_d W) (w_std_d W) (w_prim_f W) (w_std_f W)
    (w_ast W) (w_decls_of W) asts.

Definition w_lookups (W : world) (ord : enumeration) (c : context (w_centry W) (w_dentry W) (w_fentry W)) :=
  lookups_of (w_centry W) (w_dentry W) (w_fentry W) (w_c_key W) (w_c_base W) (w_f_name W) (w_d_name W) ord c.

Definition m2p (W : world) (ord : enumeration) (annotate : bool) (source : list input) (source_dir : path)
  : res (list string) (list (err (w_msg W))) :=
  mamba_to_python (w_msg W) (w_centry W) (w_dentry W) (w_fentry W) (w_c_key W) (w_c_base W) (w_f_key W)
    (w_f_name W) (w_d_name W) (w_any W) (w_prim_c W) (w_std_c W) (w_prim_d W) (w_std_d W) (w_prim_f W)
    (w_std_f W) (w_ast W) (w_tast W) (w_parse W) (w_decls_of W) ord (w_check W) (w_gen W)
    annotate source source_dir.

Definition tdir (W : world) (ord : enumeration) (fs : FS) (dir : path) (src target : option path) (annotate : bool)
  : FS * res path (list (err (w_msg W))) :=
  transpile_dir (w_msg W) (w_centry W) (w_dentry W) (w_fentry W) (w_c_key W) (w_c_base W) (w_f_key W)
    (w_f_name W) (w_d_name W) (w_any W) (w_prim_c W) (w_std_c W) (w_prim_d W) (w_std_d W) (w_prim_f W)
    (w_std_f W) (w_ast W) (w_tast W) (w_parse W) (w_decls_of W) ord (w_check W) (w_gen W)
    fs dir src target annotate.

Arguments parse_all {msg ast} parse ins.
Arguments check_all {msg centry dentry fentry ast tast} check lk l.
Arguments gen_all {msg centry dentry fentry tast} gen annotate lk l.
Arguments collect {msg centry dentry fentry} c_key f_key d_name {ast} decls_of asts acc.
Arguments merge {centry dentry fentry} c_key f_key d_name acc d.
Arguments no_decls {centry dentry fentry}.
Arguments read_all {msg} fs ps.
Arguments read_source {msg} fs p.
Arguments write_all {msg} fs l.
Arguments write_source {msg} fs p t.
Arguments d_classes {centry dentry fentry} d.
Arguments d_fields {centry dentry fentry} d.
Arguments d_funs {centry dentry fentry} d.
Arguments classes {centry dentry fentry} c.
Arguments fields {centry dentry fentry} c.
Arguments functions {centry dentry fentry} c.
Arguments lk_class {centry dentry fentry} l k.
Arguments lk_ctor {centry dentry fentry} l k.
Arguments lk_fun {centry dentry fentry} l k.
Arguments lk_field {centry dentry fentry} l k.
