(** * TagSem: a small dynamic semantics with type tags for the core expressions of model/Typing.v

    A value is abstracted to its run-time tag (model/PyOps.v).  [aeval rho e] is the list of all outcomes the
    evaluation of [e] can have when the variables carry the tags [rho]: [Some g] = a value with tag [g],
    [None] = the evaluation goes wrong (NameError for an unbound variable, TypeError for an operator Python refuses).
    Value-dependent results are over-approximated by tags ([2 ** x] is an int or a float; both branches of an
    if-expression are explored; [a and b] is one of its operands).  Calls, method calls, field accesses and objects are
    NOT modelled: [core_e] excludes them. *)
From Coq Require Import List String Bool.
From MambaModel Require Import model.Types model.TypingSig model.PyOps model.Typing.
Import ListNotations.
Local Open Scope string_scope.
Local Open Scope list_scope.

Definition outcome := option tag.

Fixpoint assoc (rho : list (string * tag)) (x : string) : option tag :=
  match rho with
  | [] => None
  | (y, g) :: r => if String.eqb y x then Some g else assoc r x
  end.

Definition is_wrong (o : outcome) : bool := match o with None => true | Some _ => false end.

Fixpoint aeval (rho : list (string * tag)) (e : expr) {struct e} : list outcome :=
  match e with
  | EInt _ => [Some GInt]
  | EFloat _ => [Some GFloat]
  | EStr _ => [Some GStr]
  | EBool _ => [Some GBool]
  | ENone => [Some GNone]
  | EVar x => match assoc rho x with Some g => [Some g] | None => [None] end
  | EOp m l r =>
      flat_map (fun ol => flat_map (fun orr =>
        match ol, orr with
        | Some a, Some b => match py_binop m a b with Some rs => map Some rs | None => [None] end
        | _, _ => [None]
        end) (aeval rho r)) (aeval rho l)
  | ENot a => map (fun o => match o with Some _ => Some GBool | None => None end) (aeval rho a)
  | EBoolOp l r => aeval rho l ++ aeval rho r
  | EQuest x d =>
      flat_map (fun o => match o with Some GNone => aeval rho d | o' => [o'] end) (aeval rho x)
  | EIf c t f =>
      flat_map (fun oc => match oc with Some _ => aeval rho t ++ aeval rho f | None => [None] end) (aeval rho c)
  | EFmt es =>
      (if existsb (fun a => existsb is_wrong (aeval rho a)) es then [None] else []) ++ [Some GStr]
  | ECall _ _ | EMeth _ _ _ | EField _ _ => []
  end.

Fixpoint core_e (e : expr) : bool :=
  match e with
  | EInt _ | EFloat _ | EStr _ | EBool _ | ENone | EVar _ => true
  | EOp m l r => existsb (String.eqb m) binops && core_e l && core_e r
  | ENot a => core_e a
  | EBoolOp l r => core_e l && core_e r
  | EQuest x d => core_e x && core_e d
  | EIf c t f => core_e c && core_e t && core_e f
  | EFmt es => forallb core_e es
  | ECall _ _ | EMeth _ _ _ | EField _ _ => false
  end.

(** the core types: the six core classes, nullable or not *)
Definition core_tys : list ty :=
  flat_map (fun c => [TN false c []; TN true c []]) ["Int"; "Float"; "Complex"; "Str"; "Bool"; "None"].

Definition mem (g : tag) (l : list tag) : bool := existsb (tag_eqb g) l.
Definition in_core (t : ty) : bool := existsb (fun u => ty_eqb u t) core_tys.

(** decidable side conditions on a class table and a signature table, discharged by evaluation *)
Definition ops_sound_b (cx : ctx) (sigs : list msig) : bool :=
  forallb (fun tl => forallb (fun tr => forallb (fun m =>
    match call_method cx sigs (tl, false) m [(tr, false)] with
    | Some (t, obls) =>
        if forallb (discharge cx noq) obls then
          in_core t &&
          forallb (fun a => forallb (fun b =>
            match py_binop m a b with Some rs => subset rs (tags_of_ty t) | None => false end)
            (tags_of_ty tr)) (tags_of_ty tl)
        else true
    | None => true
    end) binops) core_tys) core_tys.

Definition join_ok_b (cx : ctx) : bool :=
  forallb (fun a => forallb (fun b =>
    match join_ty cx a b with
    | Some t => in_core t && subset (tags_of_ty a) (tags_of_ty t) && subset (tags_of_ty b) (tags_of_ty t)
    | None => true
    end) core_tys) core_tys.

Definition quest_ok_b (cx : ctx) : bool :=
  forallb (fun tx => forallb (fun td =>
    match join_ty cx (strip_null tx) td with
    | Some t => in_core t && forallb (fun g => tag_eqb g GNone || mem g (tags_of_ty t)) (tags_of_ty tx)
                && subset (tags_of_ty td) (tags_of_ty t)
    | None => true
    end) core_tys) core_tys.

(** whatever defines [__bool__] may stand where a Bool is expected, as far as tags go *)
Definition bool_recv_ok_b (cx : ctx) (sigs : list msig) : bool :=
  forallb (fun t =>
    match call_method cx sigs (t, false) "__bool__" [] with
    | Some (_, obls) => if forallb (discharge cx noq) obls then subset (tags_of_ty t) (tags_of_ty tBool) else true
    | None => true
    end) core_tys.

Definition tables_ok (cx : ctx) (sigs : list msig) : bool :=
  ops_sound_b cx sigs && join_ok_b cx && quest_ok_b cx && bool_recv_ok_b cx sigs.
