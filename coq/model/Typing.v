(** * Typing: a typed mini-language over the core universe and the checker's verdict on it

    Mirrors, restricted to the fragment below (src/check/constrain):
    - generate/call.rs        [gen_call]: function / constructor calls ([call_parameters]: formal and actual
                              arguments zipped with [zip_longest], a missing actual is fine when the formal has a
                              default), method calls and field accesses ([property_call] -> [Access] expectations),
                              reassignment
    - generate/definition.rs  annotated and inferred [def], function definitions (the body and every [return] against
                              the declared return type, defaults against the parameter type)
    - generate/operation.rs   binary operators as access to the dunder method of the LEFT operand ([gen_magic]),
                              [not]/[and]/[or] and conditions through [__bool__] ([Constraint::truthy]), printing and
                              f-strings through [__str__] ([Constraint::stringy]), range bounds
    - generate/expression.rs  [x ? d] (only constraint: [x >= None]), [None]
    - generate/control_flow.rs if / while / for / match / handle
    - unify/function.rs       [function_access] + [unify_fun_arg] (the receiver is zipped with the formals like any
                              other argument), [field_access]
    - unify/ty.rs             a constraint [expected >= actual] between two known types is [Name::is_superset_of]
                              = [Types.super] of model/Types.v (proved a sound order in props/C20.v)

    The checker is a constraint generator followed by a unifier that substitutes inferred types.  On this fragment
    every expression has a synthesised type, so the unifier's work reduces to discharging obligations
    [expected >= actual] between known types; the model is therefore [gen] (a syntax-directed traversal that
    synthesises types and emits obligations, one per constraint the generator emits between a declared type and a
    use) followed by [discharge].  [check q p = true] is the model's "accepted".

    Seven places where the implementation does not discharge the obligation the declarative rule asks for were found
    by running it (each confirmed on the real code by lib/vlib/typing_common.py and listed in known_findings.json);
    they are switched by the record [quirks], so that the same [gen] describes the implementation
    ([impl_quirks]) and the repaired checker ([noq]).  The declarative relation [conforms] is in this file too; the
    equivalence with [check noq], the characterisation of [check impl_quirks] outside the known classes and the
    refutations are in proofs/TypingProps.v. *)
From Coq Require Import List String Bool ZArith Arith.
From MambaModel Require Import model.Types model.TypingSig.
Import ListNotations.
Local Open Scope string_scope.
Local Open Scope list_scope.

(** ** Types of the universe *)
Definition tcls (c : string) : ty := TN false c [].
Definition tInt := tcls "Int".
Definition tFloat := tcls "Float".
Definition tStr := tcls "Str".
Definition tBool := tcls "Bool".
Definition tNone := tcls NONE.
Definition tUnit := tcls "()".                      (* Name::empty(): the "type" of a call to a function without return type *)
Definition strip_null (t : ty) : ty := TN false (tcname t) (tgens t).
Definition opt (t : ty) : ty := as_nullable t.

(** ** Syntax *)
Inductive expr : Type :=
| EInt (z : Z)
| EFloat (s : string)
| EStr (s : string)
| EBool (b : bool)
| ENone
| EVar (x : string)
| EOp (m : string) (l r : expr)                     (* binary operator; [m] is the dunder name *)
| ENot (e : expr)
| EBoolOp (l r : expr)                              (* and / or *)
| ECall (f : string) (args : list expr)             (* top-level function or constructor *)
| EMeth (o : expr) (m : string) (args : list expr)
| EField (o : expr) (f : string)
| EQuest (x d : expr)                               (* x ? d *)
| EIf (c t e : expr)
| EFmt (es : list expr).                            (* f-string with embedded expressions *)

Inductive pat : Type := PInt (z : Z) | PStr (s : string) | PWild.

Record bind_to := { b_var : string; b_mut : bool; b_ann : option ty }.

Inductive stmt : Type :=
| SDef (x : string) (mut : bool) (ann : option ty) (e : expr)
| SAssign (x : string) (e : expr)
| SSetField (o : expr) (f : string) (e : expr)
| SExpr (e : expr)
| SPrint (e : expr)
| SIf (c : expr) (t e : list stmt)
| SWhile (c : expr) (b : list stmt)
| SFor (x : string) (lo hi : expr) (b : list stmt)
| SMatch (e : expr) (arms : list (pat * list stmt))
| SHandle (bd : option bind_to) (call : expr) (arms : list harm)
| SReturn (e : expr)
| SRaise (exc : string) (args : list expr)          (* raise E(args) *)
with harm : Type :=
| HArm (exc : string) (var : string) (body : list stmt) (val : option expr).

Record param := { pa_name : string; pa_ty : ty; pa_default : option expr }.
Record fdef := { fd_name : string; fd_params : list param; fd_ret : option ty;
                 fd_body : list stmt; fd_result : option expr }.
Record cdef := { cd_name : string; cd_parent : option (string * list expr);
                 cd_fields : list (string * ty);          (* constructor arguments, all of them fields: class C(def a: T, ..) *)
                 cd_methods : list fdef }.
Record program := { p_classes : list cdef; p_funs : list fdef; p_main : list stmt }.

(** ** Environments *)
Record vinfo := { v_ty : ty; v_loose : bool; v_mut : bool }.
Definition tenv := list (string * vinfo).
Fixpoint lookup (env : tenv) (x : string) : option vinfo :=
  match env with
  | [] => None
  | (y, v) :: r => if String.eqb y x then Some v else lookup r x
  end.
Definition vfix (t : ty) : vinfo := {| v_ty := t; v_loose := false; v_mut := false |}.

(** the declarative relation does not know the "loose" mark *)
Record dinfo := { d_ty : ty; d_mut : bool }.
Definition denv := list (string * dinfo).
Fixpoint dlookup (env : denv) (x : string) : option dinfo :=
  match env with
  | [] => None
  | (y, v) :: r => if String.eqb y x then Some v else dlookup r x
  end.
Definition dfix (t : ty) : dinfo := {| d_ty := t; d_mut := false |}.
Definition erase (env : tenv) : denv :=
  map (fun xv => (fst xv, {| d_ty := v_ty (snd xv); d_mut := v_mut (snd xv) |})) env.

(** ** Obligations *)
Inductive okind : Type :=
| KRecv        (* receiver of a method / operator / __str__ / __bool__ against the formal [self] *)
| KArg         (* method argument, operator right operand *)
| KFunArg      (* argument of a top-level function or constructor (call_parameters) *)
| KInit        (* initialiser of an annotated definition *)
| KAssign      (* new value of a variable *)
| KSetField    (* new value of a field *)
| KRet         (* returned value / value of the body *)
| KDefault     (* default value of a parameter *)
| KQuest       (* left operand of [?] must accept None *)
| KHandleArm   (* value of a handle arm against the type of the handled expression / declared type *)
| KParentArg.  (* argument of the parent constructor in a class header *)

Inductive oblig : Type :=
| OSub (k : okind) (expected : name) (actual : ty) (loose : bool)
| OFieldRecv (actual : ty) (loose : bool)            (* receiver of a field access / field assignment *)
| ORange (is_path : bool) (actual : ty) (loose : bool)
| OJoin (ok : bool)                                  (* [x ? d]: the two alternatives have a common supertype *)
| OFallOff (always_returns : bool).                  (* a function with a return type returns on every path *)

(** ** Quirks: where the implementation does not discharge the obligation *)
Record quirks := {
  q_param_strip : bool;   (* call_parameters drops the nullable flag of the formal's type: None / T? refused for a T? formal *)
  q_field_null : bool;    (* field_access looks the class of the receiver up ignoring its nullable flag *)
  q_quest_loose : bool;   (* no constraint ties the type of [x ? d] to x or d: accepted wherever a type is expected,
                             "cannot infer" where it is a receiver *)
  q_handle_arm : bool;    (* the value of a handle arm is not related to the handled expression *)
  q_range_rev : bool;     (* a range bound that is a variable or field is required to be a SUPERtype of Int *)
  q_falloff : bool;       (* a body that can fall off its end is accepted for a function with a return type *)
  q_parent_args : bool    (* arguments of the parent constructor in a class header are not checked *)
}.
Definition noq : quirks := {| q_param_strip := false; q_field_null := false; q_quest_loose := false;
  q_handle_arm := false; q_range_rev := false; q_falloff := false; q_parent_args := false |}.
Definition impl_quirks (strip : bool) : quirks := {| q_param_strip := strip; q_field_null := true; q_quest_loose := true;
  q_handle_arm := true; q_range_rev := true; q_falloff := true; q_parent_args := true |}.

Record fsig := { fs_name : string; fs_params : list sparam; fs_ret : option name }.

Definition single (r : option name) : ty :=
  match r with Some [t] => t | _ => tUnit end.

Definition is_path (e : expr) : bool :=
  match e with EVar _ | EField _ _ => true | _ => false end.

Fixpoint first_some {A B : Type} (f : A -> option B) (l : list A) : option B :=
  match l with
  | [] => None
  | x :: r => match f x with Some y => Some y | None => first_some f r end
  end.

Section Tables.
  Variable cx : ctx.                                  (* class table: built-ins ++ user classes *)
  Variable sigs : list msig.                          (* method signatures: stubs ++ user methods *)
  Variable funs : list fsig.                          (* top-level functions and constructors *)
  Variable fields : list (string * string * ty).      (* class, field, type *)

  (** [expected >= actual] between known types: Name::is_superset_of *)
  Definition sup (T : name) (t : ty) : bool :=
    match super cx T [t] with Ok true => true | _ => false end.

  (** Class lookup inherits the functions / fields of the parents that the class does not define itself
      ([Class::inherit]); single inheritance in the fragment, so the first hit is the only one. *)
  Fixpoint find_method_f (fuel : nat) (c m : string) : option msig :=
    match fuel with
    | 0 => None
    | S f =>
        match find (fun s => String.eqb (sg_class s) c && String.eqb (sg_name s) m) sigs with
        | Some s => Some s
        | None => match find_cls cx c with
                  | Some k => first_some (fun p => find_method_f f (tcname p) m) (cl_parents k)
                  | None => None
                  end
        end
    end.
  Definition find_method (c m : string) : option msig := find_method_f (S (List.length cx)) c m.

  Fixpoint find_field_f (fuel : nat) (c f : string) : option ty :=
    match fuel with
    | 0 => None
    | S n =>
        match find (fun r => String.eqb (fst (fst r)) c && String.eqb (snd (fst r)) f) fields with
        | Some r => Some (snd r)
        | None => match find_cls cx c with
                  | Some k => first_some (fun p => find_field_f n (tcname p) f) (cl_parents k)
                  | None => None
                  end
        end
    end.
  Definition find_field (c f : string) : option ty := find_field_f (S (List.length cx)) c f.

  Definition find_fun (f : string) : option fsig := find (fun s => String.eqb (fs_name s) f) funs.

  (** formals against actuals: [zip_longest] of call_parameters / unify_fun_arg *)
  Fixpoint zip_params (k0 k : okind) (ps : list sparam) (acts : list (ty * bool)) : option (list oblig) :=
    match ps, acts with
    | [], [] => Some []
    | p :: ps', a :: acts' =>
        match sp_ty p, zip_params k k ps' acts' with
        | Some T, Some l => Some (OSub k0 T (fst a) (snd a) :: l)
        | _, _ => None
        end
    | p :: ps', [] => if sp_default p then zip_params k k ps' [] else None
    | [], _ :: _ => None
    end.

  (** access to a method: look it up on the class of the receiver, zip receiver and arguments with the formals *)
  Definition call_method (recv : ty * bool) (m : string) (acts : list (ty * bool)) : option (ty * list oblig) :=
    match find_method (tcname (fst recv)) m with
    | Some sg => match zip_params KRecv KArg (sg_params sg) (recv :: acts) with
                 | Some l => Some (single (sg_ret sg), l)
                 | None => None
                 end
    | None => None
    end.

  Definition csup (a b : string) : bool := sup [tcls a] (tcls b).

  Definition join_ty (a b : ty) : option ty :=
    if is_null a then Some (if is_null b then b else as_nullable b)
    else if is_null b then Some (as_nullable a)
    else if csup (tcname a) (tcname b) then Some (TN (tnull a || tnull b) (tcname a) [])
    else if csup (tcname b) (tcname a) then Some (TN (tnull a || tnull b) (tcname b) [])
    else None.

  Definition res := (ty * bool * list oblig)%type.

  (** ** Expressions: synthesised type, "loose" mark, obligations *)
  Fixpoint gen_e (env : tenv) (e : expr) {struct e} : option res :=
    match e with
    | EInt _ => Some (tInt, false, [])
    | EFloat _ => Some (tFloat, false, [])
    | EStr _ => Some (tStr, false, [])
    | EBool _ => Some (tBool, false, [])
    | ENone => Some (tNone, false, [])
    | EVar x => match lookup env x with Some v => Some (v_ty v, v_loose v, []) | None => None end
    | EOp m l r =>
        match gen_e env l, gen_e env r with
        | Some (tl, ll, ol), Some (tr, lr, orr) =>
            match call_method (tl, ll) m [(tr, lr)] with
            | Some (t, o) => Some (t, false, ol ++ orr ++ o)
            | None => None
            end
        | _, _ => None
        end
    | ENot a =>
        match gen_e env a with
        | Some (ta, la, oa) =>
            match call_method (ta, la) "__bool__" [] with
            | Some (_, o) => Some (tBool, false, oa ++ o)
            | None => None
            end
        | None => None
        end
    | EBoolOp l r =>
        match gen_e env l, gen_e env r with
        | Some (tl, ll, ol), Some (tr, lr, orr) =>
            match call_method (tl, ll) "__bool__" [], call_method (tr, lr) "__bool__" [] with
            | Some (_, o1), Some (_, o2) => Some (tBool, false, ol ++ orr ++ o1 ++ o2)
            | _, _ => None
            end
        | _, _ => None
        end
    | ECall f args =>
        match find_fun f,
              (fix go (l : list expr) : option (list (ty * bool) * list oblig) :=
                 match l with
                 | [] => Some ([], [])
                 | a :: r => match gen_e env a, go r with
                             | Some (t, lo, o), Some (ts, os) => Some ((t, lo) :: ts, o ++ os)
                             | _, _ => None
                             end
                 end) args with
        | Some fs, Some (acts, oa) =>
            match zip_params KFunArg KFunArg (fs_params fs) acts with
            | Some o => Some (single (fs_ret fs), false, oa ++ o)
            | None => None
            end
        | _, _ => None
        end
    | EMeth ob m args =>
        match gen_e env ob,
              (fix go (l : list expr) : option (list (ty * bool) * list oblig) :=
                 match l with
                 | [] => Some ([], [])
                 | a :: r => match gen_e env a, go r with
                             | Some (t, lo, o), Some (ts, os) => Some ((t, lo) :: ts, o ++ os)
                             | _, _ => None
                             end
                 end) args with
        | Some (tb, lb, ob'), Some (acts, oa) =>
            match call_method (tb, lb) m acts with
            | Some (t, o) => Some (t, false, ob' ++ oa ++ o)
            | None => None
            end
        | _, _ => None
        end
    | EField ob f =>
        match gen_e env ob with
        | Some (tb, lb, ob') =>
            match find_field (tcname tb) f with
            | Some ft => Some (ft, false, ob' ++ [OFieldRecv tb lb])
            | None => None
            end
        | None => None
        end
    | EQuest x d =>
        match gen_e env x, gen_e env d with
        | Some (tx, lx, ox), Some (td, ld, od) =>
            match join_ty (strip_null tx) td with
            | Some t => Some (t, true, ox ++ od ++ [OSub KQuest [tx] tNone lx; OJoin true])
            | None => Some (td, true, ox ++ od ++ [OSub KQuest [tx] tNone lx; OJoin false])
            end
        | _, _ => None
        end
    | EIf c t e =>
        match gen_e env c, gen_e env t, gen_e env e with
        | Some (tc, lc, oc), Some (t1, l1, o1), Some (t2, l2, o2) =>
            match call_method (tc, lc) "__bool__" [], join_ty t1 t2 with
            | Some (_, o), Some tj => Some (tj, l1 || l2, oc ++ o1 ++ o2 ++ o)
            | _, _ => None
            end
        | _, _, _ => None
        end
    | EFmt es =>
        match (fix go (l : list expr) : option (list oblig) :=
                 match l with
                 | [] => Some []
                 | a :: r => match gen_e env a, go r with
                             | Some (t, lo, o), Some os =>
                                 match call_method (t, lo) "__str__" [] with
                                 | Some (_, o') => Some (o ++ o' ++ os)
                                 | None => None
                                 end
                             | _, _ => None
                             end
                 end) es with
        | Some o => Some (tStr, false, o)
        | None => None
        end
    end.

  Fixpoint gen_es (env : tenv) (l : list expr) : option (list (ty * bool) * list oblig) :=
    match l with
    | [] => Some ([], [])
    | a :: r => match gen_e env a, gen_es env r with
                | Some (t, lo, o), Some (ts, os) => Some ((t, lo) :: ts, o ++ os)
                | _, _ => None
                end
    end.

  Fixpoint gen_strs (env : tenv) (l : list expr) : option (list oblig) :=
    match l with
    | [] => Some []
    | a :: r => match gen_e env a, gen_strs env r with
                | Some (t, lo, o), Some os =>
                    match call_method (t, lo) "__str__" [] with
                    | Some (_, o') => Some (o ++ o' ++ os)
                    | None => None
                    end
                | _, _ => None
                end
    end.

  (** truthy / stringy use of an expression *)
  Definition gen_use (m : string) (env : tenv) (e : expr) : option (list oblig) :=
    match gen_e env e with
    | Some (t, lo, o) => match call_method (t, lo) m [] with
                         | Some (_, o') => Some (o ++ o')
                         | None => None
                         end
    | None => None
    end.

  (** ** Statements *)
  Definition sres := (tenv * list oblig)%type.

  Definition gen_block (f : tenv -> stmt -> option sres) : tenv -> list stmt -> option sres :=
    fix go (env : tenv) (b : list stmt) : option sres :=
      match b with
      | [] => Some (env, [])
      | s :: r => match f env s with
                  | Some (env', o) => match go env' r with
                                      | Some (env'', o') => Some (env'', o ++ o')
                                      | None => None
                                      end
                  | None => None
                  end
      end.

  Definition bind_env (bd : option bind_to) (t : ty) (lo : bool) (env : tenv) : tenv :=
    match bd with
    | Some b => match b_ann b with
                | Some T => (b_var b, {| v_ty := T; v_loose := false; v_mut := b_mut b |}) :: env
                | None => (b_var b, {| v_ty := t; v_loose := lo; v_mut := b_mut b |}) :: env
                end
    | None => env
    end.
  Definition bind_target (bd : option bind_to) (t : ty) : ty :=
    match bd with Some b => match b_ann b with Some T => T | None => t end | None => t end.
  Definition bind_obl (bd : option bind_to) (t : ty) (lo : bool) : list oblig :=
    match bd with Some b => match b_ann b with Some T => [OSub KInit [T] t lo] | None => [] end | None => [] end.

  Fixpoint gen_s (R : option ty) (env : tenv) (s : stmt) {struct s} : option sres :=
    match s with
    | SDef x mut ann e =>
        match gen_e env e with
        | Some (t, lo, o) =>
            match ann with
            | Some T => Some ((x, {| v_ty := T; v_loose := false; v_mut := mut |}) :: env, o ++ [OSub KInit [T] t lo])
            | None => Some ((x, {| v_ty := t; v_loose := lo; v_mut := mut |}) :: env, o)
            end
        | None => None
        end
    | SAssign x e =>
        match lookup env x, gen_e env e with
        | Some v, Some (t, lo, o) =>
            if v_mut v then Some (env, o ++ [OSub KAssign [v_ty v] t lo]) else None
        | _, _ => None
        end
    | SSetField ob f e =>
        match gen_e env ob, gen_e env e with
        | Some (tb, lb, o1), Some (t, lo, o2) =>
            match find_field (tcname tb) f with
            | Some ft => Some (env, o1 ++ o2 ++ [OFieldRecv tb lb; OSub KSetField [ft] t lo])
            | None => None
            end
        | _, _ => None
        end
    | SExpr e => match gen_e env e with Some (_, _, o) => Some (env, o) | None => None end
    | SPrint e => match gen_use "__str__" env e with Some o => Some (env, o) | None => None end
    | SIf c t e =>
        match gen_use "__bool__" env c, gen_block (gen_s R) env t, gen_block (gen_s R) env e with
        | Some o, Some (_, o1), Some (_, o2) => Some (env, o ++ o1 ++ o2)
        | _, _, _ => None
        end
    | SWhile c b =>
        match gen_use "__bool__" env c, gen_block (gen_s R) env b with
        | Some o, Some (_, o1) => Some (env, o ++ o1)
        | _, _ => None
        end
    | SFor x lo hi b =>
        match gen_e env lo, gen_e env hi with
        | Some (t1, l1, o1), Some (t2, l2, o2) =>
            match gen_block (gen_s R) ((x, vfix tInt) :: env) b with
            | Some (_, o3) => Some (env, o1 ++ o2 ++ [ORange (is_path lo) t1 l1; ORange (is_path hi) t2 l2] ++ o3)
            | None => None
            end
        | _, _ => None
        end
    | SMatch e arms =>
        match gen_e env e,
              (fix go (l : list (pat * list stmt)) : option (list oblig) :=
                 match l with
                 | [] => Some []
                 | (_, b) :: r => match gen_block (gen_s R) env b, go r with
                                  | Some (_, o), Some os => Some (o ++ os)
                                  | _, _ => None
                                  end
                 end) arms with
        | Some (_, _, o), Some os => Some (env, o ++ os)
        | _, _ => None
        end
    | SHandle bd call arms =>
        match gen_e env call with
        | Some (t, lo, o) =>
            match (fix go (l : list harm) : option (list oblig) :=
                     match l with
                     | [] => Some []
                     | HArm exc var body val :: r =>
                         match gen_block (gen_s R) ((var, vfix (tcls exc)) :: env) body, go r with
                         | Some (env', ob), Some os =>
                             match val, bd with
                             | Some v, _ =>
                                 match gen_e env' v with
                                 | Some (tv, lv, ov) => Some (ob ++ ov ++ [OSub KHandleArm [bind_target bd t] tv lv] ++ os)
                                 | None => None
                                 end
                             | None, None => Some (ob ++ os)
                             | None, Some _ => None
                             end
                         | _, _ => None
                         end
                     end) arms with
            | Some os => Some (bind_env bd t lo env, o ++ bind_obl bd t lo ++ os)
            | None => None
            end
        | None => None
        end
    | SReturn e =>
        match R, gen_e env e with
        | Some T, Some (t, lo, o) => Some (env, o ++ [OSub KRet [T] t lo])
        | _, _ => None
        end
    | SRaise exc args => match gen_e env (ECall exc args) with Some (_, _, o) => Some (env, o) | None => None end
    end.

  Definition gen_b (R : option ty) : tenv -> list stmt -> option sres := gen_block (gen_s R).

  Fixpoint gen_marms (R : option ty) (env : tenv) (l : list (pat * list stmt)) : option (list oblig) :=
    match l with
    | [] => Some []
    | (_, b) :: r => match gen_b R env b, gen_marms R env r with
                     | Some (_, o), Some os => Some (o ++ os)
                     | _, _ => None
                     end
    end.

  Definition gen_harm (R : option ty) (env : tenv) (bd : option bind_to) (t : ty) (a : harm) : option (list oblig) :=
    match a with
    | HArm exc var body val =>
        match gen_b R ((var, vfix (tcls exc)) :: env) body with
        | Some (env', ob) =>
            match val, bd with
            | Some v, _ =>
                match gen_e env' v with
                | Some (tv, lv, ov) => Some (ob ++ ov ++ [OSub KHandleArm [bind_target bd t] tv lv])
                | None => None
                end
            | None, None => Some ob
            | None, Some _ => None
            end
        | None => None
        end
    end.

  Fixpoint gen_harms (R : option ty) (env : tenv) (bd : option bind_to) (t : ty) (l : list harm) : option (list oblig) :=
    match l with
    | [] => Some []
    | a :: r => match gen_harm R env bd t a, gen_harms R env bd t r with
                | Some o, Some os => Some (o ++ os)
                | _, _ => None
                end
    end.

  (** does a block return on every path?  (loops may run zero times; a match need not be exhaustive) *)
  Fixpoint returns_s (s : stmt) : bool :=
    match s with
    | SReturn _ => true
    | SRaise _ _ => true
    | SIf _ t e => existsb returns_s t && existsb returns_s e
    | _ => false
    end.
  Definition returns_b (b : list stmt) : bool := existsb returns_s b.

  (** ** Definitions *)
  Fixpoint gen_params (ps : list param) : option (list oblig) :=
    match ps with
    | [] => Some []
    | p :: r =>
        match gen_params r with
        | Some os =>
            match pa_default p with
            | Some d => match gen_e [] d with
                        | Some (t, lo, o) => Some (o ++ [OSub KDefault [pa_ty p] t lo] ++ os)
                        | None => None
                        end
            | None => Some os
            end
        | None => None
        end
    end.

  Definition param_env (ps : list param) : tenv := rev (map (fun p => (pa_name p, vfix (pa_ty p))) ps).

  (** [self_ty]: [Some C] for a method of class C *)
  Definition gen_fun (self_ty : option string) (f : fdef) : option (list oblig) :=
    let env0 := match self_ty with Some c => [("self", vfix (tcls c))] | None => [] end in
    let env := param_env (fd_params f) ++ env0 in
    match gen_params (fd_params f), gen_b (fd_ret f) env (fd_body f) with
    | Some op, Some (env', ob) =>
        match fd_ret f, fd_result f with
        | Some T, Some e => match gen_e env' e with
                            | Some (t, lo, o) => Some (op ++ ob ++ o ++ [OSub KRet [T] t lo])
                            | None => None
                            end
        | Some T, None => Some (op ++ ob ++ [OFallOff (returns_b (fd_body f))])
        | None, None => Some (op ++ ob)
        | None, Some e => match gen_e env' e with       (* a trailing expression statement *)
                          | Some (_, _, o) => Some (op ++ ob ++ o)
                          | None => None
                          end
        end
    | _, _ => None
    end.

  Fixpoint gen_funs (self_ty : option string) (l : list fdef) : option (list oblig) :=
    match l with
    | [] => Some []
    | f :: r => match gen_fun self_ty f, gen_funs self_ty r with
                | Some o, Some os => Some (o ++ os)
                | _, _ => None
                end
    end.

  Definition retag (k : okind) (o : oblig) : oblig :=
    match o with OSub KFunArg T t lo => OSub k T t lo | _ => o end.

  Definition gen_class (c : cdef) : option (list oblig) :=
    match gen_funs (Some (cd_name c)) (cd_methods c) with
    | Some om =>
        match cd_parent c with
        | None => Some om
        | Some (pn, args) =>
            let env := rev (map (fun fd => (fst fd, vfix (snd fd))) (cd_fields c)) in
            match find_fun pn, gen_es env args with
            | Some fs, Some (acts, oa) =>
                match zip_params KFunArg KFunArg (fs_params fs) acts with
                | Some o => Some (om ++ oa ++ map (retag KParentArg) o)
                | None => None
                end
            | _, _ => None
            end
        end
    | None => None
    end.

  Fixpoint gen_classes (l : list cdef) : option (list oblig) :=
    match l with
    | [] => Some []
    | c :: r => match gen_class c, gen_classes r with
                | Some o, Some os => Some (o ++ os)
                | _, _ => None
                end
    end.

  Definition gen_prog (p : program) : option (list oblig) :=
    match gen_classes (p_classes p), gen_funs None (p_funs p), gen_b None [] (p_main p) with
    | Some oc, Some of, Some (_, om) => Some (oc ++ of ++ om)
    | _, _, _ => None
    end.

  (** ** Discharging *)
  Definition nonnull (t : ty) : bool := negb (tnull t) && negb (is_null t).

  Definition discharge (q : quirks) (o : oblig) : bool :=
    match o with
    | OSub k T t lo =>
        if lo && q_quest_loose q then match k with KRecv => false | _ => true end
        else match k with
             | KFunArg => sup (if q_param_strip q then map strip_null T else T) t
             | KHandleArm => q_handle_arm q || sup T t
             | KParentArg => q_parent_args q || sup T t
             | _ => sup T t
             end
    | OFieldRecv t lo =>
        if lo && q_quest_loose q then false else q_field_null q || nonnull t
    | ORange path t lo =>
        if lo && q_quest_loose q then true
        else if path && q_range_rev q then sup [t] tInt else sup [tInt] t
    | OJoin ok => q_quest_loose q || ok
    | OFallOff r => q_falloff q || r
    end.

  Definition check_with (q : quirks) (p : program) : bool :=
    match gen_prog p with Some l => forallb (discharge q) l | None => false end.

  (** ** The declarative relation: one rule per construct *)
  Definition sub (T : name) (t : ty) : Prop := super cx T [t] = Ok true.

  (** arity with defaults, each actual a subtype of its formal *)
  Inductive args_ok : list sparam -> list ty -> Prop :=
  | AO_nil : args_ok [] []
  | AO_both : forall p ps T t ts, sp_ty p = Some T -> sub T t -> args_ok ps ts -> args_ok (p :: ps) (t :: ts)
  | AO_default : forall p ps, sp_default p = true -> args_ok ps [] -> args_ok (p :: ps) [].

  (** a method [m] exists on the class of the receiver and accepts receiver and arguments *)
  Definition meth_ok (recv : ty) (m : string) (ts : list ty) (rt : ty) : Prop :=
    exists sg, find_method (tcname recv) m = Some sg /\ args_ok (sg_params sg) (recv :: ts) /\ rt = single (sg_ret sg).

  Inductive has_type (env : denv) : expr -> ty -> Prop :=
  | T_Int : forall z, has_type env (EInt z) tInt
  | T_Float : forall s, has_type env (EFloat s) tFloat
  | T_Str : forall s, has_type env (EStr s) tStr
  | T_Bool : forall b, has_type env (EBool b) tBool
  | T_None : has_type env ENone tNone
  | T_Var : forall x v, dlookup env x = Some v -> has_type env (EVar x) (d_ty v)
  | T_Op : forall m l r tl tr t,
      has_type env l tl -> has_type env r tr -> meth_ok tl m [tr] t -> has_type env (EOp m l r) t
  | T_Not : forall a ta t, has_type env a ta -> meth_ok ta "__bool__" [] t -> has_type env (ENot a) tBool
  | T_BoolOp : forall l r tl tr t1 t2,
      has_type env l tl -> has_type env r tr -> meth_ok tl "__bool__" [] t1 -> meth_ok tr "__bool__" [] t2 ->
      has_type env (EBoolOp l r) tBool
  | T_Call : forall f args fs ts,
      find_fun f = Some fs -> has_types env args ts -> args_ok (fs_params fs) ts ->
      has_type env (ECall f args) (single (fs_ret fs))
  | T_Meth : forall ob m args tb ts t,
      has_type env ob tb -> has_types env args ts -> meth_ok tb m ts t -> has_type env (EMeth ob m args) t
  | T_Field : forall ob f tb ft,
      has_type env ob tb -> nonnull tb = true -> find_field (tcname tb) f = Some ft -> has_type env (EField ob f) ft
  | T_Quest : forall x d tx td t,
      has_type env x tx -> has_type env d td -> sub [tx] tNone -> join_ty (strip_null tx) td = Some t ->
      has_type env (EQuest x d) t
  | T_If : forall c t e tc t1 t2 tb tj,
      has_type env c tc -> has_type env t t1 -> has_type env e t2 -> meth_ok tc "__bool__" [] tb ->
      join_ty t1 t2 = Some tj -> has_type env (EIf c t e) tj
  | T_Fmt : forall es, strs_ok env es -> has_type env (EFmt es) tStr
  with has_types (env : denv) : list expr -> list ty -> Prop :=
  | TS_nil : has_types env [] []
  | TS_cons : forall e es t ts, has_type env e t -> has_types env es ts -> has_types env (e :: es) (t :: ts)
  with strs_ok (env : denv) : list expr -> Prop :=
  | SO_nil : strs_ok env []
  | SO_cons : forall e es t ts, has_type env e t -> meth_ok t "__str__" [] ts -> strs_ok env es -> strs_ok env (e :: es).

  Definition dbind_env (bd : option bind_to) (t : ty) (env : denv) : denv :=
    match bd with
    | Some b => (b_var b, {| d_ty := match b_ann b with Some T => T | None => t end; d_mut := b_mut b |}) :: env
    | None => env
    end.

  Definition use_ok (m : string) (env : denv) (e : expr) : Prop :=
    exists t rt, has_type env e t /\ meth_ok t m [] rt.

  Definition range_ok (env : denv) (e : expr) : Prop := exists t, has_type env e t /\ sub [tInt] t.

  Inductive stmt_ok (R : option ty) : denv -> stmt -> denv -> Prop :=
  | S_DefAnn : forall env x mut T e t,
      has_type env e t -> sub [T] t ->
      stmt_ok R env (SDef x mut (Some T) e) ((x, {| d_ty := T; d_mut := mut |}) :: env)
  | S_DefInf : forall env x mut e t,
      has_type env e t ->
      stmt_ok R env (SDef x mut None e) ((x, {| d_ty := t; d_mut := mut |}) :: env)
  | S_Assign : forall env x e v t,
      dlookup env x = Some v -> d_mut v = true -> has_type env e t -> sub [d_ty v] t -> stmt_ok R env (SAssign x e) env
  | S_SetField : forall env ob f e tb ft t,
      has_type env ob tb -> nonnull tb = true -> find_field (tcname tb) f = Some ft ->
      has_type env e t -> sub [ft] t -> stmt_ok R env (SSetField ob f e) env
  | S_Expr : forall env e t, has_type env e t -> stmt_ok R env (SExpr e) env
  | S_Print : forall env e, use_ok "__str__" env e -> stmt_ok R env (SPrint e) env
  | S_If : forall env c t e env1 env2,
      use_ok "__bool__" env c -> block_ok R env t env1 -> block_ok R env e env2 -> stmt_ok R env (SIf c t e) env
  | S_While : forall env c b env1,
      use_ok "__bool__" env c -> block_ok R env b env1 -> stmt_ok R env (SWhile c b) env
  | S_For : forall env x lo hi b env1,
      range_ok env lo -> range_ok env hi -> block_ok R ((x, dfix tInt) :: env) b env1 -> stmt_ok R env (SFor x lo hi b) env
  | S_Match : forall env e t arms,
      has_type env e t -> marms_ok R env arms -> stmt_ok R env (SMatch e arms) env
  | S_Handle : forall env bd call arms t,
      has_type env call t ->
      (forall b T, bd = Some b -> b_ann b = Some T -> sub [T] t) ->
      harms_ok R env bd t arms ->
      stmt_ok R env (SHandle bd call arms) (dbind_env bd t env)
  | S_Return : forall env e T t, R = Some T -> has_type env e t -> sub [T] t -> stmt_ok R env (SReturn e) env
  | S_Raise : forall env exc args t, has_type env (ECall exc args) t -> stmt_ok R env (SRaise exc args) env
  with block_ok (R : option ty) : denv -> list stmt -> denv -> Prop :=
  | B_nil : forall env, block_ok R env [] env
  | B_cons : forall env s env1 r env2, stmt_ok R env s env1 -> block_ok R env1 r env2 -> block_ok R env (s :: r) env2
  with marms_ok (R : option ty) : denv -> list (pat * list stmt) -> Prop :=
  | MA_nil : forall env, marms_ok R env []
  | MA_cons : forall env p b r env1, block_ok R env b env1 -> marms_ok R env r -> marms_ok R env ((p, b) :: r)
  with harms_ok (R : option ty) : denv -> option bind_to -> ty -> list harm -> Prop :=
  | HA_nil : forall env bd t, harms_ok R env bd t []
  | HA_val : forall env bd t exc var body v r env1 tv,
      block_ok R ((var, dfix (tcls exc)) :: env) body env1 -> has_type env1 v tv -> sub [bind_target bd t] tv ->
      harms_ok R env bd t r -> harms_ok R env bd t (HArm exc var body (Some v) :: r)
  | HA_noval : forall env t exc var body r env1,
      block_ok R ((var, dfix (tcls exc)) :: env) body env1 ->
      harms_ok R env None t r -> harms_ok R env None t (HArm exc var body None :: r).

  Inductive params_ok : list param -> Prop :=
  | PO_nil : params_ok []
  | PO_nodef : forall p r, pa_default p = None -> params_ok r -> params_ok (p :: r)
  | PO_def : forall p r d t, pa_default p = Some d -> has_type [] d t -> sub [pa_ty p] t -> params_ok r -> params_ok (p :: r).

  Definition fun_env (self_ty : option string) (f : fdef) : denv :=
    erase (param_env (fd_params f) ++ match self_ty with Some c => [("self", vfix (tcls c))] | None => [] end).

  (** the body / returned value is a subtype of the declared return type; a function that declares one returns
      on every path *)
  Inductive fun_ok (self_ty : option string) (f : fdef) : Prop :=
  | F_result : forall env1 T e t,
      params_ok (fd_params f) -> block_ok (fd_ret f) (fun_env self_ty f) (fd_body f) env1 ->
      fd_ret f = Some T -> fd_result f = Some e -> has_type env1 e t -> sub [T] t -> fun_ok self_ty f
  | F_returns : forall env1 T,
      params_ok (fd_params f) -> block_ok (fd_ret f) (fun_env self_ty f) (fd_body f) env1 ->
      fd_ret f = Some T -> fd_result f = None -> returns_b (fd_body f) = true -> fun_ok self_ty f
  | F_proc : forall env1,
      params_ok (fd_params f) -> block_ok (fd_ret f) (fun_env self_ty f) (fd_body f) env1 ->
      fd_ret f = None -> fd_result f = None -> fun_ok self_ty f
  | F_proc_e : forall env1 e t,
      params_ok (fd_params f) -> block_ok (fd_ret f) (fun_env self_ty f) (fd_body f) env1 ->
      fd_ret f = None -> fd_result f = Some e -> has_type env1 e t -> fun_ok self_ty f.

  Inductive class_ok (c : cdef) : Prop :=
  | C_noparent : Forall (fun_ok (Some (cd_name c))) (cd_methods c) -> cd_parent c = None -> class_ok c
  | C_parent : forall pn args fs ts,
      Forall (fun_ok (Some (cd_name c))) (cd_methods c) -> cd_parent c = Some (pn, args) ->
      find_fun pn = Some fs ->
      has_types (erase (rev (map (fun fd => (fst fd, vfix (snd fd))) (cd_fields c)))) args ts ->
      args_ok (fs_params fs) ts -> class_ok c.

  Definition conforms_with (p : program) : Prop :=
    Forall class_ok (p_classes p) /\ Forall (fun_ok None) (p_funs p) /\ exists env, block_ok None [] (p_main p) env.
End Tables.

(** ** Tables of a program *)
Definition cls_of (c : cdef) : cls :=
  {| cl_name := cd_name c; cl_gen := [];
     cl_parents := match cd_parent c with Some (p, _) => [tcls p] | None => [] end |}.

Definition sparam_of (p : param) : sparam :=
  {| sp_name := pa_name p; sp_ty := Some [pa_ty p];
     sp_default := match pa_default p with Some _ => true | None => false end |}.

Definition msig_of (c : string) (f : fdef) : msig :=
  {| sg_class := c; sg_name := fd_name f;
     sg_params := {| sp_name := "self"; sp_ty := Some [tcls c]; sp_default := false |} :: map sparam_of (fd_params f);
     sg_ret := match fd_ret f with Some t => Some [t] | None => None end |}.

Definition fsig_of (f : fdef) : fsig :=
  {| fs_name := fd_name f; fs_params := map sparam_of (fd_params f);
     fs_ret := match fd_ret f with Some t => Some [t] | None => None end |}.

Definition ctor_of (c : cdef) : fsig :=
  {| fs_name := cd_name c;
     fs_params := map (fun fd => {| sp_name := fst fd; sp_ty := Some [snd fd]; sp_default := false |}) (cd_fields c);
     fs_ret := Some [tcls (cd_name c)] |}.

(** constructors of the built-in classes: the [__init__] row without [self] *)
Definition builtin_ctors (stubs : list msig) : list fsig :=
  map (fun s => {| fs_name := sg_class s; fs_params := tl (sg_params s); fs_ret := Some [tcls (sg_class s)] |})
      (filter (fun s => String.eqb (sg_name s) "__init__") stubs).

Section Program.
  Variable builtins : ctx.
  Variable stubs : list msig.

  Definition cx_of (p : program) : ctx := builtins ++ map cls_of (p_classes p).
  Definition sigs_of (p : program) : list msig :=
    stubs ++ flat_map (fun c => map (msig_of (cd_name c)) (cd_methods c)) (p_classes p).
  Definition funs_of (p : program) : list fsig :=
    map fsig_of (p_funs p) ++ map ctor_of (p_classes p) ++ builtin_ctors stubs.
  Definition fields_of (p : program) : list (string * string * ty) :=
    flat_map (fun c => map (fun fd => (cd_name c, fst fd, snd fd)) (cd_fields c)) (p_classes p).

  Definition obligations (p : program) : option (list oblig) :=
    gen_prog (cx_of p) (sigs_of p) (funs_of p) (fields_of p) p.
  Definition check (q : quirks) (p : program) : bool :=
    check_with (cx_of p) (sigs_of p) (funs_of p) (fields_of p) q p.
  Definition conforms (p : program) : Prop :=
    conforms_with (cx_of p) (sigs_of p) (funs_of p) (fields_of p) p.

  (** the known classes: an obligation on which the implementation and the repaired checker differ *)
  Definition in_known (cxp : ctx) (strip : bool) (o : oblig) : bool :=
    negb (Bool.eqb (discharge cxp (impl_quirks strip) o) (discharge cxp noq o)).
  Definition known_free (strip : bool) (p : program) : bool :=
    match obligations p with
    | Some l => forallb (fun o => negb (in_known (cx_of p) strip o)) l
    | None => true
    end.
End Program.

(** text for the correspondence check *)
Definition verdict (b : bool) : string := if b then "OK" else "ERR".
