(** * The finite universe of the C20 quantifier, and the laws as boolean checks over it

    "every built-in class of the default context, a user hierarchy of depth 3 with a diamond and an unrelated
    class, their nullable variants, unions of <= 2 members, generic instantiations (List/Set/Collection/Dict/Tuple)
    of depth <= 2; function types only for reflexivity".

    The same list is used by the implementation side: lib/vlib/c20.py reads it from here ([map show_nm univ])
    so that proof and correspondence speak about the same types. *)
From Coq Require Import List String Bool Arith.
From MambaModel Require Import model.Types gen.Stubs.
Import ListNotations.
Local Open Scope string_scope.
Local Open Scope list_scope.

(** user classes: A; B, C children of A; D child of B and C (diamond); E child of D (depth 3); U unrelated.
    Mamba source: see [user_source] in lib/vlib/c20.py. *)
Definition user_demo : ctx :=
  [ {| cl_name := "A"; cl_gen := []; cl_parents := [] |};
    {| cl_name := "B"; cl_gen := []; cl_parents := [cls_ty "A"] |};
    {| cl_name := "C"; cl_gen := []; cl_parents := [cls_ty "A"] |};
    {| cl_name := "D"; cl_gen := []; cl_parents := [cls_ty "B"; cls_ty "C"] |};
    {| cl_name := "E"; cl_gen := []; cl_parents := [cls_ty "D"] |};
    {| cl_name := "U"; cl_gen := []; cl_parents := [] |} ].

Definition demo : ctx := generated ++ user_demo.

Definition c (s : string) : ty := cls_ty s.
Definition q (t : ty) : ty := as_nullable t.
Definition g1 (s : string) (a : ty) : ty := TN false s [[a]].
Definition g2 (s : string) (a b : ty) : ty := TN false s [[a]; [b]].
Definition tup (l : list ty) : ty := TN false TUPLE (map (fun t => [t]) l).
Definition fn (args : list ty) (ret : ty) : ty := TN false "Callable" [[TN false "" (map (fun t => [t]) args)]; [ret]].

(** every non-generic class of the table *)
Definition plain_classes (cx : ctx) : list string :=
  map cl_name (filter (fun k => match cl_gen k with [] => true | _ => false end) cx).

Definition u_plain : list name := map (fun s => [c s]) (plain_classes demo).
Definition u_nullable : list name :=
  map (fun s => [q (c s)]) (filter (fun s => negb (String.eqb s NONE)) (plain_classes demo)).

Definition core : list ty := map c ["Int"; "Float"; "Str"; "Bool"; "None"; "Any"; "A"; "B"; "D"; "U"].
Fixpoint pairs {X : Type} (l : list X) : list (X * X) :=
  match l with [] => [] | x :: r => map (fun y => (x, y)) r ++ pairs r end.
Definition u_unions : list name :=
  map (fun p => [fst p; snd p]) (pairs core)
  ++ [[q (c "Int"); c "Str"]; [c "Int"; q (c "Str")]; [q (c "A"); c "U"]; [c "D"; q (c "B")]; [q (c "Int"); q (c "Str")]].

Definition args1 : list ty := [c "Int"; c "Float"; c "Str"; c "A"; c "D"; q (c "Int"); c "Any"].
Definition u_gen1 : list name :=
  flat_map (fun s => map (fun a => [g1 s a]) args1) ["List"; "Set"; "Collection"]
  ++ map (fun p => [g2 "Dict" (fst p) (snd p)])
         [(c "Int", c "Str"); (c "Float", c "Str"); (c "Int", c "Int"); (c "Str", c "A"); (c "Str", c "D");
          (c "Str", q (c "Int"))]
  ++ map (fun l => [tup l])
         [[c "Int"; c "Str"]; [c "Float"; c "Str"]; [c "Int"; c "Int"]; [c "A"; c "U"]; [c "D"; c "U"]; [c "Int"];
          [c "Int"; c "Str"; c "Bool"]; [q (c "Int"); c "Str"]].
Definition u_gen2 : list name :=
  map (fun t => [t])
    [g1 "List" (g1 "List" (c "Int")); g1 "List" (g1 "List" (c "Float")); g1 "List" (g1 "Set" (c "Int"));
     g1 "Set" (tup [c "Int"; c "Str"]); g1 "List" (tup [c "Int"; c "Str"]); g1 "List" (tup [c "Float"; c "Str"]);
     tup [g1 "List" (c "Int"); c "Str"]; tup [g1 "List" (c "Float"); c "Str"];
     g2 "Dict" (c "Str") (g1 "List" (c "Int")); g2 "Dict" (c "Str") (g1 "List" (c "Float"));
     g1 "List" (g1 "List" (q (c "Int"))); g1 "List" (g2 "Dict" (c "Int") (c "Str"));
     q (g1 "List" (c "Int")); q (tup [c "Int"; c "Str"])]
  ++ [[g1 "List" (c "Int"); c "None"]; [g1 "List" (c "Int"); c "Str"]; [tup [c "Int"; c "Str"]; c "Int"]].
Definition u_fun : list name :=
  map (fun t => [t]) [fn [c "Int"] (c "Str"); fn [] (c "Int"); fn [c "Int"; c "Str"] (c "Bool"); fn [c "A"] (c "D")].

(** the universe of the relation laws *)
Definition univ_rel : list name := u_plain ++ u_nullable ++ u_unions ++ u_gen1 ++ u_gen2.
(** the whole universe (function types: reflexivity only) *)
Definition univ : list name := univ_rel ++ u_fun.
(** the sub-universe on which the three-argument union law is decided inside Coq *)
Definition univ_small : list name :=
  map (fun s => [c s]) ["Int"; "Float"; "Str"; "Bool"; "None"; "Any"; "A"; "B"; "D"; "U"]
  ++ map (fun s => [q (c s)]) ["Int"; "Float"; "Str"; "Any"; "A"; "D"]
  ++ [[c "Int"; c "Str"]; [c "Int"; c "None"]; [c "A"; c "U"]; [q (c "Int"); c "Str"]; [c "Any"; c "None"]]
  ++ map (fun t => [t]) [g1 "List" (c "Int"); g1 "List" (c "Float"); g1 "List" (q (c "Int")); g1 "Collection" (c "Float");
                        tup [c "Int"; c "Str"]; tup [c "Float"; c "Str"]; g2 "Dict" (c "Int") (c "Str");
                        g1 "List" (g1 "List" (c "Int"))].

(** ** The relation as a table *)
Definition yes (r : res bool) : bool := match r with Ok true => true | _ => false end.
Definition matrix (cx : ctx) (l : list name) : list (list bool) :=
  map (fun A => map (fun B => yes (super cx A B)) l) l.
Definition matrix_text (cx : ctx) (l : list name) : list string :=
  map (fun A => row cx (mkN A) (map mkN l)) l.

Fixpoint subrow (rb ra : list bool) : bool :=
  match rb, ra with
  | [], [] => true
  | b :: rb', a :: ra' => implb b a && subrow rb' ra'
  | _, _ => false
  end.

(** transitivity over all triples of a table: whenever m[a][b], row b is included in row a *)
Definition trans_table (m : list (list bool)) : bool :=
  forallb (fun ra => forallb (fun p => implb (fst p) (subrow (snd p) ra)) (combine ra m)) m.

(** ** Known classes (decidable) *)

(** D30: tuples of different length.  [arities t]: the lengths of all tuple types occurring in [t]. *)
Fixpoint arities (t : ty) : list nat :=
  match t with
  | TN _ s g =>
      (if String.eqb s TUPLE then [List.length g] else [])
      ++ flat_map (fun arg => flat_map arities arg) g
  end.
Definition name_arities (A : name) : list nat := flat_map arities A.
Definition arity_clash (A B : name) : bool :=
  existsb (fun n => existsb (fun m => negb (Nat.eqb n m)) (name_arities B)) (name_arities A).

(** transitivity over all triples, outside the triples in which two tuple types of different length meet *)
Definition trans_outside (cx : ctx) (l : list name) : bool :=
  let m := matrix cx l in
  forallb (fun pa : name * list bool =>
    forallb (fun pb : name * (bool * list bool) =>
      implb (fst (snd pb))
        (forallb (fun pc : name * (bool * bool) =>
            implb (fst (snd pc)) (snd (snd pc))
            || arity_clash (fst pa) (fst pb) || arity_clash (fst pb) (fst pc))
          (combine l (combine (snd (snd pb)) (snd pa)))))
      (combine l (combine (snd pa) m)))
    (combine l m).

(** D22: a member with a generic argument that has a nullable member *)
Definition d22_ty (t : ty) : bool := existsb (fun arg => existsb tnull arg) (tgens t).
Definition d22 (A : name) : bool := existsb d22_ty A.

(** D31: a [Collection[..]] type meets a tuple type (the Tuple class keeps its parent [Collection[T]]
    unsubstituted, and looking up the class [T] is an error) *)
Fixpoint mentions (s : string) (t : ty) : bool :=
  match t with
  | TN _ s' g => String.eqb s s' || existsb (fun arg => existsb (mentions s) arg) g
  end.
Definition d31 (X Y : name) : bool := existsb (mentions COLLECTION) X && existsb (mentions TUPLE) Y.

(** D17/D23 family: the union of A and B rewrites members (a null member next to another member) *)
Definition null_mix (A B : name) : bool :=
  let ns := nub ty_eqb (A ++ B) in existsb is_null ns && Nat.ltb 1 (List.length ns).

Definition has_nullable (A : name) : bool := existsb tnull A.

(** ** The laws as checks *)
Definition refl_check (cx : ctx) (l : list name) : bool :=
  forallb (fun A => yes (super cx A A) || d22 A) l.

(** reflexivity fails exactly on the D22 class (on this universe) *)
Definition refl_exact (cx : ctx) (l : list name) : bool :=
  forallb (fun A => Bool.eqb (yes (super cx A A)) (negb (d22 A))) l.

Definition any_top_check (cx : ctx) (l : list name) : bool :=
  forallb (fun A => has_nullable A || match A with [] => true | _ => yes (super cx [c ANY] A) end) l.

Definition no_divergence (cx : ctx) (l : list name) : bool :=
  forallb (fun A => forallb (fun B => match super cx A B with Div => false | _ => true end) l) l.

Definition union_upper_check (cx : ctx) (l : list name) : bool :=
  forallb (fun A => forallb (fun B =>
     let U := union_members A B in
     (yes (super cx U A) || d22 A || d31 U A) && (yes (super cx U B) || d22 B || d31 U B)) l) l.

Definition union_comm_check (l : list name) : bool :=
  forallb (fun A => forallb (fun B => name_eqb (union_members A B) (union_members B A)) l) l.

Definition union_idem_check (l : list name) : bool :=
  forallb (fun A => name_eqb (union_members A A) A || null_mix A A) l.

Definition union_assoc_check (l : list name) : bool :=
  forallb (fun A => forallb (fun B => forallb (fun C =>
     name_eqb (union_members (union_members A B) C) (union_members A (union_members B C))
     || existsb is_null (A ++ B ++ C)) l) l) l.

(** U >= A u B  <->  U >= A /\ U >= B.  Forward direction: always (outside D22 members, whose own reflexivity
    fails); backward direction: outside [null_mix A B]. *)
Definition union_member_check (cx : ctx) (l : list name) : bool :=
  forallb (fun A => forallb (fun B =>
     let AB := union_members A B in
     forallb (fun U =>
        let ua := yes (super cx U A) in let ub := yes (super cx U B) in let uab := yes (super cx U AB) in
        (implb uab (ua && ub) || d22 A || d22 B) && (implb (ua && ub) uab || null_mix A B)) l) l) l.
