(** * Scope: the constraint generator's environment threading, as a skeleton checker

    Mirrors src/check/constrain/generate/{mod,env,control_flow,definition,call,statement,expression,
    collection}.rs of /repo seen only through [Environment] (env.rs) and the builder's global
    [var_mapping] (constraint/builder.rs), plus [check_iden_mut]/[check_reassignable] (call.rs),
    [check_raises_caught] (statement.rs) and src/check/ident.rs.  Everything that only produces type
    constraints is dropped; what is kept is exactly what decides the three families of errors that are
    raised during constraint generation, before unification:

      undefined  "Undefined variable: x", "Cannot reassign to undefined 'x'", "Function f is undefined."
      immutable  "Cannot change mutability of .. in reassign"
      unhandled  "Exception not caught: E"

    The skeleton language has one constructor per AST form that touches the environment.  Names are
    numbers; variables, functions, classes, fields and methods are separate alphabets (the renderer of
    lib/vlib/scope.py spells them v<i>, f<i>, E<i>, a<i>, m<i>), so [env.get_var(f_name)] in the
    FunctionCall case of call.rs is always None for a function name and that branch is not modelled.

    Offsets are [nat]; the Rust [usize] addition [*offset + 1] cannot overflow for a program that fits
    in memory (one increment per definition).  The key ["x@k"] of [format_var_map] is modelled by the
    pair [(x, k)]; the two agree as long as no identifier contains '@' (the lexer admits none). *)
From Coq Require Import List Bool Arith PeanoNat.
Import ListNotations.

Definition var := nat.
Definition fname := nat.
Definition cls := nat.
Definition field := nat.
Definition mname := nat.

(** [self] (check/context/arg SELF) and [Exception] (check/context/clss EXCEPTION). *)
Definition SELF : var := 0.
Definition EXC : cls := 0.

(** ** finite maps as association lists (HashMap insert = cons, lookup = first hit) *)
Fixpoint alook {A} (k : nat) (l : list (nat * A)) : option A :=
  match l with
  | [] => None
  | (k', v) :: r => if k =? k' then Some v else alook k r
  end.

Definition key := (nat * nat)%type.
Definition keyb (a b : key) : bool := (fst a =? fst b) && (snd a =? snd b).
Fixpoint klook {A} (k : key) (l : list (key * A)) : option A :=
  match l with
  | [] => None
  | (k', v) :: r => if keyb k k' then Some v else klook k r
  end.

Fixpoint mem (x : nat) (l : list nat) : bool :=
  match l with [] => false | y :: r => (x =? y) || mem x r end.
Definition inter (a b : list nat) : list nat := filter (fun x => mem x b) a.
Definition remove_all (x : nat) (l : list nat) : list nat := filter (fun y => negb (x =? y)) l.

(** ** tables of the global Context *)
Record tabs := mkTabs {
  t_cls : list (cls * list cls);            (** class -> direct parents (Context.classes) *)
  t_fun : list (fname * (nat * list cls));  (** top-level function -> arity, declared raises *)
  t_meth : list (mname * list cls);         (** method -> declared raises (never consulted by [generate]) *)
  t_fld : list (field * bool)               (** field -> mutable (Field.mutable; never consulted) *)
}.

(** ** Environment (env.rs) and the builder's var_mapping *)
Record env := mkEnv {
  e_vars : list (key * bool);      (** vars : "name@offset" -> {(mutable, expected)}; always a singleton *)
  e_map : list (var * nat);        (** var_mapping *)
  e_unassigned : list field;
  e_caught : list cls;             (** raises_caught *)
  e_in_fun : bool;
  e_in_loop : bool;
  e_has_ret : bool;                (** return_type.is_some() *)
  e_in_class : bool                (** class.is_some() *)
}.
Definition gmap := list (var * nat).

Definition env0 : env := mkEnv [] [] [] [] false false false false.

Definition set_vars v m (e : env) :=
  mkEnv v m (e_unassigned e) (e_caught e) (e_in_fun e) (e_in_loop e) (e_has_ret e) (e_in_class e).
Definition set_unassigned u (e : env) :=
  mkEnv (e_vars e) (e_map e) u (e_caught e) (e_in_fun e) (e_in_loop e) (e_has_ret e) (e_in_class e).
Definition set_caught c (e : env) :=
  mkEnv (e_vars e) (e_map e) (e_unassigned e) c (e_in_fun e) (e_in_loop e) (e_has_ret e) (e_in_class e).
Definition set_in_fun b (e : env) :=
  mkEnv (e_vars e) (e_map e) (e_unassigned e) (e_caught e) b (e_in_loop e) (e_has_ret e) (e_in_class e).
Definition set_in_loop b (e : env) :=
  mkEnv (e_vars e) (e_map e) (e_unassigned e) (e_caught e) (e_in_fun e) b (e_has_ret e) (e_in_class e).
Definition set_has_ret b (e : env) :=
  mkEnv (e_vars e) (e_map e) (e_unassigned e) (e_caught e) (e_in_fun e) (e_in_loop e) b (e_in_class e).

(** ConstrBuilder::insert_var *)
Definition g_insert (g : gmap) (x : var) : gmap :=
  (x, match alook x g with Some o => S o | None => 0 end) :: g.

(** Environment::insert_var *)
Definition ins_offset (e : env) (g : gmap) (x : var) : nat :=
  match alook x (e_map e) with
  | Some o => S o
  | None => match alook x g with Some o => o | None => 0 end
  end.
Definition insert_var (e : env) (g : gmap) (m : bool) (x : var) : env :=
  let o := ins_offset e g x in
  set_vars (((x, o), m) :: e_vars e) ((x, o) :: e_map e) e.

(** Environment::get_var *)
Definition get_offset (e : env) (g : gmap) (x : var) : nat :=
  match alook x (e_map e) with
  | Some o => o
  | None => match alook x g with Some o => o | None => 0 end
  end.
Definition get_var (e : env) (g : gmap) (x : var) : option bool :=
  klook (x, get_offset e g x) (e_vars e).

(** [constr.insert_var(name); env = env.insert_var(mutable, name, .., &constr.var_mapping)]
    (id_from_var, constr_col_lookup) *)
Definition define (m : bool) (eg : env * gmap) (x : var) : env * gmap :=
  let g' := g_insert (snd eg) x in (insert_var (fst eg) g' m x, g').
Definition define_all (m : bool) (e : env) (g : gmap) (p : list var) : env * gmap :=
  fold_left (define m) p (e, g).

(** ** which threading is modelled
    [restored]: the code of /repo (since the repair c08_handle_restores: the caught set is put back
    after a handle and for its arms, a function body starts from its own declared raises).
    [as_is]: the rule set BEFORE that repair (raises_caught was only ever unioned); kept so that a
    return to the old behaviour is recognised.  [repaired]: additionally the declared raises of method calls are checked - what C08 demands;
    only used to delimit the known findings. *)
Record mode := mkMode { m_restore : bool; m_methods : bool }.
Definition as_is : mode := mkMode false false.
Definition restored : mode := mkMode true false.
Definition repaired : mode := mkMode true true.

(** ** outcomes *)
Inductive kind := KUndef | KUndefFun | KImmut | KUnhandled | KOther | KPanic | KDiverge.
Inductive res (A : Type) := Ok (a : A) | Rej (k : kind).
Arguments Ok {A} a.
Arguments Rej {A} k.

(** ** class hierarchy: Class::has_parent (clss/mod.rs), recursion bounded by fuel *)
Inductive hp := HpT | HpF | HpErr | HpDiv.

Fixpoint has_parent (fuel : nat) (ct : list (cls * list cls)) (c o : cls) : hp :=
  match fuel with
  | 0 => HpDiv
  | S k =>
    match alook c ct with
    | None => HpErr                                   (* ctx.class(..)? failed *)
    | Some ps =>
      if c =? o then HpT else
      (fix go (ps : list cls) (found : bool) : hp :=
         match ps with
         | [] => if found then HpT else HpF
         | p :: r => match has_parent k ct p o with
                     | HpT => go r true
                     | HpF => go r found
                     | HpErr => HpErr                 (* collect::<Result<Vec<bool>,_>>()? *)
                     | HpDiv => HpDiv
                     end
         end) ps false
    end
  end.

Definition fuel_of (T : tabs) : nat := S (length (t_cls T)).

(** [env.raises_caught.iter().any(|r| raise_class.has_parent(r).unwrap_or_default())] *)
Fixpoint any_caught (T : tabs) (c : cls) (caught : list cls) : hp :=
  match caught with
  | [] => HpF
  | g :: r => match has_parent (fuel_of T) (t_cls T) c g with
              | HpT => HpT
              | HpDiv => HpDiv
              | _ => any_caught T c r
              end
  end.

(** check_raises_caught (statement.rs) *)
Fixpoint check_raises (T : tabs) (e : env) (cs : list cls) : option kind :=
  match cs with
  | [] => None
  | c :: r =>
    if e_in_fun e then
      match alook c (t_cls T) with
      | None => Some KUnhandled
      | Some _ => match any_caught T c (e_caught e) with
                  | HpT => check_raises T e r
                  | HpDiv => Some KDiverge
                  | _ => Some KUnhandled
                  end
      end
    else None
  end.

(** the declared raises of a FunDef must descend from Exception (definition.rs) *)
Fixpoint check_declared (T : tabs) (rs : list cls) : option kind :=
  match rs with
  | [] => None
  | c :: r => match has_parent (fuel_of T) (t_cls T) c EXC with
              | HpT => check_declared T r
              | HpDiv => Some KDiverge
              | _ => Some KOther
              end
  end.

(** ** skeleton syntax *)
Inductive expr :=
| EConst                                           (** literal *)
| ERead (x : var)                                  (** Id *)
| EBin (a b : expr)                                (** a + b (gen_magic) *)
| ECall (f : fname) (args : exprs)                 (** FunctionCall resolved in the Context *)
| EPrint (args : exprs)                            (** print(..) *)
| EMCall (r : var) (m : mname) (args : exprs)      (** r.m(..)   (property_call) *)
| EField (r : var) (f : field)                     (** r.f *)
with exprs := ENil | ECons (e : expr) (es : exprs).

(** statements that can stand before [handle] *)
Inductive simple :=
| XExpr (e : expr)
| XDef (m : bool) (p : list var) (init : option expr)   (** def [fin] x | (a, b) [:= e] *)
| XAssign (p : list var) (e : expr)                     (** x := e, (a, b) := e *)
| XAug (x : var) (e : expr)                             (** x += e *)
| XFieldSet (r : var) (f : field) (e : expr)            (** r.f := e *)
| XReturn (e : option expr)
| XRaise (c : cls)                                      (** raise C(..) *)
| XPass.

Inductive stmt :=
| SSimple (s : simple)
| SHandle (s : simple) (hs : harms)
| SIf (c : expr) (t : stmts)
| SIfElse (c : expr) (t el : stmts)
| SMatch (c : expr) (a : arms)
| SWhile (c : expr) (b : stmts)
| SFor (p : list var) (col : expr) (b : stmts)
| SFun (f : fname) (ps : list (bool * var)) (rs : list cls) (ret : bool) (b : stmts)
with stmts := SNil | SCons (s : stmt) (ss : stmts)
with arms := ANil | ACons (b : option (bool * var)) (body : stmts) (rest : arms)
with harms := HNil | HCons (c : cls) (b : option (bool * var)) (body : stmts) (rest : harms).

Fixpoint elen (es : exprs) : nat := match es with ENil => 0 | ECons _ r => S (elen r) end.
Fixpoint hclasses (hs : harms) : list cls :=
  match hs with HNil => [] | HCons c _ _ r => c :: hclasses r end.

(** ** expressions: only reads, calls and accesses matter.  No expression form of the skeleton
    changes the environment (is_def_mode is false), so the result is just an optional error.
    [m_methods strict] additionally checks the declared raises of a method call (what the property
    demands, D19); it is off in the code as it is. *)
Fixpoint check_expr (T : tabs) (strict : mode) (e : env) (g : gmap) (x : expr) : option kind :=
  match x with
  | EConst => None
  | ERead v => match get_var e g v with Some _ => None | None => Some KUndef end
  | EBin a b =>                                   (* gen_vec [right; left] *)
    match check_expr T strict e g b with Some k => Some k | None => check_expr T strict e g a end
  | ECall f args =>
    match check_exprs T strict e g args with
    | Some k => Some k
    | None =>
      match alook f (t_fun T) with
      | None => Some KUndefFun                      (* ctx.function(..)? *)
      | Some (ar, rs) =>
        if elen args =? ar then check_raises T e rs else Some KOther   (* call_parameters *)
      end
    end
  | EPrint args => check_exprs T strict e g args
  | EMCall r m args =>
    match check_exprs T strict e g args with
    | Some k => Some k
    | None =>
      match get_var e g r with
      | None => Some KUndef
      | Some _ =>
        if m_methods strict then check_raises T e (match alook m (t_meth T) with Some rs => rs | None => [] end)
        else None
      end
    end
  | EField r f =>
    if (r =? SELF) && mem f (e_unassigned e) then Some KOther
    else match get_var e g r with Some _ => None | None => Some KUndef end
  end
with check_exprs (T : tabs) (strict : mode) (e : env) (g : gmap) (xs : exprs) : option kind :=
  match xs with
  | ENil => None
  | ECons x r =>
    match check_expr T strict e g x with Some k => Some k | None => check_exprs T strict e g r end
  end.

(** check_iden_mut (call.rs): first offending field of the identifier *)
Fixpoint check_iden_mut (e : env) (g : gmap) (p : list var) : option kind :=
  match p with
  | [] => None
  | x :: r =>
    match get_var e g x with
    | Some true => check_iden_mut e g r
    | Some false => Some KImmut
    | None => if (x =? SELF) && e_in_class e then check_iden_mut e g r else Some KUndef
    end
  end.

Definition oexpr (T : tabs) (strict : mode) (e : env) (g : gmap) (o : option expr) : option kind :=
  match o with Some x => check_expr T strict e g x | None => None end.

Fixpoint check_reads (e : env) (g : gmap) (p : list var) : option kind :=
  match p with
  | [] => None
  | x :: r => match get_var e g x with Some _ => check_reads e g r | None => Some KUndef end
  end.

Definition check_simple (T : tabs) (strict : mode) (e : env) (g : gmap) (s : simple) : res (env * gmap) :=
  match s with
  | XExpr x => match check_expr T strict e g x with Some k => Rej k | None => Ok (e, g) end
  | XDef m p init =>                               (* id_from_var *)
    match oexpr T strict e g init with
    | Some k => Rej k
    | None =>
      match p, init with
      | [], Some _ => Rej KOther                    (* "Cannot define a variable with an empty identifier" *)
      | _, _ => Ok (define_all m e g p)
      end
    end
  | XAssign p x =>                                 (* Reassign, op = Assign *)
    match check_iden_mut e g p with
    | Some k => Rej k
    | None =>
      match check_expr T strict e g x with
      | Some k => Rej k
      | None => match check_reads e g p with Some k => Rej k | None => Ok (e, g) end
      end
    end
  | XAug v x =>                                    (* reassign_op *)
    match check_iden_mut e g [v] with
    | Some k => Rej k
    | None =>
      match check_expr T strict e g (EBin (ERead v) x) with
      | Some k => Rej k
      | None => Ok (e, g)
      end
    end
  | XFieldSet r f x =>
    match check_iden_mut e g [r] with
    | Some k => Rej k
    | None =>
      let e1 := if r =? SELF then set_unassigned (remove_all f (e_unassigned e)) e else e in
      match check_expr T strict e1 g x with
      | Some k => Rej k
      | None => match get_var e1 g r with Some _ => Ok (e1, g) | None => Rej KUndef end
      end
    end
  | XReturn None =>
    if e_has_ret e then Rej KOther else if e_in_fun e then Ok (e, g) else Rej KOther
  | XReturn (Some x) =>
    if e_has_ret e then match check_expr T strict e g x with Some k => Rej k | None => Ok (e, g) end
    else Rej KOther
  | XRaise c => match check_raises T e [c] with Some k => Rej k | None => Ok (e, g) end
  | XPass => Ok (e, g)
  end.

Definition bind_arm (e : env) (g : gmap) (b : option (bool * var)) : env * gmap :=
  match b with Some (m, x) => define m (e, g) x | None => (e, g) end.

(** constrain_args *)
Fixpoint check_params (e : env) (g : gmap) (ps : list (bool * var)) : res (env * gmap) :=
  match ps with
  | [] => Ok (e, g)
  | (m, x) :: r =>
    if (x =? SELF) && negb (e_in_class e) then Rej KOther
    else let eg := define m (e, g) x in check_params (fst eg) (snd eg) r
  end.

Definition join_unassigned (e : env) (u : option (list field)) : env :=
  match u with
  | Some l => set_unassigned (inter (e_unassigned e) l) e       (* env.intersection(union of branches) *)
  | None => e
  end.

(** [m_restore strict]: the caught set is restored after a handle, the arms are checked with the set
    from before the handle, and a function body starts from its own declared raises only. *)
Fixpoint check_stmt (T : tabs) (strict : mode) (e : env) (g : gmap) (s : stmt) : res (env * gmap) :=
  match s with
  | SSimple x => check_simple T strict e g x
  | SHandle x hs =>
    let before := e_caught e in
    match check_simple T strict (set_caught (before ++ hclasses hs) e) g x with
    | Rej k => Rej k
    | Ok (e1, g1) =>
      let outer := if m_restore strict then set_caught before e1 else set_caught (e_caught e1 ++ before) e1 in
      match check_harms T strict outer g1 hs with
      | Rej k => Rej k
      | Ok (u, g2) => Ok (join_unassigned outer u, g2)
      end
    end
  | SIf c t =>
    match check_expr T strict e g c with
    | Some k => Rej k
    | None => match check_stmts T strict e g t with Rej k => Rej k | Ok (_, g1) => Ok (e, g1) end
    end
  | SIfElse c t el =>
    match check_expr T strict e g c with
    | Some k => Rej k
    | None =>
      match check_stmts T strict e g t with
      | Rej k => Rej k
      | Ok (et, g1) =>
        match check_stmts T strict e g1 el with
        | Rej k => Rej k
        | Ok (ee, g2) => Ok (join_unassigned e (Some (e_unassigned et ++ e_unassigned ee)), g2)
        end
      end
    end
  | SMatch c a =>
    match check_expr T strict e g c with
    | Some k => Rej k
    | None =>
      match check_arms T strict e g a with
      | Rej k => Rej k
      | Ok (u, g1) => Ok (join_unassigned e u, g1)
      end
    end
  | SWhile c b =>
    match check_expr T strict e g c with
    | Some k => Rej k
    | None =>
      match check_stmts T strict (set_in_loop true e) g b with Rej k => Rej k | Ok (_, g1) => Ok (e, g1) end
    end
  | SFor p col b =>
    match check_expr T strict e g col with
    | Some k => Rej k
    | None =>
      let eg := define_all true e g p in
      match check_reads (fst eg) (snd eg) p with
      | Some k => Rej k
      | None =>
        match check_stmts T strict (set_in_loop true (fst eg)) (snd eg) b with
        | Rej k => Rej k
        | Ok (_, g1) => Ok (e, g1)
        end
      end
    end
  | SFun f ps rs ret b =>
    match check_params e g ps with
    | Rej k => Rej k
    | Ok (e1, g1) =>
      match check_declared T rs with
      | Some k => Rej k
      | None =>
        let e2 := set_in_fun true (set_unassigned [] e1) in
        let e3 := set_caught (if m_restore strict then rs else e_caught e2 ++ rs) e2 in
        let e4 := if ret then set_has_ret true e3 else e3 in
        match check_stmts T strict e4 g1 b with Rej k => Rej k | Ok (_, g2) => Ok (e, g2) end
      end
    end
  end
with check_stmts (T : tabs) (strict : mode) (e : env) (g : gmap) (ss : stmts) : res (env * gmap) :=
  match ss with
  | SNil => Ok (e, g)
  | SCons s r =>
    match check_stmt T strict e g s with
    | Rej k => Rej k
    | Ok (e1, g1) => check_stmts T strict e1 g1 r
    end
  end
with check_arms (T : tabs) (strict : mode) (e : env) (g : gmap) (a : arms)
  : res (option (list field) * gmap) :=
  match a with
  | ANil => Ok (None, g)
  | ACons b body rest =>
    let eg := bind_arm e g b in
    match check_stmts T strict (fst eg) (snd eg) body with
    | Rej k => Rej k
    | Ok (be, g1) =>
      match check_arms T strict e g1 rest with
      | Rej k => Rej k
      | Ok (u, g2) =>
        Ok (Some (e_unassigned be ++ match u with Some l => l | None => [] end), g2)
      end
    end
  end
with check_harms (T : tabs) (strict : mode) (e : env) (g : gmap) (hs : harms)
  : res (option (list field) * gmap) :=
  match hs with
  | HNil => Ok (None, g)
  | HCons c b body rest =>
    let eg := bind_arm e g b in
    match check_stmts T strict (fst eg) (snd eg) body with
    | Rej k => Rej k
    | Ok (be, g1) =>
      match check_harms T strict e g1 rest with
      | Rej k => Rej k
      | Ok (u, g2) =>
        Ok (Some (e_unassigned be ++ match u with Some l => l | None => [] end), g2)
      end
    end
  end.

(** the Context's function table: top-level FunDefs only (context/generic.rs) *)
Fixpoint ftab_of (p : stmts) : list (fname * (nat * list cls)) :=
  match p with
  | SNil => []
  | SCons (SFun f ps rs _ _) r => (f, (length ps, rs)) :: ftab_of r
  | SCons _ r => ftab_of r
  end.

Definition tabs_of (ct : list (cls * list cls)) (mt : list (mname * list cls)) (fl : list (field * bool))
  (p : stmts) : tabs := mkTabs ct (ftab_of p) mt fl.

(** gen_all: Environment::default(), fresh builder *)
Definition check_program (T : tabs) (strict : mode) (p : stmts) : res (env * gmap) :=
  check_stmts T strict env0 [] p.

Inductive verdict := VAccept | VReject (k : kind).
Definition verdict_of {A} (r : res A) : verdict :=
  match r with Ok _ => VAccept | Rej k => VReject k end.
Definition verdict_program ct mt fl (p : stmts) : verdict :=
  verdict_of (check_program (tabs_of ct mt fl p) as_is p).
Definition verdict_strict ct mt fl (p : stmts) : verdict :=
  verdict_of (check_program (tabs_of ct mt fl p) repaired p).
Definition verdict_restored ct mt fl (p : stmts) : verdict :=
  verdict_of (check_program (tabs_of ct mt fl p) restored p).

(** * Trace semantics of the skeleton

    Events of one execution path.  Branches are nondeterministic, loops run 0..n times, a call is
    inlined to its declared raise effects, a function body is (maybe) run at its definition point in a
    fresh scope with the parameters defined; an abrupt completion (raise, return) may be caught by any
    arm of an enclosing handle (over-approximation: more paths than a real run has).  [EvPush]/[EvPop]
    delimit lexical scopes; they are emitted on abrupt exits as well, so traces stay balanced. *)
Inductive event :=
| EvPush | EvPop
| EvDef (m : bool) (x : var)
| EvRead (x : var)
| EvWrite (x : var)
| EvDefF (f : fname)
| EvReadF (f : fname)                        (** a top-level call needs the function object now *)
| EvWriteFld (r : var) (f : field)
| EvRaise (c : cls) (infun : bool) (guards : list cls).
Definition trace := list event.

Inductive outcome := Norm | Abr.

Definition defs (m : bool) (p : list var) : trace := map (EvDef m) p.
Definition pdefs (ps : list (bool * var)) : trace := map (fun b => EvDef (fst b) (snd b)) ps.
Definition bdef (b : option (bool * var)) : trace :=
  match b with Some (m, x) => [EvDef m x] | None => [] end.
Definition predecl (s : simple) : trace :=
  match s with XDef m p _ => defs m p | _ => [] end.
Definition scoped (t : trace) : trace := EvPush :: t ++ [EvPop].
Definition raises_of {A} (k : nat) (l : list (nat * A)) (sel : A -> list cls) : list cls :=
  match alook k l with Some a => sel a | None => [] end.

Section Runs.
Variable T : tabs.

Inductive eruns (infun : bool) (G : list cls) : expr -> trace -> outcome -> Prop :=
| RConst : eruns infun G EConst [] Norm
| RRead x : eruns infun G (ERead x) [EvRead x] Norm
| RBinA a b t : eruns infun G a t Abr -> eruns infun G (EBin a b) t Abr
| RBin a b ta tb o : eruns infun G a ta Norm -> eruns infun G b tb o -> eruns infun G (EBin a b) (ta ++ tb) o
| RCallA f args t : esruns infun G args t Abr -> eruns infun G (ECall f args) t Abr
| RCall f args t : esruns infun G args t Norm ->
    eruns infun G (ECall f args) (t ++ (if infun then [] else [EvReadF f])) Norm
| RCallRaise f args t c : esruns infun G args t Norm ->
    In c (raises_of f (t_fun T) snd) ->
    eruns infun G (ECall f args) (t ++ (if infun then [] else [EvReadF f]) ++ [EvRaise c infun G]) Abr
| RPrint args t o : esruns infun G args t o -> eruns infun G (EPrint args) t o
| RMCallA r m args t : esruns infun G args t Abr -> eruns infun G (EMCall r m args) (EvRead r :: t) Abr
| RMCall r m args t : esruns infun G args t Norm -> eruns infun G (EMCall r m args) (EvRead r :: t) Norm
| RMCallRaise r m args t c : esruns infun G args t Norm ->
    In c (raises_of m (t_meth T) (fun x => x)) ->
    eruns infun G (EMCall r m args) (EvRead r :: t ++ [EvRaise c infun G]) Abr
| RField r f : eruns infun G (EField r f) [EvRead r] Norm
with esruns (infun : bool) (G : list cls) : exprs -> trace -> outcome -> Prop :=
| RENil : esruns infun G ENil [] Norm
| REConsA x r t : eruns infun G x t Abr -> esruns infun G (ECons x r) t Abr
| RECons x r t tr o : eruns infun G x t Norm -> esruns infun G r tr o -> esruns infun G (ECons x r) (t ++ tr) o.

Inductive xruns (infun : bool) (G : list cls) : simple -> trace -> outcome -> Prop :=
| RXExpr x t o : eruns infun G x t o -> xruns infun G (XExpr x) t o
| RXDef0 m p : xruns infun G (XDef m p None) (defs m p) Norm
| RXDefA m p x t : eruns infun G x t Abr -> xruns infun G (XDef m p (Some x)) t Abr
| RXDef m p x t : eruns infun G x t Norm -> xruns infun G (XDef m p (Some x)) (t ++ defs m p) Norm
| RXAssignA p x t : eruns infun G x t Abr -> xruns infun G (XAssign p x) t Abr
| RXAssign p x t : eruns infun G x t Norm -> xruns infun G (XAssign p x) (t ++ map EvWrite p) Norm
| RXAugA v x t : eruns infun G x t Abr -> xruns infun G (XAug v x) (EvRead v :: t) Abr
| RXAug v x t : eruns infun G x t Norm -> xruns infun G (XAug v x) (EvRead v :: t ++ [EvWrite v]) Norm
| RXFieldSetA r f x t : eruns infun G x t Abr -> xruns infun G (XFieldSet r f x) t Abr
| RXFieldSet r f x t : eruns infun G x t Norm ->
    xruns infun G (XFieldSet r f x) (t ++ [EvRead r; EvWriteFld r f]) Norm
| RXReturn0 : xruns infun G (XReturn None) [] Abr
| RXReturn x t o : eruns infun G x t o -> xruns infun G (XReturn (Some x)) t Abr
| RXRaise c : xruns infun G (XRaise c) [EvRaise c infun G] Abr
| RXPass : xruns infun G XPass [] Norm.

Inductive sruns : bool -> list cls -> stmt -> trace -> outcome -> Prop :=
| RSimple infun G x t o : xruns infun G x t o -> sruns infun G (SSimple x) t o
| RHandleThrough infun G x hs t o :                  (* completes, or the abrupt exit is not caught *)
    xruns infun (hclasses hs ++ G) x t o -> sruns infun G (SHandle x hs) t o
| RHandleCatch infun G x hs t ta o :                 (* caught: the arm runs; a guarded definition is pre-declared *)
    xruns infun (hclasses hs ++ G) x t Abr -> hruns infun G hs ta o ->
    sruns infun G (SHandle x hs) (t ++ predecl x ++ ta) o
| RIfA infun G c t tc : eruns infun G c tc Abr -> sruns infun G (SIf c t) tc Abr
| RIfSkip infun G c t tc : eruns infun G c tc Norm -> sruns infun G (SIf c t) tc Norm
| RIfThen infun G c t tc tt o : eruns infun G c tc Norm -> ssruns infun G t tt o ->
    sruns infun G (SIf c t) (tc ++ scoped tt) o
| RIfElseA infun G c t el tc : eruns infun G c tc Abr -> sruns infun G (SIfElse c t el) tc Abr
| RIfElseT infun G c t el tc tt o : eruns infun G c tc Norm -> ssruns infun G t tt o ->
    sruns infun G (SIfElse c t el) (tc ++ scoped tt) o
| RIfElseE infun G c t el tc tt o : eruns infun G c tc Norm -> ssruns infun G el tt o ->
    sruns infun G (SIfElse c t el) (tc ++ scoped tt) o
| RMatchA infun G c a tc : eruns infun G c tc Abr -> sruns infun G (SMatch c a) tc Abr
| RMatchNone infun G c a tc : eruns infun G c tc Norm -> sruns infun G (SMatch c a) tc Norm
| RMatchArm infun G c a tc ta o : eruns infun G c tc Norm -> aruns infun G a ta o ->
    sruns infun G (SMatch c a) (tc ++ ta) o
| RWhileExit infun G c b tc o : eruns infun G c tc o -> sruns infun G (SWhile c b) tc o
| RWhileLast infun G c b tc tb o : eruns infun G c tc Norm -> ssruns infun G b tb o ->
    sruns infun G (SWhile c b) (tc ++ scoped tb) o   (* body exits the loop: break (Norm) or propagates *)
| RWhileIter infun G c b tc tb ob tr o : eruns infun G c tc Norm -> ssruns infun G b tb ob ->
    sruns infun G (SWhile c b) tr o ->
    sruns infun G (SWhile c b) (tc ++ scoped tb ++ tr) o
| RForA infun G p col b tc : eruns infun G col tc Abr -> sruns infun G (SFor p col b) tc Abr
| RFor infun G p col b tc tl o : eruns infun G col tc Norm -> floop infun G p b tl o ->
    sruns infun G (SFor p col b) (tc ++ tl) o
| RFunSkip infun G f ps rs ret b : sruns infun G (SFun f ps rs ret b) [EvDefF f] Norm
| RFunBody infun G f ps rs ret b tb o : ssruns true rs b tb o ->
    sruns infun G (SFun f ps rs ret b) (EvDefF f :: scoped (pdefs ps ++ tb)) Norm
with ssruns : bool -> list cls -> stmts -> trace -> outcome -> Prop :=
| RSNil infun G : ssruns infun G SNil [] Norm
| RSConsA infun G s r t : sruns infun G s t Abr -> ssruns infun G (SCons s r) t Abr
| RSCons infun G s r t tr o : sruns infun G s t Norm -> ssruns infun G r tr o ->
    ssruns infun G (SCons s r) (t ++ tr) o
with aruns : bool -> list cls -> arms -> trace -> outcome -> Prop :=
| RArmHere infun G b body rest t o : ssruns infun G body t o ->
    aruns infun G (ACons b body rest) (scoped (bdef b ++ t)) o
| RArmLater infun G b body rest t o : aruns infun G rest t o -> aruns infun G (ACons b body rest) t o
with hruns : bool -> list cls -> harms -> trace -> outcome -> Prop :=
| RHArmHere infun G c b body rest t o : ssruns infun G body t o ->
    hruns infun G (HCons c b body rest) (scoped (bdef b ++ t)) o
| RHArmLater infun G c b body rest t o : hruns infun G rest t o -> hruns infun G (HCons c b body rest) t o
with floop : bool -> list cls -> list var -> stmts -> trace -> outcome -> Prop :=
| RFDone infun G p b : floop infun G p b [] Norm
| RFLast infun G p b tb o : ssruns infun G b tb o -> floop infun G p b (scoped (defs true p ++ tb)) o
| RFIter infun G p b tb ob tr o : ssruns infun G b tb ob -> floop infun G p b tr o ->
    floop infun G p b (scoped (defs true p ++ tb) ++ tr) o.

End Runs.

(** ** what a trace must satisfy: a lexical scope stack replayed over the events *)
Definition frame := list (var * bool).
Definition stack := list frame.

Fixpoint vis (st : stack) (x : var) : option bool :=
  match st with
  | [] => None
  | f :: r => match alook x f with Some m => Some m | None => vis r x end
  end.

Definition step (st : stack) (ev : event) : stack :=
  match ev with
  | EvPush => [] :: st
  | EvPop => tl st
  | EvDef m x => match st with f :: r => ((x, m) :: f) :: r | [] => [[(x, m)]] end
  | _ => st
  end.
Definition fstep (fs : list fname) (ev : event) : list fname :=
  match ev with EvDefF f => f :: fs | _ => fs end.

Definition run (st : stack) (t : trace) : stack := fold_left step t st.
Definition frun (fs : list fname) (t : trace) : list fname := fold_left fstep t fs.

Fixpoint all_events (P : stack -> list fname -> event -> Prop) (st : stack) (fs : list fname) (t : trace) : Prop :=
  match t with
  | [] => True
  | ev :: r => P st fs ev /\ all_events P (step st ev) (fstep fs ev) r
  end.

(** ancestor relation of the class table (reflexive, transitive over direct parents) *)
Inductive ancestor (ct : list (cls * list cls)) : cls -> cls -> Prop :=
| AncRefl c ps : alook c ct = Some ps -> ancestor ct c c
| AncStep c ps p a : alook c ct = Some ps -> In p ps -> ancestor ct a p -> ancestor ct a c.
(** [ancestor ct a c]: a is c or an ancestor of c *)

(** C09: every variable read sees a lexically visible definition *)
Definition read_ok (st : stack) (fs : list fname) (ev : event) : Prop :=
  match ev with EvRead x => vis st x <> None | _ => True end.
(** C09, function names: a top-level call finds the function already defined *)
Definition fread_ok (st : stack) (fs : list fname) (ev : event) : Prop :=
  match ev with EvReadF f => In f fs | _ => True end.
(** C07: every write goes to a visible mutable definition *)
Definition write_ok (st : stack) (fs : list fname) (ev : event) : Prop :=
  match ev with EvWrite x => vis st x = Some true | _ => True end.
(** C07, fields: the receiver is a visible mutable definition and the field is not fin *)
Definition fldwrite_ok (fl : list (field * bool)) (st : stack) (fs : list fname) (ev : event) : Prop :=
  match ev with
  | EvWriteFld r f => vis st r = Some true /\ alook f fl <> Some false
  | _ => True
  end.
(** C08: inside a function body every raise is guarded by an ancestor class *)
Definition raise_ok (ct : list (cls * list cls)) (st : stack) (fs : list fname) (ev : event) : Prop :=
  match ev with
  | EvRaise c true G => exists g, In g G /\ ancestor ct g c
  | _ => True
  end.

(** the flow reading of C09: a [Read x] is preceded on the trace by a [Define x] *)
Fixpoint preceded (seen : list var) (t : trace) : Prop :=
  match t with
  | [] => True
  | EvRead x :: r => In x seen /\ preceded seen r
  | EvDef _ x :: r => preceded (x :: seen) r
  | _ :: r => preceded seen r
  end.
