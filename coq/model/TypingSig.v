(** * TypingSig: the shape of a method / function signature as the checker stores it

    Mirrors [GenericFunction] / [GenericFunctionArg] (src/check/context/function/generic.rs, arg/generic.rs)
    as far as call checking reads them: name, parameters (name, optional type, has_default) and return type.
    A type is a [Types.name] (a set of TrueNames: [Union[int, float]] has two members).
    The table of the built-in classes is generated into gen/StubSigs.v by translate/stub_sigs.py. *)
From Coq Require Import List String.
From MambaModel Require Import model.Types.

Record sparam := { sp_name : string; sp_ty : option name; sp_default : bool }.
Record msig := { sg_class : string; sg_name : string; sg_params : list sparam; sg_ret : option name }.
