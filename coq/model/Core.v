(** * The generator's target language [Core] ([src/generate/ast/node.rs]), complete *)
From Coq Require Import List String Bool.
Import ListNotations.

Inductive coreop := OpAssign | OpAddAssign | OpSubAssign | OpMulAssign | OpDivAssign | OpPowAssign
                  | OpBLShiftAssign | OpBRShiftAssign.

Inductive funop := FGe | FGeq | FLe | FLeq | FEq | FNeq | FAdd | FSub | FMul | FDiv | FPow | FMod | FFDiv.

(** binary and unary operator constructors of [Core], grouped *)
Inductive cbin := CbAdd | CbSub | CbMul | CbDiv | CbFDiv | CbMod | CbPow | CbBAnd | CbBOr | CbBXOr | CbBLShift | CbBRShift
                | CbAnd | CbOr | CbGe | CbGeq | CbLe | CbLeq | CbEq | CbNeq | CbIs | CbIsN | CbIn | CbIsA.
Inductive cun := CuAddU | CuSubU | CuBOneCmpl | CuNot | CuSqrt | CuReturn | CuRaise.

Inductive core :=
| Import (from : option core) (import alias : list core)
| ClassDef (name : core) (parent_names : list core) (body : core)
| FunctionCall (function : core) (args : list core)
| PropertyCall (object property : core)
| Id (lit : string)
| Type_ (lit : string) (generics : list core)
| ExpressionType (expr ty : core)
| Assign (left right : core) (op : coreop)
| VarDef (var : core) (ty : option core) (expr : option core)
| FunDefOp (op : funop) (arg : list core) (ty : option core) (body : core)
| FunDef (dec : list string) (id : string) (arg : list core) (ty : option core) (body : core)
| FunArg (vararg : bool) (var : core) (ty : option core) (default : option core)
| AnonFun (args : list core) (body : core)
| Block (statements : list core)
| Float (s : string) | Int (s : string) | ENum (num exp : string)
| DocStr (s : string) | Str (s : string) | FStr (s : string) | Bool (b : bool)
| Tuple (elements : list core) | TupleLiteral (elements : list core)
| DictComprehension (from to col : core) (conds : list core)
| Comprehension (expr col : core) (conds : list core)
| Dictionary (elements : list (core * core))
| Set_ (elements : list core) | List_ (elements : list core)
| Index (item range : core)
| Bin (o : cbin) (left right : core)
| Un (o : cun) (expr : core)
| For (expr col body : core)
| If (cond then_ : core)
| IfElse (cond then_ el : core)
| Match (expr : core) (cases : list core)
| Case (expr body : core)
| Ternary (cond then_ el : core)
| KeyValue (key value : core)
| While (cond body : core)
| Break | Continue | UnderScore | Pass | None_ | Empty
| TryExcept (setup : option core) (attempt : core) (except : list core)
| ExceptId (id class body : core)
| Except (class body : core)
| With (resource expr : core)
| WithAs (resource alias expr : core).

Definition funop_name (o : funop) : string :=
  match o with
  | FGe => "__gt__" | FGeq => "__ge__" | FLe => "__lt__" | FLeq => "__le__" | FEq => "__eq__"
  | FNeq => "__ne__" | FAdd => "__add__" | FSub => "__sub__" | FMul => "__mul__" | FDiv => "__truediv__"
  | FPow => "__pow__" | FMod => "__mod__" | FFDiv => "__floordiv__"
  end%string.
