(** * Statement-level model of the Python printer and of Python's layout rules

    [plines c ind] is the list of LOGICAL LINES (indentation in columns, tokens) that
    [to_py] prints for the statement [c] at block level [ind]; blank lines are not
    represented (Python ignores them).  Expressions are printed through the expression
    printer of model/CoreExpr.v ([ptoks generated], the table regenerated from the Rust
    source); the statement templates of [to_py] are modelled by hand here and compared with
    the implementation by tokenising its output with python3 (`lines` correspondence).

    [layout_ok] is the indentation discipline of Python's tokenizer and of compound
    statements: after a header (a line ending in a colon) the next line is deeper; a line
    at the current level continues the block; a shallower line must return to a level
    that is open; nothing else may be deeper. *)
From Coq Require Import List String Bool Arith.
From MambaModel Require Import model.PyExpr model.CoreExpr gen.PrinterTable model.Core.
Import ListNotations.
Local Open Scope string_scope.

(** ** Tokens of statement lines *)
Inductive stok :=
| E (t : tok)          (* a token of an expression *)
| K (s : string).      (* keyword or punctuation of a statement template, or an atom kept as text *)

Definition pline := (nat * list stok)%type.

(** ** Embedding of expression-shaped [Core] into [cexpr] *)

Definition cbin_binop (o : cbin) : option binop :=
  match o with
  | CbAdd => Some BAdd | CbSub => Some BSub | CbMul => Some BMul | CbDiv => Some BDiv | CbFDiv => Some BFDiv
  | CbMod => Some BMod | CbPow => Some BPow | CbBAnd => Some BBAnd | CbBOr => Some BBOr | CbBXOr => Some BBXOr
  | CbBLShift => Some BBLShift | CbBRShift => Some BBRShift | CbAnd => Some BAnd | CbOr => Some BOr
  | CbGe => Some BGe | CbGeq => Some BGeq | CbLe => Some BLe | CbLeq => Some BLeq | CbEq => Some BEq
  | CbNeq => Some BNeq | CbIs => Some BIs | CbIsN => Some BIsN | CbIn => Some BIn | CbIsA => None
  end.

Definition cun_unop (o : cun) : option unop :=
  match o with
  | CuAddU => Some UAddU | CuSubU => Some USubU | CuBOneCmpl => Some UBOneCmpl | CuNot => Some UNot
  | _ => None
  end.

Fixpoint opt_all {X} (l : list (option X)) : option (list X) :=
  match l with
  | [] => Some []
  | Some x :: r => match opt_all r with Some xs => Some (x :: xs) | None => None end
  | None :: _ => None
  end.

Fixpoint to_cexprs (l : list cexpr) : cexprs :=
  match l with [] => CNil | x :: r => CCons x (to_cexprs r) end.

Fixpoint to_cexpr (c : core) : option cexpr :=
  let many (l : list core) := opt_all (map to_cexpr l) in
  match c with
  | Id s => Some (CId s)
  | Int s => Some (CInt s) | Float s => Some (CFloat s) | Str s => Some (CStr s)
  | FStr s => Some (CId ("f""" ++ s ++ """"))            (* one token of Python's lexer *)
  | Bool b => Some (CBool b) | None_ => Some CNone | UnderScore => Some (CId "_")
  | ENum n e => Some (CENum n e)
  | Type_ s [] => Some (CId s)
  | Bin CbIsA l r =>
      match to_cexpr l, to_cexpr r with Some a, Some b => Some (CIsA a b) | _, _ => None end
  | Bin o l r =>
      match cbin_binop o, to_cexpr l, to_cexpr r with
      | Some b, Some x, Some y => Some (CBin b x y) | _, _, _ => None end
  | Un CuSqrt e => match to_cexpr e with Some x => Some (CSqrt x) | None => None end
  | Un o e =>
      match cun_unop o, to_cexpr e with Some u, Some x => Some (CUn u x) | _, _ => None end
  | Ternary c t e =>
      match to_cexpr c, to_cexpr t, to_cexpr e with
      | Some x, Some y, Some z => Some (CTernary x y z) | _, _, _ => None end
  | AnonFun args b =>
      let name (a : core) := match a with
                             | Id s => Some s
                             | FunArg false (Id s) None None => Some s
                             | _ => None end in
      match opt_all (map name args), to_cexpr b with
      | Some ns, Some x => Some (CLambda ns x) | _, _ => None end
  | FunctionCall f args =>
      match to_cexpr f, many args with Some g, Some xs => Some (CCall g (to_cexprs xs)) | _, _ => None end
  | Index i r => match to_cexpr i, to_cexpr r with Some x, Some y => Some (CIndex x y) | _, _ => None end
  | PropertyCall o p =>
      match to_cexpr o, to_cexpr p with Some x, Some y => Some (CProp x y) | _, _ => None end
  | Tuple es => match many es with Some xs => Some (CTuple (to_cexprs xs)) | None => None end
  | List_ es => match many es with Some xs => Some (CList (to_cexprs xs)) | None => None end
  | Set_ es => match many es with Some xs => Some (CSet (to_cexprs xs)) | None => None end
  | _ => None
  end.

(** tokens of an expression; [None] if the core is not an expression of the model *)
Definition etoks (c : core) : option (list stok) :=
  match to_cexpr c with
  | Some e => if wf e then Some (map E (ptoks generated e)) else None
  | None => None
  end.

(** type annotations: [lit] or [lit[t1, t2]] *)
Fixpoint ttoks (c : core) : option (list stok) :=
  match c with
  | Type_ s [] => Some [E (TName s)]
  | Type_ s gs =>
      let inner :=
        (fix go (l : list core) : option (list stok) :=
           match l with
           | [] => Some []
           | [g] => ttoks g
           | g :: r => match ttoks g, go r with
                       | Some a, Some b => Some (a ++ E TComma :: b)%list | _, _ => None end
           end) gs in
      match inner with Some ts => Some (E (TName s) :: E TLBr :: ts ++ [E TRBr])%list | None => None end
  | Empty => Some []
  | _ => None
  end.

Definition op_text (o : coreop) : string :=
  match o with
  | OpAssign => "=" | OpAddAssign => "+=" | OpSubAssign => "-=" | OpMulAssign => "*=" | OpDivAssign => "/="
  | OpPowAssign => "**=" | OpBLShiftAssign => "<<=" | OpBRShiftAssign => ">>="
  end.

Fixpoint commas (l : list (list stok)) : list stok :=
  match l with
  | [] => []
  | [x] => x
  | x :: r => (x ++ E TComma :: commas r)%list
  end.

(** a function parameter: [*]name[: type][ = default] (or a bare identifier such as [self]) *)
Definition argtoks (a : core) : option (list stok) :=
  match a with
  | FunArg vararg (Id s) ty default =>
      match (match ty with Some t => ttoks t | None => Some [] end),
            (match default with Some d => etoks d | None => Some [] end) with
      | Some tyt, Some dt =>
          Some ((if vararg then [K "*"] else []) ++ [E (TName s)]
                ++ (match ty with Some _ => E TColon :: tyt | None => [] end)
                ++ (match default with Some _ => K "=" :: dt | None => [] end))%list
      | _, _ => None
      end
  | Id s => Some [E (TName s)]
  | _ => None
  end.

Definition bind_o {X Y} (o : option X) (f : X -> option Y) : option Y :=
  match o with Some x => f x | None => None end.

(** ** The statement printer *)
Fixpoint plines (c : core) (ind : nat) {struct c} : option (list pline) :=
  let col := 4 * ind in
  let one (ts : option (list stok)) := match ts with Some t => Some [(col, t)] | None => None end in
  let block (sts : list core) (ind : nat) : option (list pline) :=
    (fix go (l : list core) : option (list pline) :=
       match l with
       | [] => Some []
       | s :: r => match plines s ind, go r with
                   | Some a, Some b => Some (a ++ b)%list | _, _ => None end
       end) sts in
  let suite (b : core) : option (list pline) :=
    match b with
    | Block [] => Some [(4 * S ind, [K "pass"])]      (* an empty body is printed as [pass] *)
    | Block sts => block sts (S ind)
    | other => plines other (S ind)
    end in
  let header (kw : list stok) (ts : list stok) (b : core) : option (list pline) :=
    match suite b with Some ls => Some ((col, kw ++ ts ++ [E TColon]) :: ls)%list | None => None end in
  let fundef (dec : list string) (id : string) (args : list core) (ty : option core) (body : core) :=
    bind_o (opt_all (map argtoks args)) (fun ats =>
    bind_o (match ty with Some t => ttoks t | None => Some [] end) (fun rt =>
    let sig := ([E (TName id); E TLPar] ++ commas ats ++ [E TRPar]
                ++ match ty with Some _ => K "->" :: rt | None => [] end)%list in
    match dec with
    | [] => header [K "def"] sig body
    | [d] =>
        (* the decorator is printed at indent(ind - 1) after the caller's indent(ind) *)
        match ind with
        | O => None            (* [ind - 1] underflows in the Rust code *)
        | S i => bind_o (header [K "def"] sig body) (fun ls => Some ((col + 4 * i, [K "@"; E (TName d)]) :: ls))
        end
    | _ => None
    end)) in
  match c with
  | Block sts => block sts ind
  | VarDef v ty e =>
      one (bind_o (etoks v) (fun vt =>
           bind_o (match ty with Some t => ttoks t | None => Some [] end) (fun tyt =>
           bind_o (match e with Some x => etoks x | None => Some [E TNone] end) (fun et =>
           Some (vt ++ (match ty with Some _ => E TColon :: tyt | None => [] end) ++ K "=" :: et)%list))))
  | Assign l r op =>
      one (bind_o (etoks l) (fun lt => bind_o (etoks r) (fun rt => Some (lt ++ K (op_text op) :: rt)%list)))
  | Un CuReturn e => one (bind_o (etoks e) (fun t => Some (K "return" :: t)))
  | Un CuRaise e => one (bind_o (etoks e) (fun t => Some (K "raise" :: t)))
  | Pass => one (Some [K "pass"])
  | Break => one (Some [K "break"])
  | Continue => one (Some [K "continue"])
  | Import from names alias =>
      let ids (l : list core) := opt_all (map (fun x => match x with Id s => Some [E (TName s)] | _ => None end) l) in
      one (bind_o (match from with
                   | Some (Id f) => Some [K "from"; E (TName f)]
                   | None => Some []
                   | _ => None end) (fun ft =>
           bind_o (ids names) (fun nt =>
           bind_o (ids alias) (fun al =>
           Some (ft ++ K "import" :: commas nt
                    ++ (match al with [] => [] | _ => K "as" :: commas al end))%list))))
  | If cnd t =>
      bind_o (etoks cnd) (fun ct => header [K "if"] ct t)
  | IfElse cnd t e =>
      bind_o (etoks cnd) (fun ct =>
      bind_o (header [K "if"] ct t) (fun a =>
      bind_o (header [K "else"] [] e) (fun b => Some (a ++ b)%list)))
  | While cnd b => bind_o (etoks cnd) (fun ct => header [K "while"] ct b)
  | For e cl b =>
      bind_o (etoks e) (fun et => bind_o (etoks cl) (fun clt => header [K "for"] (et ++ E TIn :: clt)%list b))
  | FunDef dec id args ty body => fundef dec id args ty body
  | FunDefOp op args ty body => fundef [] (funop_name op) args ty body
  | ClassDef name parents body =>
      bind_o (etoks name) (fun nt =>
      bind_o (opt_all (map etoks parents)) (fun ps =>
      header [K "class"] (nt ++ match ps with [] => [] | _ => E TLPar :: commas ps ++ [E TRPar] end)%list body))
  | With r b => bind_o (etoks r) (fun rt => header [K "with"] rt b)
  | WithAs r a b =>
      bind_o (etoks r) (fun rt => bind_o (etoks a) (fun at_ => header [K "with"] (rt ++ K "as" :: at_)%list b))
  | TryExcept setup attempt ex =>
      bind_o (match setup with Some s => plines s ind | None => Some [] end) (fun st =>
      bind_o (header [K "try"] [] attempt) (fun a =>
      bind_o ((fix go (l : list core) : option (list pline) :=
                 match l with
                 | [] => Some []
                 | x :: r => match plines x ind, go r with
                             | Some p, Some q => Some (p ++ q)%list | _, _ => None end
                 end) ex) (fun exl => Some (st ++ a ++ exl)%list)))
  | Except cl b => bind_o (ttoks cl) (fun ct => header [K "except"] ct b)
  | ExceptId id cl b =>
      bind_o (ttoks cl) (fun ct => bind_o (etoks id) (fun it => header [K "except"] (ct ++ K "as" :: it)%list b))
  | Match e cases =>
      bind_o (etoks e) (fun et =>
      bind_o ((fix go (l : list core) : option (list pline) :=
                 match l with
                 | [] => Some []
                 | x :: r => match plines x (S ind), go r with
                             | Some p, Some q => Some (p ++ q)%list | _, _ => None end
                 end) cases) (fun cl => Some ((col, K "match" :: et ++ [E TColon]) :: cl)%list))
  | Case e b => bind_o (etoks e) (fun et => header [K "case"] et b)
  | other => one (etoks other)          (* expression statement *)
  end.

(** ** Python's layout rules *)

Definition ends_colon (ts : list stok) : bool :=
  match rev ts with E TColon :: _ => true | _ => false end.

(** pop the open levels above [n]; succeed if [n] itself is open *)
Fixpoint pop_to (n : nat) (st : list nat) : option (list nat) :=
  match st with
  | [] => None
  | m :: r => if Nat.eqb n m then Some st else if Nat.ltb n m then pop_to n r else None
  end.

Definition enter (st : list nat) (hdr : bool) (n : nat) : option (list nat) :=
  if hdr then match st with m :: _ => if Nat.ltb m n then Some (n :: st) else None | [] => None end
  else pop_to n st.

Fixpoint layout_ok (st : list nat) (hdr : bool) (ls : list pline) : bool :=
  match ls with
  | [] => negb hdr
  | (n, ts) :: r =>
      match enter st hdr n with
      | Some st' => layout_ok st' (ends_colon ts) r
      | None => false
      end
  end.

Definition module_layout_ok (ls : list pline) : bool := layout_ok [0] false ls.
