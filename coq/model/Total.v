(** * Models used by the totality property C03

    1. The lexer loop of [model/Lex.v] instrumented with a step counter (one step = one call
       of [into_tokens], at any interpolation level), and the interpolation nesting depth.
       [proofs/TotalProps.v] shows that the instrumented loop computes the same result.
    2. Class lookup through parents, [src/check/context/clss/mod.rs]:
       [impl LookupClass<&StringName, Class> for Context] (find the class by name, then look up
       every parent recursively and [inherit] from it) and [HasParent<&StringName>::has_parent]
       (recursive search through the parents, each obtained with [ctx.class(p)?]).
       Neither function has a cycle guard; the recursion has no structural argument, so the
       model runs on fuel and exhaustion is the distinguished outcome [Diverges].
       Not modelled: generic arguments and their substitution (only the base name decides
       which class is found: [c.name.name == class.name]), the Tuple special case, fields vs
       functions (one list of member names), the iteration order of the [HashSet] of parents
       (the list order stands for it; the theorems hold for every order). *)
From Coq Require Import List Ascii ZArith Bool.
From MambaModel Require Import model.LexTok gen.LexTables model.Lex.
Import ListNotations.

(** ** 1. Step-counting lexer loop *)

Definition loop_res := ((state * list tl) + (cpos * lexerr) + unit)%type.
Definition direct_res := ((list tl) + (cpos * lexerr) + unit)%type.

(** [tok_loop]/[direct] of [Lex.v] with the number of [scan] calls performed.  The [?] of the
    Rust [collect::<Result<_, _>>()?] stops at the first failing expression, so expressions
    after it are not lexed and not counted. *)
Fixpoint tok_loop_n (fuel : nat) (s : str) (st : state) (acc : list tl) {struct fuel}
  : loop_res * nat :=
  match fuel with
  | O => (inr tt, 0)
  | S fuel =>
      match s with
      | [] => (inl (inl (st, acc)), 0)
      | c :: r =>
          match scan c r with
          | SErr e => (inl (inr (pos st, e)), 1)
          | SSpace rest =>
              let '(res, n) := tok_loop_n fuel rest (state_space st) acc in (res, S n)
          | STok t rest =>
              let '(st', out) := state_token st t in
              let '(res, n) := tok_loop_n fuel rest st' (acc ++ map tl0 out) in (res, S n)
          | SString content exprs rest =>
              if is_docstring_arm content then
                let '(st', out) := state_token st (string_tok content) in
                let '(res, n) := tok_loop_n fuel rest st' (acc ++ map tl0 out) in (res, S n)
              else
                let nested :=
                  fold_left
                    (fun (a : (option (list lex) + (cpos * lexerr)) * nat) (oe : Z * str) =>
                       match a with
                       | (inl (Some ls), k) =>
                           match direct_n fuel (snd oe) with
                           | (inl (inl toks), m) =>
                               let off := offset_pos (pos st) (fst oe) in
                               (inl (Some (ls ++ flat_map (fun x =>
                                  nest (mk_lex (pos_offset (lstart (top x)) off) (ltok (top x))) :: inner x) toks)),
                                k + m)
                           | (inl (inr e), m) => (inr e, k + m)
                           | (inr _, m) => (inl None, k + m)
                           end
                       | other => other
                       end)
                    exprs (inl (Some []), 0) in
                match nested with
                | (inr e, k) => (inl (inr e), S k)
                | (inl None, k) => (inr tt, S k)
                | (inl (Some inn), k) =>
                    let '(st', out) := state_token st (string_tok content) in
                    let out' := match rev out with
                                | l :: before => map tl0 (rev before) ++ [{| top := l; inner := inn |}]
                                | [] => []
                                end in
                    let '(res, n) := tok_loop_n fuel rest st' (acc ++ out') in (res, S (k + n))
                end
          end
      end
  end
with direct_n (fuel : nat) (s : str) {struct fuel} : direct_res * nat :=
  match fuel with
  | O => (inr tt, 0)
  | S fuel =>
      match tok_loop_n fuel s state0 [] with
      | (inl (inl (st, acc)), n) => (inl (inl (docstring_pass (acc ++ map tl0 (flush_indents st)))), n)
      | (inl (inr e), n) => (inl (inr e), n)
      | (inr u, n) => (inr u, n)
      end
  end.

(** Number of [into_tokens] calls [tokenize s] makes, all interpolation levels included. *)
Definition lex_steps (s : str) : nat := snd (tok_loop_n (S (S (length s))) s state0 []).

(** Nesting depth of interpolated expressions: 0 without [{..}] in strings, 1 for ["a{x}"],
    2 for ["a{f("b{y}")}"], ... ; it is also the recursion depth of [tokenize_direct]. *)
Fixpoint depth_loop (fuel : nat) (s : str) {struct fuel} : nat :=
  match fuel with
  | O => 0
  | S fuel =>
      match s with
      | [] => 0
      | c :: r =>
          match scan c r with
          | SErr _ => 0
          | SSpace rest => depth_loop fuel rest
          | STok _ rest => depth_loop fuel rest
          | SString content exprs rest =>
              Nat.max (if is_docstring_arm content then 0
                       else fold_right (fun oe d => Nat.max (S (depth_direct fuel (snd oe))) d) 0 exprs)
                      (depth_loop fuel rest)
          end
      end
  end
with depth_direct (fuel : nat) (s : str) {struct fuel} : nat :=
  match fuel with
  | O => 0
  | S fuel => depth_loop fuel s
  end.

Definition lex_depth (s : str) : nat := depth_loop (S (S (length s))) s.

(** ** 2. Class lookup through parents *)

Record cls := { c_name : str; c_parents : list str; c_members : list str }.

Fixpoint find_class (ctx : list cls) (n : str) : option cls :=
  match ctx with
  | [] => None
  | c :: r => if str_eqb (c_name c) n then Some c else find_class r n
  end.

Definition mem (x : str) (l : list str) : bool := existsb (str_eqb x) l.

(** [Class::inherit]: members of [other] that [self] does not define. *)
Definition inherit (self other : list str) : list str :=
  self ++ filter (fun m => negb (mem m self)) other.

Inductive lres := Found (members : list str) | Undefined (n : str) | Diverges.

(** [Context::class(&StringName)].  The name is resolved first ([find]); only then does the
    function recurse, once per parent, left to right, stopping at the first error. *)
Fixpoint lookup (fuel : nat) (ctx : list cls) (n : str) {struct fuel} : lres :=
  match find_class ctx n with
  | None => Undefined n
  | Some c =>
      match fuel with
      | O => Diverges
      | S fuel =>
          fold_left
            (fun (a : lres) (p : str) =>
               match a with
               | Found ms =>
                   match lookup fuel ctx p with
                   | Found pm => Found (inherit ms pm)
                   | other => other
                   end
               | other => other
               end)
            (c_parents c) (Found (c_members c))
      end
  end.

Inductive hres := HBool (b : bool) | HErr | HDiverges.

Definition any_name : str := [ascii_of_nat 65; ascii_of_nat 110; ascii_of_nat 121].  (* "Any" *)

(** [HasParent<&StringName> for Class] on plain (non-generic) names.  [self] is the name of a
    class obtained from [ctx.class]; every parent is first looked up ([ctx.class(p, pos)?],
    with its own recursion) and then searched; all parents are visited before [any]. *)
Fixpoint has_parent (fuel : nat) (ctx : list cls) (self other : str) {struct fuel} : hres :=
  if str_eqb self other || str_eqb other any_name then HBool true
  else
    match find_class ctx self with
    | None => HErr
    | Some c =>
        match fuel with
        | O => HDiverges
        | S fuel =>
            fold_left
              (fun (a : hres) (p : str) =>
                 match a with
                 | HBool b =>
                     match lookup (length ctx) ctx p with
                     | Found _ =>
                         match has_parent fuel ctx p other with
                         | HBool b' => HBool (b || b')
                         | other => other
                         end
                     | Undefined _ => HErr
                     | Diverges => HDiverges
                     end
                 | other => other
                 end)
              (c_parents c) (HBool false)
        end
    end.
