(** * PyOps: a small model of Python's built-in operators on type tags, and soundness of a signature table

    A run-time value of the core universe carries one of six tags.  [py_call m recv args] is what Python does for the
    operation the checker types through the method [m] ([a + b] for [__add__], [str(a)] for [__str__], [int(x)]
    for [Int.__init__] ...): [Some tags] = the set of tags the result can carry (value dependent: [2 ** -1] is a
    float, [(-8.0) ** 0.5] is complex), [None] = TypeError / AttributeError.  Other exceptions (ZeroDivisionError,
    ValueError, OverflowError) are not in the property's list and are not modelled.
    This table is part of the trusted base; lib/vlib/c04.py validates every entry against python3 on sample values
    of every tag on each run.

    [row_sound r]: for every receiver / argument tags admitted by the declared parameter types of the row, Python
    accepts them and every result tag is admitted by the declared return type.  [stubs_sound tbl] = all rows of the
    core classes whose method the model covers. *)
From Coq Require Import List String Bool.
From MambaModel Require Import model.Types model.TypingSig.
Import ListNotations.
Local Open Scope string_scope.
Local Open Scope list_scope.

Inductive tag : Type := GInt | GFloat | GComplex | GStr | GBool | GNone.

Definition tag_eqb (a b : tag) : bool :=
  match a, b with
  | GInt, GInt | GFloat, GFloat | GComplex, GComplex | GStr, GStr | GBool, GBool | GNone, GNone => true
  | _, _ => false
  end.

Definition tag_name (g : tag) : string :=
  match g with GInt => "int" | GFloat => "float" | GComplex => "complex" | GStr => "str" | GBool => "bool" | GNone => "NoneType" end.

(** tags a value of static class [c] can carry: the class itself and its subclasses in the primitive chain
    Int <: Float <: Complex (Bool is unrelated to Int in the checker's table).  A static Bool can be None at run time:
    [a and b] / [a or b] are typed Bool whenever both operands define [__bool__] (Bool and None do) and evaluate to
    one of the operands; no operation the stubs offer on a Bool refuses None. *)
Definition tags_of_class (c : string) : list tag :=
  if String.eqb c "Int" then [GInt]
  else if String.eqb c "Float" then [GFloat; GInt]
  else if String.eqb c "Complex" then [GComplex; GFloat; GInt]
  else if String.eqb c "Str" then [GStr]
  else if String.eqb c "Bool" then [GBool; GNone]
  else if String.eqb c "None" then [GNone]
  else [].
Definition tags_of_ty (t : ty) : list tag := tags_of_class (tcname t) ++ (if tnull t then [GNone] else []).
Definition tags_of_name (T : name) : list tag := flat_map tags_of_ty T.

Definition core_class (c : string) : bool :=
  existsb (String.eqb c) ["Int"; "Float"; "Complex"; "Str"; "Bool"; "None"].

(** numeric rank: bool < int < float < complex *)
Definition rank (g : tag) : option nat :=
  match g with GBool => Some 0 | GInt => Some 1 | GFloat => Some 2 | GComplex => Some 3 | _ => None end.
Definition of_rank (n : nat) : tag :=
  match n with 0 | 1 => GInt | 2 => GFloat | _ => GComplex end.   (* bool op bool is an int *)
Definition arith (a b : tag) : option (list tag) :=
  match rank a, rank b with
  | Some x, Some y => Some [of_rank (Nat.max x y)]
  | _, _ => None
  end.
Definition real (g : tag) : bool := match g with GBool | GInt | GFloat => true | _ => false end.

Definition py_binop (m : string) (a b : tag) : option (list tag) :=
  if String.eqb m "__add__" then
    match a, b with GStr, GStr => Some [GStr] | _, _ => arith a b end
  else if String.eqb m "__sub__" then arith a b
  else if String.eqb m "__mul__" then
    match a, b with
    | GStr, GInt | GStr, GBool | GInt, GStr | GBool, GStr => Some [GStr]
    | _, _ => arith a b
    end
  else if String.eqb m "__truediv__" then
    match rank a, rank b with
    | Some x, Some y => Some [if Nat.leb 3 (Nat.max x y) then GComplex else GFloat]
    | _, _ => None
    end
  else if String.eqb m "__floordiv__" then
    if real a && real b then arith a b else None
  else if String.eqb m "__mod__" then
    match a with
    | GStr => None                   (* "a" % x is formatting: TypeError "not all arguments converted" for every x of the universe *)
    | _ => if real a && real b then arith a b else None
    end
  else if String.eqb m "__pow__" then
    match rank a, rank b with
    | Some x, Some y =>
        if Nat.leb 3 (Nat.max x y) then Some [GComplex]
        else if Nat.leb 2 y then
          if Nat.eqb x 0 then Some [GFloat]                   (* a bool base is never negative *)
          else Some [GFloat; GComplex]                        (* float exponent: negative base, fractional exponent *)
        else if Nat.leb 2 x then Some [GFloat]                (* float base, integer exponent *)
        else if Nat.eqb y 0 then Some [GInt]                  (* a bool exponent is never negative *)
        else Some [GInt; GFloat]                              (* integer base: negative exponent gives a float *)
    | _, _ => None
    end
  else if existsb (String.eqb m) ["__lt__"; "__gt__"; "__le__"; "__ge__"] then
    match a, b with
    | GStr, GStr => Some [GBool]
    | _, _ => if real a && real b then Some [GBool] else None
    end
  else if existsb (String.eqb m) ["__eq__"; "__ne__"] then Some [GBool]
  else None.

Definition binops : list string :=
  ["__add__"; "__sub__"; "__mul__"; "__truediv__"; "__floordiv__"; "__mod__"; "__pow__";
   "__lt__"; "__gt__"; "__le__"; "__ge__"; "__eq__"; "__ne__"].

(** constructor [C(args)] of a core class *)
Definition py_ctor (c : string) (args : list tag) : option (list tag) :=
  if String.eqb c "Int" then
    match args with
    | [g] => if real g || tag_eqb g GStr then Some [GInt] else None
    | [GStr; b] => if tag_eqb b GInt || tag_eqb b GBool then Some [GInt] else None     (* int("12", base) *)
    | _ => None
    end
  else if String.eqb c "Float" then
    match args with [g] => if real g || tag_eqb g GStr then Some [GFloat] else None | _ => None end
  else if String.eqb c "Str" then match args with [_] => Some [GStr] | _ => None end
  else if String.eqb c "Bool" then match args with [_] => Some [GBool] | _ => None end
  else if String.eqb c "Complex" then
    match args with
    | [a] => if real a || tag_eqb a GComplex || tag_eqb a GStr then Some [GComplex] else None
    | [a; b] => if (real a || tag_eqb a GComplex) && (real b || tag_eqb b GComplex) then Some [GComplex] else None
    | _ => None
    end
  else None.

(** has the python class of tag [g] an attribute [m]?  (only the non-dunder names the stubs mention) *)
Definition py_call (c : string) (m : string) (recv : tag) (args : list tag) : option (list tag) :=
  if String.eqb m "__init__" then py_ctor c args
  else if existsb (String.eqb m) binops then
    match args with [b] => py_binop m recv b | _ => None end
  else if String.eqb m "__str__" then match args with [] => Some [GStr] | _ => None end
  else if String.eqb m "__bool__" then match args with [] => Some [GBool] | _ => None end
  else if String.eqb m "__neg__" then
    match args, rank recv with [], Some r => Some [of_rank r] | _, _ => None end
  else if String.eqb m "sqrt" then                       (* math.sqrt(x) *)
    match args with [] => if real recv then Some [GFloat] else None | _ => None end
  else if String.eqb m "is_digit" then None              (* python's str has no attribute is_digit *)
  else None.

Definition covered (m : string) : bool :=
  existsb (String.eqb m) (binops ++ ["__init__"; "__str__"; "__bool__"; "__neg__"; "sqrt"; "is_digit"]).

(** [None()] cannot be written; its [__init__] row is not a call the checker can type *)
Definition core_row (r : msig) : bool :=
  core_class (sg_class r) && covered (sg_name r)
  && negb (String.eqb (sg_class r) "None" && String.eqb (sg_name r) "__init__").

(** all tag tuples admitted by a list of parameter types *)
Fixpoint tuples (ps : list (list tag)) : list (list tag) :=
  match ps with
  | [] => [[]]
  | p :: r => flat_map (fun g => map (cons g) (tuples r)) p
  end.

Definition subset (a b : list tag) : bool := forallb (fun g => existsb (tag_eqb g) b) a.

(** parameters that must be given: the typed ones without default (an argument for a formal without a type is
    refused by the checker, a defaulted one may be left out) *)
Fixpoint required (ps : list sparam) : option (list name) :=
  match ps with
  | [] => Some []
  | p :: r =>
      if sp_default p then Some []
      else match sp_ty p, required r with
           | Some T, Some l => Some (T :: l)
           | _, _ => None
           end
  end.

Definition row_sound (r : msig) : bool :=
  match required (sg_params r) with
  | Some (Ts :: Targs) =>
      let ret := match sg_ret r with Some R => tags_of_name R | None => [GNone] end in
      forallb (fun tup =>
                 match tup with
                 | recv :: args =>
                     match py_call (sg_class r) (sg_name r)
                                   recv (if String.eqb (sg_name r) "__init__" then args else args) with
                     | Some rs => if String.eqb (sg_name r) "__init__" then true else subset rs ret
                     | None => false
                     end
                 | [] => false
                 end)
              (tuples (map tags_of_name (Ts :: Targs)))
  | _ => false
  end.

Definition stubs_sound (tbl : list msig) : bool := forallb row_sound (filter core_row tbl).

(** the rows known to be unsound (each confirmed against python3 and the real checker, known_findings.json) *)
Definition known_row (r : msig) : bool :=
  (String.eqb (sg_class r) "Str" && String.eqb (sg_name r) "__add__")          (* D9: "a" + 1 *)
  || (String.eqb (sg_class r) "Int" && String.eqb (sg_name r) "__pow__")       (* 2 ^ -1 is a float *)
  || (String.eqb (sg_class r) "Float" && String.eqb (sg_name r) "__pow__")     (* (-8.0) ^ 0.5 is complex *)
  || (String.eqb (sg_class r) "Complex" && String.eqb (sg_name r) "__neg__")   (* declared -> float *)
  || (String.eqb (sg_class r) "Str" && String.eqb (sg_name r) "is_digit").     (* no such attribute *)

Definition has_row (tbl : list msig) (c m : string) : bool :=
  existsb (fun r => String.eqb (sg_class r) c && String.eqb (sg_name r) m) tbl.

(** the first failing (receiver, arguments) of a row, for the witness *)
Definition row_witness (r : msig) : option (list tag) :=
  match required (sg_params r) with
  | Some Ts =>
      let ret := match sg_ret r with Some R => tags_of_name R | None => [GNone] end in
      find (fun tup => match tup with
                       | recv :: args => match py_call (sg_class r) (sg_name r) recv args with
                                         | Some rs => if String.eqb (sg_name r) "__init__" then false else negb (subset rs ret)
                                         | None => true
                                         end
                       | [] => true
                       end) (tuples (map tags_of_name Ts))
  | None => None
  end.

Definition show_tags (l : list tag) : string := sep "," (map tag_name l).
