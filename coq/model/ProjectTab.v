(** * ProjectTab.v - table-driven [world] and text rendering used by the C13 correspondence run.

    The orchestrator observes the per-file stage results of the implementation (harness endpoint
    [project stages]) and instantiates the stage parameters of [model/Project.v] with these tables; the
    model then predicts the verdict, the diagnostics (stage, path, payload, in order) and the complete
    tree, which is compared with what [transpile_dir] / [mamba_to_python] really did.
    Texts cross the Coq boundary hex-encoded. *)
From Coq Require Import List String Ascii Bool Arith.
Import ListNotations.
From MambaModel Require Import model.Project.
Local Open Scope string_scope.
Local Open Scope list_scope.

Definition hexdigit (n : nat) : ascii :=
  match n with
  | 0 => "0" | 1 => "1" | 2 => "2" | 3 => "3" | 4 => "4" | 5 => "5" | 6 => "6" | 7 => "7"
  | 8 => "8" | 9 => "9" | 10 => "a" | 11 => "b" | 12 => "c" | 13 => "d" | 14 => "e" | _ => "f"
  end%char.

Fixpoint hex (s : string) : string :=
  match s with
  | EmptyString => EmptyString
  | String c r => let n := nat_of_ascii c in String (hexdigit (n / 16)) (String (hexdigit (n mod 16)) (hex r))
  end.

Definition digit_of (c : ascii) : nat :=
  let n := nat_of_ascii c in
  if Nat.leb 48 n && Nat.leb n 57 then n - 48 else if Nat.leb 97 n && Nat.leb n 102 then n - 87 else 0.

Fixpoint unhex (s : string) : string :=
  match s with
  | String a (String b r) => String (ascii_of_nat (16 * digit_of a + digit_of b)) (unhex r)
  | _ => EmptyString
  end.

Fixpoint assoc {B : Type} (k : string) (l : list (string * B)) : option B :=
  match l with
  | [] => None
  | (k', v) :: r => if String.eqb k k' then Some v else assoc k r
  end.

(** tables are keyed by the hex of the source text; messages stay hex *)
Definition tabW (pt : list (string * option string))            (* parse: None = ok, Some m = error *)
                (dt : list (string * list string))               (* files whose own context fails, with their errors *)
                (ct : list (string * list string))               (* check errors per file ([] = ok) *)
                (cfail : list string)                            (* files whose check failed *)
                (gt : list (string * res string string))         (* generated python (hex) or error *)
  : world :=
  {| w_msg := string; w_centry := unit; w_dentry := unit; w_fentry := unit;
     w_c_key := fun _ => ""; w_c_base := fun _ => ""; w_f_key := fun _ => ""; w_f_name := fun _ => "";
     w_d_name := fun _ => ""; w_any := tt;
     w_prim_c := []; w_std_c := []; w_prim_d := []; w_std_d := []; w_prim_f := []; w_std_f := [];
     w_ast := string; w_tast := string;
     w_parse := fun s => match assoc (hex s) pt with
                         | Some None => Ok (hex s)
                         | Some (Some m) => Err m
                         | None => Err "6d697373696e67"
                         end;
     w_decls_of := fun a => match assoc a dt with Some ms => Err ms | None => Ok no_decls end;
     w_check := fun _ a => if existsb (String.eqb a) cfail
                           then Err (match assoc a ct with Some ms => ms | None => [] end)
                           else Ok a;
     w_gen := fun _ _ t => match assoc t gt with
                           | Some (Ok py) => Ok (unhex py)
                           | Some (Err m) => Err m
                           | None => Err "6d697373696e67"
                           end |}.

Definition ord_id : enumeration := fun _ l => l.

(** ** rendering *)
Fixpoint join (sep : string) (l : list string) : string :=
  match l with
  | [] => ""
  | [x] => x
  | x :: r => x ++ sep ++ join sep r
  end.

Definition show_path (p : path) : string := hex (join "/" p).
Definition show_opath (p : option path) : string := match p with Some p => show_path p | None => "~" end.

Definition show_node (e : path * node) : string :=
  match snd e with
  | Dir => "D:" ++ show_path (fst e)
  | File t => "F:" ++ show_path (fst e) ++ ":" ++ hex t
  end.

Definition show_stage (s : stage) : string :=
  match s with SParse => "parse" | SCtx => "ctx" | SCheck => "check" | SGen => "gen" end.
Definition show_op (o : ioop) : string :=
  match o with IoCreateTarget => "create" | IoRead => "read" | IoMkdirs => "mkdirs" | IoOpenWrite => "open" | IoNoParent => "noparent" end.

Definition show_err (e : err string) : string :=
  match e with
  | ESrcMissing p => "SRCMISSING:" ++ show_path p
  | EIo op p => "IO:" ++ show_op op ++ ":" ++ show_opath p
  | EStage st p m => "STAGE:" ++ show_stage st ++ ":" ++ show_opath p ++ ":" ++ m
  end.

Definition show_fs (fs : FS) : string := join "," (map show_node fs).

Definition show_dir (r : FS * res path (list (err string))) : string :=
  match snd r with
  | Ok p => "OK|" ++ show_path p ++ "|" ++ show_fs (fst r)
  | Err es => "ERR|" ++ join "," (map show_err es) ++ "|" ++ show_fs (fst r)
  end.

Definition show_m2p (r : res (list string) (list (err string))) : string :=
  match r with
  | Ok pys => "OK|" ++ join "," (map (fun s : string => ("h" ++ hex s)%string) pys)
  | Err es => "ERR|" ++ join "," (map show_err es)
  end.

(** entries [(path components, None = directory | Some hex content)] *)
Definition mkfs (l : list (list string * option string)) : FS :=
  map (fun e => (fst e, match snd e with Some h => File (unhex h) | None => Dir end)) l.

Definition mkinputs (l : list (string * option (list string))) : list input :=
  map (fun e => (unhex (fst e), snd e)) l.
