(** * Model of the desugaring [src/generate/convert/*.rs] and of [gen_arguments]

    Input: the typed AST the checker hands to the generator ([ASTTy]/[NodeTy]),
    restricted to the executable core language without class definitions; every node
    carries the optional type the checker recorded for it.  Output: [Core].
    The conversion threads [State] (flags) and [Imports] (support imports registered
    while types are rendered) exactly as the Rust code does; conversion errors
    ([UnimplementedErr]) are [None].  Names of types are mapped through the generated
    table [gen/Names.v]. *)
From Coq Require Import List String Bool Arith.
From MambaModel Require Import model.Core gen.Names.
Import ListNotations.
Local Open Scope string_scope.

(** ** Types as the checker records them: [Name] / [TrueName] / [StringName] *)
Inductive nm := NM (members : list tn)               (* members in [sorted()] order *)
with tn := TN (nullable : bool) (name : string) (generics : list nm).

(** ** The typed AST *)
Inductive nbin := SAdd | SSub | SMul | SDiv | SFDiv | SMod | SPow | SBAnd | SBOr | SBXOr | SBLShift | SBRShift
                | SAnd | SOr | SEq | SNeq | SIs | SIsN | SIsA | SIsNA | SIn | SLe | SLeq | SGe | SGeq | SQuestion.
Inductive nun := SAddU | SSubU | SNot | SBOneCmpl | SSqrt.
Inductive nodeop := NAssign | NAdd | NSub | NSqrt | NMul | NFDiv | NDiv | NPow | NMod | NEq | NLe | NGe
                  | NBLShift | NBRShift.

Inductive ast := A (ty : option nm) (n : node)
with node :=
| NInt (s : string) | NReal (s : string) | NENum (n e : string)
| NStr (s : string) (interpolated : bool) | NDocStr (s : string) | NBool (b : bool) | NId (s : string)
| NUndefined | NUnderscore | NPass | NBreak | NContinue | NReturnEmpty
| NBin (o : nbin) (l r : ast) | NUn (o : nun) (e : ast)
| NTuple (es : list ast) | NList (es : list ast) | NSet (es : list ast)
| NIndex (item range : ast)
| NRange (from to : ast) (incl : bool) (step : option ast)
| NSlice (from to : ast) (incl : bool) (step : option ast)
| NCall (name : string) (generics : list nm) (args : list ast)
| NProp (inst prop : ast)
| NAnonFun (args : list ast) (body : ast)
| NExprType (e : ast) (ety : option nm)
| NVarDef (var : ast) (vty : option nm) (expr : option ast)
| NReassign (l r : ast) (op : nodeop)
| NFunDef (id : ast) (args : list ast) (ret : option nm) (body : option ast)
| NFunArg (vararg : bool) (var : ast) (aty : option nm) (default : option ast)
| NBlock (stmts : list ast)
| NReturn (e : ast)
| NIfElse (c t : ast) (el : option ast)
| NMatch (c : ast) (cases : list ast)
| NCase (cond body : ast)
| NWhile (c b : ast) | NFor (e col b : ast)
| NRaise (e : ast) | NHandle (e : ast) (cases : list ast)
| NImport (from : option ast) (import alias : list ast)
| NClass (name : string) (generics : list nm) (args parents : list ast) (body : option ast)
| NParent (name : string) (generics : list nm) (args : list ast)
| NTypeDef (name : string) (generics : list nm) (isa : option nm) (body : option ast)
           (abstract_parent : bool)   (* has_abstract_parent of the context, supplied with the AST *)
| NTypeAlias (name : string) (generics : list nm) (isa : nm)
| NDict (elements : list (ast * ast))
| NListBuilder (item : ast) (conds : list ast) | NSetBuilder (item : ast) (conds : list ast)
| NDictBuilder (from to : ast) (conds : list ast)
| NWith (resource : ast) (alias : option ast) (body : ast).

Definition ast_ty (a : ast) : option nm := match a with A t _ => t end.
Definition ast_node (a : ast) : node := match a with A _ n => n end.

(** ** [Imports] *)
(** The BTreeMap of from-imports is kept in two parts: the entry for [typing] and the others
    (sorted by key); [from_imps] puts them together again.  A value is the (sorted) list of
    imported names and the alias list of the [Core::Import] stored under the key. *)
Record imports := {
  imps : list core;
  typing_imps : option (list core * list core);
  other_from : list (string * (list core * list core)) }.
Definition imports0 : imports := {| imps := []; typing_imps := None; other_from := [] |}.

Definition core_id_eqb (a b : core) : bool :=
  match a, b with Id x, Id y => String.eqb x y | _, _ => false end.

Definition import_eqb (a b : core) : bool :=
  match a, b with
  | Import None [Id x] [], Import None [Id y] [] => String.eqb x y
  | _, _ => false
  end.

Definition add_import (name : string) (i : imports) : imports :=
  let imp := Import None [Id name] [] in
  if existsb (import_eqb imp) (imps i) then i
  else {| imps := imps i ++ [imp]; typing_imps := typing_imps i; other_from := other_from i |}.

(** string order as Rust's [String::cmp] (bytewise) *)
Fixpoint str_ltb (a b : string) : bool :=
  match a, b with
  | EmptyString, EmptyString => false
  | EmptyString, String _ _ => true
  | String _ _, EmptyString => false
  | String x a', String y b' =>
      let nx := Ascii.nat_of_ascii x in let ny := Ascii.nat_of_ascii y in
      if Nat.ltb nx ny then true else if Nat.ltb ny nx then false else str_ltb a' b'
  end.

Fixpoint insert_sorted_id (x : string) (l : list core) : list core :=
  match l with
  | [] => [Id x]
  | Id y :: r => if str_ltb x y then Id x :: l else Id y :: insert_sorted_id x r
  | other :: r => other :: insert_sorted_id x r
  end.

Fixpoint map_insert {V} (k : string) (v : V) (m : list (string * V)) : list (string * V) :=
  match m with
  | [] => [(k, v)]
  | (k', v') :: r =>
      if String.eqb k k' then (k, v) :: r
      else if str_ltb k k' then (k, v) :: m
      else (k', v') :: map_insert k v r
  end.

Fixpoint map_get {V} (k : string) (m : list (string * V)) : option V :=
  match m with
  | [] => None
  | (k', v) :: r => if String.eqb k k' then Some v else map_get k r
  end.

Definition add_name (name : string) (v : option (list core * list core)) : list core * list core :=
  match v with
  | Some (names, alias) =>
      (if existsb (core_id_eqb (Id name)) names then names else insert_sorted_id name names, alias)
  | None => ([Id name], [])
  end.

Definition add_from_import (from name : string) (i : imports) : imports :=
  if String.eqb from "typing" then
    {| imps := imps i; typing_imps := Some (add_name name (typing_imps i)); other_from := other_from i |}
  else
    {| imps := imps i; typing_imps := typing_imps i;
       other_from := map_insert from (add_name name (map_get from (other_from i))) (other_from i) |}.

Definition from_imps (i : imports) : list (string * (list core * list core)) :=
  match typing_imps i with
  | Some v => map_insert "typing" v (other_from i)
  | None => other_from i
  end.

Definition from_import_core (kv : string * (list core * list core)) : core :=
  Import (Some (Id (fst kv))) (fst (snd kv)) (snd (snd kv)).
Definition import_list (i : imports) : list core := imps i ++ map from_import_core (from_imps i).
Definition imports_empty (i : imports) : bool :=
  match imps i, from_imps i with [], [] => true | _, _ => false end.

(** ** Rendering types ([generate/name.rs]) *)

Fixpoint lookup (k : string) (m : list (string * string)) : option string :=
  match m with
  | [] => None
  | (k', v) :: r => if String.eqb k k' then Some v else lookup k r
  end.

Definition concrete_to_python (s : string) : string :=
  match lookup s py_names with Some p => p | None => s end.

(** Union members of a [StringName] named Union: the union of the generics, flattened
    (sets are lists here; duplicates are not merged - outside the generated fragment). *)
Fixpoint nm_to_py (n : nm) (i : imports) {struct n} : core * imports :=
  match n with
  | NM [] => (Empty, i)
  | NM [t] => tn_to_py t i
  | NM ts =>
      let i1 := add_from_import "typing" n_union_py i in
      let '(gs, i2) :=
        (fix go (l : list tn) (i : imports) : list core * imports :=
           match l with
           | [] => ([], i)
           | t :: r => let '(c, i') := tn_to_py t i in let '(cs, i'') := go r i' in (c :: cs, i'')
           end) ts i1 in
      (Type_ n_union_py gs, i2)
  end
with tn_to_py (t : tn) (i : imports) {struct t} : core * imports :=
  match t with
  | TN nullable name generics =>
      let render_generics :=
        fix go (l : list nm) (i : imports) : list core * imports :=
          match l with
          | [] => ([], i)
          | g :: r => let '(c, i') := nm_to_py g i in let '(cs, i'') := go r i' in (c :: cs, i'')
          end in
      let variant (i : imports) : core * imports :=
        if String.eqb name n_tuple_m then
          let i1 := add_from_import "typing" n_tuple_py i in
          let '(gs, i2) := render_generics generics i1 in (Type_ n_tuple_py gs, i2)
        else if String.eqb name n_callable_m then
          let i1 := add_from_import "typing" n_callable_py i in
          match generics with
          | a :: r :: _ =>
              let '(ca, i2) := nm_to_py a i1 in let '(cr, i3) := nm_to_py r i2 in
              (Type_ n_callable_py [ca; cr], i3)
          | [a] => let '(ca, i2) := nm_to_py a i1 in (Type_ n_callable_py [ca; Empty], i2)
          | [] => (Type_ n_callable_py [Empty; Empty], i1)
          end
        else
          let i1 := if String.eqb name n_any_m then add_from_import "typing" n_any_py i else i in
          let '(gs, i2) := render_generics generics i1 in (Type_ (concrete_to_python name) gs, i2) in
      if nullable then
        let i1 := add_from_import "typing" "Optional" i in
        let '(c, i2) := variant i1 in (Type_ "Optional" [c], i2)
      else variant i
  end.

(** ** [State] *)
Record state := {
  interface : bool; expand_ty : bool; def_as_fun_arg : bool; tup_lit : bool; annotate : bool;
  last_ret : bool; assign_to : option (core * option nm); remove_ret : bool }.

Definition state0 (ann : bool) : state :=
  {| interface := false; expand_ty := true; def_as_fun_arg := false; tup_lit := false; annotate := ann;
     last_ret := false; assign_to := None; remove_ret := false |}.

Definition with_expand (s : state) (b : bool) : state :=
  {| interface := interface s; expand_ty := b; def_as_fun_arg := def_as_fun_arg s; tup_lit := tup_lit s;
     annotate := annotate s; last_ret := last_ret s; assign_to := assign_to s; remove_ret := remove_ret s |}.
Definition with_tup_lit (s : state) : state :=
  {| interface := interface s; expand_ty := expand_ty s; def_as_fun_arg := def_as_fun_arg s; tup_lit := true;
     annotate := annotate s; last_ret := last_ret s; assign_to := assign_to s; remove_ret := remove_ret s |}.
Definition with_last_ret (s : state) (b : bool) : state :=
  {| interface := interface s; expand_ty := expand_ty s; def_as_fun_arg := def_as_fun_arg s; tup_lit := tup_lit s;
     annotate := annotate s; last_ret := b; assign_to := assign_to s; remove_ret := remove_ret s |}.
Definition with_assign (s : state) (a : option (core * option nm)) : state :=
  {| interface := interface s; expand_ty := expand_ty s; def_as_fun_arg := def_as_fun_arg s; tup_lit := tup_lit s;
     annotate := annotate s; last_ret := last_ret s; assign_to := a; remove_ret := remove_ret s |}.
Definition with_remove_ret (s : state) (b : bool) : state :=
  {| interface := interface s; expand_ty := expand_ty s; def_as_fun_arg := def_as_fun_arg s; tup_lit := tup_lit s;
     annotate := annotate s; last_ret := last_ret s; assign_to := assign_to s; remove_ret := b |}.

Definition with_interface (s : state) (b : bool) : state :=
  {| interface := b; expand_ty := expand_ty s; def_as_fun_arg := def_as_fun_arg s; tup_lit := tup_lit s;
     annotate := annotate s; last_ret := last_ret s; assign_to := assign_to s; remove_ret := remove_ret s |}.
Definition with_def_as_fun_arg (s : state) (b : bool) : state :=
  {| interface := interface s; expand_ty := expand_ty s; def_as_fun_arg := b; tup_lit := tup_lit s;
     annotate := annotate s; last_ret := last_ret s; assign_to := assign_to s; remove_ret := remove_ret s |}.

(** ** [append_ret], [append_assign] *)

Definition skip_return (c : core) : bool :=
  match c with Un CuReturn _ | Un CuRaise _ => true | _ => false end.
Definition skip_assign (c : core) : bool :=
  skip_return c || match c with VarDef _ _ _ | Assign _ _ _ => true | _ => false end.

(** list helpers; the function is a section variable, so that recursive definitions
    through them pass the guard checker (as with [List.map]) *)
Section ReplaceLast.
  Context {X : Type} (f : X -> X).
  Fixpoint replace_last (l : list X) : list X :=
    match l with
    | [] => []
    | x :: r => match r with [] => [f x] | _ :: _ => x :: replace_last r end
    end.
End ReplaceLast.
Section StateMaps.
  Context {X Y S : Type}.
  Section A.
    Variable f : X -> S -> Y * S.
    Fixpoint smap (l : list X) (s : S) : list Y * S :=
      match l with
      | [] => ([], s)
      | x :: r => let '(y, s1) := f x s in let '(ys, s2) := smap r s1 in (y :: ys, s2)
      end.
  End A.
  Section B.
    Variable g : X -> S -> X * S.
    Fixpoint smap_last (l : list X) (s : S) : list X * S :=
      match l with
      | [] => ([], s)
      | x :: r => match r with
                  | [] => let '(y, s1) := g x s in ([y], s1)
                  | _ :: _ => let '(ys, s1) := smap_last r s in (x :: ys, s1)
                  end
      end.
  End B.
End StateMaps.

Fixpoint append_ret (c : core) : core :=
  match c with
  | Block [] => Block [Un CuReturn None_]
  | Block sts => Block (replace_last append_ret sts)
  | IfElse cond t e => IfElse cond (append_ret t) (append_ret e)
  | Match e cases => Match e (map append_ret cases)
  | Case e b => Case e (append_ret b)
  | TryExcept s a ex => TryExcept s (append_ret a) (map append_ret ex)
  | ExceptId i cl b => ExceptId i cl (append_ret b)
  | Except cl b => Except cl (append_ret b)
  | other => if skip_return other then other else Un CuReturn other
  end.

(** the annotation of the assigned variable is rendered once per leaf, in order *)
Definition assign_leaf (target : core) (name : option nm) (c : core) (i : imports) : core * imports :=
  if skip_assign c then (c, i)
  else match name with
       | Some n => let '(t, i') := nm_to_py n i in (VarDef target (Some t) (Some c), i')
       | None => (VarDef target None (Some c), i)
       end.

Fixpoint append_assign (target : core) (name : option nm) (c : core) (i : imports) {struct c}
  : core * imports :=
  match c with
  | Block [] => (c, i)
  | Block sts => let '(sts', i') := smap_last (append_assign target name) sts i in (Block sts', i')
  | IfElse cond t e =>
      let '(t', i1) := append_assign target name t i in
      let '(e', i2) := append_assign target name e i1 in
      (IfElse cond t' e', i2)
  | Match e cases => let '(cs, i') := smap (append_assign target name) cases i in (Match e cs, i')
  | Case e b => let '(b', i') := append_assign target name b i in (Case e b', i')
  | TryExcept s a ex =>
      let '(a', i1) := append_assign target name a i in
      let '(ex', i2) := smap (append_assign target name) ex i1 in
      (TryExcept s a' ex', i2)
  | ExceptId id cl b => let '(b', i') := append_assign target name b i in (ExceptId id cl b', i')
  | Except cl b => let '(b', i') := append_assign target name b i in (Except cl b', i')
  | other => assign_leaf target name other i
  end.


(** ** Classes ([convert/class.rs], with the (slot, kind) positions of the repaired [extract_class]) *)

(** structural equality of the [Core] keys that can occur (identifiers; anything else never equal) *)
Definition key_eqb (a b : core) : bool :=
  match a, b with Id x, Id y => String.eqb x y | _, _ => false end.

Definition entry := (core * ((nat * nat) * core))%type.   (* key, ((slot, kind), statement) *)

Fixpoint hm_insert (k : core) (v : (nat * nat) * core) (m : list entry) : list entry :=
  match m with
  | [] => [(k, v)]
  | (k', v') :: r => if key_eqb k k' then (k, v) :: r else (k', v') :: hm_insert k v r
  end.
Fixpoint hm_get (k : core) (m : list entry) : option ((nat * nat) * core) :=
  match m with
  | [] => None
  | (k', v) :: r => if key_eqb k k' then Some v else hm_get k r
  end.

Definition stmt_entry (i : nat) (stmt : core) : entry :=
  match stmt with
  | FunDef _ id _ _ _ => (Id id, ((i + 2, 2), stmt))
  | FunDefOp op _ _ _ => (Id (funop_name op), ((i + 2, 2), stmt))
  | VarDef var _ _ => (var, ((i, 0), stmt))
  | _ => (Id "@", ((i, 0), stmt))
  end.

Fixpoint body_entries (i : nat) (stmts : list core) (m : list entry) : list entry :=
  match stmts with
  | [] => m
  | s :: r => let '(k, v) := stmt_entry i s in body_entries (S i) r (hm_insert k v m)
  end.

Definition pos_ltb (a b : nat * nat) : bool :=
  (fst a <? fst b)%nat || ((fst a =? fst b)%nat && (snd a <? snd b)%nat).

Fixpoint insert_by_pos (e : (nat * nat) * core) (l : list ((nat * nat) * core)) : list ((nat * nat) * core) :=
  match l with
  | [] => [e]
  | x :: r => if pos_ltb (fst e) (fst x) then e :: l else x :: insert_by_pos e r
  end.
Definition sort_by_pos (l : list ((nat * nat) * core)) : list ((nat * nat) * core) :=
  fold_right insert_by_pos [] l.

Definition parent_init (parent : core) : core * list core :=
  let '(lit, arg) :=
    match parent with
    | FunctionCall (Type_ lit _) args => (lit, args)
    | FunctionCall _ args => ("", args)
    | Type_ lit _ => (lit, [])
    | _ => ("", [])
    end in
  let args := Id n_self_ :: arg in
  (PropertyCall (Id lit) (FunctionCall (Id n_init) args), args).

Definition core_eqb_shallow (a b : core) : bool :=
  match a, b with
  | Id x, Id y => String.eqb x y
  | _, _ => false
  end.

Definition block_stmts (c : core) : list core := match c with Block sts => sts | other => [other] end.

(** [init]: the constructor synthesised from class arguments and parent calls *)
Definition class_init (old_init : option core) (class_args parents : list core) : option core :=
  let pis := map parent_init parents in
  let parent_inits := map fst pis in
  let parent_args := map snd pis in
  let '(args, statements) :=
    match old_init with
    | Some (FunDef _ _ arg _ body) =>
        (arg, (parent_inits ++ block_stmts body)%list)
    | Some _ => ([], parent_inits)
    | None => (class_args, parent_inits)
    end in
  let vars := flat_map (fun a => match a with FunArg _ var _ _ => [var] | _ => [] end) class_args in
  let fresh := filter (fun v => negb (existsb (fun pa => existsb (core_eqb_shallow v) pa) parent_args)) vars in
  let statements := (statements ++ map (fun v => Assign (PropertyCall (Id n_self_) v) v OpAssign) fresh)%list in
  let first_is_self :=
    match args with
    | FunArg _ (Id lit) _ _ :: _ => String.eqb lit n_self_
    | _ => false
    end in
  let args := if first_is_self then args else Id n_self_ :: args in
  match statements with
  | [] => None
  | _ => Some (FunDef [] n_init args None (Block statements))
  end.

Definition parent_name (parent : core) : option core :=
  match parent with
  | FunctionCall (Type_ lit _) _ => Some (Id lit)
  | Type_ _ _ => Some parent
  | _ => None          (* the Rust code panics here *)
  end.

Definition assemble_class (body_stmts : list core) (args parents : list core) : option (list core * list core) :=
  let m := body_entries 0 body_stmts [] in
  let old_init := match hm_get (Id n_init) m with Some (_, f) => Some f | None => None end in
  let m' :=
    match class_init old_init args parents with
    | Some new_init =>
        let pos :=
          match hm_get (Id n_init) m with
          | Some (p, _) => p
          | None =>
              fold_right (fun e acc =>
                            match snd (snd e) with
                            | VarDef _ _ _ => let p := (S (fst (fst (snd e))), 1) in
                                              if pos_ltb acc p then p else acc
                            | _ => acc
                            end) (0, 1) m
          end in
        hm_insert (Id n_init) (pos, new_init) m
    | None => m
    end in
  let names := map parent_name parents in
  if existsb (fun o => match o with None => true | Some _ => false end) names then None
  else
    let sorted := map snd (sort_by_pos (map snd m')) in
    Some (flat_map (fun o => match o with Some x => [x] | None => [] end) names,
          match sorted with [] => [Pass] | _ => sorted end).

(** ** [convert_node] *)

Definition M (X : Type) := imports -> option (X * imports).
Definition ret {X} (x : X) : M X := fun i => Some (x, i).
Definition bind {X Y} (m : M X) (f : X -> M Y) : M Y :=
  fun i => match m i with Some (x, i') => f x i' | None => None end.
Definition fail {X} : M X := fun _ => None.
Definition lift {X} (f : imports -> X * imports) : M X := fun i => Some (f i).
Definition touch (f : imports -> imports) : M unit := fun i => Some (tt, f i).
Notation "x <- m ;; k" := (bind m (fun x => k)) (at level 61, m at next level, right associativity).

Section MonadicMaps.
  Context {X Y : Type}.
  Section A.
    Variable f : X -> M Y.
    Fixpoint mmap (l : list X) : M (list Y) :=
      match l with
      | [] => ret []
      | x :: r => c <- f x ;; cs <- mmap r ;; ret (c :: cs)
      end.
  End A.
  Section B.
    Variable g : X -> M (option Y).
    Fixpoint mfiltermap (l : list X) : M (list Y) :=
      match l with
      | [] => ret []
      | x :: r => c <- g x ;; cs <- mfiltermap r ;;
                  ret (match c with Some y => y :: cs | None => cs end)
      end.
  End B.
End MonadicMaps.
Definition mopt {X Y} (f : X -> M Y) (o : option X) : M (option Y) :=
  match o with Some x => (c <- f x ;; ret (Some c)) | None => ret None end.

Definition bin_core (o : nbin) (l r : core) : core :=
  match o with
  | SAdd => Bin CbAdd l r | SSub => Bin CbSub l r | SMul => Bin CbMul l r | SDiv => Bin CbDiv l r
  | SFDiv => Bin CbFDiv l r | SMod => Bin CbMod l r | SPow => Bin CbPow l r
  | SBAnd => Bin CbBAnd l r | SBOr => Bin CbBOr l r | SBXOr => Bin CbBXOr l r
  | SBLShift => Bin CbBLShift l r | SBRShift => Bin CbBRShift l r
  | SAnd => Bin CbAnd l r | SOr => Bin CbOr l r | SEq => Bin CbEq l r | SNeq => Bin CbNeq l r
  | SIs => Bin CbIs l r | SIsN => Bin CbIsN l r | SIsA => Bin CbIsA l r
  | SIsNA => Un CuNot (Bin CbIsA l r) | SIn => Bin CbIn l r
  | SLe => Bin CbLe l r | SLeq => Bin CbLeq l r | SGe => Bin CbGe l r | SGeq => Bin CbGeq l r
  | SQuestion => Bin CbOr l r
  end.

Definition un_core (o : nun) (e : core) : core :=
  match o with
  | SAddU => Un CuAddU e | SSubU => Un CuSubU e | SNot => Un CuNot e | SBOneCmpl => Un CuBOneCmpl e
  | SSqrt => Un CuSqrt e
  end.

Definition core_op (o : nodeop) : option coreop :=
  match o with
  | NAdd => Some OpAddAssign | NSub => Some OpSubAssign | NMul => Some OpMulAssign | NDiv => Some OpDivAssign
  | NPow => Some OpPowAssign | NBLShift => Some OpBLShiftAssign | NBRShift => Some OpBRShiftAssign
  | NAssign => Some OpAssign | _ => None
  end.

Definition funop_of (s : string) : option funop :=
  let is k := match lookup k dunder with Some d => String.eqb s d | None => false end in
  if is "GE" then Some FGe else if is "GEQ" then Some FGeq else if is "LE" then Some FLe
  else if is "LEQ" then Some FLeq else if is "EQ" then Some FEq else if is "NEQ" then Some FNeq
  else if is "ADD" then Some FAdd else if is "SUB" then Some FSub else if is "POW" then Some FPow
  else if is "MUL" then Some FMul else if is "MOD" then Some FMod else if is "DIV" then Some FDiv
  else if is "FDIV" then Some FFDiv else None.

Definition is_valid_in_ternary (t e : ast) : bool :=
  match ast_node t, ast_node e with
  | NBlock _, _ | NRaise _, _ | _, NBlock _ | _, NRaise _ => false
  | _, _ => true
  end.

Definition opt_nm_to_py (o : option nm) : M (option core) :=
  match o with
  | Some n => lift (fun i => let '(c, i') := nm_to_py n i in (Some c, i'))
  | None => ret None
  end.

Definition is_tuple_literal (c : core) : bool := match c with TupleLiteral _ => true | _ => false end.
Definition is_self (c : core) : bool := match c with Id s => String.eqb s n_self_ | _ => false end.

Fixpoint conv (a : ast) (st : state) {struct a} : M core :=
  let must_assign := assign_to st in
  let is_last := last_ret st in
  let old := st in
  let st := with_last_ret (with_assign st None) false in
  let conv_list (l : list ast) (st : state) : M (list core) := mmap (fun x => conv x st) l in
  let conv_opt (o : option ast) (st : state) : M (option core) := mopt (fun x => conv x st) o in
  let result : M core :=
    match a with A aty nd => match nd with
    | NImport from import alias =>
        f <- conv_opt from st ;; im <- conv_list import st ;; al <- conv_list alias st ;;
        ret (Import f im al)
    | NVarDef var vty expr =>
        v <- conv var (with_tup_lit st) ;;
        let ann := annotate st && expand_ty st && negb (is_tuple_literal v) in
        ty <- (if ann then
                 match vty, expr with
                 | Some t, _ => opt_nm_to_py (Some t)
                 | None, Some e => opt_nm_to_py (ast_ty e)
                 | None, None => ret None
                 end
               else ret None) ;;
        if def_as_fun_arg st then
          d <- conv_opt expr st ;; ret (FunArg false v ty d)
        else
          match expr with
          | Some e =>
              c <- conv e st ;;
              match c with
              | IfElse _ _ _ | Match _ _ =>
                  (* redo the conversion, now assigning in every branch *)
                  conv e (with_assign st (Some (v, ast_ty e)))
              | other => ret (VarDef v ty (Some other))
              end
          | None =>
              match v with
              | TupleLiteral els => ret (VarDef v ty (Some (Tuple (map (fun _ => None_) els))))
              | _ => ret (VarDef v ty None)
              end
          end
    | NFunDef id args ret_ty body =>
        arg <- conv_list args st ;;
        ty <- (if annotate st then opt_nm_to_py ret_ty else ret None) ;;
        decbody <-
          (if interface st && match body with None => true | Some _ => false end then
             _ <- touch (add_from_import "abc" "abstractmethod") ;; ret (["abstractmethod"], Pass)
           else
             match body with
             | Some b =>
                 c <- conv b (with_last_ret (with_expand st true)
                                (match ret_ty with Some _ => true | None => false end)) ;;
                 ret ([], c)
             | None => ret ([], Pass)
             end) ;;
        cid <- conv id st ;;
        match cid with
        | Id lit =>
            match funop_of lit with
            | Some op => ret (FunDefOp op arg ty (snd decbody))
            | None =>
                let name := if String.eqb lit "size" then "__size__" else lit in
                ret (FunDef (fst decbody) name arg ty (snd decbody))
            end
        | _ => fail
        end
    | NFunArg vararg var aty default =>
        v <- conv var st ;;
        let ann := annotate st && expand_ty st && negb (is_self v) in
        ty <- (if ann then opt_nm_to_py aty else ret None) ;;
        d <- conv_opt default st ;;
        ret (FunArg vararg v ty d)
    | NReassign l r op =>
        cl <- conv l st ;; cr <- conv r st ;;
        match core_op op with Some o => ret (Assign cl cr o) | None => fail end
    | NBlock stmts => cs <- conv_list stmts st ;; ret (Block cs)
    | NInt s => ret (Int s)
    | NReal s => ret (Float s)
    | NENum n e => ret (ENum n (if String.eqb e "" then "0" else e))
    | NDocStr s => ret (DocStr s)
    | NStr s false => ret (Str s)
    | NStr s true => ret (FStr s)
    | NUndefined => ret None_
    | NExprType e _ => conv e (with_expand st true)
    | NId s => ret (Id (concrete_to_python s))
    | NBool b => ret (Bool b)
    | NTuple es => cs <- conv_list es st ;; ret (if tup_lit st then TupleLiteral cs else Tuple cs)
    | NList es => cs <- conv_list es st ;; ret (List_ cs)
    | NSet es => cs <- conv_list es st ;; ret (Set_ cs)
    | NIndex item range => ci <- conv item st ;; cr <- conv range st ;; ret (Index ci cr)
    | NReturnEmpty => ret (Un CuReturn None_)
    | NReturn e =>
        if remove_ret st then conv e (with_remove_ret st false)
        else c <- conv e st ;; ret (Un CuReturn c)
    | NIfElse c t el =>
        cc <- conv c (with_assign (with_last_ret old false) None) ;;
        match el with
        | Some e =>
            if match aty with Some _ => true | None => false end && is_valid_in_ternary t e then
              let s' := with_assign (with_remove_ret (with_last_ret old false) true) None in
              ct <- conv t s' ;; ce <- conv e s' ;; ret (Ternary cc ct ce)
            else
              ct <- conv t old ;; ce <- conv e old ;; ret (IfElse cc ct ce)
        | None => ct <- conv t old ;; ret (If cc ct)
        end
    | NMatch c cases =>
        ce <- conv c (with_assign (with_last_ret old false) None) ;;
        cs <- mfiltermap (fun x =>
                 match x with
                 | A _ (NCase (A _ (NExprType e _)) body) =>
                     pe <- conv e (with_assign (with_last_ret old false) None) ;;
                     pb <- conv body old ;;
                     ret (Some (Case pe pb))
                 | _ => ret None
                 end) cases ;;
        ret (Match ce cs)
    | NWhile c b => cc <- conv c st ;; cb <- conv b st ;; ret (While cc cb)
    | NFor e col b => ce <- conv e st ;; cc <- conv col st ;; cb <- conv b st ;; ret (For ce cc cb)
    | NBreak => ret Break
    | NContinue => ret Continue
    | NBin o l r => cl <- conv l st ;; cr <- conv r st ;; ret (bin_core o cl cr)
    | NUn SSqrt e => _ <- touch (add_import "math") ;; c <- conv e st ;; ret (Un CuSqrt c)
    | NUn o e => c <- conv e st ;; ret (un_core o c)
    | NCall name generics args =>
        f <- lift (tn_to_py (TN false name generics)) ;;
        cs <- conv_list args st ;; ret (FunctionCall f cs)
    | NProp inst prop => ci <- conv inst st ;; cp <- conv prop st ;; ret (PropertyCall ci cp)
    | NAnonFun args body =>
        ca <- conv_list args (with_expand st false) ;; cb <- conv body st ;; ret (AnonFun ca cb)
    | NRange from to incl step =>
        cf <- conv from st ;; ct <- conv to st ;;
        cs <- (match step with Some s => conv s st | None => ret (Int "1") end) ;;
        ret (FunctionCall (Id n_range) [cf; if incl then Bin CbAdd ct (Int "1") else ct; cs])
    | NSlice from to incl step =>
        cf <- conv from st ;; ct <- conv to st ;;
        cs <- (match step with Some s => conv s st | None => ret (Int "1") end) ;;
        ret (FunctionCall (Id n_slice) [cf; if incl then Bin CbAdd ct (Int "1") else ct; cs])
    | NUnderscore => ret UnderScore
    | NRaise e => c <- conv e st ;; ret (Un CuRaise c)
    | NHandle e cases =>
        vt <- (match e with
               | A _ (NVarDef var vty _) =>
                   t <- opt_nm_to_py vty ;; v <- conv var st ;; ret (Some v, t)
               | _ => ret (None, None)
               end) ;;
        let assign_state := with_assign st (match fst vt with
                                            | Some v => Some (v, ast_ty e) | None => None end) in
        attempt <- conv e st ;;
        ex <- mmap (fun x =>
                 match x with
                 | A _ (NCase (A _ (NExprType ce (Some cty))) body) =>
                     id <- conv ce st ;;
                     cl <- lift (nm_to_py cty) ;;
                     b <- conv body assign_state ;;
                     ret (match id with UnderScore => Except cl b | _ => ExceptId id cl b end)
                 | _ => fail
                 end) cases ;;
        ret (TryExcept (match fst vt with Some v => Some (VarDef v (snd vt) None) | None => None end)
                       attempt ex)
    | NPass => ret Pass
    | NCase _ _ => ret Empty
    | NDict elements =>
        kvs <- mmap (fun kv => ck <- conv (fst kv) st ;; cv <- conv (snd kv) st ;; ret (ck, cv)) elements ;;
        ret (Dictionary kvs)
    | NListBuilder item conds =>
        e <- conv item st ;;
        match conds with
        | col :: rest =>
            cs <- conv_list rest st ;; cc <- conv col st ;; ret (List_ [Comprehension e cc cs])
        | [] => fail
        end
    | NSetBuilder item conds =>
        e <- conv item st ;;
        match conds with
        | col :: rest =>
            cs <- conv_list rest st ;; cc <- conv col st ;; ret (Set_ [Comprehension e cc cs])
        | [] => fail
        end
    | NDictBuilder from to conds =>
        f <- conv from st ;; t <- conv to st ;;
        match conds with
        | col :: rest =>
            cs <- conv_list rest st ;; cc <- conv col st ;; ret (DictComprehension f t cc cs)
        | [] => fail
        end
    | NWith resource alias body =>
        r <- conv resource st ;;
        match alias with
        | Some al => ca <- conv al (with_expand st false) ;; b <- conv body st ;; ret (WithAs r ca b)
        | None => b <- conv body st ;; ret (With r b)
        end
    | NTypeAlias name generics isa =>
        _ <- touch (add_from_import "typing" "NewType") ;;
        t <- lift (nm_to_py isa) ;;
        ret (Assign (Id name) (FunctionCall (Id "NewType") [Str name; t]) OpAssign)
    | NParent name generics args =>
        t <- lift (tn_to_py (TN false name generics)) ;;
        match args with
        | [] => ret t
        | _ => cs <- conv_list args st ;; ret (FunctionCall t cs)
        end
    | NClass name generics args parents body =>
        ps <- conv_list parents st ;;
        let cst := with_interface st false in
        b <- conv_opt body cst ;;
        ca <- conv_list args (with_def_as_fun_arg cst true) ;;
        let stmts := match b with Some x => block_stmts x | None => [] end in
        match assemble_class stmts ca ps with
        | Some (parent_names, body_stmts) =>
            t <- lift (tn_to_py (TN false name generics)) ;;
            match t with
            | Type_ lit _ => ret (ClassDef (Id lit) parent_names (Block body_stmts))
            | _ => fail
            end
        | None => fail
        end
    | NTypeDef name generics isa body abstract_parent =>
        ps <- (match isa with
               | Some n => (t <- lift (nm_to_py n) ;; ret [t])
               | None => ret []
               end) ;;
        let cst := with_interface st true in
        b <- conv_opt body cst ;;
        let stmts := match b with Some x => block_stmts x | None => [] end in
        match assemble_class stmts [] ps with
        | Some (parent_names, body_stmts) =>
            pn <- (if abstract_parent then ret parent_names
                   else (_ <- touch (add_from_import "abc" "ABC") ;; ret (parent_names ++ [Id "ABC"])%list)) ;;
            t <- lift (tn_to_py (TN false name generics)) ;;
            match t with
            | Type_ lit _ => ret (ClassDef (Id lit) pn (Block body_stmts))
            | _ => fail
            end
        | None => fail
        end
    end end in
  c <- result ;;
  c1 <- (match must_assign with
         | Some (target, name) => lift (append_assign target name c)
         | None => ret c
         end) ;;
  ret (if is_last then append_ret c1 else c1).

(** [gen_arguments] *)
Definition gen (annotate : bool) (a : ast) : option core :=
  match conv a (state0 annotate) imports0 with
  | Some (Block sts, i) => Some (Block (import_list i ++ sts))
  | Some (other, i) => if imports_empty i then Some other else Some (Block (import_list i ++ [other]))
  | None => None
  end.
