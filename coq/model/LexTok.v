(** * Tokens of the Mamba lexer ([src/parse/lex/token.rs])

    Characters are bytes ([ascii]); texts are [list ascii].  Inputs containing a
    byte >= 128 are outside the model (the Rust scanner iterates over Unicode
    scalar values while token widths are byte lengths). *)
From Coq Require Import List Ascii ZArith Bool.
Import ListNotations.

Definition str := list ascii.

Inductive token :=
| MFrom | MType | MClass | MPure | MIsA | MAs | MImport | MForward
| MPoint | MComma | MDoublePoint | MVararg | MBSlash
| MId (s : str) | MFin
| MAssign | MAddAssign | MSubAssign | MMulAssign | MDivAssign | MPowAssign
| MBLShiftAssign | MBRShiftAssign | MDef
| MReal (s : str) | MInt (s : str) | MENum (n e : str) | MStr (s : str) | MDocStr (s : str)
| MRange | MRangeIncl | MSlice | MSliceIncl
| MAdd | MSub | MMul | MDiv | MFDiv | MPow | MMod | MSqrt
| MBAnd | MBOr | MBXOr | MBOneCmpl | MBLShift | MBRShift
| MGe | MGeq | MLe | MLeq | MEq | MIs | MNeq | MAnd | MOr | MNot
| MLRBrack | MRRBrack | MLSBrack | MRSBrack | MLCBrack | MRCBrack | MVer | MTo | MBTo
| MNL | MIndent | MDedent | MUnderscore
| MRaise | MWhen | MWhile | MFor | MIn | MIf | MThen | MMatch | MElse | MDo
| MContinue | MBreak | MRet | MWith | MQuestion | MHandle | MPass
| MComment (s : str)
| MEof.

Record cpos := { line : Z; col : Z }.

(** [lnested]: token of an interpolated expression inside the preceding string. *)
Record lex := { lstart : cpos; lend : cpos; ltok : token; lnested : bool }.

(** Tokens that stand for characters of the source (everything except the
    layout tokens the lexer synthesises). *)
Definition synthetic (t : token) : bool :=
  match t with MNL | MIndent | MDedent | MEof => true | _ => false end.

Definition ascii_eqb := Ascii.eqb.

Fixpoint str_eqb (a b : str) : bool :=
  match a, b with
  | [], [] => true
  | x :: a', y :: b' => Ascii.eqb x y && str_eqb a' b'
  | _, _ => false
  end.

Lemma str_eqb_eq a b : str_eqb a b = true <-> a = b.
Proof.
  revert b. induction a as [|x a IH]; intros [|y b]; cbn; split; intros H; try easy.
  - apply andb_prop in H as [Hx Ha]. apply Ascii.eqb_eq in Hx. apply IH in Ha. subst. reflexivity.
  - inversion H; subst. rewrite Ascii.eqb_refl. apply IH. reflexivity.
Qed.
