(** * Big-step semantics of Core statements (the Python the generator emits)

    The semantics is parametric in the evaluation of expressions, in assignment, in
    pattern matching and in exception matching ([Section] variables): the theorems about
    the statement-level desugarings (implicit return, assignment in branches) hold for
    every such instantiation.  [exec] is the execution of a statement; [vexec] is the
    execution of a statement USED AS AN EXPRESSION, which is how the Mamba language defines
    the value of a block, an [if]/[match]/[handle] with branches: the value of the last
    expression executed.  Fuel bounds the recursion depth (loops); [OFuel] is
    exhaustion. *)
From Coq Require Import List String Bool Arith.
From MambaModel Require Import model.Core.
Import ListNotations.

Section Sem.
  Variables (value env exn : Type).
  Variable eeval : core -> env -> (value + exn) * env.  (* expression evaluation, with its effects *)
  Variable assign : core -> value -> env -> env.        (* bind / update a target *)
  Variable augment : coreop -> core -> core -> env -> (value + exn) * env.   (* value of [l op= r] *)
  Variable truthy : value -> bool.
  Variable vnone : value.
  Variable as_exn : value -> exn.
  Variable iter : value -> list value + exn.
  Variable pmatch : core -> value -> env -> option env. (* [case] pattern *)
  Variable catches : core -> exn -> bool.               (* [except C]: isinstance *)
  Variable bind_exn : core -> exn -> env -> env.        (* [except C as id] *)
  Variable define : core -> env -> env.                 (* def / class / import statements *)

  Inductive outcome :=
  | ONormal (e : env) | OReturn (v : value) (e : env) | ORaise (x : exn) (e : env)
  | OBreak (e : env) | OContinue (e : env) | OFuel.

  (** outcome of a statement used as an expression: a normal end carries the value of the
      last expression, if the last thing executed was an expression *)
  Inductive voutcome :=
  | VNormal (v : option value) (e : env) | VReturn (v : value) (e : env) | VRaise (x : exn) (e : env)
  | VBreak (e : env) | VContinue (e : env) | VFuel.

  Definition ebind (x : (value + exn) * env) (k : value -> env -> outcome) : outcome :=
    match x with (inl w, e1) => k w e1 | (inr ex, e1) => ORaise ex e1 end.
  Definition vbind (x : (value + exn) * env) (k : value -> env -> voutcome) : voutcome :=
    match x with (inl w, e1) => k w e1 | (inr ex, e1) => VRaise ex e1 end.

  Definition is_definition (c : core) : bool :=
    match c with
    | FunDef _ _ _ _ _ | FunDefOp _ _ _ _ | ClassDef _ _ _ | Import _ _ _ => true
    | _ => false
    end.

  (** statements that are not expressions *)
  Definition is_statement (c : core) : bool :=
    match c with
    | Block _ | VarDef _ _ _ | Assign _ _ _ | Un CuReturn _ | Un CuRaise _ | If _ _ | IfElse _ _ _
    | While _ _ | For _ _ _ | Match _ _ | Case _ _ | TryExcept _ _ _ | Except _ _ | ExceptId _ _ _
    | With _ _ | WithAs _ _ _ | Pass | Break | Continue | Empty => true
    | other => is_definition other
    end.


  Section Helpers.
    Variable X : core -> env -> outcome.
    Fixpoint seq_exec (l : list core) (e : env) : outcome :=
      match l with
      | [] => ONormal e
      | s :: r => match X s e with ONormal e' => seq_exec r e' | o => o end
      end.
    Fixpoint for_loop (x b : core) (vs : list value) (e : env) : outcome :=
      match vs with
      | [] => ONormal e
      | v :: r =>
          match X b (assign x v e) with
          | ONormal e' | OContinue e' => for_loop x b r e'
          | OBreak e' => ONormal e'
          | o => o
          end
      end.
    Fixpoint pick_case (w : value) (e : env) (l : list core) : outcome :=
      match l with
      | [] => ONormal e
      | Case p b :: r => match pmatch p w e with Some e' => X b e' | None => pick_case w e r end
      | _ :: r => pick_case w e r
      end.
    Fixpoint pick_handler (x : exn) (e2 : env) (l : list core) : outcome :=
      match l with
      | [] => ORaise x e2
      | Except cl b :: r => if catches cl x then X b e2 else pick_handler x e2 r
      | ExceptId id cl b :: r => if catches cl x then X b (bind_exn id x e2) else pick_handler x e2 r
      | _ :: r => pick_handler x e2 r
      end.
    Definition run_setup (setup : option core) (e : env) : outcome :=
      match setup with Some s => X s e | None => ONormal e end.
  End Helpers.

  Fixpoint exec (f : nat) (c : core) (e : env) {struct f} : outcome :=
    match f with
    | O => OFuel
    | S f =>
        match c with
        | Block sts => seq_exec (exec f) sts e
        | VarDef v _ (Some x) => ebind (eeval x e) (fun w e1 => ONormal (assign v w e1))
        | VarDef v _ None => ONormal (assign v vnone e)
        | Assign l r OpAssign => ebind (eeval r e) (fun w e1 => ONormal (assign l w e1))
        | Assign l r op => ebind (augment op l r e) (fun w e1 => ONormal (assign l w e1))
        | Un CuReturn x => ebind (eeval x e) (fun w e1 => OReturn w e1)
        | Un CuRaise x => ebind (eeval x e) (fun w e1 => ORaise (as_exn w) e1)
        | If cnd t => ebind (eeval cnd e) (fun w e1 => if truthy w then exec f t e1 else ONormal e1)
        | IfElse cnd t el => ebind (eeval cnd e) (fun w e1 => if truthy w then exec f t e1 else exec f el e1)
        | While cnd b =>
            ebind (eeval cnd e) (fun w e1 =>
              if truthy w then
                match exec f b e1 with
                | ONormal e' | OContinue e' => exec f (While cnd b) e'
                | OBreak e' => ONormal e'
                | o => o
                end
              else ONormal e1)
        | For x col b =>
            ebind (eeval col e) (fun w e1 =>
              match iter w with
              | inl vs => for_loop (exec f) x b vs e1
              | inr ex => ORaise ex e1
              end)
        | Match x cases => ebind (eeval x e) (fun w e1 => pick_case (exec f) w e1 cases)
        | TryExcept setup a handlers =>
            match run_setup (exec f) setup e with
            | ONormal e1 =>
                match exec f a e1 with
                | ORaise x e2 => pick_handler (exec f) x e2 handlers
                | o => o
                end
            | o => o
            end
        | Pass | Empty => ONormal e
        | Break => OBreak e
        | Continue => OContinue e
        | other =>
            if is_definition other then ONormal (define other e)
            else ebind (eeval other e) (fun _ e1 => ONormal e1)
        end
    end.

  Definition lift_o (o : outcome) : voutcome :=
    match o with
    | ONormal e => VNormal None e | OReturn v e => VReturn v e | ORaise x e => VRaise x e
    | OBreak e => VBreak e | OContinue e => VContinue e | OFuel => VFuel
    end.

  Section VHelpers.
    Variable X : core -> env -> outcome.
    Variable V : core -> env -> voutcome.
    Fixpoint vseq (l : list core) (e : env) : voutcome :=
      match l with
      | [] => VNormal None e
      | s :: r =>
          match r with
          | [] => V s e
          | _ :: _ => match X s e with ONormal e' => vseq r e' | o => lift_o o end
          end
      end.
    Fixpoint vpick_case (w : value) (e : env) (l : list core) : voutcome :=
      match l with
      | [] => VNormal None e
      | Case p b :: r => match pmatch p w e with Some e' => V b e' | None => vpick_case w e r end
      | _ :: r => vpick_case w e r
      end.
    Fixpoint vpick_handler (x : exn) (e2 : env) (l : list core) : voutcome :=
      match l with
      | [] => VRaise x e2
      | Except cl b :: r => if catches cl x then V b e2 else vpick_handler x e2 r
      | ExceptId id cl b :: r => if catches cl x then V b (bind_exn id x e2) else vpick_handler x e2 r
      | _ :: r => vpick_handler x e2 r
      end.
  End VHelpers.

  Fixpoint vexec (f : nat) (c : core) (e : env) {struct f} : voutcome :=
    match f with
    | O => VFuel
    | S f =>
        match c with
        | Block [] => match f with O => VFuel | S _ => VNormal None e end   (* as deep as [Block [return None]] *)
        | Block sts => vseq (exec f) (vexec f) sts e
        | IfElse cnd t el => vbind (eeval cnd e) (fun w e1 => if truthy w then vexec f t e1 else vexec f el e1)
        | Match x cases => vbind (eeval x e) (fun w e1 => vpick_case (vexec f) w e1 cases)
        | TryExcept setup a handlers =>
            match run_setup (exec f) setup e with
            | ONormal e1 =>
                match vexec f a e1 with
                | VRaise x e2 => vpick_handler (vexec f) x e2 handlers
                | o => o
                end
            | o => lift_o o
            end
        | other =>
            if is_statement other then lift_o (exec (S f) other e)
            else vbind (eeval other e) (fun w e1 => VNormal (Some w) e1)
        end
    end.
End Sem.
