(** * Layout trivia on the lexer model (C14)

    Definitions only (no proofs):
    - the normal forms of a token list the parser works on: [strip_comments]
      ([src/parse/mod.rs] filters [Token::Comment] before parsing), [kinds_norm]
      (token kinds with payloads, comments removed) and, as a separately named
      variant, [nl_norm] / [kinds_nl_norm] (runs of NL collapsed);
    - the trivia edits of the property as functions on source texts:
      [crlf] (every line feed becomes carriage return + line feed),
      [pre ++ spaces n ++ rest] (blanks), [pre ++ c_hash :: text ++ rest] (comment),
      [s ++ [c_nl]] (final newline);
    - [norm_of] and its variants: what the parser is given. *)
From Coq Require Import List Ascii ZArith Bool.
From MambaModel Require Import model.LexTok gen.LexTables model.Lex.
Import ListNotations.
Local Open Scope Z_scope.

(** ** Normal forms *)

Definition is_comment (t : token) : bool := match t with MComment _ => true | _ => false end.
Definition is_nl_tok (t : token) : bool := match t with MNL => true | _ => false end.

(** what [AST::from_str] does with the lexer's answer *)
Definition strip_comments (ts : list lex) : list lex :=
  filter (fun l => negb (is_comment (ltok l))) ts.

(** token kinds with payloads, in order, comments removed *)
Definition kinds (ts : list lex) : list token := map ltok ts.
Definition kinds_norm (ts : list lex) : list token := kinds (strip_comments ts).

(** runs of NL collapsed to one NL (variant; this is NOT what the parser sees today) *)
Fixpoint nl_collapse (ks : list token) : list token :=
  match ks with
  | MNL :: ((MNL :: _) as r) => nl_collapse r
  | k :: r => k :: nl_collapse r
  | [] => []
  end.
Definition kinds_nl_norm (ts : list lex) : list token := nl_collapse (kinds_norm ts).

(** the filter of the proposed repair (repo_patches/c14_nl.diff): an NL that follows an NL or
    an Indent is dropped; [prev] is the last token kept *)
Fixpoint nl_drop (prev : option token) (ks : list token) : list token :=
  match ks with
  | [] => []
  | MNL :: r =>
      match prev with
      | Some MNL | Some MIndent => nl_drop prev r
      | _ => MNL :: nl_drop (Some MNL) r
      end
  | k :: r => k :: nl_drop (Some k) r
  end.
Definition kinds_repaired (ts : list lex) : list token := nl_drop None (kinds_norm ts).

(** ** Edits *)

Fixpoint crlf (s : str) : str :=
  match s with
  | [] => []
  | c :: r => if Ascii.eqb c c_nl then c_cr :: c_nl :: crlf r else c :: crlf r
  end.

Definition spaces (n : nat) : str := repeat c_sp n.

Definition no_cr (w : str) : bool := forallb (fun c => negb (Ascii.eqb c c_cr)) w.
Definition no_eol (w : str) : bool := forallb not_eol w.

(** [at_eol r]: the text [r] is empty or starts with a line break ("\n" or "\r\n") *)
Definition at_eol (r : str) : bool :=
  match r with
  | [] => true
  | c :: r' => Ascii.eqb c c_nl || (Ascii.eqb c c_cr && match r' with c2 :: _ => Ascii.eqb c2 c_nl | [] => false end)
  end.

(** ** What the parser is given: the verdict of the lexer and the normalised token kinds *)

Definition norm_of (s : str) : option (list token) :=
  match tokenize s with LexOk ts => Some (kinds_norm ts) | _ => None end.
Definition nl_norm_of (s : str) : option (list token) :=
  match tokenize s with LexOk ts => Some (kinds_nl_norm ts) | _ => None end.
Definition repaired_norm_of (s : str) : option (list token) :=
  match tokenize s with LexOk ts => Some (kinds_repaired ts) | _ => None end.
