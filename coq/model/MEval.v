(** * Reference semantics of the executable core of Mamba, on the typed AST

    Written from the language documentation ([docs/]), independently of the desugaring:
    every construct is an expression-or-statement with an optional value; the value of a
    block is the value of its last statement; a function that declares a return type
    returns the value of its body; [a .. b] excludes and [a ..= b] includes the end, in the
    direction of the step; [x ? d] is [d] exactly when [x] is undefined ([None]);
    [handle] runs the first arm whose class the raised exception is an instance of.
    Conditions must be booleans.  Anything else evaluates to [unsupported]. *)
From Coq Require Import List String Bool ZArith.
From MambaModel Require Import model.Core model.SemDom model.Convert model.PyEval.
Import ListNotations.
Local Open Scope string_scope.

Notation menv := (env ast).

Inductive mres :=
| MVal (v : option value) (e : menv) | MRet (v : value) (e : menv) | MExc (x : value) (e : menv)
| MBrk (e : menv) | MCont (e : menv).

Definition munsup (e : menv) : mres := MExc (exc unsupported) e.

Definition nbin_sop (o : nbin) : option sop :=
  match o with
  | SAdd => Some OAdd | SSub => Some OSub | SMul => Some OMul | SDiv => Some ODiv | SFDiv => Some OFDiv
  | SMod => Some OMod | SPow => Some OPow | SBAnd => Some OBAnd | SBOr => Some OBOr | SBXOr => Some OBXor
  | SBLShift => Some OShl | SBRShift => Some OShr
  | SEq => Some OEq | SNeq => Some ONeq | SIs => Some OIs | SIsN => Some OIsNot | SIn => Some OIn
  | SLe => Some OLt | SLeq => Some OLe | SGe => Some OGt | SGeq => Some OGe
  | SAnd | SOr | SQuestion | SIsA | SIsNA => None
  end.

Definition nodeop_sop (o : nodeop) : option sop :=
  match o with
  | NAdd => Some OAdd | NSub => Some OSub | NMul => Some OMul | NDiv => Some ODiv | NPow => Some OPow
  | NBLShift => Some OShl | NBRShift => Some OShr
  | _ => None
  end.

(** the exclusive end of a range, by the documented meaning of inclusive ranges *)
Definition range_end (b s : Z) (incl : bool) : Z :=
  if incl then (if Z.ltb 0 s then Z.add b 1 else Z.sub b 1) else b.

Fixpoint massign (t : ast) (v : value) (e : menv) {struct t} : menv :=
  let fix each (ts : list ast) (vs : list value) (e : menv) {struct ts} : menv :=
    match ts, vs with
    | [], [] => e
    | t :: ts', v :: vs' => each ts' vs' (massign t v e)
    | _, _ => poison e
    end in
  match t with
  | A _ (NId x) => set_var x v e
  | A _ (NExprType t' _) => massign t' v e
  | A _ (NTuple ts) => match v with VTuple vs | VList vs => each ts vs e | _ => poison e end
  | _ => poison e
  end.

Definition mparam (a : ast) : option string :=
  match a with
  | A _ (NFunArg false (A _ (NId x)) _ None) => Some x
  | _ => None
  end.
Fixpoint mparams (l : list ast) : option (list string) :=
  match l with
  | [] => Some []
  | a :: r => match mparam a, mparams r with Some x, Some xs => Some (x :: xs) | _, _ => None end
  end.

Definition nm_class (n : nm) : option string :=
  match n with NM [TN false name []] => Some name | _ => None end.

(** [None]: not a modelled pattern; [Some None]: no match; [Some (Some e')]: match, with bindings *)
Definition mpattern (p : ast) (w : value) (e : menv) : option (option menv) :=
  let lit (v : value) := match veq w v with Some true => Some (Some e) | Some false => Some None | None => None end in
  let node := match p with A _ (NExprType (A _ n) _) => n | A _ n => n end in
  match node with
  | NUnderscore => Some (Some e)
  | NId x => if String.eqb x "None" then lit VNone else Some (Some (set_var x w e))
  | NInt s => match z_of_string s with Some z => lit (VInt z) | None => None end
  | NStr s false => lit (VStr s)
  | NBool b => lit (VBool b)
  | NUndefined => lit VNone
  | _ => None
  end.

Section Eval.
  (** known deviations of the implementation, switched on only to ATTRIBUTE a disagreement to a
      recorded finding: [x ? d] by truthiness, inclusive end always [to + 1] *)
  Variable dev_question dev_inclusive : bool.
  Variable ev : ast -> menv -> mres.                (* evaluation one level down *)

  (** evaluate to a value *)
  Definition mval (a : ast) (e : menv) (k : value -> menv -> mres) : mres :=
    match ev a e with
    | MVal (Some v) e1 => k v e1
    | MVal None e1 => munsup e1
    | other => other
    end.

  Fixpoint mvals (l : list ast) (e : menv) (k : list value -> menv -> mres) {struct l} : mres :=
    match l with
    | [] => k [] e
    | x :: r => mval x e (fun v e1 => mvals r e1 (fun vs e2 => k (v :: vs) e2))
    end.

  Definition of_result (r : (value + value) * menv) : mres :=
    match r with (inl v, e) => MVal (Some v) e | (inr x, e) => MExc x e end.

  Fixpoint mseq (l : list ast) (e : menv) : mres :=
    match l with
    | [] => MVal None e
    | s :: r =>
        match r with
        | [] => ev s e
        | _ :: _ => match ev s e with MVal _ e1 => mseq r e1 | other => other end
        end
    end.

  Fixpoint mfor (x b : ast) (vs : list value) (e : menv) : mres :=
    match vs with
    | [] => MVal None e
    | v :: r =>
        match ev b (massign x v e) with
        | MVal _ e1 | MCont e1 => mfor x b r e1
        | MBrk e1 => MVal None e1
        | other => other
        end
    end.

  Fixpoint mcases (w : value) (e : menv) (l : list ast) : mres :=
    match l with
    | [] => MVal None e
    | A _ (NCase p body) :: r =>
        match mpattern p w e with
        | Some (Some e') => ev body e'
        | Some None => mcases w e r
        | None => munsup e
        end
    | _ :: r => munsup e
    end.

  (** the arms of [handle]; [k] receives the outcome of the chosen arm *)
  Fixpoint marms (x : value) (e : menv) (l : list ast) : option mres :=
    match l with
    | [] => None
    | A _ (NCase (A _ (NExprType id (Some cty))) body) :: r =>
        match x, nm_class cty with
        | VExc c _, Some n =>
            if exc_isa c n then
              Some (match id with
                    | A _ NUnderscore => ev body e
                    | _ => ev body (massign id x e)
                    end)
            else marms x e r
        | _, _ => Some (munsup e)
        end
    | _ :: r => Some (munsup e)
    end.

  Definition mcall (d : fundef ast) (vs : list value) (e : menv) : mres :=
    match bind_params (fparams d) vs [] with
    | Some fr =>
        let saved := frame e in
        match ev (fbody d) (with_frame (Some fr) e) with
        | MVal (Some v) e' => MVal (Some (if fvalret d then v else VNone)) (with_frame saved e')
        | MVal None e' => MVal (Some VNone) (with_frame saved e')
        | MRet v e' => MVal (Some v) (with_frame saved e')
        | MExc x e' => MExc x (with_frame saved e')
        | MBrk e' | MCont e' => munsup (with_frame saved e')
        end
    | None => munsup e
    end.

  Definition mev1 (again : ast -> menv -> mres) (a : ast) (e : menv) : mres :=
    match a with A _ nd =>
    match nd with
    | NInt s => match z_of_string s with Some z => MVal (Some (VInt z)) e | None => munsup e end
    | NBool b => MVal (Some (VBool b)) e
    | NStr s false => if plain_text s then MVal (Some (VStr s)) e else munsup e
    | NUndefined => MVal (Some VNone) e
    | NId x => match lookup_var x e with
               | Some v => MVal (Some v) e
               | None => if String.eqb x "None" then MVal (Some VNone) e else munsup e
               end
    | NExprType x _ => ev x e
    | NTuple es => mvals es e (fun vs e1 => MVal (Some (VTuple vs)) e1)
    | NList es => mvals es e (fun vs e1 => MVal (Some (VList vs)) e1)
    | NBin SAnd l r =>
        mval l e (fun v e1 => match v with
                              | VBool true => ev r e1
                              | VBool false => MVal (Some v) e1
                              | _ => munsup e1 end)
    | NBin SOr l r =>
        mval l e (fun v e1 => match v with
                              | VBool false => ev r e1
                              | VBool true => MVal (Some v) e1
                              | _ => munsup e1 end)
    | NBin SQuestion l r =>
        mval l e (fun v e1 => match v with
                              | VNone => ev r e1
                              | _ => if dev_question && negb (truthy v) then ev r e1 else MVal (Some v) e1
                              end)
    | NBin o l r =>
        match nbin_sop o with
        | Some so => mval l e (fun x e1 => mval r e1 (fun y e2 => of_result (sbin so x y, e2)))
        | None => munsup e
        end
    | NUn SAddU x => mval x e (fun v e1 => of_result (sun UPos v, e1))
    | NUn SSubU x => mval x e (fun v e1 => of_result (sun UNeg v, e1))
    | NUn SBOneCmpl x => mval x e (fun v e1 => of_result (sun UInv v, e1))
    | NUn SNot x => mval x e (fun v e1 => match v with VBool b => MVal (Some (VBool (negb b))) e1 | _ => munsup e1 end)
    | NUn SSqrt _ => munsup e
    | NIndex item idx => mval item e (fun x e1 => mval idx e1 (fun y e2 => of_result (index_value x y, e2)))
    | NRange from to incl step =>
        mval from e (fun a e1 => mval to e1 (fun b e2 =>
          let finish (s : value) (e3 : menv) : mres :=
            match a, b, s with
            | VInt za, VInt zb, VInt zs =>
                if Z.eqb zs 0 then munsup e3
                else MVal (Some (VRange za (if dev_inclusive && incl then Z.add zb 1 else range_end zb zs incl) zs)) e3
            | _, _, _ => munsup e3
            end in
          match step with Some s => mval s e2 finish | None => finish (VInt 1) e2 end))
    | NCall name _ args =>
        mvals args e (fun vs e1 =>
          match find_fun name (funs e1) with
          | Some d => mcall d vs e1
          | None => match builtin name vs e1 with Some r => of_result r | None => munsup e1 end
          end)
    | NVarDef var _ None => MVal None (massign var VNone e)
    | NVarDef var _ (Some x) =>
        match ev x e with
        | MVal (Some v) e1 => MVal None (massign var v e1)
        | other => other
        end
    | NReassign l r NAssign => mval r e (fun v e1 => MVal None (massign l v e1))
    | NReassign l r op =>
        match nodeop_sop op with
        | Some so =>
            mval l e (fun x e1 => mval r e1 (fun y e2 =>
              match sbin so x y with inl v => MVal None (massign l v e2) | inr ex => MExc ex e2 end))
        | None => munsup e
        end
    | NBlock stmts => mseq stmts e
    | NReturn x => mval x e (fun v e1 => MRet v e1)
    | NReturnEmpty => MRet VNone e
    | NIfElse c t el =>
        mval c e (fun v e1 =>
          match v with
          | VBool true => match el with
                          | Some _ => ev t e1
                          | None => match ev t e1 with MVal _ e2 => MVal None e2 | other => other end
                          end
          | VBool false => match el with Some x => ev x e1 | None => MVal None e1 end
          | _ => munsup e1
          end)
    | NMatch c cases => mval c e (fun w e1 => mcases w e1 cases)
    | NWhile c b =>
        mval c e (fun v e1 =>
          match v with
          | VBool true =>
              match ev b e1 with
              | MVal _ e2 | MCont e2 => again a e2
              | MBrk e2 => MVal None e2
              | other => other
              end
          | VBool false => MVal None e1
          | _ => munsup e1
          end)
    | NFor x col b =>
        mval col e (fun w e1 =>
          match iter w with inl vs => mfor x b vs e1 | inr ex => MExc ex e1 end)
    | NBreak => MBrk e
    | NContinue => MCont e
    | NPass => MVal None e
    | NRaise x => mval x e (fun v e1 => match v with VExc _ _ => MExc v e1 | _ => munsup e1 end)
    | NHandle x arms =>
        let '(target, inner) :=
          match x with
          | A _ (NVarDef var _ (Some inner)) => (Some var, inner)
          | _ => (None, x)
          end in
        let deliver (r : mres) : mres :=
          match target, r with
          | Some var, MVal (Some v) e1 => MVal None (massign var v e1)
          | Some var, MVal None e1 => MVal None e1
          | _, other => other
          end in
        match ev inner e with
        | MExc ex e1 =>
            if is_internal ex then MExc ex e1
            else match marms ex e1 arms with
                 | Some r => deliver r
                 | None => MExc ex e1
                 end
        | other => deliver other
        end
    | NFunDef (A _ (NId name)) args ret (Some body) =>
        match mparams args with
        | Some ps =>
            MVal None (add_fun name {| fparams := ps; fbody := body;
                                       fvalret := match ret with Some _ => true | None => false end |} e)
        | None => MVal None (poison e)
        end
    | NImport _ _ _ => MVal None e
    | _ => munsup e
    end end.
End Eval.

Fixpoint mev_dev (dq di : bool) (f : nat) (a : ast) (e : menv) {struct f} : mres :=
  match f with
  | O => MExc (exc out_of_fuel) e
  | S f => mev1 dq di (mev_dev dq di f) (mev_dev dq di f) a e
  end.
Definition mev := mev_dev false false.

Definition run_mamba_dev (dq di : bool) (f : nat) (a : ast) : list string * status :=
  let classify (x : value) (e : menv) :=
    if bad e then Unsupported
    else match x with
         | VExc c _ => if String.eqb c unsupported then Unsupported
                       else if String.eqb c out_of_fuel then Fuel else Uncaught c
         | _ => Unsupported
         end in
  match mev_dev dq di f a env0 with
  | MVal _ e => (rev (out e), if bad e then Unsupported else Done)
  | MExc x e => (rev (out e), classify x e)
  | MRet _ e | MBrk e | MCont e => (rev (out e), Unsupported)
  end.

Definition run_mamba := run_mamba_dev false false.
