(** * Reference semantics of the executable core of Mamba, on the typed AST

    Written from the language documentation ([docs/]), independently of the desugaring:
    every construct is an expression-or-statement with an optional value; the value of a
    block is the value of its last statement; a function that declares a return type
    returns the value of its body; [a .. b] excludes and [a ..= b] includes the end, in the
    direction of the step; [x ? d] is [d] exactly when [x] is undefined ([None]);
    [handle] runs the first arm whose class the raised exception is an instance of.
    Conditions must be booleans.  Anything else evaluates to [unsupported].

    Classes.  The documentation describes classes only through examples (README, "Types, Classes,
    and Mutability": [class MyServer(def ip_address: IPv4Address)] with body fields
    [def is_connected: Bool := False], methods taking [self], updates [self.is_connected := True];
    [class ServerError(def message: Str): Exception(message)]) and the comment of
    [generate/convert/class.rs] ("Assignments from class args not given to parent").  The meaning
    ASSUMED here as the documented one:
    - [C(v1, .., vn)] creates a new object; the constructor arguments are bound to the values;
      every parent [P(e1, .., ek)] named after the colon is constructed ON THE SAME OBJECT with the
      values of its argument expressions; then the fields defined in the body get their initial
      values, and EVERY CONSTRUCTOR ARGUMENT THAT IS NOT PASSED ON TO A PARENT CONSTRUCTOR BECOMES A
      FIELD of the new object (arguments passed to a parent are the parent's business: it makes
      them fields, under its own names, or passes them further up);
    - the arguments given to the builtin [Exception] (or another builtin exception class) are the
      message: what [print(err)] shows;
    - [o.x] reads a field, [o.x := v] updates an existing field, [o.m(..)] runs the method found in
      the class of [o] or, failing that, in its parents (left to right, depth first) with [self = o];
    - a raised object is handled by the first arm whose class is the object's class or one of its
      ancestors.
    Not given a meaning (the run is [unsupported]): a field initialised twice (same name in a class
    and an ancestor), a field read or updated that the object does not have (e.g. an argument that
    was passed on to a parent under another name), constructor arguments without [def] that are not
    passed on, parent arguments other than an argument's name or a constant, body fields with a
    non-constant initialiser (when they are evaluated is not documented), an explicit [__init__]
    and other [__x__] methods, methods without [self], generics, printing a plain object. *)
From Coq Require Import List String Bool ZArith.
From MambaModel Require Import model.Core model.SemDom model.Convert model.PyEval.
Import ListNotations.
Local Open Scope string_scope.

Notation menv := (env ast).

Inductive mres :=
| MVal (v : option value) (e : menv) | MRet (v : value) (e : menv) | MExc (x : value) (e : menv)
| MBrk (e : menv) | MCont (e : menv).

Definition munsup (e : menv) : mres := MExc (exc unsupported) e.

Definition nbin_sop (o : nbin) : option sop :=
  match o with
  | SAdd => Some OAdd | SSub => Some OSub | SMul => Some OMul | SDiv => Some ODiv | SFDiv => Some OFDiv
  | SMod => Some OMod | SPow => Some OPow | SBAnd => Some OBAnd | SBOr => Some OBOr | SBXOr => Some OBXor
  | SBLShift => Some OShl | SBRShift => Some OShr
  | SEq => Some OEq | SNeq => Some ONeq | SIs => Some OIs | SIsN => Some OIsNot | SIn => Some OIn
  | SLe => Some OLt | SLeq => Some OLe | SGe => Some OGt | SGeq => Some OGe
  | SAnd | SOr | SQuestion | SIsA | SIsNA => None
  end.

Definition nodeop_sop (o : nodeop) : option sop :=
  match o with
  | NAdd => Some OAdd | NSub => Some OSub | NMul => Some OMul | NDiv => Some ODiv | NPow => Some OPow
  | NBLShift => Some OShl | NBRShift => Some OShr
  | _ => None
  end.

(** the exclusive end of a range, by the documented meaning of inclusive ranges *)
Definition range_end (b s : Z) (incl : bool) : Z :=
  if incl then (if Z.ltb 0 s then Z.add b 1 else Z.sub b 1) else b.

(** the names of a field path [a.b.c] *)
Fixpoint mpath (a : ast) : option (list string) :=
  match a with
  | A _ (NId x) => Some [x]
  | A _ (NProp i p) =>
      match mpath i, mpath p with Some a, Some b => Some (a ++ b)%list | _, _ => None end
  | _ => None
  end.

Fixpoint massign (t : ast) (v : value) (e : menv) {struct t} : menv :=
  let fix each (ts : list ast) (vs : list value) (e : menv) {struct ts} : menv :=
    match ts, vs with
    | [], [] => e
    | t :: ts', v :: vs' => each ts' vs' (massign t v e)
    | _, _ => poison e
    end in
  match t with
  | A _ (NId x) => set_var x v e
  | A _ (NExprType t' _) => massign t' v e
  | A _ (NTuple ts) => match v with VTuple vs | VList vs => each ts vs e | _ => poison e end
  | A _ (NProp _ _) => match mpath t with Some p => assign_attr true p v e | None => poison e end
  | _ => poison e
  end.

Definition mparam (a : ast) : option string :=
  match a with
  | A _ (NFunArg false (A _ (NId x)) _ None) => Some x
  | _ => None
  end.
Fixpoint mparams (l : list ast) : option (list string) :=
  match l with
  | [] => Some []
  | a :: r => match mparam a, mparams r with Some x, Some xs => Some (x :: xs) | _, _ => None end
  end.

Definition nm_class (n : nm) : option string :=
  match n with NM [TN false name []] => Some name | _ => None end.

(** [None]: not a modelled pattern; [Some None]: no match; [Some (Some e')]: match, with bindings *)
Definition mpattern (p : ast) (w : value) (e : menv) : option (option menv) :=
  let lit (v : value) := match veq w v with Some true => Some (Some e) | Some false => Some None | None => None end in
  let node := match p with A _ (NExprType (A _ n) _) => n | A _ n => n end in
  match node with
  | NUnderscore => Some (Some e)
  | NId x => if String.eqb x "None" then lit VNone else Some (Some (set_var x w e))
  | NInt s => match z_of_string s with Some z => lit (VInt z) | None => None end
  | NStr s false => lit (VStr s)
  | NBool b => lit (VBool b)
  | NUndefined => lit VNone
  | _ => None
  end.

(** ** Classes *)
Definition mconst (a : ast) : option value :=
  match a with
  | A _ (NInt s) => match z_of_string s with Some z => Some (VInt z) | None => None end
  | A _ (NBool b) => Some (VBool b)
  | A _ (NStr s false) => if plain_text s then Some (VStr s) else None
  | A _ NUndefined => Some VNone
  | A _ (NUn SSubU (A _ (NInt s))) => match z_of_string s with Some z => Some (VInt (- z)) | None => None end
  | _ => None
  end.

(** a constructor argument: its name, and whether it is declared with [def] *)
Definition cparam (a : ast) : option (string * bool) :=
  match a with
  | A _ (NVarDef (A _ (NId x)) _ None) => Some (x, true)
  | A _ (NFunArg false (A _ (NId x)) _ None) => Some (x, false)
  | _ => None
  end.
Fixpoint cparams_of (l : list ast) : option (list (string * bool)) :=
  match l with
  | [] => Some []
  | a :: r => match cparam a, cparams_of r with Some x, Some xs => Some (x :: xs) | _, _ => None end
  end.

Definition mparent (a : ast) : option (string * list ast) :=
  match a with A _ (NParent name [] args) => Some (name, args) | _ => None end.
Fixpoint mparents (l : list ast) : option (list (string * list ast)) :=
  match l with
  | [] => Some []
  | a :: r => match mparent a, mparents r with Some x, Some xs => Some (x :: xs) | _, _ => None end
  end.

Definition parent_arg_ok (params : list string) (a : ast) : bool :=
  match a with
  | A _ (NId p) => existsb (String.eqb p) params
  | _ => is_some (mconst a)
  end.
Definition passed_on (p : string) (parents : list (string * list ast)) : bool :=
  existsb (fun pa => existsb (fun a => match a with A _ (NId q) => String.eqb p q | _ => false end) (snd pa)) parents.

Definition field_name (var : ast) : option string :=
  match var with
  | A _ (NId x) => Some x
  | A _ (NExprType (A _ (NId x)) _) => Some x
  | _ => None
  end.

Fixpoint mclass_body (l : list ast) (fields : store) (ms : list (string * fundef ast))
  : option (store * list (string * fundef ast)) :=
  match l with
  | [] => Some (fields, ms)
  | st :: r =>
      match st with
      | A _ (NVarDef var _ (Some x)) =>
          match field_name var, mconst x with
          | Some n, Some v =>
              if dunder_name n || is_some (sget n fields) then None else mclass_body r (sset n v fields) ms
          | _, _ => None
          end
      | A _ (NFunDef (A _ (NId m)) args ret (Some body)) =>
          if dunder_name m || is_some (find_fun m ms) then None
          else match mparams args with
               | Some ("self" :: ps) =>
                   mclass_body r fields
                     ((m, {| fparams := "self" :: ps; fbody := body;
                             fvalret := match ret with Some _ => true | None => false end |}) :: ms)
               | _ => None
               end
      | A _ (NDocStr _) | A _ NPass => mclass_body r fields ms
      | _ => None
      end
  end.

Definition mclass (name : string) (args parents : list ast) (body : option ast) (e : menv) : menv :=
  let stmts := match body with
               | Some (A _ (NBlock l)) => l
               | Some other => [other]
               | None => []
               end in
  match cparams_of args, mparents parents, mclass_body stmts [] [] with
  | Some ps, Some pars, Some (fields, ms) =>
      let names := map fst ps in
      if is_builtin_exception name || is_some (find_fun name (funs e)) || is_some (find_class name (classes e))
         || negb (no_dup names)
         || negb (forallb (fun pa => forallb (parent_arg_ok names) (snd pa)) pars)
         || negb (forallb (fun p => snd p || passed_on (fst p) pars) ps)
         || existsb (fun n => is_some (find_fun n ms)) (map fst fields)
      then poison e
      else match new_mro name (map fst pars) (classes e) with
           | Some mro => add_class name {| cparams := names; cparents := pars; cattrs := fields;
                                           cmethods := ms; cmro := mro |} e
           | None => poison e
           end
  | _, _, _ => poison e
  end.

Definition parent_arg_value (fr : store) (a : ast) : option value :=
  match a with A _ (NId p) => sget p fr | _ => mconst a end.
Fixpoint parent_arg_values (fr : store) (l : list ast) : option (list value) :=
  match l with
  | [] => Some []
  | a :: r => match parent_arg_value fr a, parent_arg_values fr r with
              | Some v, Some vs => Some (v :: vs)
              | _, _ => None
              end
  end.
(** every field is initialised once *)
Fixpoint init_fields (a : nat) (l : store) (e : menv) : option menv :=
  match l with
  | [] => Some e
  | (x, v) :: r => match field_of a x e with
                   | Some _ => None
                   | None => init_fields a r (set_field a x v e)
                   end
  end.

(** construction of the part of the object at [a] that class [cls] describes; [n] bounds the
    height of the class hierarchy (parents are defined before their children) *)
Fixpoint construct (n : nat) (cls : string) (vs : list value) (a : nat) (e : menv) {struct n} : option menv :=
  match n with
  | O => None
  | S n' =>
      match find_class cls (classes e) with
      | None => None
      | Some cd =>
          match bind_params (cparams cd) vs [] with
          | None => None
          | Some fr =>
              let fix up (ps : list (string * list ast)) (e : menv) {struct ps} : option menv :=
                match ps with
                | [] => Some e
                | (pn, pargs) :: r =>
                    match parent_arg_values fr pargs with
                    | None => None
                    | Some pvs =>
                        match (if is_some (find_class pn (classes e)) then construct n' pn pvs a e
                               else if is_builtin_exception pn then Some (set_args a pvs e) else None) with
                        | Some e1 => up r e1
                        | None => None
                        end
                    end
                end in
              match up (cparents cd) e with
              | None => None
              | Some e1 =>
                  match init_fields a (cattrs cd) e1 with
                  | None => None
                  | Some e2 =>
                      init_fields a (filter (fun kv => negb (passed_on (fst kv) (cparents cd))) fr) e2
                  end
              end
          end
      end
  end.

Definition instantiate_m (name : string) (cd : classdef ast) (vs : list value) (e : menv) : option (value * menv) :=
  let '(a, e1) := alloc {| ocls := name; ofields := [];
                           oargs := if mro_is_exception (cmro cd) then Some [] else None |} e in
  match construct (S (List.length (classes e1))) name vs a e1 with
  | Some e2 => Some (VObj (cmro cd) a, e2)
  | None => None
  end.

Section Eval.
  (** known deviations of the implementation, switched on only to ATTRIBUTE a disagreement to a
      recorded finding: [x ? d] by truthiness, inclusive end always [to + 1] *)
  Variable dev_question dev_inclusive : bool.
  Variable ev : ast -> menv -> mres.                (* evaluation one level down *)

  (** evaluate to a value *)
  Definition mval (a : ast) (e : menv) (k : value -> menv -> mres) : mres :=
    match ev a e with
    | MVal (Some v) e1 => k v e1
    | MVal None e1 => munsup e1
    | other => other
    end.

  Fixpoint mvals (l : list ast) (e : menv) (k : list value -> menv -> mres) {struct l} : mres :=
    match l with
    | [] => k [] e
    | x :: r => mval x e (fun v e1 => mvals r e1 (fun vs e2 => k (v :: vs) e2))
    end.

  Definition of_result (r : (value + value) * menv) : mres :=
    match r with (inl v, e) => MVal (Some v) e | (inr x, e) => MExc x e end.

  Fixpoint mseq (l : list ast) (e : menv) : mres :=
    match l with
    | [] => MVal None e
    | s :: r =>
        match r with
        | [] => ev s e
        | _ :: _ => match ev s e with MVal _ e1 => mseq r e1 | other => other end
        end
    end.

  Fixpoint mfor (x b : ast) (vs : list value) (e : menv) : mres :=
    match vs with
    | [] => MVal None e
    | v :: r =>
        match ev b (massign x v e) with
        | MVal _ e1 | MCont e1 => mfor x b r e1
        | MBrk e1 => MVal None e1
        | other => other
        end
    end.

  Fixpoint mcases (w : value) (e : menv) (l : list ast) : mres :=
    match l with
    | [] => MVal None e
    | A _ (NCase p body) :: r =>
        match mpattern p w e with
        | Some (Some e') => ev body e'
        | Some None => mcases w e r
        | None => munsup e
        end
    | _ :: r => munsup e
    end.

  (** the arms of [handle]; [k] receives the outcome of the chosen arm *)
  Fixpoint marms (x : value) (e : menv) (l : list ast) : option mres :=
    match l with
    | [] => None
    | A _ (NCase (A _ (NExprType id (Some cty))) body) :: r =>
        match (match x, nm_class cty with
               | VExc c _, Some n => Some (exc_isa c n)
               | VObj mro _, Some n => Some (mro_isa mro n)
               | _, _ => None
               end) with
        | Some true =>
            Some (match id with
                  | A _ NUnderscore => ev body e
                  | _ => ev body (massign id x e)
                  end)
        | Some false => marms x e r
        | None => Some (munsup e)
        end
    | _ :: r => Some (munsup e)
    end.

  Definition mcall (d : fundef ast) (vs : list value) (e : menv) : mres :=
    match bind_params (fparams d) vs [] with
    | Some fr =>
        let saved := frame e in
        match ev (fbody d) (with_frame (Some fr) e) with
        | MVal (Some v) e' => MVal (Some (if fvalret d then v else VNone)) (with_frame saved e')
        | MVal None e' => MVal (Some VNone) (with_frame saved e')
        | MRet v e' => MVal (Some v) (with_frame saved e')
        | MExc x e' => MExc x (with_frame saved e')
        | MBrk e' | MCont e' => munsup (with_frame saved e')
        end
    | None => munsup e
    end.

  Definition mev1 (again : ast -> menv -> mres) (a : ast) (e : menv) : mres :=
    match a with A _ nd =>
    match nd with
    | NInt s => match z_of_string s with Some z => MVal (Some (VInt z)) e | None => munsup e end
    | NBool b => MVal (Some (VBool b)) e
    | NStr s false => if plain_text s then MVal (Some (VStr s)) e else munsup e
    | NUndefined => MVal (Some VNone) e
    | NId x => match lookup_var x e with
               | Some v => MVal (Some v) e
               | None => if String.eqb x "None" then MVal (Some VNone) e else munsup e
               end
    | NExprType x _ => ev x e
    | NTuple es => mvals es e (fun vs e1 => MVal (Some (VTuple vs)) e1)
    | NList es => mvals es e (fun vs e1 => MVal (Some (VList vs)) e1)
    | NBin SAnd l r =>
        mval l e (fun v e1 => match v with
                              | VBool true => ev r e1
                              | VBool false => MVal (Some v) e1
                              | _ => munsup e1 end)
    | NBin SOr l r =>
        mval l e (fun v e1 => match v with
                              | VBool false => ev r e1
                              | VBool true => MVal (Some v) e1
                              | _ => munsup e1 end)
    | NBin SQuestion l r =>
        mval l e (fun v e1 => match v with
                              | VNone => ev r e1
                              | _ => if dev_question && negb (truthy v) then ev r e1 else MVal (Some v) e1
                              end)
    | NBin o l r =>
        match nbin_sop o with
        | Some so => mval l e (fun x e1 => mval r e1 (fun y e2 => of_result (sbin so x y, e2)))
        | None => munsup e
        end
    | NUn SAddU x => mval x e (fun v e1 => of_result (sun UPos v, e1))
    | NUn SSubU x => mval x e (fun v e1 => of_result (sun UNeg v, e1))
    | NUn SBOneCmpl x => mval x e (fun v e1 => of_result (sun UInv v, e1))
    | NUn SNot x => mval x e (fun v e1 => match v with VBool b => MVal (Some (VBool (negb b))) e1 | _ => munsup e1 end)
    | NUn SSqrt _ => munsup e
    | NIndex item idx => mval item e (fun x e1 => mval idx e1 (fun y e2 => of_result (index_value x y, e2)))
    | NRange from to incl step =>
        mval from e (fun a e1 => mval to e1 (fun b e2 =>
          (* an inclusive end must be an integer before anything else happens (the step is evaluated after it) *)
          if incl && negb (match b with VInt _ => true | _ => false end) then munsup e2 else
          let finish (s : value) (e3 : menv) : mres :=
            match a, b, s with
            | VInt za, VInt zb, VInt zs =>
                if Z.eqb zs 0 then munsup e3
                else MVal (Some (VRange za (if dev_inclusive && incl then Z.add zb 1 else range_end zb zs incl) zs)) e3
            | _, _, _ => munsup e3
            end in
          match step with Some s => mval s e2 finish | None => finish (VInt 1) e2 end))
    | NCall name _ args =>
        mvals args e (fun vs e1 =>
          match find_fun name (funs e1) with
          | Some d => mcall d vs e1
          | None =>
              match find_class name (classes e1) with
              | Some cd => match instantiate_m name cd vs e1 with
                           | Some (o, e2) => MVal (Some o) e2
                           | None => munsup e1
                           end
              | None => match builtin name vs e1 with Some r => of_result r | None => munsup e1 end
              end
          end)
    | NProp inst (A _ (NProp p q)) => ev (A None (NProp (A None (NProp inst p)) q)) e    (* [o.p.q] is [(o.p).q] *)
    | NProp inst (A _ (NCall m [] args)) =>
        mval inst e (fun o e1 =>
          match o with
          | VObj mro a =>
              if dunder_name m then munsup e1
              else match find_method m mro (classes e1) with
                   | MUser d => mvals args e1 (fun vs e2 => mcall d (o :: vs) e2)
                   | _ => munsup e1
                   end
          | _ => munsup e1
          end)
    | NProp inst (A _ (NId x)) =>
        mval inst e (fun o e1 =>
          match o with
          | VObj _ a => match field_of a x e1 with Some v => MVal (Some v) e1 | None => munsup e1 end
          | _ => munsup e1
          end)
    | NClass name [] args parents body => MVal None (mclass name args parents body e)
    | NVarDef var _ None => MVal None (massign var VNone e)
    | NVarDef var _ (Some x) =>
        match ev x e with
        | MVal (Some v) e1 => MVal None (massign var v e1)
        | other => other
        end
    | NReassign l r NAssign => mval r e (fun v e1 => MVal None (massign l v e1))
    | NReassign l r op =>
        match nodeop_sop op with
        | Some so =>
            mval l e (fun x e1 => mval r e1 (fun y e2 =>
              match sbin so x y with inl v => MVal None (massign l v e2) | inr ex => MExc ex e2 end))
        | None => munsup e
        end
    | NBlock stmts => mseq stmts e
    | NReturn x => mval x e (fun v e1 => MRet v e1)
    | NReturnEmpty => MRet VNone e
    | NIfElse c t el =>
        mval c e (fun v e1 =>
          match v with
          | VBool true => match el with
                          | Some _ => ev t e1
                          | None => match ev t e1 with MVal _ e2 => MVal None e2 | other => other end
                          end
          | VBool false => match el with Some x => ev x e1 | None => MVal None e1 end
          | _ => munsup e1
          end)
    | NMatch c cases => mval c e (fun w e1 => mcases w e1 cases)
    | NWhile c b =>
        mval c e (fun v e1 =>
          match v with
          | VBool true =>
              match ev b e1 with
              | MVal _ e2 | MCont e2 => again a e2
              | MBrk e2 => MVal None e2
              | other => other
              end
          | VBool false => MVal None e1
          | _ => munsup e1
          end)
    | NFor x col b =>
        mval col e (fun w e1 =>
          match iter w with inl vs => mfor x b vs e1 | inr ex => MExc ex e1 end)
    | NBreak => MBrk e
    | NContinue => MCont e
    | NPass => MVal None e
    | NRaise x => mval x e (fun v e1 =>
        match v with
        | VExc _ _ => MExc v e1
        | VObj mro _ => if mro_is_exception mro then MExc v e1 else munsup e1
        | _ => munsup e1
        end)
    | NHandle x arms =>
        let '(target, inner) :=
          match x with
          | A _ (NVarDef var _ (Some inner)) => (Some var, inner)
          | _ => (None, x)
          end in
        let deliver (r : mres) : mres :=
          match target, r with
          | Some var, MVal (Some v) e1 => MVal None (massign var v e1)
          | Some var, MVal None e1 => MVal None e1
          | _, other => other
          end in
        match ev inner e with
        | MExc ex e1 =>
            if is_internal ex then MExc ex e1
            else match marms ex e1 arms with
                 | Some r => deliver r
                 | None => MExc ex e1
                 end
        | other => deliver other
        end
    | NFunDef (A _ (NId name)) args ret (Some body) =>
        match mparams args with
        | Some ps =>
            MVal None (add_fun name {| fparams := ps; fbody := body;
                                       fvalret := match ret with Some _ => true | None => false end |} e)
        | None => MVal None (poison e)
        end
    | NImport _ _ _ => MVal None e
    | _ => munsup e
    end end.
End Eval.

Fixpoint mev_dev (dq di : bool) (f : nat) (a : ast) (e : menv) {struct f} : mres :=
  match f with
  | O => MExc (exc out_of_fuel) e
  | S f => mev1 dq di (mev_dev dq di f) (mev_dev dq di f) a e
  end.
Definition mev := mev_dev false false.

Definition run_mamba_dev (dq di : bool) (f : nat) (a : ast) : list string * status :=
  let classify (x : value) (e : menv) :=
    if bad e then Unsupported
    else match x with
         | VExc c _ => if String.eqb c unsupported then Unsupported
                       else if String.eqb c out_of_fuel then Fuel else Uncaught c
         | VObj (c :: _) _ => Uncaught c
         | _ => Unsupported
         end in
  match mev_dev dq di f a env0 with
  | MVal _ e => (rev (out e), if bad e then Unsupported else Done)
  | MExc x e => (rev (out e), classify x e)
  | MRet _ e | MBrk e | MCont e => (rev (out e), Unsupported)
  end.

Definition run_mamba := run_mamba_dev false false.
