(** * Semantic domain shared by the reference semantics of Mamba ([MEval]) and the model of
      the emitted Python ([PyEval]): values, operators on values, truthiness, printing.

    The Python side of these definitions is validated against python3 itself on every
    run (the emitted text is executed and compared with [PyEval] on the same Core tree).
    Anything outside the modelled fragment evaluates to the special exception class
    [unsupported]: such runs are counted, never compared. *)
From Coq Require Import List String Bool ZArith Ascii DecimalString.
Import ListNotations.
Local Open Scope Z_scope.

Inductive value :=
| VInt (z : Z) | VBool (b : bool) | VStr (s : string) | VNone
| VList (l : list value) | VTuple (l : list value) | VRange (a b s : Z)
| VExc (cls : string) (args : list value)
| VObj (mro : list string) (addr : nat).
(** [VObj mro addr]: a reference to the object at [addr] of the heap; the reference carries the
    linearisation of the object's class (the class itself first, then its ancestors in the order
    in which attributes are looked up: depth first, left to right, a builtin exception class
    followed by its builtin ancestors), so that [isinstance] /
    [except C] / [handle err: C] are decided on the value alone. *)

Definition unsupported : string := "<unsupported>"%string.
Definition out_of_fuel : string := "<fuel>"%string.
Definition exc (cls : string) : value := VExc cls [].
(** an exception raised by the interpreter itself (division by zero, index out of range, missing
    attribute): its class is modelled, the text of its message is not - the argument below has no
    [repr], so printing such an exception is [unsupported] *)
Definition rt_exc (cls : string) : value := VExc cls [VExc "<message>"%string []].
Definition unsup {X} : X + value := inr (exc unsupported).
Definition is_internal (x : value) : bool :=
  match x with VExc c _ => String.eqb c unsupported || String.eqb c out_of_fuel | _ => false end.

(** ** Integers as text *)
Definition z_to_string (z : Z) : string := NilEmpty.string_of_int (Z.to_int z).
Definition all_digits (s : string) : bool :=
  forallb (fun c => let n := nat_of_ascii c in Nat.leb 48 n && Nat.leb n 57) (list_ascii_of_string s).
Definition nat_of_digits (s : string) : option Z :=
  if all_digits s && negb (String.eqb s "")
  then match NilEmpty.uint_of_string s with Some u => Some (Z.of_uint u) | None => None end
  else None.
(** a literal may carry a sign (the generator never produces one today; both evaluators read it the same way) *)
Definition z_of_string (s : string) : option Z :=
  match s with
  | String "-"%char r => match nat_of_digits r with Some z => Some (Z.opp z) | None => None end
  | _ => nat_of_digits s
  end.

(** ** Ranges: the elements of [range(a, b, s)] *)
Definition range_len (a b s : Z) : Z :=
  if s >? 0 then (if a <? b then (b - a + s - 1) / s else 0)
  else if s <? 0 then (if b <? a then (a - b + (- s) - 1) / (- s) else 0)
  else 0.
Definition range_list (a b s : Z) : list Z :=
  map (fun i => a + Z.of_nat i * s) (seq 0 (Z.to_nat (range_len a b s))).

(** ** Equality and membership *)
Fixpoint veq (x y : value) {struct x} : option bool :=
  let fix leq (l m : list value) {struct l} : option bool :=
    match l, m with
    | [], [] => Some true
    | a :: l', b :: m' =>
        match veq a b with
        | Some true => leq l' m'
        | other => other
        end
    | _, _ => Some false
    end in
  match x, y with
  | VInt a, VInt b => Some (a =? b)
  | VBool a, VBool b => Some (Bool.eqb a b)
  | VStr a, VStr b => Some (String.eqb a b)
  | VNone, VNone => Some true
  | VList a, VList b => leq a b
  | VTuple a, VTuple b => leq a b
  | VNone, (VInt _ | VStr _ | VList _ | VTuple _) | (VInt _ | VStr _ | VList _ | VTuple _), VNone => Some false
  | VStr _, VInt _ | VInt _, VStr _ => Some false
  | _, _ => None                       (* int against bool, ranges, objects: not modelled *)
  end.

Fixpoint vmember (x : value) (l : list value) : option bool :=
  match l with
  | [] => Some false
  | y :: r => match veq x y with Some true => Some true | Some false => vmember x r | None => None end
  end.

Definition truthy (v : value) : bool :=
  match v with
  | VBool b => b
  | VInt z => negb (z =? 0)
  | VStr s => negb (String.eqb s "")
  | VNone => false
  | VList l | VTuple l => match l with [] => false | _ => true end
  | VRange a b s => 0 <? range_len a b s
  | _ => true
  end.

(** ** Strict binary operators (Python's meaning on the modelled values) *)
Inductive sop := OAdd | OSub | OMul | OFDiv | OMod | OPow | OBAnd | OBOr | OBXor | OShl | OShr
               | OEq | ONeq | OLt | OLe | OGt | OGe | OIs | OIsNot | OIn | ODiv.

Definition sbin (o : sop) (x y : value) : value + value :=
  match o, x, y with
  | OAdd, VInt a, VInt b => inl (VInt (a + b))
  | OAdd, VStr a, VStr b => inl (VStr (String.append a b))
  | OAdd, VList a, VList b => inl (VList (a ++ b))
  | OSub, VInt a, VInt b => inl (VInt (a - b))
  | OMul, VInt a, VInt b => inl (VInt (a * b))
  | OFDiv, VInt a, VInt b => if b =? 0 then inr (rt_exc "ZeroDivisionError") else inl (VInt (a / b))
  | OMod, VInt a, VInt b => if b =? 0 then inr (rt_exc "ZeroDivisionError") else inl (VInt (a mod b))
  | OPow, VInt a, VInt b => if (0 <=? b) && (b <=? 64) then inl (VInt (a ^ b)) else unsup
  | OBAnd, VInt a, VInt b => inl (VInt (Z.land a b))
  | OBOr, VInt a, VInt b => inl (VInt (Z.lor a b))
  | OBXor, VInt a, VInt b => inl (VInt (Z.lxor a b))
  | OShl, VInt a, VInt b =>
      if b <? 0 then inr (rt_exc "ValueError") else if b <=? 256 then inl (VInt (Z.shiftl a b)) else unsup
  | OShr, VInt a, VInt b => if b <? 0 then inr (rt_exc "ValueError") else inl (VInt (Z.shiftr a b))
  | OEq, _, _ => match veq x y with Some b => inl (VBool b) | None => unsup end
  | ONeq, _, _ => match veq x y with Some b => inl (VBool (negb b)) | None => unsup end
  | OLt, VInt a, VInt b => inl (VBool (a <? b))
  | OLe, VInt a, VInt b => inl (VBool (a <=? b))
  | OGt, VInt a, VInt b => inl (VBool (a >? b))
  | OGe, VInt a, VInt b => inl (VBool (a >=? b))
  | OIs, VNone, VNone => inl (VBool true)
  | OIs, VNone, (VInt _ | VStr _ | VBool _ | VList _ | VTuple _)
  | OIs, (VInt _ | VStr _ | VBool _ | VList _ | VTuple _), VNone => inl (VBool false)
  | OIs, VBool a, VBool b => inl (VBool (Bool.eqb a b))
  | OIsNot, VNone, VNone => inl (VBool false)
  | OIsNot, VNone, (VInt _ | VStr _ | VBool _ | VList _ | VTuple _)
  | OIsNot, (VInt _ | VStr _ | VBool _ | VList _ | VTuple _), VNone => inl (VBool true)
  | OIsNot, VBool a, VBool b => inl (VBool (negb (Bool.eqb a b)))
  | OIn, _, VList l | OIn, _, VTuple l =>
      match vmember x l with Some b => inl (VBool b) | None => unsup end
  | OIn, VInt a, VRange lo hi s => inl (VBool (existsb (Z.eqb a) (range_list lo hi s)))
  | _, _, _ => unsup
  end.

Inductive suop := UNeg | UPos | UInv | UNot.
Definition sun (o : suop) (x : value) : value + value :=
  match o, x with
  | UNeg, VInt a => inl (VInt (- a))
  | UPos, VInt a => inl (VInt a)
  | UInv, VInt a => inl (VInt (Z.lnot a))
  | UNot, _ => inl (VBool (negb (truthy x)))
  | _, _ => unsup
  end.

(** ** Printing ([str] at the top, [repr] inside containers) *)
Definition plain_char (c : ascii) : bool :=
  let n := nat_of_ascii c in
  Nat.leb 32 n && Nat.leb n 126 && negb (Nat.eqb n 39) && negb (Nat.eqb n 92).
Definition plain_string (s : string) : bool := forallb plain_char (list_ascii_of_string s).

Fixpoint join (sep : string) (l : list string) : string :=
  match l with
  | [] => ""
  | [x] => x
  | x :: r => x ++ sep ++ join sep r
  end%string.

Fixpoint repr (v : value) : option string :=
  let fix reprs (l : list value) : option (list string) :=
    match l with
    | [] => Some []
    | x :: r => match repr x, reprs r with Some a, Some b => Some (a :: b) | _, _ => None end
    end in
  match v with
  | VInt z => Some (z_to_string z)
  | VBool true => Some "True" | VBool false => Some "False"
  | VNone => Some "None"
  | VStr s => if plain_string s then Some ("'" ++ s ++ "'") else None
  | VList l => match reprs l with Some ss => Some ("[" ++ join ", " ss ++ "]") | None => None end
  | VTuple [x] => match repr x with Some a => Some ("(" ++ a ++ ",)") | None => None end
  | VTuple l => match reprs l with Some ss => Some ("(" ++ join ", " ss ++ ")") | None => None end
  | VRange a b s =>
      Some (if Z.eqb s 1 then "range(" ++ z_to_string a ++ ", " ++ z_to_string b ++ ")"
            else "range(" ++ z_to_string a ++ ", " ++ z_to_string b ++ ", " ++ z_to_string s ++ ")")
  | VExc _ _ | VObj _ _ => None
  end%string.

Definition show (v : value) : option string :=
  match v with
  | VStr s => Some s
  | VExc _ [] => Some ""%string
  | VExc _ [VStr s] => Some s
  | VExc _ [x] => repr x
  | other => repr other
  end.

Fixpoint shows (l : list value) : option (list string) :=
  match l with
  | [] => Some []
  | x :: r => match show x, shows r with Some a, Some b => Some (a :: b) | _, _ => None end
  end.

(** ** Exception classes of the fragment and their hierarchy *)
Definition builtin_exceptions : list string :=
  ["Exception"; "ValueError"; "ZeroDivisionError"; "TypeError"; "IndexError"; "KeyError";
   "ArithmeticError"; "LookupError"; "RuntimeError"; "AssertionError"; "StopIteration";
   "AttributeError"]%string.
Definition is_builtin_exception (s : string) : bool := existsb (String.eqb s) builtin_exceptions.

Definition exc_parent (s : string) : option string :=
  (if String.eqb s "Exception" then None
   else if String.eqb s "ZeroDivisionError" then Some "ArithmeticError"
   else if String.eqb s "IndexError" || String.eqb s "KeyError" then Some "LookupError"
   else Some "Exception")%string.

(** [isinstance] for exception classes (three levels suffice for the table above) *)
Definition exc_isa (cls target : string) : bool :=
  String.eqb cls target
  || match exc_parent cls with
     | Some p => String.eqb p target
                 || match exc_parent p with
                    | Some q => String.eqb q target
                                || match exc_parent q with Some r => String.eqb r target | None => false end
                    | None => false
                    end
     | None => false
     end.

(** the builtin ancestors of a builtin exception class, the class first *)
Fixpoint exc_up (n : nat) (s : string) : list string :=
  s :: match n with
       | O => []
       | S n' => match exc_parent s with Some p => exc_up n' p | None => [] end
       end.
Definition exc_ancestors (s : string) : list string := exc_up 3 s.

(** objects: the class linearisation carried by the reference *)
Definition mro_isa (mro : list string) (target : string) : bool := existsb (String.eqb target) mro.
Definition mro_is_exception (mro : list string) : bool := existsb is_builtin_exception mro.
Fixpoint no_dup (l : list string) : bool :=
  match l with
  | [] => true
  | x :: r => negb (existsb (String.eqb x) r) && no_dup r
  end.
(** names the models do not interpret as attributes (dunder names; name mangling) *)
Definition dunder_name (s : string) : bool :=
  match s with
  | String a (String b _) => Ascii.eqb a "_"%char && Ascii.eqb b "_"%char
  | _ => false
  end.

(** ** Variables *)
Definition store := list (string * value).
Fixpoint sget (k : string) (m : store) : option value :=
  match m with
  | [] => None
  | (k', v) :: r => if String.eqb k k' then Some v else sget k r
  end.
Fixpoint sset (k : string) (v : value) (m : store) : store :=
  match m with
  | [] => [(k, v)]
  | (k', v') :: r => if String.eqb k k' then (k, v) :: r else (k', v') :: sset k v r
  end.
