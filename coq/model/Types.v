(** * Types: model of the checker's "may be used where" relation

    Mirrors (mamba, src/check):
    - name/mod.rs              [Name] = HashSet<TrueName> + is_interchangeable; [IsSuperSet], [Union], [trim_super]
    - name/true_name/mod.rs    [TrueName] = is_nullable, is_mutable, variant; the nullable rule
    - name/string_name/mod.rs  [StringName] = name + generics : Vec<Name>; [substitute]; is_superset = class lookup + has_parent
    - context/clss/mod.rs      [LookupClass<&StringName>] (substitution of generics, Tuple exception, recursive lookup
                               of the parents), [HasParent<&StringName>], [HasParent<&Name>]

    Conventions
    - A HashSet is a list; the list order is the iteration order, an explicit parameter of every function
      (theorems quantify over permutations). Set equality is mutual inclusion ([name_eqb]).
    - [is_mutable] is [true] in every constructor of the crate and never set to [false] (checked textually by
      lib/vlib/c20.py on every run), so it is a constant and not represented.
    - [TypeResult<bool>] is [res bool]: [Ok b], [Err] (a TypeErr; the message is not modelled), [Div] (the
      recursion of the Rust code does not terminate: stack overflow).  Recursions that are not structural run
      on fuel; running out of fuel is [Div].  For acyclic tables the fuel supplied by [is_superset] is enough
      (proved for the non-generic fragment, checked by evaluation for the finite generic universe); for a cyclic
      table [lookup] is [Div] for every fuel ([TypesProps.cyclic_diverges]).
    - The [is_interchangeable] flag of names nested inside generics is never read by the modelled functions
      (Name's PartialEq ignores it), so nested names are plain lists. *)
From Coq Require Import List String Bool Arith Ascii DecimalString.
From MambaModel Require Import gen.TypesConf.
Import ListNotations.
Local Open Scope string_scope.

(** ** Names *)

(** TrueName: [TN nullable class_name generics]; a generic argument is a Name, i.e. a list of [ty]. *)
Inductive ty : Type := TN (nullable : bool) (cname : string) (gens : list (list ty)).

Definition name := list ty.                       (* Name.names *)
Definition sname := (string * list name)%type.    (* StringName *)
Record nm := { members : name; inter : bool }.    (* Name *)
Definition mkN (l : name) : nm := {| members := l; inter := false |}.

Definition tnull (t : ty) : bool := let 'TN n _ _ := t in n.
Definition tcname (t : ty) : string := let 'TN _ s _ := t in s.
Definition tgens (t : ty) : list name := let 'TN _ _ g := t in g.
Definition variant (t : ty) : sname := (tcname t, tgens t).
Definition of_sn (s : sname) : ty := TN false (fst s) (snd s).   (* TrueName::from(&StringName) *)
Definition cls_ty (s : string) : ty := TN false s [].             (* TrueName::from(&str) *)
Definition as_nullable (t : ty) : ty := let 'TN _ s g := t in TN true s g.

(** derived PartialEq of TrueName / StringName, with Name's PartialEq (set equality) at the nested level *)
Fixpoint ty_eqb (a b : ty) {struct a} : bool :=
  match a, b with
  | TN n1 s1 g1, TN n2 s2 g2 =>
      Bool.eqb n1 n2 && String.eqb s1 s2 &&
      (fix gl (x y : list (list ty)) {struct x} : bool :=
         match x, y with
         | [], [] => true
         | nx :: x', ny :: y' =>
             forallb (fun t => existsb (fun u => ty_eqb t u) ny) nx &&
             forallb (fun u => existsb (fun t => ty_eqb t u) nx) ny && gl x' y'
         | _, _ => false
         end) g1 g2
  end.

Definition name_incl (x y : name) : bool := forallb (fun t => existsb (fun u => ty_eqb t u) y) x.
Definition name_eqb (x y : name) : bool :=
  name_incl x y && forallb (fun u => existsb (fun t => ty_eqb t u) x) y.
Fixpoint gens_eqb (x y : list name) : bool :=
  match x, y with
  | [], [] => true
  | a :: x', b :: y' => name_eqb a b && gens_eqb x' y'
  | _, _ => false
  end.
Definition sn_eqb (a b : sname) : bool := String.eqb (fst a) (fst b) && gens_eqb (snd a) (snd b).

(** HashSet construction: duplicates collapse (first occurrence kept; any order is a legal iteration order) *)
Fixpoint nub {A : Type} (eqb : A -> A -> bool) (l : list A) : list A :=
  match l with
  | [] => []
  | x :: r => x :: filter (fun y => negb (eqb x y)) (nub eqb r)
  end.

(** ** Outcomes *)
Inductive res (A : Type) : Type := Ok (a : A) | Err | Div.
Arguments Ok {A} a.
Arguments Err {A}.
Arguments Div {A}.

Definition bind {A B : Type} (x : res A) (f : A -> res B) : res B :=
  match x with Ok a => f a | Err => Err | Div => Div end.

Section Seq.
  Context {A B : Type} (f : A -> res B).
  (** [iter().map(f).collect::<Result<Vec<_>,_>>()?] : in order, stops at the first failure *)
  Fixpoint mapM (l : list A) : res (list B) :=
    match l with
    | [] => Ok []
    | x :: r => bind (f x) (fun y => bind (mapM r) (fun ys => Ok (y :: ys)))
    end.
End Seq.

Section SeqBool.
  Context {A : Type} (f : A -> res bool).
  (** [acc &= f(x)?] over all elements: no short cut on [false] *)
  Fixpoint all_m (l : list A) : res bool :=
    match l with
    | [] => Ok true
    | x :: r => bind (f x) (fun b => bind (all_m r) (fun c => Ok (b && c)))
    end.
  (** [for x in l { if f(x)? { return Ok(true) } } Ok(false)] *)
  Fixpoint first_true (l : list A) : res bool :=
    match l with
    | [] => Ok false
    | x :: r => bind (f x) (fun b => if b then Ok true else first_true r)
    end.
End SeqBool.

(** ** Substitution of generics (Name/TrueName/StringName::substitute) *)

Definition gmap := list (name * name).   (* HashMap<Name, Name>, in insertion order *)

(** later insertions overwrite earlier ones *)
Fixpoint gget (m : gmap) (k : name) : option name :=
  match m with
  | [] => None
  | (k', v) :: r =>
      match gget r k with
      | Some x => Some x
      | None => if name_eqb k' k then Some v else None
      end
  end.

Definition as_direct (n : name) : list sname := nub sn_eqb (map variant n).   (* Name::as_direct *)

(** TrueName::substitute keeps the flags of the name that is substituted INTO; the argument's own nullable
    flag is dropped by [as_direct] (this is D22). *)
Fixpoint subst_ty (m : gmap) (t : ty) {struct t} : res ty :=
  match t with
  | TN n s g =>
      match gget m [TN false s g] with
      | Some v =>
          match as_direct v with
          | [] => Err
          | [d] => Ok (TN n (fst d) (snd d))
          | ds => Ok (TN n "Union" (map (fun d => [of_sn d]) ds))
          end
      | None =>
          match mapM (fun arg => bind (mapM (subst_ty m) arg) (fun l => Ok (nub ty_eqb l))) g with
          | Ok g' => Ok (TN n s g')
          | Err => Err
          | Div => Div
          end
      end
  end.

Definition subst_sn (m : gmap) (s : sname) : res sname :=
  bind (subst_ty m (of_sn s)) (fun t => Ok (variant t)).

(** ** Class table and class lookup *)

(** GenericClass as far as the relation reads it: name, generic parameters (Names), parents (TrueNames). *)
Record cls := { cl_name : string; cl_gen : list name; cl_parents : list ty }.
Definition ctx := list cls.

(** [self.classes.iter().find(|c| c.name.name == class.name)]; deterministic when class names are unique *)
Definition find_cls (cx : ctx) (s : string) : option cls :=
  find (fun c => String.eqb (cl_name c) s) cx.

(** Class as far as has_parent reads it *)
Record klass := { k_name : sname; k_parents : list ty }.

Fixpoint zip_longest (ps args : list name) : option gmap :=
  match ps, args with
  | [], [] => Some []
  | p :: ps', a :: args' => option_map (cons (p, a)) (zip_longest ps' args')
  | _, _ => None
  end.

Definition nat_str (n : nat) : string := NilEmpty.string_of_uint (Nat.to_uint n).
Definition tuple_keys (args : list name) : list name :=
  map (fun i => [cls_ty ("G" ++ nat_str i)]) (seq 0 (List.length args)).

Definition TUPLE := "Tuple".
Definition COLLECTION := "Collection".
Definition ANY := "Any".
Definition NONE := "None".

(** LookupClass<&StringName, Class> for Context *)
Fixpoint lookup (f : nat) (cx : ctx) (s : sname) {struct f} : res klass :=
  match f with
  | 0 => Div
  | S f' =>
      match find_cls cx (fst s) with
      | None => Err
      | Some c =>
          if String.eqb (fst s) TUPLE then
            (* Tuple exception: variable generic count, parents are not looked up *)
            let keys := tuple_keys (snd s) in
            let m := combine keys (snd s) in
            bind (subst_sn m (fst s, keys)) (fun n' =>
            bind (mapM (subst_ty m) (cl_parents c)) (fun ps =>
            Ok {| k_name := n'; k_parents := nub ty_eqb ps |}))
          else
            match zip_longest (cl_gen c) (snd s) with
            | None => Err
            | Some m =>
                bind (subst_sn m (cl_name c, cl_gen c)) (fun n' =>
                bind (mapM (subst_ty m) (cl_parents c)) (fun ps =>
                let ps' := nub ty_eqb ps in
                bind (mapM (fun p => lookup f' cx (variant p)) ps') (fun _ =>
                Ok {| k_name := n'; k_parents := ps' |})))
            end
      end
  end.

(** ** has_parent *)

(** the shape of this condition is read from the source on every run (gen/TypesConf.v) *)
Definition is_contender (self other : sname) : bool :=
  (String.eqb (fst self) TUPLE
   && ((tuple_zip_truncates && String.eqb (fst other) TUPLE) || String.eqb (fst other) COLLECTION))
  || (String.eqb (fst self) (fst other) && Nat.eqb (List.length (snd self)) (List.length (snd other))).

Fixpoint gen_all (g : ty -> name -> res bool) (ps : list (name * name)) : res bool :=
  match ps with
  | [] => Ok true
  | (s, o) :: r => bind (all_m (fun t => g t o) s) (fun b => bind (gen_all g r) (fun c => Ok (b && c)))
  end.

(** HasParent<&Name> for Class, with the recursive call to HasParent<&StringName> abstracted *)
Definition hpn_body (rec : klass -> sname -> res bool) (lf : nat) (cx : ctx) (k : klass) (n : name) : res bool :=
  if existsb (fun u => ty_eqb (of_sn (k_name k)) u) n || name_eqb n [cls_ty ANY] then Ok true
  else
    bind (mapM (fun p => lookup lf cx (variant p)) (k_parents k)) (fun pcs =>
    first_true (fun d => bind (mapM (fun pc => rec pc d) pcs) (fun rs => Ok (existsb (fun b => b) rs)))
               (as_direct n)).

(** HasParent<&StringName> for Class *)
Fixpoint hp (f lf : nat) (cx : ctx) (k : klass) (other : sname) {struct f} : res bool :=
  match f with
  | 0 => Div
  | S f' =>
      if sn_eqb (k_name k) other || String.eqb (fst other) ANY then Ok true
      else
        bind (if is_contender (k_name k) other
              then gen_all (fun t o => bind (lookup lf cx (variant t))
                                            (fun kt => hpn_body (hp f' lf cx) lf cx kt o))
                           (combine (snd (k_name k)) (snd other))
              else Ok false) (fun all =>
        if all then Ok true
        else
          bind (mapM (fun p => bind (lookup lf cx (variant p)) (fun kp => hp f' lf cx kp other)) (k_parents k))
               (fun rs => Ok (existsb (fun b => b) rs)))
  end.

(** ** is_superset_of *)

Definition sn_is_empty (s : sname) : bool :=
  sn_eqb s ("()", []) || (String.eqb (fst s) TUPLE && match snd s with [] => true | _ => false end).
Definition is_null (t : ty) : bool := String.eqb (tcname t) NONE.

(** IsSuperSet<StringName> for StringName *)
Definition sn_super (f lf : nat) (cx : ctx) (self other : sname) : res bool :=
  bind (lookup lf cx other) (fun k => hp f lf cx k self).

(** IsSuperSet<TrueName> for TrueName (the nullable rule) *)
Definition tn_super (f lf : nat) (cx : ctx) (self other : ty) : res bool :=
  if negb (sn_is_empty (variant self)) && sn_is_empty (variant other) then Ok false
  else if tnull self && is_null other then Ok true
  else if tnull self || (negb (tnull self) && negb (tnull other))
       then sn_super f lf cx (variant self) (variant other)
       else Ok false.

Definition name_is_empty (n : name) : bool := forallb (fun t => sn_is_empty (variant t)) n.

Fixpoint super_loop (sup : ty -> ty -> res bool) (selfm : name) (ointer : bool) (others : name) (acc : bool)
  : res bool :=
  match others with
  | [] => Ok (if ointer then acc else true)
  | o :: r =>
      bind (mapM (fun s => sup s o) selfm) (fun bs =>
      if negb ointer && forallb negb bs then Ok false
      else super_loop sup selfm ointer r (acc || existsb (fun b => b) bs))
  end.

Definition name_super (f lf : nat) (cx : ctx) (A B : nm) : res bool :=
  if negb (name_is_empty (members A)) && name_is_empty (members B) then Ok false
  else super_loop (tn_super f lf cx) (members A) (inter B) (members B) false.

(** fuel: class lookup climbs at most one parent chain; has_parent climbs parent chains and descends into
    the generic arguments of the left-hand name *)
Fixpoint ty_depth (t : ty) : nat :=
  match t with
  | TN _ _ g => S (fold_right (fun n acc => Nat.max (fold_right (fun u acc' => Nat.max (ty_depth u) acc') 0 n) acc) 0 g)
  end.
Definition name_depth (n : name) : nat := fold_right (fun u acc => Nat.max (ty_depth u) acc) 0 n.
Definition lfuel (cx : ctx) : nat := S (List.length cx).
Definition hfuel (cx : ctx) (A : name) : nat := 2 * S (List.length cx) * S (name_depth A).

(** Name::is_superset_of : [A] may be used where ... i.e. a value of type [B] is accepted where [A] is expected *)
Definition is_superset (cx : ctx) (A B : nm) : res bool :=
  name_super (hfuel cx (members A)) (lfuel cx) cx A B.

Definition super (cx : ctx) (A B : name) : res bool := is_superset cx (mkN A) (mkN B).

(** ** Union *)
Definition union_members (a b : name) : name :=
  let ns := nub ty_eqb (a ++ b) in
  if existsb is_null ns && Nat.ltb 1 (List.length ns)
  then nub ty_eqb (map as_nullable (filter (fun t => negb (is_null t)) ns))
  else ns.

Definition union (A B : nm) : nm :=
  {| members := union_members (members A) (members B); inter := inter A || inter B |}.

(** ** trim_super *)
Definition trim_super (cx : ctx) (A : nm) : res nm :=
  let ns := nub ty_eqb (members A) in
  if Nat.ltb 1 (List.length ns) then
    bind (mapM (fun n =>
            bind (mapM (fun o => match tn_super (hfuel cx [o]) (lfuel cx) cx o n with
                                 | Ok b => Ok (negb b) | Err => Ok false | Div => Div end) ns)
                 (fun bs => Ok (n, existsb (fun b => b) bs))) ns)
         (fun flagged => Ok {| members := map fst (filter snd flagged); inter := inter A |})
  else Ok {| members := ns; inter := inter A |}.

(** ** Decidable conditions on tables and names used by the theorems *)

(** every class name occurs once *)
Fixpoint uniqueb (l : list string) : bool :=
  match l with [] => true | x :: r => negb (existsb (String.eqb x) r) && uniqueb r end.

Definition is_plain_class (cx : ctx) (s : string) : bool :=
  match find_cls cx s with
  | Some c => match cl_gen c with [] => true | _ => false end
  | None => false
  end && negb (String.eqb s "()") && negb (String.eqb s TUPLE).

(** non-generic classes only have non-generic classes of the table as parents *)
Definition plain_closed (cx : ctx) : bool :=
  forallb (fun c => match cl_gen c with
                    | [] => forallb (fun p => match tgens p with [] => is_plain_class cx (tcname p) | _ => false end)
                                    (cl_parents c)
                    | _ => true end) cx.

(** Any and None are classes without generic parameters and without parents, and nothing inherits from None *)
Definition specials_ok (cx : ctx) : bool :=
  match find_cls cx ANY, find_cls cx NONE with
  | Some a, Some n =>
      match cl_gen a, cl_parents a, cl_gen n, cl_parents n with
      | [], [], [], [] => forallb (fun c => forallb (fun p => negb (String.eqb (tcname p) NONE)) (cl_parents c)) cx
      | _, _, _, _ => false
      end
  | _, _ => false
  end.

Definition ctx_ok (cx : ctx) : bool := uniqueb (map cl_name cx) && plain_closed cx && specials_ok cx.

(** height of a class in the hierarchy, by fuel *)
Fixpoint height (f : nat) (cx : ctx) (s : string) : option nat :=
  match f with
  | 0 => None
  | S f' =>
      match find_cls cx s with
      | None => Some 0
      | Some c =>
          fold_right (fun p acc => match height f' cx (tcname p), acc with
                                   | Some h, Some a => Some (Nat.max (S h) a)
                                   | _, _ => None end) (Some 0) (cl_parents c)
      end
  end.

Definition acyclicb (cx : ctx) : bool :=
  forallb (fun c => match height (List.length cx) cx (cl_name c) with Some _ => true | None => false end) cx.

(** a non-generic type of the table: a class without generic parameters, optionally nullable; [None?] excluded *)
Definition plain (cx : ctx) (t : ty) : bool :=
  match tgens t with [] => true | _ => false end
  && is_plain_class cx (tcname t)
  && negb (tnull t && is_null t).
Definition plainN (cx : ctx) (n : name) : bool := forallb (plain cx) n.

(** every parent mentioned in the table is a class of the table with the right number of arguments *)
Definition parents_defined (cx : ctx) : bool :=
  forallb (fun c => forallb (fun p => match find_cls cx (tcname p) with
                                      | Some pc => Nat.eqb (List.length (cl_gen pc)) (List.length (tgens p))
                                      | None => false end) (cl_parents c)) cx.

Definition stubs_wf (cx : ctx) : bool := ctx_ok cx && parents_defined cx && acyclicb cx.

(** ** Text output used by the correspondence check *)
Definition res_char (r : res bool) : string :=
  match r with Ok true => "T" | Ok false => "F" | Err => "E" | Div => "D" end.

Definition row (cx : ctx) (A : nm) (Bs : list nm) : string :=
  fold_right (fun B acc => res_char (is_superset cx A B) ++ acc) "" Bs.

Fixpoint sep (s : string) (l : list string) : string :=
  match l with [] => "" | [x] => x | x :: r => x ++ s ++ sep s r end.

Fixpoint show_ty (t : ty) : string :=
  match t with
  | TN n s g =>
      s ++ (match g with
            | [] => if String.eqb s "" then "[]" else ""
            | _ => "[" ++ sep "," (map (fun a => "{" ++ sep "," (map show_ty a) ++ "}") g) ++ "]"
            end) ++ (if n then "?" else "")
  end.
Definition show_nm (A : nm) : string :=
  (if inter A then "~" else "") ++ "{" ++ sep "," (map show_ty (members A)) ++ "}".
