(** * Order.v - the places where a hash iteration order can reach the verdict or the emitted bytes

    Rust's [std::collections::HashSet]/[HashMap] iterate in an order that depends on a per-instance random
    seed.  Every function below mirrors one place of the transpiler where such an iteration happens, and takes
    the iteration order as an EXPLICIT argument: a list ("enumeration") that is a permutation of the
    collection's content.  The theorems of [proofs/OrderProps.v] quantify over all such permutations.

    Sites (file : function in /repo/src):
    (a) generate/name.rs : [impl ToPy for Name / TrueName / StringName]           -> [to_py_name]
        check/name/true_name/mod.rs [impl Ord for TrueName], string_name [derive(Ord)],
        check/name/mod.rs [impl Ord for Name]                                      -> [tcmp], [canon], [rcmp], [ncmp]
    (b) generate/convert/class.rs : [extract_class]                                -> [entries], [add_init], [class_body]
    (c) check/context/clss/mod.rs : [LookupClass<&StringName,Class>::class] ([find] on the base name),
        check/context/function/mod.rs : [LookupFunction::function] ([find] on the full name),
        check/context/field/mod.rs : [LookupField::field], clss/mod.rs [GetFun::fun], [GetField::field],
        [Class::inherit] folded over the parents                                   -> [class_lookup], [fun_lookup],
                                                                                      [ctx_insert], [inherit_all], [member_lookup]
    (d) check/name/mod.rs : [Name::is_temporary] ([Vec::from_iter(&names).first()]),
        check/name/string_name/mod.rs : [StringName::args] ([names.iter().next()]) -> [is_temporary], [callable_args]
    (e) check/name/mod.rs : [Union<Name> for Name], [Name::trim_super]             -> [name_union], [trim_super]

    Modelling conventions.
    - A [Name] (type union, [HashSet<TrueName>]) is a [list tname]; the list order IS the enumeration order.
      The set invariant "members are pairwise different under Rust's [Eq]" is the hypothesis
      [NoDup (map canon l)] of the theorems ([Eq] on [TrueName] is derived, [Eq] on the nested [Name]s is set
      equality, which is equality of canonical forms).
    - [sorted()] / [sorted_by_key] of itertools are [Vec::sort]/[sort_by_key], which are STABLE; a stable sort is
      unique, so it is modelled by the stable insertion sort [isort].
    - Rust's [Ord for Name] sorts both member sets and compares them lexicographically, recursively through the
      generics.  The model computes the same comparison as [tcmp (canon a) (canon b)]: [canon] sorts every nested
      member list bottom-up, [tcmp] is the purely structural lexicographic comparison.  (Equal by induction on the
      nesting depth; this refactoring is what makes the comparison a structural [Fixpoint].)
    - [String.compare] compares by character code, as Rust's [Ord for String] does bytewise on UTF-8.
    - usize arithmetic: the only arithmetic is [i + 2] and [pos + 1] on indices of a [Vec] in memory; they cannot
      overflow (a Vec never holds more than isize::MAX elements), so [nat] addition is exact here. *)
From Coq Require Import List String Ascii Bool Arith PeanoNat.
Import ListNotations.
Local Open Scope string_scope.

(* ------------------------------------------------------------------------------------------------ *)
(** ** Generic parts *)

Section Sort.
  Context {A : Type}.
  Variable cmp : A -> A -> comparison.

  Definition leb (x y : A) : bool := match cmp x y with Gt => false | _ => true end.

  Fixpoint insert (x : A) (l : list A) : list A :=
    match l with
    | [] => [x]
    | y :: t => if leb x y then x :: y :: t else y :: insert x t
    end.

  (** stable: an element is placed BEFORE the first later element that is not smaller *)
  Fixpoint isort (l : list A) : list A :=
    match l with
    | [] => []
    | x :: t => insert x (isort t)
    end.

  (** lexicographic comparison of sequences ([Ord for Vec<T>], [Iterator::cmp]): a proper prefix is smaller *)
  Fixpoint lex (l1 l2 : list A) : comparison :=
    match l1, l2 with
    | [], [] => Eq
    | [], _ :: _ => Lt
    | _ :: _, [] => Gt
    | x :: t, y :: u => match cmp x y with Eq => lex t u | r => r end
    end.
End Sort.

(** every way of putting [x] into [l], and all permutations of a list (used to enumerate hash orders) *)
Fixpoint inserts {A} (x : A) (l : list A) : list (list A) :=
  match l with
  | [] => [[x]]
  | y :: t => (x :: y :: t) :: map (cons y) (inserts x t)
  end.

Fixpoint perms {A} (l : list A) : list (list A) :=
  match l with
  | [] => [[]]
  | x :: t => flat_map (inserts x) (perms t)
  end.

Fixpoint mapM {A B} (f : A -> option B) (l : list A) : option (list B) :=
  match l with
  | [] => Some []
  | x :: t => match f x, mapM f t with Some y, Some u => Some (y :: u) | _, _ => None end
  end.

Definition bool_cmp (a b : bool) : comparison :=
  match a, b with false, true => Lt | true, false => Gt | _, _ => Eq end.

(* ------------------------------------------------------------------------------------------------ *)
(** ** Types: [TrueName] with its [StringName] variant inlined; a [Name] is [list tname] *)

Inductive tname : Type :=
  TN (nullable mutable : bool) (name : string) (generics : list (list tname)).

Definition tn_nullable (t : tname) := let 'TN n _ _ _ := t in n.
Definition tn_name (t : tname) := let 'TN _ _ s _ := t in s.
Definition tn_generics (t : tname) := let 'TN _ _ _ g := t in g.

(** [TrueName::from(&str)]: not nullable, mutable, no generics *)
Definition tn (s : string) : tname := TN false true s [].
Definition tng (s : string) (g : list (list tname)) : tname := TN false true s g.

(** structural comparison: variant (name, then generics lexicographically, each generic a member sequence
    compared lexicographically), then is_nullable, then is_mutable - the field order of
    [impl Ord for TrueName] and of [derive(Ord)] on [StringName { name, generics }] *)
Fixpoint tcmp (a b : tname) {struct a} : comparison :=
  match a, b with
  | TN n1 m1 s1 g1, TN n2 m2 s2 g2 =>
    match String.compare s1 s2 with
    | Eq => match lex (lex tcmp) g1 g2 with
            | Eq => match bool_cmp n1 n2 with Eq => bool_cmp m1 m2 | r => r end
            | r => r
            end
    | r => r
    end
  end.

(** canonical form: every nested member set sorted *)
Fixpoint canon (a : tname) : tname :=
  match a with
  | TN n m s gs => TN n m s (map (fun g => isort tcmp (map canon g)) gs)
  end.

Definition canon_name (l : list tname) : list tname := isort tcmp (map canon l).

(** [Ord for TrueName] and [Ord for Name] on enumerations *)
Definition rcmp (a b : tname) : comparison := tcmp (canon a) (canon b).
Definition ncmp (l1 l2 : list tname) : comparison := lex tcmp (canon_name l1) (canon_name l2).

(** Rust's [Eq] on TrueName / Name (set equality, nested) as a boolean *)
Definition tn_eqb (a b : tname) : bool := match rcmp a b with Eq => true | _ => false end.
Definition name_eqb (l1 l2 : list tname) : bool := match ncmp l1 l2 with Eq => true | _ => false end.

(* ------------------------------------------------------------------------------------------------ *)
(** ** (e) [Name::union], [Name::trim_super] *)

Definition is_null (t : tname) : bool := String.eqb (tn_name t) "None".
Definition as_nullable (t : tname) : tname := let 'TN _ m s g := t in TN true m s g.

(** [HashSet::insert]/[collect]: an element equal to one already present is dropped *)
Definition set_add (x : tname) (l : list tname) : list tname :=
  if existsb (tn_eqb x) l then l else l ++ [x].
Definition set_of (l : list tname) : list tname := fold_left (fun acc x => set_add x acc) l [].

(** [impl Union<Name> for Name]: [self.names.union(&name.names)] enumerates self, then the members of the other
    that are not in self; if a [None] member is present together with others it is removed and the rest
    becomes nullable ([collect] into a new set) *)
Definition name_union (a b : list tname) : list tname :=
  let names := set_of (a ++ b) in
  if existsb is_null names && Nat.ltb 1 (List.length names)
  then set_of (map as_nullable (filter (fun n => negb (is_null n)) names))
  else names.

(** [trim_super]: with more than one member keep [n] iff SOME member [o] (possibly [n] itself) is not a
    superset of [n]; [sup o n] stands for [o.is_superset_of(n, ctx, pos).unwrap_or(true)] *)
Definition trim_super (sup : tname -> tname -> bool) (l : list tname) : list tname :=
  if Nat.ltb 1 (List.length l)
  then filter (fun n => existsb (fun o => negb (sup o n)) l) l
  else l.

(* ------------------------------------------------------------------------------------------------ *)
(** ** (a) rendering of a [Name] as a Python type *)

Inductive core : Type := CType (lit : string) (generics : list core) | CEmpty.

(** [clss::concrete_to_python] *)
Definition concrete_to_python (s : string) : string :=
  if s =? "Int" then "int" else if s =? "Float" then "float" else if s =? "Str" then "str"
  else if s =? "Bool" then "bool" else if s =? "Enum" then "enum" else if s =? "Complex" then "complex"
  else if s =? "Collection" then "collection" else if s =? "Range" then "range"
  else if s =? "Slice" then "slice" else if s =? "Set" then "set" else if s =? "List" then "list"
  else if s =? "Dict" then "dict" else s.
  (* Tuple, Callable, None, Exception, Union, Any map to themselves *)

(** [ToPy for Name] (fuel: the [Union] variant recurses on a computed union, which is not a sub-term).
    - more than one member: [Union[..]] over the members SORTED with [Ord for TrueName];
    - one member: that member; no member: [Core::Empty].
    [ToPy for TrueName]: nullable -> [Optional[variant]].
    [ToPy for StringName]: "Union" -> fold [Name::union] over the SORTED generics, then render;
    "Tuple" -> [Tuple[generics]]; "Callable" -> [Callable[first, second]]; otherwise the mapped literal. *)
Section ToPy.
  Variable name : list tname -> option core.   (* the recursive call *)

  Definition core_type (lit : string) (gens : list (list tname)) : option core :=
    option_map (CType lit) (mapM name gens).

  Definition variant_to_py (s : string) (gens : list (list tname)) : option core :=
    if s =? "Union" then name (fold_left name_union (isort ncmp gens) [])
    else if s =? "Tuple" then core_type "Tuple" gens
    else if s =? "Callable" then core_type "Callable" [nth 0 gens []; nth 1 gens []]
    else core_type (concrete_to_python s) gens.

  Definition member_to_py (x : tname) : option core :=
    match x with
    | TN true _ s gens => option_map (fun c => CType "Optional" [c]) (variant_to_py s gens)
    | TN false _ s gens => variant_to_py s gens
    end.

  Definition name_to_py (l : list tname) : option core :=
    match l with
    | [] => Some CEmpty
    | [x] => member_to_py x
    | _ => option_map (CType "Union") (mapM member_to_py (isort rcmp l))
    end.
End ToPy.

Fixpoint to_py_name (fuel : nat) : list tname -> option core :=
  match fuel with
  | 0 => fun _ => None
  | S f => name_to_py (to_py_name f)
  end.

(** text of a [Core::Type] as printed by generate/ast/mod.rs ([lit] or [lit[g, g]]) *)
Fixpoint core_text (c : core) : string :=
  match c with
  | CEmpty => ""
  | CType lit [] => lit
  | CType lit (g :: gs) =>
    lit ++ "[" ++ core_text g ++ fold_right (fun x acc => ", " ++ core_text x ++ acc) "" gs ++ "]"
  end.

Definition render (fuel : nat) (l : list tname) : string :=
  match to_py_name fuel l with Some c => core_text c | None => "<out of fuel>" end.

(** the type recorded for an [if]/[match] whose arms have the given types, as the unifier's [Finished::push_ty]
    accumulates it: union with the previous entry, then [trim_super] *)
Definition push_ty (sup : tname -> tname -> bool) (old : option (list tname)) (new : list tname) : list tname :=
  match old with
  | None => trim_super sup new
  | Some o => trim_super sup (name_union o new)
  end.
Definition arms_type (sup : tname -> tname -> bool) (arms : list (list tname)) : list tname :=
  match fold_left (fun acc a => Some (push_ty sup acc a)) arms None with Some l => l | None => [] end.

(* ------------------------------------------------------------------------------------------------ *)
(** ** (b) [extract_class]: order of the statements of a class body *)

(** The code modelled here is the one after /repo commit 88d54a3 ("class body statements no longer come out in
    hash-map order"): the recorded position is a PAIR (slot, kind) with kind 0 = statement, 1 = generated
    constructor, 2 = function, compared lexicographically ([Ord] for tuples).  The numbering before that commit
    used the slot alone; it is kept as [class_body_old] only to state what the defect (D15) was. *)

(** what [extract_class] distinguishes in a converted body statement *)
Inductive member : Type :=
| MFun (id : string)        (* Core::FunDef { id, .. }            key Core::Id{id}        pos (i+2, 2) *)
| MOp (op : string)         (* Core::FunDefOp { op, .. }          key Core::Id{"{op}"}    pos (i+2, 2) *)
| MVar (key : string) (is_id : bool)
                            (* Core::VarDef { var, .. }: the key is the Core [var] itself; [is_id] says it is a
                               plain [Core::Id{key}] (then it shares the key space of the functions), otherwise
                               [key] is the printed form of a non-Id Core (tuple pattern)         pos (i, 0) *)
| MOther.                   (* anything else (doc string)          key Core::Id{"@"}       pos (i, 0) *)

Inductive key : Type := KId (s : string) | KCore (s : string).
Definition key_eqb (a b : key) : bool :=
  match a, b with
  | KId x, KId y => String.eqb x y
  | KCore x, KCore y => String.eqb x y
  | _, _ => false
  end.

(** which statement: the [i]-th of the body, or the constructor synthesised by [init] *)
Inductive label : Type := LStmt (i : nat) | LInit.

Record entry : Type := { e_key : key; e_pos : nat; e_kind : nat; e_var : bool; e_lab : label }.

(** the recorded position [(usize, usize)] *)
Definition e_pk (e : entry) : nat * nat := (e_pos e, e_kind e).

Definition stmt_entry (i : nat) (m : member) : entry :=
  match m with
  | MFun id => {| e_key := KId id; e_pos := i + 2; e_kind := 2; e_var := false; e_lab := LStmt i |}
  | MOp op => {| e_key := KId op; e_pos := i + 2; e_kind := 2; e_var := false; e_lab := LStmt i |}
  | MVar k true => {| e_key := KId k; e_pos := i; e_kind := 0; e_var := true; e_lab := LStmt i |}
  | MVar k false => {| e_key := KCore k; e_pos := i; e_kind := 0; e_var := true; e_lab := LStmt i |}
  | MOther => {| e_key := KId "@"; e_pos := i; e_kind := 0; e_var := false; e_lab := LStmt i |}
  end.

(** [HashMap::insert]: an existing key keeps its slot and gets the new value, a new key is added.
    (The list is the canonical content, NOT the iteration order.) *)
Fixpoint map_insert (e : entry) (m : list entry) : list entry :=
  match m with
  | [] => [e]
  | x :: t => if key_eqb (e_key x) (e_key e) then e :: t else x :: map_insert e t
  end.

Fixpoint entries_from (i : nat) (ms : list member) (acc : list entry) : list entry :=
  match ms with
  | [] => acc
  | m :: t => entries_from (S i) t (map_insert (stmt_entry i m) acc)
  end.

(** content of [body_name_stmts] after the [.collect()] *)
Definition entries (ms : list member) : list entry := entries_from 0 ms [].

Definition init_key : key := KId "__init__".

(** [body_name_stmts.iter().find(|(name, _)| name == Id("__init__"))] over an enumeration *)
Definition find_init (enum : list entry) : option entry :=
  find (fun e => key_eqb (e_key e) init_key) enum.

(** first component of [.values().filter(VarDef).map(|((pos, _), _)| (pos + 1, 1)).max().unwrap_or((0, 1))] over
    an enumeration: every candidate has second component 1, so the maximum of the pairs is the maximum of the
    first components; with a field present it is at least 1, without any it is the default 0 *)
Definition init_pos_new (enum : list entry) : nat :=
  fold_left (fun acc e => if e_var e then Nat.max acc (e_pos e + 1) else acc) enum 0.

(** content of the map after [body_name_stmts.insert(init, (pos, new_init))], computed by iterating [enum];
    [mk_init] says whether [init(..)] returned [Some].  An existing [__init__] key keeps its pair untouched,
    otherwise the constructor gets [(max field slot + 1, 1)] or [(0, 1)]. *)
Definition add_init (mk_init : bool) (enum : list entry) : list entry :=
  if mk_init then
    let pk := match find_init enum with Some o => e_pk o | None => (init_pos_new enum, 1) end in
    map_insert {| e_key := init_key; e_pos := fst pk; e_kind := snd pk; e_var := false; e_lab := LInit |} enum
  else enum.

(** [Ord for (usize, usize)] *)
Definition pk_cmp (a b : nat * nat) : comparison :=
  match Nat.compare (fst a) (fst b) with Eq => Nat.compare (snd a) (snd b) | r => r end.

Definition pos_cmp (a b : entry) : comparison := pk_cmp (e_pk a) (e_pk b).

(** [body_name_stmts.values().sorted_by_key(|(pos, _)| *pos).map(stmt)] over an enumeration of the final map *)
Definition class_body (enum : list entry) : list label := map e_lab (isort pos_cmp enum).

(** the numbering BEFORE commit 88d54a3: only the slot was compared (historical, see [d15_old_numbering_refuted]) *)
Definition class_body_old (enum : list entry) : list label :=
  map e_lab (isort (fun a b => Nat.compare (e_pos a) (e_pos b)) enum).

Definition label_eqb (a b : label) : bool :=
  match a, b with LStmt i, LStmt j => Nat.eqb i j | LInit, LInit => true | _, _ => false end.
Fixpoint labels_eqb (a b : list label) : bool :=
  match a, b with
  | [], [] => true
  | x :: t, y :: u => label_eqb x y && labels_eqb t u
  | _, _ => false
  end.
Fixpoint dedup_labels (l : list (list label)) : list (list label) :=
  match l with
  | [] => []
  | x :: t => if existsb (labels_eqb x) t then dedup_labels t else x :: dedup_labels t
  end.

(** every body the class can get, over all iteration orders of the final map (a singleton, by
    [class_body_deterministic]) *)
Definition class_body_outcomes (mk_init : bool) (ms : list member) : list (list label) :=
  dedup_labels (map class_body (perms (add_init mk_init (entries ms)))).

(* ------------------------------------------------------------------------------------------------ *)
(** ** (c) lookups in the context *)

(** a [GenericClass] / [GenericFunction] / [GenericField] as far as identity and lookup are concerned:
    [g_name]/[g_generics] is the [StringName]; [g_sig] stands for (arguments, ret_ty) of a function (empty for a
    class or field); [g_id] names the definition (payload) *)
Record gdef : Type := { g_name : string; g_generics : list (list tname); g_sig : string; g_id : nat }.

Definition generics_eqb (a b : list (list tname)) : bool :=
  match lex ncmp a b with Eq => true | _ => false end.

(** identity in the set: [GenericClass] is hashed/compared on its [StringName] (name AND generics);
    [GenericFunction] on (name, arguments, ret_ty); [GenericField] on the name *)
Definition same_def (a b : gdef) : bool :=
  String.eqb (g_name a) (g_name b) && generics_eqb (g_generics a) (g_generics b)
  && String.eqb (g_sig a) (g_sig b).

(** [HashSet::insert] and [a.union(&b).collect()]: the element already present wins *)
Definition ctx_insert (d : gdef) (set : list gdef) : list gdef :=
  if existsb (same_def d) set then set else set ++ [d].
Definition ctx_build (defs : list gdef) : list gdef := fold_left (fun acc d => ctx_insert d acc) defs [].

(** [self.classes.iter().find(|c| c.name.name == class.name)]: by BASE name only *)
Definition class_lookup (n : string) (enum : list gdef) : option gdef :=
  find (fun c => String.eqb (g_name c) n) enum.

(** [self.functions.iter().find(|c| &c.name == function)]: by the full [StringName], not the signature *)
Definition fun_lookup (n : string) (gen : list (list tname)) (enum : list gdef) : option gdef :=
  find (fun c => String.eqb (g_name c) n && generics_eqb (g_generics c) gen) enum.

(** [Class::inherit] for functions (fields are alike): what [other] adds to [self] is everything whose BASE name
    no function of [self] has; [ctx.class] folds it over the enumeration of [parents] *)
Definition inherit (self other : list gdef) : list gdef :=
  self ++ filter (fun f => forallb (fun s => negb (String.eqb (g_name s) (g_name f))) self) other.
Definition inherit_all (self : list gdef) (parents : list (list gdef)) : list gdef :=
  fold_left inherit parents self.

(** [GetFun::fun] after inheritance, as a function of the enumeration of the parents *)
Definition member_lookup (n : string) (self : list gdef) (parents : list (list gdef)) : option gdef :=
  class_lookup n (inherit_all self parents).

(* ------------------------------------------------------------------------------------------------ *)
(** ** (d) first-element choices *)

Definition is_temp (t : tname) : bool :=
  match tn_name t with String c _ => Ascii.eqb c "@"%char | EmptyString => false end.

(** [Name::is_temporary]: [Vec::from_iter(&self.names).first()] *)
Definition is_temporary (enum : list tname) : bool :=
  match enum with [] => false | x :: _ => is_temp x end.

Inductive outcome (A : Type) : Type := Ok (a : A) | Panic.
Arguments Ok {A} a.
Arguments Panic {A}.

(** [StringName::args] of a well-formed [Callable[args, ret]]: [args.names.iter().next()] then its generics;
    panics ("Malformed callable args") when the argument name has no member *)
Definition callable_args (args_enum : list tname) : outcome (list (list tname)) :=
  match args_enum with [] => Panic | x :: _ => Ok (tn_generics x) end.

(* ------------------------------------------------------------------------------------------------ *)
(** ** Helper for the correspondence check only (no theorem depends on it)

    [TrueName::is_superset_of] restricted to the universe the C12 generator draws arm types from
    (Int, Float, Str, Bool, user classes without parents, None, List/Set/Tuple of those, never two
    collections whose element types are related): nullable rule of [TrueName::is_superset_of], reflexivity,
    [Float] above [Int] (stub [class int(float)]), [Any] above everything. *)
Definition sup_basic (o n : tname) : bool :=
  (tn_nullable o && is_null n) ||
  ((tn_nullable o || negb (tn_nullable n)) &&
   ((String.eqb (tn_name o) (tn_name n) && generics_eqb (tn_generics o) (tn_generics n))
    || (String.eqb (tn_name o) "Float" && String.eqb (tn_name n) "Int")
    || String.eqb (tn_name o) "Any")).
