(** * Totality of the modelled stages (property C03)

    Part 1 - the lexer ([model/Lex.v]): the fuel [S (S (length s))] of [tokenize] always
    suffices ([lex_total]); every loop iteration consumes at least one character
    ([scan_consumes]); interpolated expressions are strictly shorter than the string they sit in
    ([scan_string_exprs_short]); the partial Rust operations of the scanner are applied inside
    their domain ([slice_site_defined], [layout_amounts_nonneg], [loop_positions_ge1]).
    Part 2 - step bound: [model/Total.v] instruments the loop with a counter of [scan] calls;
    it computes the same result ([tok_loop_n_fst]) and the count is bounded by
    [length s * (1 + depth)] ([lex_steps_bound]), hence quadratic ([lex_steps_quadratic]).
    Part 3 - class lookup through parents ([model/Total.v]): terminates on acyclic class
    tables ([lookup_terminates], [has_parent_terminates]), diverges on [class A: A]
    ([lookup_refuted]). *)
From Coq Require Import List Ascii ZArith Bool Lia Arith.
From MambaModel Require Import model.LexTok gen.LexTables model.Lex proofs.LexProps model.Total.
Import ListNotations.

(** ** 1. One step of the string scanner, named *)

Local Open Scope Z_scope.

(** The body of the [for c in it] loop of the string arm of [into_tokens]
    (everything after the [break] test), exactly as inlined in [Lex.scan_string]. *)
Definition sstep (st : sstate) (c : ascii) : sstate :=
  let content := s_content st ++ [c] in
  if s_bslash st then
    {| s_content := content; s_bslash := Ascii.eqb c c_bslash; s_depth := s_depth st;
       s_cur_off := s_cur_off st; s_cur := s_cur st; s_exprs := s_exprs st |}
  else
    let cur := if 0 <? s_depth st then s_cur st ++ [c] else s_cur st in
    let off := if Ascii.eqb c c_lcb && (s_depth st =? 0)
               then Z.of_nat (length content) + 1 else s_cur_off st in
    let depth := if Ascii.eqb c c_lcb then s_depth st + 1
                 else if Ascii.eqb c c_rcb then s_depth st - 1 else s_depth st in
    if (depth =? 0) && negb (match cur with [] => true | _ => false end) then
      let e := removelast cur in
      {| s_content := content; s_bslash := Ascii.eqb c c_bslash; s_depth := depth;
         s_cur_off := off; s_cur := [];
         s_exprs := match e with [] => s_exprs st | _ => s_exprs st ++ [(off, e)] end |}
    else
      {| s_content := content; s_bslash := Ascii.eqb c c_bslash; s_depth := depth;
         s_cur_off := off; s_cur := cur; s_exprs := s_exprs st |}.

Definition sstop (st : sstate) (c : ascii) : bool :=
  negb (s_bslash st) && (s_depth st =? 0) && Ascii.eqb c c_quote.

Lemma scan_string_unfold st c r :
  scan_string st (c :: r) = if sstop st c then (st, r) else scan_string (sstep st c) r.
Proof. reflexivity. Qed.

(** The argument of the Rust slice [cur_expr[0..cur_expr.len() - 1]] (modelled by
    [removelast]) whenever the step reaches that line. *)
Definition slice_site (st : sstate) (c : ascii) : option str :=
  if s_bslash st then None
  else
    let cur := if 0 <? s_depth st then s_cur st ++ [c] else s_cur st in
    let depth := if Ascii.eqb c c_lcb then s_depth st + 1
                 else if Ascii.eqb c c_rcb then s_depth st - 1 else s_depth st in
    if (depth =? 0) && negb (match cur with [] => true | _ => false end) then Some cur else None.

(** Invariant of the string scanner: outside braces nothing is being collected; inside,
    what is collected is shorter than the content by at least the opening brace; every
    collected expression is at least two characters (its braces) shorter than the content;
    the sum of the lengths of all expressions is bounded the same way. *)
Definition exprs_len (es : list (Z * str)) : nat := list_sum (map (fun oe => length (snd oe)) es).

Definition SInv (st : sstate) : Prop :=
  (0 < s_depth st -> (length (s_cur st) + 1 <= length (s_content st))%nat)
  /\ (s_depth st <= 0 -> s_cur st = [])
  /\ Forall (fun oe => (length (snd oe) + 2 <= length (s_content st))%nat) (s_exprs st)
  /\ (exprs_len (s_exprs st) + length (s_cur st) <= length (s_content st))%nat.

Definition sstate0 : sstate :=
  {| s_content := []; s_bslash := false; s_depth := 0; s_cur_off := 1; s_cur := []; s_exprs := [] |}.

Lemma SInv0 : SInv sstate0.
Proof.
  unfold SInv, sstate0; cbn. repeat split; try lia; try reflexivity. constructor.
Qed.

Lemma exprs_len_app a b : exprs_len (a ++ b) = (exprs_len a + exprs_len b)%nat.
Proof. unfold exprs_len. rewrite map_app, list_sum_app. reflexivity. Qed.

Lemma removelast_snoc {A} (l : list A) (x : A) : removelast (l ++ [x]) = l.
Proof. apply removelast_last. Qed.

Lemma brace_ne : Ascii.eqb c_rcb c_lcb = false.
Proof. reflexivity. Qed.

(** When the slice line is reached, the collected text is non-empty and ends in the closing
    brace just read: [len - 1 >= 0], and the cut is on a character boundary. *)
Lemma slice_site_defined st c cur :
  SInv st -> slice_site st c = Some cur -> c = c_rcb /\ cur = s_cur st ++ [c_rcb] /\ 0 < s_depth st.
Proof.
  intros (Hpos & Hnil & _ & _) H. unfold slice_site in H.
  destruct (s_bslash st); [discriminate H|].
  destruct (0 <? s_depth st) eqn:Hd.
  - apply Z.ltb_lt in Hd.
    destruct (Ascii.eqb c c_lcb) eqn:Hl.
    + destruct (s_depth st + 1 =? 0) eqn:Hz; [apply Z.eqb_eq in Hz; lia | discriminate H].
    + destruct (Ascii.eqb c c_rcb) eqn:Hr.
      * apply Ascii.eqb_eq in Hr. subst c.
        destruct (s_depth st - 1 =? 0); [|discriminate H].
        destruct (s_cur st ++ [c_rcb]) eqn:Hc; [discriminate H|]. cbn in H. inversion H; subst.
        split; [reflexivity|]. split; [reflexivity | exact Hd].
      * destruct (s_depth st =? 0) eqn:Hz; [apply Z.eqb_eq in Hz; lia | discriminate H].
  - apply Z.ltb_ge in Hd. rewrite (Hnil Hd) in H.
    rewrite andb_false_r in H. discriminate H.
Qed.

Lemma Forall_len_mono (es : list (Z * str)) n m :
  (n <= m)%nat -> Forall (fun oe => (length (snd oe) + 2 <= n)%nat) es ->
  Forall (fun oe => (length (snd oe) + 2 <= m)%nat) es.
Proof. intros Hnm. apply Forall_impl. intros a Ha. lia. Qed.

Lemma sstep_content st c : s_content (sstep st c) = s_content st ++ [c].
Proof.
  unfold sstep. destruct (s_bslash st); [reflexivity|].
  match goal with |- context [if ?b then _ else _] => destruct b end; reflexivity.
Qed.

Lemma SInv_step st c : SInv st -> SInv (sstep st c).
Proof.
  intros (Hpos & Hnil & Hall & Hsum).
  assert (Hlen : length (s_content st ++ [c]) = S (length (s_content st))).
  { rewrite app_length. cbn. lia. }
  assert (Hall' : Forall (fun oe => (length (snd oe) + 2 <= S (length (s_content st)))%nat) (s_exprs st)).
  { eapply Forall_len_mono; [|exact Hall]. lia. }
  unfold sstep. destruct (s_bslash st).
  { unfold SInv; cbn [s_content s_depth s_cur s_exprs]. rewrite Hlen.
    repeat split; [intros H; specialize (Hpos H); lia | exact Hnil | exact Hall' | lia]. }
  destruct (0 <? s_depth st) eqn:Hd.
  - apply Z.ltb_lt in Hd. specialize (Hpos Hd).
    set (depth := if Ascii.eqb c c_lcb then s_depth st + 1
                  else if Ascii.eqb c c_rcb then s_depth st - 1 else s_depth st).
    assert (Hdep : s_depth st - 1 <= depth) by (unfold depth; destruct (Ascii.eqb c c_lcb), (Ascii.eqb c c_rcb); lia).
    destruct (depth =? 0) eqn:Hz.
    + apply Z.eqb_eq in Hz.
      destruct (s_cur st ++ [c]) eqn:Hc; [destruct (s_cur st); discriminate Hc|]. rewrite <- Hc.
      cbn [andb negb]. rewrite removelast_snoc.
      unfold SInv; cbn [s_content s_depth s_cur s_exprs]. rewrite Hlen, Hz.
      split; [lia|]. split; [reflexivity|].
      destruct (s_cur st) as [|x xs] eqn:Hcur.
      * split; [exact Hall'|]. cbn [length] in *. lia.
      * split.
        -- apply Forall_app. split; [exact Hall'|]. constructor; [|constructor]. cbn [snd]. lia.
        -- rewrite exprs_len_app.
           assert (He : forall (o : Z) (e : str), exprs_len [(o, e)] = length e)
             by (intros; unfold exprs_len; cbn; lia).
           rewrite He. cbn [length] in *. lia.
    + apply Z.eqb_neq in Hz. cbn [andb].
      unfold SInv; cbn [s_content s_depth s_cur s_exprs]. rewrite Hlen, app_length. cbn [length].
      split; [lia|]. split; [intros; lia|]. split; [exact Hall' | lia].
  - apply Z.ltb_ge in Hd. rewrite (Hnil Hd). cbn [negb andb]. rewrite andb_false_r.
    unfold SInv; cbn [s_content s_depth s_cur s_exprs length]. rewrite Hlen.
    rewrite (Hnil Hd) in Hsum. cbn [length] in Hsum.
    split; [lia|]. split; [reflexivity|]. split; [exact Hall' | lia].
Qed.

Lemma scan_string_inv s : forall st st' rest,
  SInv st -> scan_string st s = (st', rest) ->
  SInv st' /\ (length (s_content st') + length rest <= length (s_content st) + length s)%nat.
Proof.
  induction s as [|c r IH]; intros st st' rest Hinv H.
  - cbn in H. inversion H; subst. split; [exact Hinv | lia].
  - rewrite scan_string_unfold in H. destruct (sstop st c).
    + inversion H; subst. split; [exact Hinv | cbn [length]; lia].
    + apply IH in H; [|apply SInv_step, Hinv]. destruct H as [H1 H2]. split; [exact H1|].
      rewrite sstep_content, app_length in H2. cbn [length] in *. lia.
Qed.

(** Every interpolated expression of a string is at least two characters shorter than the
    characters after the opening quote, and together the expressions are no longer than them. *)
Theorem scan_string_exprs_short c r content exprs rest :
  scan c r = SString content exprs rest ->
  (length content + length rest <= length r)%nat
  /\ Forall (fun oe => (length (snd oe) + 2 <= length content)%nat) exprs
  /\ (exprs_len exprs <= length content)%nat.
Proof.
  unfold scan. intros H.
  destruct (match_prefix op_table (c :: r)) as [[t0 rest0]|]; [discriminate H|].
  destruct (Ascii.eqb c c_hash). { destruct (take_while not_eol r). discriminate H. }
  destruct (Ascii.eqb c c_quote).
  - fold sstate0 in H. destruct (scan_string sstate0 r) as [st rest'] eqn:Hs.
    inversion H; subst. apply scan_string_inv in Hs; [|apply SInv0].
    destruct Hs as [(_ & _ & Hall & Hsum) Hlen]. cbn [s_content sstate0 length] in Hlen.
    split; [lia|]. split; [exact Hall | lia].
  - destruct (Ascii.eqb c c_sp); [discriminate H|].
    destruct (Ascii.eqb c c_cr); [discriminate H|].
    destruct (Ascii.eqb c (ch 33)); [discriminate H|].
    destruct (is_digit c). { destruct (scan_number _ _ _ _ _ r) as [[[[? ?] ?] ?] ?]. discriminate H. }
    destruct (is_id_start c); [|discriminate H].
    destruct (take_while is_id_char r). discriminate H.
Qed.

(** ** 2. Every scanner call consumes at least the character it was given *)

Lemma scan_number_rest fuel : forall num exp fl en s num' exp' fl' en' rest,
  scan_number fuel num exp fl en s = (num', exp', fl', en', rest) -> (length rest <= length s)%nat.
Proof.
  induction fuel as [|fuel IH]; intros num exp fl en s num' exp' fl' en' rest H; cbn [scan_number] in H.
  - inversion H; subst. lia.
  - destruct s as [|c r]; [inversion H; subst; lia|].
    assert (Hstop : (num, exp, fl, en, c :: r) = (num', exp', fl', en', rest) -> (length rest <= length (c :: r))%nat).
    { intros E. inversion E; subst. lia. }
    destruct (is_digit c).
    + destruct en; apply IH in H; cbn [length]; lia.
    + destruct (Ascii.eqb c c_E).
      * destruct en; [apply Hstop, H|]. apply IH in H. cbn [length]; lia.
      * destruct (Ascii.eqb c c_dot); [|apply Hstop, H].
        destruct (fl || en); [apply Hstop, H|].
        destruct r as [|c2 r2].
        -- apply IH in H. cbn [length] in *; lia.
        -- destruct (Ascii.eqb c2 c_dot); [apply Hstop, H|]. apply IH in H. cbn [length] in *; lia.
Qed.

Definition op_table_nonempty : bool :=
  forallb (fun wt => match fst wt with [] => false | _ => true end) op_table.
Lemma op_table_nonempty_true : op_table_nonempty = true.
Proof. vm_compute. reflexivity. Qed.

Lemma match_prefix_rest s t rest :
  match_prefix op_table s = Some (t, rest) -> (length rest < length s)%nat.
Proof.
  intros H. apply match_prefix_sound in H as (w & Hin & ->).
  pose proof op_table_nonempty_true as Hne. unfold op_table_nonempty in Hne.
  rewrite forallb_forall in Hne. specialize (Hne _ Hin). cbn [fst] in Hne.
  destruct w; [discriminate Hne|]. rewrite app_length. cbn [length]. lia.
Qed.

Theorem scan_consumes c r :
  match scan c r with
  | STok _ rest | SString _ _ rest | SSpace rest => (length rest <= length r)%nat
  | SErr _ => True
  end.
Proof.
  destruct (scan c r) as [t rest | content exprs rest | rest | e] eqn:H; [| | |exact I].
  - unfold scan in H.
    destruct (match_prefix op_table (c :: r)) as [[t0 rest0]|] eqn:Hm.
    { inversion H; subst. apply match_prefix_rest in Hm. cbn [length] in Hm. lia. }
    destruct (Ascii.eqb c c_hash).
    { destruct (take_while not_eol r) as [cm rest'] eqn:Ht. inversion H; subst.
      apply take_while_split in Ht as [-> _]. rewrite app_length. lia. }
    destruct (Ascii.eqb c c_quote). { destruct (scan_string _ r). discriminate H. }
    destruct (Ascii.eqb c c_sp); [discriminate H|].
    destruct (Ascii.eqb c c_cr); [discriminate H|].
    destruct (Ascii.eqb c (ch 33)); [discriminate H|].
    destruct (is_digit c).
    { destruct (scan_number (S (length r)) [c] [] false false r) as [[[[number exp] float] e_num] rest'] eqn:Hn.
      inversion H; subst. eapply scan_number_rest, Hn. }
    destruct (is_id_start c); [|discriminate H].
    destruct (take_while is_id_char r) as [w rest'] eqn:Ht. inversion H; subst.
    apply take_while_split in Ht as [-> _]. rewrite app_length. lia.
  - apply scan_string_exprs_short in H. lia.
  - apply scan_space in H as [_ ->]. lia.
Qed.

(** ** 3. The fuel of [tokenize] suffices *)

Local Close Scope Z_scope.

Definition nested_step (fuel : nat) (st : state) :=
  fun (a : option (list lex) + (cpos * lexerr)) (oe : Z * str) =>
    match a with
    | inl (Some ls) =>
        match direct fuel (snd oe) with
        | inl (inl toks) =>
            let off := offset_pos (pos st) (fst oe) in
            inl (Some (ls ++ flat_map (fun x =>
              nest (mk_lex (pos_offset (lstart (top x)) off) (ltok (top x))) :: inner x) toks))
        | inl (inr e) => inr e
        | inr _ => inl None
        end
    | other => other
    end.

Lemma nested_fold_total fuel st exprs : forall a,
  Forall (fun oe => forall u, direct fuel (snd oe) <> inr u) exprs ->
  a <> inl None -> fold_left (nested_step fuel st) exprs a <> inl None.
Proof.
  induction exprs as [|oe es IH]; intros a Hall Ha; [exact Ha|].
  inversion Hall as [|? ? Hoe Hes]; subst. cbn [fold_left]. apply IH; [exact Hes|].
  unfold nested_step. destruct a as [[ls|]|e]; [|exact Ha|discriminate].
  destruct (direct fuel (snd oe)) as [[toks|e]|u] eqn:Hd; [discriminate | discriminate |].
  exfalso. apply (Hoe u). reflexivity.
Qed.

Theorem loop_total fuel :
  (forall s st acc u, length s < fuel -> tok_loop fuel s st acc <> inr u)
  /\ (forall s u, length s + 1 < fuel -> direct fuel s <> inr u).
Proof.
  induction fuel as [|fuel [IHl IHd]]; [split; intros; lia|].
  assert (Hloop : forall s st acc u, length s < S fuel -> tok_loop (S fuel) s st acc <> inr u).
  { intros s st acc u Hlen. cbn [tok_loop].
    destruct s as [|c r]; [discriminate|]. cbn [length] in Hlen.
    pose proof (scan_consumes c r) as Hc.
    destruct (scan c r) as [t rest | content exprs rest | rest | e] eqn:Hscan.
    - destruct (state_token st t) as [st' out]. apply IHl. lia.
    - destruct (is_docstring_arm content).
      + destruct (state_token st (string_tok content)) as [st' out]. apply IHl. lia.
      + apply scan_string_exprs_short in Hscan as (Hlen' & Hall & _).
        change (fun (a : option (list lex) + (cpos * lexerr)) (oe : Z * str) => _)
          with (nested_step fuel st).
        pose proof (nested_fold_total fuel st exprs (inl (Some []))) as Hf.
        destruct (fold_left (nested_step fuel st) exprs (inl (Some []))) as [[inn|]|e].
        * destruct (state_token st (string_tok content)) as [st' out]. apply IHl. lia.
        * exfalso. apply Hf; [|discriminate|reflexivity].
          eapply Forall_impl; [|exact Hall]. intros oe Hoe u'. cbn beta in Hoe. apply IHd. unfold str in *. lia.
        * discriminate.
    - apply IHl. lia.
    - discriminate. }
  split; [exact Hloop|].
  intros s u Hlen. cbn [direct].
  destruct (tok_loop fuel s state0 []) as [[[st acc]|e]|u'] eqn:Hr; [discriminate | discriminate |].
  exfalso. eapply (IHl s state0 [] u'); [lia | exact Hr].
Qed.

(** The lexer model terminates on every input: [tokenize]'s fuel is never exhausted, at any
    nesting of interpolated strings. *)
Theorem lex_total : forall s, tokenize s <> OutOfFuel.
Proof.
  intros s. unfold tokenize, tokenize_fuel.
  destruct (tok_loop (S (S (length s))) s state0 []) as [[[st acc]|[p e]]|u] eqn:Hr;
    [discriminate | discriminate |].
  exfalso. eapply (proj1 (loop_total (S (S (length s)))) s state0 [] u); [lia | exact Hr].
Qed.

(** More fuel never changes the verdict "not out of fuel" (so the bound is not tight by luck). *)
Corollary lex_total_any_fuel : forall s k, tokenize_fuel (S (length s) + k) s <> OutOfFuel.
Proof.
  intros s k. unfold tokenize_fuel.
  destruct (tok_loop (S (length s) + k) s state0 []) as [[[st acc]|[p e]]|u] eqn:Hr;
    [discriminate | discriminate |].
  exfalso. eapply (proj1 (loop_total (S (length s) + k)) s state0 [] u); [lia | exact Hr].
Qed.

(** ** 4. Class lookup through parents *)

Definition parent_of (ctx : list cls) (n p : str) : Prop :=
  exists c, find_class ctx n = Some c /\ In p (c_parents c).

(** [reach ctx n p]: [p] is a proper ancestor of [n] (one or more parent steps). *)
Inductive reach (ctx : list cls) : str -> str -> Prop :=
| reach1 n p : parent_of ctx n p -> reach ctx n p
| reachS n m p : parent_of ctx n m -> reach ctx m p -> reach ctx n p.

Definition acyclic (ctx : list cls) : Prop := forall n, ~ reach ctx n n.

Lemma reach_r ctx a b c : reach ctx a b -> parent_of ctx b c -> reach ctx a c.
Proof.
  induction 1 as [n p H | n m p H _ IH]; intros Hc.
  - eapply reachS; [exact H | apply reach1, Hc].
  - eapply reachS; [exact H | apply IH, Hc].
Qed.

Lemma find_class_some ctx n c : find_class ctx n = Some c -> In c ctx /\ c_name c = n.
Proof.
  induction ctx as [|d ctx IH]; cbn [find_class]; [discriminate|].
  destruct (str_eqb (c_name d) n) eqn:He.
  - intros H. inversion H; subst. apply str_eqb_eq in He. split; [left; reflexivity | exact He].
  - intros H. destruct (IH H) as [Hin Hn]. split; [right; exact Hin | exact Hn].
Qed.

Definition lookup_step (fuel : nat) (ctx : list cls) :=
  fun (a : lres) (p : str) =>
    match a with
    | Found ms => match lookup fuel ctx p with Found pm => Found (inherit ms pm) | other => other end
    | other => other
    end.

Lemma lookup_unfold fuel ctx n :
  lookup fuel ctx n =
  match find_class ctx n with
  | None => Undefined n
  | Some c => match fuel with
              | O => Diverges
              | S f => fold_left (lookup_step f ctx) (c_parents c) (Found (c_members c))
              end
  end.
Proof. destruct fuel; reflexivity. Qed.

Lemma lookup_fold_total fuel ctx ps : forall a,
  (forall p, In p ps -> lookup fuel ctx p <> Diverges) -> a <> Diverges ->
  fold_left (lookup_step fuel ctx) ps a <> Diverges.
Proof.
  induction ps as [|p ps IH]; intros a Hall Ha; [exact Ha|].
  cbn [fold_left]. apply IH; [intros q Hq; apply Hall; right; exact Hq|].
  unfold lookup_step. destruct a as [ms|u|]; [|exact Ha|exact Ha].
  pose proof (Hall p (or_introl eq_refl)) as Hp.
  destruct (lookup fuel ctx p); [discriminate | discriminate | exact Hp].
Qed.

(** The walk never revisits a class on an acyclic table, so the number of classes bounds its depth. *)
Lemma lookup_visited ctx (Hac : acyclic ctx) : forall fuel visited n,
  NoDup visited -> incl visited (map c_name ctx) -> (forall v, In v visited -> reach ctx v n) ->
  length ctx <= length visited + fuel -> lookup fuel ctx n <> Diverges.
Proof.
  induction fuel as [|fuel IH]; intros visited n Hnd Hincl Hreach Hlen; rewrite lookup_unfold;
    destruct (find_class ctx n) as [c|] eqn:Hf; try discriminate.
  - exfalso. destruct (find_class_some _ _ _ Hf) as [Hin Hn].
    assert (Hnv : ~ In n visited) by (intros Hv; apply (Hac n), Hreach, Hv).
    assert (Hnd' : NoDup (n :: visited)) by (constructor; assumption).
    assert (Hincl' : incl (n :: visited) (map c_name ctx)).
    { intros x [<- | Hx]; [rewrite <- Hn; apply in_map, Hin | apply Hincl, Hx]. }
    pose proof (NoDup_incl_length Hnd' Hincl') as Hl. rewrite map_length in Hl. cbn [length] in Hl. lia.
  - apply lookup_fold_total; [|discriminate].
    intros p Hp. destruct (find_class_some _ _ _ Hf) as [Hin Hn].
    assert (Hpar : parent_of ctx n p) by (exists c; split; assumption).
    assert (Hnv : ~ In n visited) by (intros Hv; apply (Hac n), Hreach, Hv).
    apply (IH (n :: visited)).
    + constructor; assumption.
    + intros x [<- | Hx]; [rewrite <- Hn; apply in_map, Hin | apply Hincl, Hx].
    + intros v [<- | Hv]; [apply reach1, Hpar | eapply reach_r; [apply Hreach, Hv | exact Hpar]].
    + cbn [length]. lia.
Qed.

Theorem lookup_terminates :
  forall ctx, acyclic ctx -> forall n, lookup (length ctx) ctx n <> Diverges.
Proof.
  intros ctx Hac n. apply (lookup_visited ctx Hac (length ctx) [] n).
  - constructor.
  - intros x [].
  - intros v [].
  - cbn [length]. lia.
Qed.

(** [class A: A] *)
Definition nameA : str := [ascii_of_nat 65].
Definition selfish : list cls := [{| c_name := nameA; c_parents := [nameA]; c_members := [] |}].

Lemma selfish_cyclic : ~ acyclic selfish.
Proof.
  intros H. apply (H nameA). apply reach1. eexists. split; [reflexivity | left; reflexivity].
Qed.

(** The walk on [class A: A] exhausts every fuel, not only [length ctx]: the real recursion
    has no bound at all (in the binary: stack overflow). *)
Lemma selfish_diverges : forall fuel, lookup fuel selfish nameA = Diverges.
Proof.
  induction fuel as [|fuel IH]; [reflexivity|].
  rewrite lookup_unfold.
  change (find_class selfish nameA)
    with (Some {| c_name := nameA; c_parents := [nameA]; c_members := [] |}).
  cbn [c_parents c_members fold_left]. unfold lookup_step. rewrite IH. reflexivity.
Qed.

Theorem lookup_refuted :
  exists ctx n, ~ acyclic ctx /\ lookup (length ctx) ctx n = Diverges.
Proof. exists selfish, nameA. split; [exact selfish_cyclic | apply selfish_diverges]. Qed.

(** [has_parent] *)
Definition hp_step (fuel : nat) (ctx : list cls) (other : str) :=
  fun (a : hres) (p : str) =>
    match a with
    | HBool b =>
        match lookup (length ctx) ctx p with
        | Found _ => match has_parent fuel ctx p other with HBool b' => HBool (b || b') | o => o end
        | Undefined _ => HErr
        | Diverges => HDiverges
        end
    | o => o
    end.

Lemma has_parent_unfold fuel ctx self other :
  has_parent fuel ctx self other =
  if str_eqb self other || str_eqb other any_name then HBool true
  else match find_class ctx self with
       | None => HErr
       | Some c => match fuel with
                   | O => HDiverges
                   | S f => fold_left (hp_step f ctx other) (c_parents c) (HBool false)
                   end
       end.
Proof. destruct fuel; reflexivity. Qed.

Lemma hp_fold_total fuel ctx other ps : forall a,
  (forall p, In p ps -> lookup (length ctx) ctx p <> Diverges) ->
  (forall p, In p ps -> has_parent fuel ctx p other <> HDiverges) -> a <> HDiverges ->
  fold_left (hp_step fuel ctx other) ps a <> HDiverges.
Proof.
  induction ps as [|p ps IH]; intros a Hl Hall Ha; [exact Ha|].
  cbn [fold_left]. apply IH; [intros q Hq; apply Hl; right; exact Hq
                             | intros q Hq; apply Hall; right; exact Hq|].
  unfold hp_step. destruct a as [b| |]; [|exact Ha|exact Ha].
  pose proof (Hl p (or_introl eq_refl)) as Hlp. pose proof (Hall p (or_introl eq_refl)) as Hp.
  destruct (lookup (length ctx) ctx p); [|discriminate|contradiction].
  destruct (has_parent fuel ctx p other); [discriminate | discriminate | exact Hp].
Qed.

Lemma has_parent_visited ctx (Hac : acyclic ctx) other : forall fuel visited n,
  NoDup visited -> incl visited (map c_name ctx) -> (forall v, In v visited -> reach ctx v n) ->
  length ctx <= length visited + fuel -> has_parent fuel ctx n other <> HDiverges.
Proof.
  induction fuel as [|fuel IH]; intros visited n Hnd Hincl Hreach Hlen; rewrite has_parent_unfold;
    (destruct (str_eqb n other || str_eqb other any_name); [discriminate|]);
    destruct (find_class ctx n) as [c|] eqn:Hf; try discriminate.
  - exfalso. destruct (find_class_some _ _ _ Hf) as [Hin Hn].
    assert (Hnv : ~ In n visited) by (intros Hv; apply (Hac n), Hreach, Hv).
    assert (Hnd' : NoDup (n :: visited)) by (constructor; assumption).
    assert (Hincl' : incl (n :: visited) (map c_name ctx)).
    { intros x [<- | Hx]; [rewrite <- Hn; apply in_map, Hin | apply Hincl, Hx]. }
    pose proof (NoDup_incl_length Hnd' Hincl') as Hl. rewrite map_length in Hl. cbn [length] in Hl. lia.
  - apply hp_fold_total; [intros p _; apply lookup_terminates, Hac | | discriminate].
    intros p Hp. destruct (find_class_some _ _ _ Hf) as [Hin Hn].
    assert (Hpar : parent_of ctx n p) by (exists c; split; assumption).
    assert (Hnv : ~ In n visited) by (intros Hv; apply (Hac n), Hreach, Hv).
    apply (IH (n :: visited)).
    + constructor; assumption.
    + intros x [<- | Hx]; [rewrite <- Hn; apply in_map, Hin | apply Hincl, Hx].
    + intros v [<- | Hv]; [apply reach1, Hpar | eapply reach_r; [apply Hreach, Hv | exact Hpar]].
    + cbn [length]. lia.
Qed.

Theorem has_parent_terminates :
  forall ctx, acyclic ctx -> forall n other, has_parent (length ctx) ctx n other <> HDiverges.
Proof.
  intros ctx Hac n other. apply (has_parent_visited ctx Hac other (length ctx) [] n).
  - constructor.
  - intros x [].
  - intros v [].
  - cbn [length]. lia.
Qed.

(** A rank function that decreases along parent edges certifies acyclicity. *)
Lemma ranked_acyclic ctx (rank : str -> nat) :
  (forall n p, parent_of ctx n p -> rank p < rank n) -> acyclic ctx.
Proof.
  intros Hr. assert (H : forall a b, reach ctx a b -> rank b < rank a).
  { induction 1 as [n p H | n m p H _ IH]; [apply Hr, H | apply Hr in H; lia]. }
  intros n Hn. apply H in Hn. lia.
Qed.

(** ** 5. The step-counting loop computes the same result, and its count is bounded *)

Definition nested_step_n (fuel : nat) (st : state) :=
  fun (a : (option (list lex) + (cpos * lexerr)) * nat) (oe : Z * str) =>
    match a with
    | (inl (Some ls), k) =>
        match direct_n fuel (snd oe) with
        | (inl (inl toks), m) =>
            let off := offset_pos (pos st) (fst oe) in
            (inl (Some (ls ++ flat_map (fun x =>
               nest (mk_lex (pos_offset (lstart (top x)) off) (ltok (top x))) :: inner x) toks)),
             k + m)
        | (inl (inr e), m) => (inr e, k + m)
        | (inr _, m) => (inl None, k + m)
        end
    | other => other
    end.

Lemma nested_fold_fst fuel st exprs :
  (forall s, fst (direct_n fuel s) = direct fuel s) ->
  forall a k, fst (fold_left (nested_step_n fuel st) exprs (a, k)) = fold_left (nested_step fuel st) exprs a.
Proof.
  intros Hd. induction exprs as [|oe es IH]; intros a k; [reflexivity|].
  cbn [fold_left].
  destruct a as [[ls|]|e]; cbn [nested_step_n nested_step]; try apply IH.
  rewrite <- (Hd (snd oe)). destruct (direct_n fuel (snd oe)) as [[[toks|e]|u] m]; cbn [fst]; apply IH.
Qed.

Theorem loop_n_fst fuel :
  (forall s st acc, fst (tok_loop_n fuel s st acc) = tok_loop fuel s st acc)
  /\ (forall s, fst (direct_n fuel s) = direct fuel s).
Proof.
  induction fuel as [|fuel [IHl IHd]]; [split; reflexivity|].
  assert (Hloop : forall s st acc, fst (tok_loop_n (S fuel) s st acc) = tok_loop (S fuel) s st acc).
  { intros s st acc. cbn [tok_loop_n tok_loop].
    destruct s as [|c r]; [reflexivity|].
    destruct (scan c r) as [t rest | content exprs rest | rest | e]; [| | |reflexivity].
    - destruct (state_token st t) as [st' out]. rewrite <- IHl.
      destruct (tok_loop_n fuel rest st' (acc ++ map tl0 out)) as [res n]. reflexivity.
    - destruct (is_docstring_arm content).
      + destruct (state_token st (string_tok content)) as [st' out]. rewrite <- IHl.
        destruct (tok_loop_n fuel rest st' (acc ++ map tl0 out)) as [res n]. reflexivity.
      + change (fun (a : option (list lex) + (cpos * lexerr)) (oe : Z * str) => _)
          with (nested_step fuel st).
        change (fun (a : (option (list lex) + (cpos * lexerr)) * nat) (oe : Z * str) => _)
          with (nested_step_n fuel st).
        rewrite <- (nested_fold_fst fuel st exprs IHd (inl (Some [])) 0).
        destruct (fold_left (nested_step_n fuel st) exprs (inl (Some []), 0)) as [[[inn|]|e] k];
          cbn [fst]; try reflexivity.
        destruct (state_token st (string_tok content)) as [st' out]. rewrite <- IHl.
        match goal with |- context [tok_loop_n fuel rest st' ?a] =>
          destruct (tok_loop_n fuel rest st' a) as [res n] end. reflexivity.
    - rewrite <- IHl. destruct (tok_loop_n fuel rest (state_space st) acc) as [res n]. reflexivity. }
  split; [exact Hloop|].
  intros s. cbn [direct_n direct]. rewrite <- IHl.
  destruct (tok_loop_n fuel s state0 []) as [[[[st acc]|e]|u] n]; reflexivity.
Qed.

(** The counter does not disturb the computation: the first component is [tokenize]'s loop. *)
Corollary lex_steps_same_run s :
  fst (tok_loop_n (S (S (length s))) s state0 []) = tok_loop (S (S (length s))) s state0 [].
Proof. apply loop_n_fst. Qed.

Definition ddepth (fuel : nat) (exprs : list (Z * str)) : nat :=
  fold_right (fun oe d => Nat.max (S (depth_direct fuel (snd oe))) d) 0 exprs.

Lemma ddepth_in fuel exprs oe : In oe exprs -> S (depth_direct fuel (snd oe)) <= ddepth fuel exprs.
Proof.
  induction exprs as [|x xs IH]; intros H; [destruct H|].
  cbn [ddepth fold_right]. fold (ddepth fuel xs). destruct H as [-> | H]; [lia | specialize (IH H); lia].
Qed.

Lemma nested_fold_steps fuel st D exprs :
  (forall oe, In oe exprs -> snd (direct_n fuel (snd oe)) <= length (snd oe) * D) ->
  forall a k, snd (fold_left (nested_step_n fuel st) exprs (a, k)) <= k + exprs_len exprs * D.
Proof.
  induction exprs as [|oe es IH]; intros Hall a k; [cbn; lia|].
  cbn [fold_left].
  assert (Hes : forall oe, In oe es -> snd (direct_n fuel (snd oe)) <= length (snd oe) * D)
    by (intros x Hx; apply Hall; right; exact Hx).
  assert (Hl : exprs_len (oe :: es) = length (snd oe) + exprs_len es) by reflexivity.
  rewrite Hl. pose proof (Hall oe (or_introl eq_refl)) as Hoe.
  destruct a as [[ls|]|e]; cbn [nested_step_n].
  - destruct (direct_n fuel (snd oe)) as [[[toks|e]|u] m]; cbn [snd] in Hoe;
      (eapply Nat.le_trans; [apply (IH Hes)|]); nia.
  - eapply Nat.le_trans; [apply (IH Hes)|]. nia.
  - eapply Nat.le_trans; [apply (IH Hes)|]. nia.
Qed.

Theorem loop_n_steps fuel :
  (forall s st acc, snd (tok_loop_n fuel s st acc) <= length s * (1 + depth_loop fuel s))
  /\ (forall s, snd (direct_n fuel s) <= length s * (1 + depth_direct fuel s)).
Proof.
  induction fuel as [|fuel [IHl IHd]]; [split; intros; cbn; lia|].
  assert (Hloop : forall s st acc,
             snd (tok_loop_n (S fuel) s st acc) <= length s * (1 + depth_loop (S fuel) s)).
  { intros s st acc. cbn [tok_loop_n depth_loop].
    destruct s as [|c r]; [cbn; lia|].
    pose proof (scan_consumes c r) as Hc. cbn [length].
    destruct (scan c r) as [t rest | content exprs rest | rest | e] eqn:Hscan; [| | |cbn [snd]; nia].
    - destruct (state_token st t) as [st' out].
      pose proof (IHl rest st' (acc ++ map tl0 out)) as H.
      destruct (tok_loop_n fuel rest st' (acc ++ map tl0 out)) as [res n]. cbn [snd] in *. nia.
    - apply scan_string_exprs_short in Hscan as (Hlen & Hall & Hsum).
      destruct (is_docstring_arm content).
      + destruct (state_token st (string_tok content)) as [st' out].
        pose proof (IHl rest st' (acc ++ map tl0 out)) as H.
        destruct (tok_loop_n fuel rest st' (acc ++ map tl0 out)) as [res n]. cbn [snd] in *. nia.
      + change (fun (a : (option (list lex) + (cpos * lexerr)) * nat) (oe : Z * str) => _)
          with (nested_step_n fuel st).
        fold (ddepth fuel exprs).
        set (D1 := ddepth fuel exprs). set (D2 := depth_loop fuel rest).
        assert (Hk : snd (fold_left (nested_step_n fuel st) exprs (inl (Some []), 0))
                     <= 0 + exprs_len exprs * D1).
        { apply nested_fold_steps. intros oe Hin.
          pose proof (ddepth_in fuel exprs oe Hin) as Hd. fold D1 in Hd.
          eapply Nat.le_trans; [apply IHd|]. nia. }
        destruct (fold_left (nested_step_n fuel st) exprs (inl (Some []), 0)) as [[[inn|]|e] k];
          cbn [snd] in Hk |- *; try nia.
        destruct (state_token st (string_tok content)) as [st' out].
        match goal with |- context [tok_loop_n fuel rest st' ?a] =>
          pose proof (IHl rest st' a) as H; destruct (tok_loop_n fuel rest st' a) as [res n] end.
        cbn [snd] in *. fold D2 in H.
        assert (k <= length content * Nat.max D1 D2) by nia.
        assert (n <= length rest * (1 + Nat.max D1 D2)) by nia.
        nia.
    - pose proof (IHl rest (state_space st) acc) as H.
      destruct (tok_loop_n fuel rest (state_space st) acc) as [res n]. cbn [snd] in *. nia. }
  split; [exact Hloop|].
  intros s. cbn [direct_n depth_direct]. pose proof (IHl s state0 []) as H.
  destruct (tok_loop_n fuel s state0 []) as [[[[st acc]|e]|u] n]; exact H.
Qed.

Lemma ddepth_short fuel (n : nat) exprs :
  (forall s, 2 * depth_direct fuel s <= length s) ->
  Forall (fun oe => length (snd oe) + 2 <= n) exprs -> 2 * ddepth fuel exprs <= n.
Proof.
  intros Hd. induction 1 as [|oe es Hoe _ IH]; [cbn; lia|].
  unfold ddepth. cbn [fold_right]. fold (ddepth fuel es). specialize (Hd (snd oe)).
  unfold str in *. lia.
Qed.

(** Every nesting level costs at least the two braces: depth is at most half the length. *)
Theorem depth_half fuel :
  (forall s, 2 * depth_loop fuel s <= length s) /\ (forall s, 2 * depth_direct fuel s <= length s).
Proof.
  induction fuel as [|fuel [IHl IHd]]; [split; intros; cbn; lia|].
  split; [|intros s; cbn [depth_direct]; apply IHl].
  intros s. cbn [depth_loop]. destruct s as [|c r]; [cbn; lia|].
  pose proof (scan_consumes c r) as Hc. cbn [length].
  destruct (scan c r) as [t rest | content exprs rest | rest | e] eqn:Hscan; [| | |lia].
  - specialize (IHl rest). lia.
  - apply scan_string_exprs_short in Hscan as (Hlen & Hall & _).
    specialize (IHl rest). fold (ddepth fuel exprs).
    pose proof (ddepth_short fuel (length content) exprs IHd) as Hdd.
    unfold str in *. specialize (Hdd Hall).
    destruct (is_docstring_arm content); lia.
  - specialize (IHl rest). lia.
Qed.

(** Step bound of the lexer: the number of scanner calls, nested re-lexing of interpolated
    expressions included, is at most [length * (1 + nesting depth)]. *)
Theorem lex_steps_bound : forall s, lex_steps s <= length s * (1 + lex_depth s).
Proof. intros s. apply loop_n_steps. Qed.

Theorem lex_depth_bound : forall s, 2 * lex_depth s <= length s.
Proof. intros s. apply depth_half. Qed.

Corollary lex_steps_quadratic : forall s, 2 * lex_steps s <= length s * (2 + length s).
Proof. intros s. pose proof (lex_steps_bound s). pose proof (lex_depth_bound s). nia. Qed.

(** ** 6. The partial operations of [State] and [CaretPos] stay inside their domain

    Inventory of the operations of [src/parse/lex] that can panic or abort, and where each is covered:
    - [cur_expr[0..cur_expr.len() - 1]] (tokenize.rs, string arm): [slice_site_defined] (section 1);
    - [it.next().unwrap()] in the comment arm: guarded by [it.peek().is_some()] in the same loop
      condition; the model's [take_while] is total by construction;
    - no other [unwrap]/[expect] in the lexer: [tokens.last()] and [newlines.pop()] are matched;
    - [as usize] on [i32] layout amounts (state.rs, three sites) feeding [vec![..; amount]]:
      [token_amounts_nonneg], [flush_amount_nonneg] below;
    - [usize] subtraction in [CaretPos::offset] (position.rs): [offset_sites_defined] below;
    - [(line as i32 + n as i32) as usize] in [offset_line], the [i32] counters [build_cur_expr],
      [line_indent], [cur_indent] and the [usize] line/column additions: overflow needs about 2^31
      characters of input; positions are [Z] in the model, so this is a stated bound, not a theorem.

    Rust sites: [((self.cur_indent) / 4) as usize] in [flush_indents] and the two
    [(.. - ..) / 4) as usize] in [State::token] feed [vec![..; amount]] (a negative [i32]
    would become an enormous [usize] and abort with "capacity overflow");
    [CaretPos::offset] computes [self.line + offset.line - 1] and [self.pos + offset.pos - 1]
    in [usize] (underflow iff both summands are 0). *)
Local Open Scope Z_scope.

Definition st_ok (st : state) : Prop :=
  1 <= line (pos st) /\ 1 <= col (pos st) /\ 1 <= cur_indent st /\ 1 <= line_indent st.

Lemma st_ok0 : st_ok state0.
Proof. unfold st_ok, state0; cbn. lia. Qed.

Lemma count_nl_nonneg s : 0 <= count_nl s.
Proof. induction s as [|c r IH]; cbn [count_nl]; [lia | destruct (Ascii.eqb c c_nl); lia]. Qed.

Lemma width_nonneg t : 0 <= width t.
Proof. unfold width. lia. Qed.

Lemma st_ok_space st : st_ok st -> st_ok (state_space st).
Proof.
  unfold st_ok, state_space; cbn. intros (H1 & H2 & H3 & H4).
  destruct (token_this_line st); lia.
Qed.

Lemma st_ok_token st t : st_ok st -> st_ok (fst (state_token st t)).
Proof.
  unfold st_ok. intros (H1 & H2 & H3 & H4).
  pose proof (width_nonneg t) as Hw.
  destruct t; cbn [state_token fst state_newline pos line col cur_indent line_indent offset_pos offset_line];
    try lia;
    match goal with |- context [count_nl ?s] => pose proof (count_nl_nonneg s); lia end.
Qed.

(** the layout amounts of [State::token] are differences taken in the right direction *)
Lemma token_amounts_nonneg st :
  (if cur_indent st <=? line_indent st then 0 <= Z.quot (line_indent st - cur_indent st) 4
   else 0 <= Z.quot (cur_indent st - line_indent st) 4).
Proof.
  destruct (cur_indent st <=? line_indent st) eqn:H.
  - apply Z.leb_le in H. apply Z.quot_pos; lia.
  - apply Z.leb_gt in H. apply Z.quot_pos; lia.
Qed.

Theorem loop_st_ok fuel : forall s st acc st' acc',
  st_ok st -> tok_loop fuel s st acc = inl (inl (st', acc')) -> st_ok st'.
Proof.
  induction fuel as [|fuel IH]; intros s st acc st' acc' Hok H; [discriminate H|].
  cbn [tok_loop] in H. destruct s as [|c r]; [inversion H; subst; exact Hok|].
  destruct (scan c r) as [t rest | content exprs rest | rest | e]; [| | |discriminate H].
  - pose proof (st_ok_token st t Hok) as Hok'.
    destruct (state_token st t) as [st1 out]. eapply IH; [exact Hok' | exact H].
  - pose proof (st_ok_token st (string_tok content) Hok) as Hok'.
    destruct (is_docstring_arm content).
    + destruct (state_token st (string_tok content)) as [st1 out]. eapply IH; [exact Hok' | exact H].
    + match type of H with
      | match ?nested with _ => _ end = _ => destruct nested as [[inn|]|err]; try discriminate H
      end.
      destruct (state_token st (string_tok content)) as [st1 out]. eapply IH; [exact Hok' | exact H].
  - eapply IH; [apply st_ok_space, Hok | exact H].
Qed.

(** [flush_indents]: the cast [(cur_indent / 4) as usize] is applied to a non-negative number,
    at top level and in every [tokenize_direct]. *)
Theorem flush_amount_nonneg fuel s st' acc' :
  tok_loop fuel s state0 [] = inl (inl (st', acc')) -> 0 <= Z.quot (cur_indent st') 4.
Proof.
  intros H. apply loop_st_ok in H; [|apply st_ok0]. destruct H as (_ & _ & H & _).
  apply Z.quot_pos; lia.
Qed.

(** Every string token is reached in a state whose position is at least 1:1, so
    [CaretPos::offset] (called with [offset = state.pos + column]) never underflows.
    [offset_sites fuel s st] checks this at every string of the run from [st]. *)
Fixpoint offset_sites (fuel : nat) (s : str) (st : state) : bool :=
  match fuel with
  | O => true
  | S fuel =>
      match s with
      | [] => true
      | c :: r =>
          match scan c r with
          | SErr _ => true
          | SSpace rest => offset_sites fuel rest (state_space st)
          | STok t rest => offset_sites fuel rest (fst (state_token st t))
          | SString content _ rest =>
              (1 <=? line (pos st)) && (1 <=? col (pos st))
              && offset_sites fuel rest (fst (state_token st (string_tok content)))
          end
      end
  end.

Theorem offset_sites_defined fuel : forall s st, st_ok st -> offset_sites fuel s st = true.
Proof.
  induction fuel as [|fuel IH]; intros s st Hok; [reflexivity|].
  cbn [offset_sites]. destruct s as [|c r]; [reflexivity|].
  destruct (scan c r) as [t rest | content exprs rest | rest | e]; [| | |reflexivity].
  - apply IH, st_ok_token, Hok.
  - destruct Hok as (H1 & H2 & H3 & H4).
    apply Z.leb_le in H1 as H1'. apply Z.leb_le in H2 as H2'. rewrite H1', H2'. cbn [andb].
    apply IH, st_ok_token. repeat split; assumption.
  - apply IH, st_ok_space, Hok.
Qed.

(** ** 7. Conjunctions pinned in props/C03.v *)
Local Close Scope Z_scope.

Lemma lex_steps_all :
  forall s,
    fst (tok_loop_n (S (S (length s))) s state0 []) = tok_loop (S (S (length s))) s state0 []
    /\ lex_steps s <= length s * (1 + lex_depth s)
    /\ 2 * lex_depth s <= length s
    /\ 2 * lex_steps s <= length s * (2 + length s).
Proof.
  intros s. split; [apply lex_steps_same_run|]. split; [apply lex_steps_bound|].
  split; [apply lex_depth_bound | apply lex_steps_quadratic].
Qed.

Lemma lex_no_panic_all :
  (* string scanner: shape of the state it runs in, from the opening quote on *)
  (forall s st rest, scan_string sstate0 s = (st, rest) -> SInv st)
  (* the slice [cur_expr[0..cur_expr.len() - 1]] *)
  /\ (forall st c cur, SInv st -> slice_site st c = Some cur ->
        c = c_rcb /\ cur = s_cur st ++ [c_rcb] /\ (0 < s_depth st)%Z)
  (* interpolated expressions are strictly shorter than what follows the opening quote *)
  /\ (forall c r content exprs rest, scan c r = SString content exprs rest ->
        length content + length rest <= length r
        /\ Forall (fun oe => length (snd oe) + 2 <= length content) exprs
        /\ exprs_len exprs <= length content)
  (* [as usize] casts that size [vec![..; amount]] *)
  /\ (forall st, if (cur_indent st <=? line_indent st)%Z
                 then (0 <= Z.quot (line_indent st - cur_indent st) 4)%Z
                 else (0 <= Z.quot (cur_indent st - line_indent st) 4)%Z)
  /\ (forall fuel s st acc, tok_loop fuel s state0 [] = inl (inl (st, acc)) ->
        (0 <= Z.quot (cur_indent st) 4)%Z)
  (* [CaretPos::offset] *)
  /\ (forall fuel s, offset_sites fuel s state0 = true).
Proof.
  split; [intros s st rest H; apply (scan_string_inv s sstate0 st rest SInv0 H)|].
  split; [exact slice_site_defined|].
  split; [exact scan_string_exprs_short|].
  split; [exact token_amounts_nonneg|].
  split; [exact flush_amount_nonneg|].
  intros fuel s. apply offset_sites_defined, st_ok0.
Qed.

Lemma total_partial :
  (forall s, tokenize s <> OutOfFuel)
  /\ (forall s, lex_steps s <= length s * (1 + lex_depth s) /\ 2 * lex_depth s <= length s)
  /\ (forall st c cur, SInv st -> slice_site st c = Some cur -> cur = s_cur st ++ [c_rcb])
  /\ (forall fuel s, offset_sites fuel s state0 = true)
  /\ (forall ctx, acyclic ctx ->
        forall n other, lookup (length ctx) ctx n <> Diverges
                        /\ has_parent (length ctx) ctx n other <> HDiverges)
  /\ (exists ctx n, ~ acyclic ctx /\ lookup (length ctx) ctx n = Diverges).
Proof.
  split; [exact lex_total|].
  split; [intros s; split; [apply lex_steps_bound | apply lex_depth_bound]|].
  split; [intros st c cur Hi Hs; apply (slice_site_defined st c cur Hi Hs)|].
  split; [intros fuel s; apply offset_sites_defined, st_ok0|].
  split; [intros ctx Hac n other; split; [apply lookup_terminates, Hac | apply has_parent_terminates, Hac]|].
  exact lookup_refuted.
Qed.
