(** * Two lexer runs whose positions differ by a number of lines (used by C14: blank lines)

    [lex_sh d a b]: same token, same nesting flag and - unless the token is a synthetic layout
    token - the span of [b] is the span of [a] moved down by [d] lines (columns unchanged).
    [tl_sh d]: that for the top-level token; the tokens of its interpolated expressions are the
    same token kinds ([lex_k]; the first level is moved, deeper levels keep their positions).
    [sim_loop_sh]: from states related by [st_sh d] the loop hands out [tl_sh d] tokens;
    the doc-string pass respects the relation ([doc_pass_sh]). *)
From Coq Require Import List Ascii ZArith Bool Lia Arith.
From MambaModel Require Import model.LexTok gen.LexTables model.Lex proofs.LexProps model.Trivia
  proofs.TriviaFuel proofs.TriviaScan proofs.TriviaSim.
Import ListNotations.
Local Open Scope Z_scope.

Definition shift (d : Z) (p : cpos) : cpos := {| line := line p + d; col := col p |}.

Definition lex_k (a b : lex) : Prop := ltok a = ltok b /\ lnested a = lnested b.
Definition lex_sh (d : Z) (a b : lex) : Prop :=
  ltok a = ltok b /\ lnested a = lnested b
  /\ (synthetic (ltok a) = false -> lstart b = shift d (lstart a) /\ lend b = shift d (lend a)).
Definition tl_sh (d : Z) (x y : tl) : Prop :=
  lex_sh d (top x) (top y) /\ Forall2 lex_k (inner x) (inner y).

Lemma lex_k_refl l : Forall2 lex_k l l.
Proof. induction l; constructor; [split; reflexivity | assumption]. Qed.

Lemma mk_lex_sh d p t : lex_sh d (mk_lex p t) (mk_lex (shift d p) t).
Proof.
  split; [reflexivity|]. split; [reflexivity|]. intros _. split; [reflexivity|].
  unfold mk_lex, shift. cbn [lend lstart line col]. destruct t; cbn [line col]; f_equal; lia.
Qed.

Lemma lex_sh_k d a b : lex_sh d a b -> lex_k a b.
Proof. intros (H1 & H2 & _). split; assumption. Qed.

Lemma Forall2_impl2 {A B} (R R' : A -> B -> Prop) l l' :
  (forall a b, R a b -> R' a b) -> Forall2 R l l' -> Forall2 R' l l'.
Proof. intros H. induction 1; constructor; auto. Qed.

Lemma Forall2_repeat2 {A B} (R : A -> B -> Prop) x y n : R x y -> Forall2 R (repeat x n) (repeat y n).
Proof. intros H. induction n; cbn; constructor; assumption. Qed.

Lemma Forall2_rev2 {A B} (R : A -> B -> Prop) l l' : Forall2 R l l' -> Forall2 R (rev l) (rev l').
Proof.
  induction 1; cbn; [constructor|]. apply Forall2_app; [assumption | constructor; [assumption | constructor]].
Qed.

Lemma tl0_sh d l l' : Forall2 (lex_sh d) l l' -> Forall2 (tl_sh d) (map tl0 l) (map tl0 l').
Proof. induction 1; cbn; constructor; [split; [assumption | constructor] | assumption]. Qed.

(** ** states *)

Definition st_sh (d : Z) (a b : state) : Prop :=
  Forall2 (lex_sh d) (newlines a) (newlines b) /\ cur_indent a = cur_indent b
  /\ line_indent a = line_indent b /\ token_this_line a = token_this_line b
  /\ pos b = shift d (pos a).

Lemma emit_layout_sh d a b : st_sh d a b -> Forall2 (lex_sh d) (emit_layout a) (emit_layout b).
Proof.
  intros (Hn & Hc & Hl & _ & Hp). unfold emit_layout. rewrite <- Hc, <- Hl, Hp.
  apply Forall2_rev2 in Hn.
  apply Forall2_app; [|apply Forall2_app].
  - destruct Hn; [constructor | constructor; [assumption | constructor]].
  - destruct (cur_indent a <=? line_indent a).
    + apply Forall2_repeat2, mk_lex_sh.
    + apply Forall2_app; [apply Forall2_repeat2, mk_lex_sh | constructor; [apply mk_lex_sh | constructor]].
  - destruct Hn; [constructor | apply Forall2_rev2; assumption].
Qed.

Lemma shift_offset_pos d p n : offset_pos (shift d p) n = shift d (offset_pos p n).
Proof. reflexivity. Qed.
Lemma shift_offset_line d p n : offset_line (shift d p) n = shift d (offset_line p n).
Proof. unfold offset_line, shift. cbn. f_equal. lia. Qed.

Lemma after_emit_sh d a b t : st_sh d a b -> st_sh d (after_emit a t) (after_emit b t).
Proof.
  intros (_ & _ & Hl & _ & Hp). unfold after_emit, st_sh.
  cbn [newlines cur_indent line_indent token_this_line pos]. rewrite <- Hl, Hp.
  split; [constructor|]. repeat split.
  destruct t; rewrite ?shift_offset_pos, ?shift_offset_line; reflexivity.
Qed.

Lemma state_newline_sh d a b : st_sh d a b -> st_sh d (state_newline a) (state_newline b).
Proof.
  intros (Hn & Hc & _ & _ & Hp). unfold state_newline, st_sh.
  cbn [newlines cur_indent line_indent token_this_line pos]. rewrite Hp.
  split; [apply Forall2_app; [exact Hn | constructor; [apply mk_lex_sh | constructor]]|].
  split; [exact Hc|]. repeat split. unfold shift. cbn. f_equal. lia.
Qed.

Lemma state_space_sh d a b : st_sh d a b -> st_sh d (state_space a) (state_space b).
Proof.
  intros (Hn & Hc & Hl & Hf & Hp). unfold state_space, st_sh.
  cbn [newlines cur_indent line_indent token_this_line pos]. rewrite <- Hl, <- Hf, Hp.
  repeat split; assumption.
Qed.

(** ** interpolated expressions: same kinds whatever the position of the string *)

Definition nacc_k (x y : nacc) : Prop :=
  match x, y with
  | inl (Some l1), inl (Some l2) => Forall2 lex_k l1 l2
  | inl None, inl None => True
  | inr e1, inr e2 => e1 = e2
  | _, _ => False
  end.

Lemma nest_toks_k p q k (toks : list tl) :
  Forall2 lex_k
    (flat_map (fun x => nest (mk_lex (pos_offset (lstart (top x)) (offset_pos p k)) (ltok (top x))) :: inner x) toks)
    (flat_map (fun x => nest (mk_lex (pos_offset (lstart (top x)) (offset_pos q k)) (ltok (top x))) :: inner x) toks).
Proof.
  induction toks as [|x toks IH]; cbn [flat_map]; [constructor|].
  apply Forall2_app; [|exact IH]. constructor; [split; reflexivity | apply lex_k_refl].
Qed.

Lemma nest_fold_k d p q : forall ex a b,
  nacc_k a b -> nacc_k (fold_left (nest_step d p) ex a) (fold_left (nest_step d q) ex b).
Proof.
  induction ex as [|oe ex IH]; intros a b H; [exact H|]. cbn [fold_left]. apply IH.
  destruct a as [[l1|]|e1], b as [[l2|]|e2]; cbn in H; try contradiction; cbn [nest_step]; try exact H.
  destruct (d (snd oe)) as [[toks|e]|u]; cbn; [|reflexivity | exact I].
  apply Forall2_app; [exact H | apply nest_toks_k].
Qed.

Lemma nest_all_k d p q ex : nacc_k (nest_all d p ex) (nest_all d q ex).
Proof. unfold nest_all. apply nest_fold_k. constructor. Qed.

(** ** steps and the loop *)

Definition step_sh (d : Z) (x y : stepres) : Prop :=
  match x, y with
  | Halt _, Halt _ => True
  | OOF, OOF => True
  | Next r1 a o1, Next r2 b o2 => r1 = r2 /\ st_sh d a b /\ Forall2 (tl_sh d) o1 o2
  | _, _ => False
  end.

Lemma token_step_sh d a b t rest :
  st_sh d a b ->
  step_sh d (let '(st', out) := state_token a t in Next rest st' (map tl0 out))
            (let '(st', out) := state_token b t in Next rest st' (map tl0 out)).
Proof.
  intros H. destruct (is_nl t) eqn:Ht.
  - apply is_nl_true in Ht. subst t. rewrite !state_token_nl. cbn.
    split; [reflexivity|]. split; [apply state_newline_sh, H | constructor].
  - apply is_nl_false in Ht. rewrite !(state_token_other _ t Ht). cbn [step_sh].
    split; [reflexivity|]. split; [apply after_emit_sh, H|].
    apply tl0_sh, Forall2_app; [apply emit_layout_sh, H|].
    destruct H as (_ & _ & _ & _ & ->). constructor; [apply mk_lex_sh | constructor].
Qed.

Lemma step_sim_sh f d c r a b : st_sh d a b -> step_sh d (step f c r a) (step f c r b).
Proof.
  intros H. unfold step. destruct (scan c r) as [t rest | content exprs rest | rest | e].
  - apply token_step_sh, H.
  - destruct (is_docstring_arm content); [apply token_step_sh, H|].
    pose proof (nest_all_k f (pos a) (pos b) exprs) as Hn.
    destruct (nest_all f (pos a) exprs) as [[inn|]|err], (nest_all f (pos b) exprs) as [[inn'|]|err'];
      cbn in Hn; try contradiction; try exact I.
    rewrite !emit_str_eq. cbn [step_sh]. split; [reflexivity|]. split; [apply after_emit_sh, H|].
    apply Forall2_app; [apply tl0_sh, emit_layout_sh, H|].
    constructor; [|constructor]. split; [|exact Hn]. cbn [top].
    destruct H as (_ & _ & _ & _ & ->). apply mk_lex_sh.
  - cbn. split; [reflexivity|]. split; [apply state_space_sh, H | constructor].
  - exact I.
Qed.

Definition res_sh (d : Z) (R : state -> state -> Prop) (x y : lres) : Prop :=
  match x, y with
  | inl (inl (a, oa)), inl (inl (b, ob)) => R a b /\ Forall2 (tl_sh d) oa ob
  | inl (inr _), inl (inr _) => True
  | inr _, inr _ => True
  | _, _ => False
  end.

Lemma res_sh_with_acc d R acc1 acc2 x y :
  Forall2 (tl_sh d) acc1 acc2 -> res_sh d R x y -> res_sh d R (with_acc acc1 x) (with_acc acc2 y).
Proof.
  intros Ha. destruct x as [[[a oa]|e1]|u1], y as [[[b ob]|e2]|u2]; cbn; try tauto.
  intros [H1 H2]. split; [exact H1 | apply Forall2_app; assumption].
Qed.

Lemma sim_loop_sh d fuel : forall s a b,
  st_sh d a b -> res_sh d (st_sh d) (tok_loop fuel s a []) (tok_loop fuel s b []).
Proof.
  induction fuel as [|fuel IH]; intros s a b H.
  - rewrite !tok_loop_O. exact I.
  - destruct s as [|c r].
    + rewrite !tok_loop_nil. cbn. split; [exact H | constructor].
    + rewrite !tok_loop_step. pose proof (step_sim_sh (direct fuel) d c r a b H) as Hs.
      destruct (step (direct fuel) c r a) as [e1| |r1 a1 o1], (step (direct fuel) c r b) as [e2| |r2 b1 o2];
        cbn [step_sh] in Hs; try contradiction; try exact I.
      destruct Hs as (-> & Hst & Ho). cbn [app].
      rewrite (loop_acc fuel r2 a1 o1), (loop_acc fuel r2 b1 o2).
      apply res_sh_with_acc; [exact Ho | apply IH, Hst].
Qed.

(** ** the doc-string pass *)

Lemma lex_sh_str d a b :
  lex_sh d a b ->
  (is_str (ltok a) = true /\ ltok a = ltok b
   /\ lstart b = shift d (lstart a) /\ lend b = shift d (lend a))
  \/ (is_str (ltok a) = false /\ is_str (ltok b) = false).
Proof.
  intros (Ht & _ & Hs). destruct (is_str (ltok a)) eqn:E.
  - left. destruct (Hs (is_str_not_synth _ E)) as [H1 H2]. repeat split; assumption.
  - right. split; [reflexivity | rewrite <- Ht; exact E].
Qed.

Definition olex_sh (d : Z) (x y : option lex) : Prop :=
  match x, y with Some a, Some b => lex_sh d a b | None, None => True | _, _ => False end.
Definition otl_sh (d : Z) (x y : option tl) : Prop :=
  match x, y with Some a, Some b => tl_sh d a b | None, None => True | _, _ => False end.

Lemma otop_sh d x y : otl_sh d x y -> olex_sh d (otop x) (otop y).
Proof. destruct x, y; cbn; try tauto. intros [H _]. exact H. Qed.

(** the decision of [doc_get] and the token it makes *)
Lemma doc_get_sh d f f' m m' b b' :
  olex_sh d f f' -> olex_sh d m m' -> olex_sh d b b' ->
  olex_sh d (doc_get f m b) (doc_get f' m' b').
Proof.
  intros Hf Hm Hb.
  destruct f as [lf|], f' as [lf'|]; cbn in Hf; try contradiction; [|exact I].
  destruct m as [lm|], m' as [lm'|]; cbn in Hm; try contradiction; [|rewrite !doc_get_none_m; exact I].
  destruct b as [lb|], b' as [lb'|]; cbn in Hb; try contradiction; [|rewrite !doc_get_none_b; exact I].
  destruct (lex_sh_str _ _ _ Hf) as [(F1 & F2 & F3 & F4) | [H1 H2]];
    [|rewrite (doc_get_f_nonstr _ _ _ H1), (doc_get_f_nonstr _ _ _ H2); exact I].
  destruct (lex_sh_str _ _ _ Hm) as [(M1 & M2 & M3 & M4) | [H1 H2]];
    [|rewrite (doc_get_m_nonstr _ _ _ H1), (doc_get_m_nonstr _ _ _ H2); exact I].
  destruct (lex_sh_str _ _ _ Hb) as [(B1 & B2 & B3 & B4) | [H1 H2]];
    [|rewrite (doc_get_b_nonstr _ _ _ H1), (doc_get_b_nonstr _ _ _ H2); exact I].
  unfold doc_get. rewrite <- F2, <- M2, <- B2.
  destruct (ltok lf) eqn:Ef; try (cbn in F1; discriminate F1).
  destruct (ltok lm) eqn:Em; try (cbn in M1; discriminate M1).
  destruct (ltok lb) eqn:Eb; try (cbn in B1; discriminate B1).
  rewrite F4, M3, M4, B3. unfold shift. cbn [col].
  match goal with |- olex_sh d (if ?c then _ else _) _ => destruct c end; [|exact I].
  cbn [olex_sh]. rewrite F3. apply mk_lex_sh.
Qed.

Lemma opt_list_sh d (m m' : option tl) :
  otl_sh d m m' ->
  Forall2 (tl_sh d) (match m with Some l => [l] | None => [] end) (match m' with Some l => [l] | None => [] end).
Proof. destruct m, m'; cbn; try tauto; intros H; constructor; [exact H | constructor]. Qed.

Lemma doc_pass_sh d input input' :
  Forall2 (tl_sh d) input input' ->
  forall m m' b b', otl_sh d m m' -> otl_sh d b b' ->
    Forall2 (tl_sh d) (doc_pass None m b input) (doc_pass None m' b' input').
Proof.
  induction 1 as [|l l' rest rest' Hl Hrest IH]; intros m m' b b' Hm Hb.
  - cbn [doc_pass app]. apply Forall2_app; apply opt_list_sh; assumption.
  - cbn [doc_pass].
    pose proof (doc_get_sh d (otop m) (otop m') (otop b) (otop b') (otop (Some l)) (otop (Some l'))
                  (otop_sh d _ _ Hm) (otop_sh d _ _ Hb) (otop_sh d (Some l) (Some l') Hl)) as Hg.
    destruct (doc_get (otop m) (otop b) (otop (Some l))) as [x|],
             (doc_get (otop m') (otop b') (otop (Some l'))) as [x'|]; cbn in Hg; try contradiction.
    + constructor; [split; [exact Hg | constructor] | apply IH; exact I].
    + destruct m as [y|], m' as [y'|]; cbn in Hm; try contradiction.
      * constructor; [exact Hm | apply IH; [exact Hb | exact Hl]].
      * apply IH; [exact Hb | exact Hl].
Qed.

(** kinds *)
Lemma kinds_flatten_sh d l1 l2 : Forall2 (tl_sh d) l1 l2 -> map ltok (flatten l1) = map ltok (flatten l2).
Proof.
  induction 1 as [|x y l1 l2 [[Hk _] Hin] _ IH]; [reflexivity|].
  unfold flatten in *. cbn [flat_map]. rewrite !map_app, IH. f_equal. cbn [map]. rewrite Hk. f_equal.
  clear -Hin. induction Hin as [|a b la lb [Hab _] _ IHi]; [reflexivity|]. cbn [map]. rewrite Hab, IHi. reflexivity.
Qed.
