(** * DiagProps: what the diagnostic renderers of model/Diag.v do, for every position, message and source.

    The centre is [format_location_spec]: for every in-range position the machine-arithmetic renderer
    [format_location] does not panic and produces exactly [spec_location], a closed form written with
    ordinary integers and a direct lookup of "the line with that number".  Everything the property asks
    of a rendered diagnostic (header, verbatim quoted line, caret column, totality) is read off that
    closed form; everything that is false of the code is stated as a [_refuted] witness. *)
From Coq Require Import String Ascii List ZArith Bool Lia.
From MambaModel Require Import gen.DiagConsts model.Diag.
Import ListNotations.
Local Open Scope string_scope.
Local Open Scope Z_scope.

(** ** Side condition on the regenerated constants (discharged by computation) *)

Definition consts_ok : bool :=
  (0 <=? OFFSET_WIDTH) && (OFFSET_WIDTH <=? 64)
  && (0 <=? SYNTAX_ERR_MAX_DEPTH) && (SYNTAX_ERR_MAX_DEPTH <=? 64).

Lemma consts_ok_generated : consts_ok = true.
Proof. vm_compute. reflexivity. Qed.

Lemma ow_bounds : 0 <= OFFSET_WIDTH <= 64.
Proof.
  pose proof consts_ok_generated as H. unfold consts_ok in H.
  repeat (apply andb_prop in H; destruct H as [H ?]).
  apply Z.leb_le in H. apply Z.leb_le in H0. lia.
Qed.

Lemma depth_bounds : 0 <= SYNTAX_ERR_MAX_DEPTH <= 64.
Proof.
  pose proof consts_ok_generated as H. unfold consts_ok in H.
  repeat (apply andb_prop in H; destruct H as [H ?]).
  apply Z.leb_le in H1. apply Z.leb_le in H2. lia.
Qed.

(** ** Strings *)

Lemma app_assoc_s : forall a b c : string, (a ++ b) ++ c = a ++ (b ++ c).
Proof. induction a; intros; cbn [append]; [reflexivity | now rewrite IHa]. Qed.

Lemma app_empty_r : forall a : string, a ++ "" = a.
Proof. induction a; cbn [append]; [reflexivity | now rewrite IHa]. Qed.

Lemma length_app : forall a b : string, String.length (a ++ b) = (String.length a + String.length b)%nat.
Proof. induction a; intros; cbn [append String.length]; [reflexivity | now rewrite IHa]. Qed.

Lemma length_rep : forall c n, String.length (rep c n) = n.
Proof. induction n; cbn [rep String.length]; [reflexivity | now rewrite IHn]. Qed.

Lemma Val_inj : forall (A : Type) (a b : A), Val a = Val b -> a = b.
Proof. intros A a b H. now injection H. Qed.

(** ** Machine integers *)

Lemma as_i32_small : forall n, 0 <= n < two31 -> as_i32 n = n.
Proof.
  intros n H. unfold as_i32. rewrite Z.mod_small by (unfold two31, two32 in *; lia).
  destruct (Z.ltb_spec n two31); [reflexivity | lia].
Qed.

Lemma as_i32_usize_max : as_i32 usize_max = -1.
Proof. reflexivity. Qed.

Lemma i32_sub_ok : forall a b, - two31 <= a - b < two31 -> i32_sub a b = Val (a - b).
Proof.
  intros a b H. unfold i32_sub.
  destruct (Z.leb_spec (- two31) (a - b)); destruct (Z.ltb_spec (a - b) two31); cbn [andb]; try reflexivity; lia.
Qed.

Lemma usize_sub_ok : forall a b, b <= a -> usize_sub a b = Val (a - b).
Proof. intros a b H. unfold usize_sub. destruct (Z.leb_spec b a); [reflexivity | lia]. Qed.

Lemma usize_sub_pan : forall a b, a < b -> usize_sub a b = Pan.
Proof. intros a b H. unfold usize_sub. destruct (Z.leb_spec b a); [lia | reflexivity]. Qed.

Lemma usize_add_ok : forall a b, a + b <= usize_max -> usize_add a b = Val (a + b).
Proof. intros a b H. unfold usize_add. destruct (Z.leb_spec (a + b) usize_max); [reflexivity | lia]. Qed.

Lemma usize_mul_ok : forall a b, a * b <= usize_max -> usize_mul a b = Val (a * b).
Proof. intros a b H. unfold usize_mul. destruct (Z.leb_spec (a * b) usize_max); [reflexivity | lia]. Qed.

Lemma byte_vec_ok : forall c n, n <= alloc_cap -> byte_vec c n = Val (rep c (Z.to_nat n)).
Proof.
  intros c n H. unfold byte_vec.
  destruct (Z.gtb_spec n isize_max); [unfold alloc_cap, isize_max in *; lia |].
  destruct (Z.gtb_spec n alloc_cap); [lia | reflexivity].
Qed.

(** ** Decimal numerals: [dec] writes the number the header is said to name *)

Fixpoint undec_go (s : string) (acc : Z) : Z :=
  match s with
  | EmptyString => acc
  | String c r => undec_go r (10 * acc + (Z.of_nat (nat_of_ascii c) - 48))
  end.

(** reading a decimal numeral back *)
Definition undec (s : string) : Z := undec_go s 0.

Lemma undec_go_app : forall a b acc, undec_go (a ++ b) acc = undec_go b (undec_go a acc).
Proof. induction a; intros; cbn [append undec_go]; [reflexivity | now rewrite IHa]. Qed.

Lemma digit_value : forall n, 0 <= n < 10 -> Z.of_nat (nat_of_ascii (digit n)) - 48 = n.
Proof.
  intros n H. unfold digit. rewrite nat_ascii_embedding by lia. lia.
Qed.

Lemma dec_go_spec : forall fuel n acc, 0 <= n < 10 ^ Z.of_nat fuel -> (0 < fuel)%nat ->
  exists ds, dec_go fuel n acc = ds ++ acc /\
             forall a, undec_go ds a = a * 10 ^ Z.of_nat (String.length ds) + n.
Proof.
  induction fuel as [| f IH]; intros n acc Hn Hf; [lia |].
  cbn [dec_go]. destruct (Z.ltb_spec n 10) as [Hlt | Hge].
  - exists (String (digit (n mod 10)) EmptyString). split; [reflexivity |].
    intros a. cbn [undec_go String.length]. rewrite Z.mod_small by lia. rewrite digit_value by lia.
    change (Z.of_nat 1) with 1. lia.
  - assert (Hf' : (0 < f)%nat).
    { destruct f; [| lia]. change (10 ^ Z.of_nat 1) with 10 in Hn. lia. }
    assert (Hq : 0 <= n / 10 < 10 ^ Z.of_nat f).
    { split; [apply Z.div_pos; lia |]. apply Z.div_lt_upper_bound; [lia |].
      replace (Z.of_nat (S f)) with (Z.of_nat f + 1) in Hn by lia.
      rewrite Z.pow_add_r in Hn by lia. lia. }
    destruct (IH (n / 10) (String (digit (n mod 10)) acc) Hq Hf') as [ds [E V]].
    exists (ds ++ String (digit (n mod 10)) EmptyString). split.
    + rewrite E. now rewrite app_assoc_s.
    + intros a. rewrite undec_go_app, V. cbn [undec_go].
      rewrite digit_value by (apply Z.mod_pos_bound; lia).
      rewrite length_app. cbn [String.length].
      replace (Z.of_nat (String.length ds + 1)) with (Z.of_nat (String.length ds) + 1) by lia.
      rewrite Z.pow_add_r by lia. pose proof (Z.div_mod n 10). lia.
Qed.

(** Every [usize] is written as its decimal numeral. *)
Theorem dec_roundtrip : forall n, is_usize n -> undec (dec n) = n.
Proof.
  intros n [H0 H1]. unfold dec, undec.
  destruct (dec_go_spec 20 n EmptyString) as [ds [E V]]; [| lia |].
  - split; [assumption |]. unfold usize_max in H1. change (10 ^ Z.of_nat 20) with 100000000000000000000. lia.
  - rewrite E, app_empty_r, V. lia.
Qed.

(** ** [lines] and line lookup *)

Lemma split_nl_length : forall s, (List.length (split_nl s) <= String.length s)%nat.
Proof.
  induction s as [| c r IH]; cbn [split_nl String.length List.length]; [lia |].
  destruct (Ascii.eqb c nl); cbn [List.length]; [lia |].
  destruct (split_nl r) as [| [l t] tl]; cbn [List.length] in *; lia.
Qed.

Lemma lines_length : forall s, (List.length (lines s) <= String.length s)%nat.
Proof. intros s. unfold lines. rewrite map_length. apply split_nl_length. Qed.

(** "the line with number [n]" (1-based), independent of any machine arithmetic *)
Definition nth_line (src : string) (n : Z) : option string :=
  if 1 <=? n then nth_error (lines src) (Z.to_nat (n - 1)) else None.

Lemma nth_z_nth_error : forall (A : Type) (l : list A) i, 0 <= i -> nth_z l i = nth_error l (Z.to_nat i).
Proof.
  intros A l i Hi. unfold nth_z. destruct (Z.ltb_spec i (Z.of_nat (List.length l))); [reflexivity |].
  symmetry. apply nth_error_None. lia.
Qed.

Lemma nth_z_beyond : forall (A : Type) (l : list A) i, Z.of_nat (List.length l) <= i -> nth_z l i = None.
Proof. intros A l i H. unfold nth_z. destruct (Z.ltb_spec i (Z.of_nat (List.length l))); [lia | reflexivity]. Qed.

Definition src_len_ok (src : string) : Prop := Z.of_nat (String.length src) <= isize_max.

Lemma nth_z_usize_max : forall src, src_len_ok src -> nth_z (lines src) usize_max = None.
Proof.
  intros src H. apply nth_z_beyond. pose proof (lines_length src). unfold src_len_ok, isize_max, usize_max in *. lia.
Qed.

Definition small (n : Z) : Prop := 0 <= n < 2147483646.

Lemma before_lookup : forall src sl, small sl -> src_len_ok src ->
  nth_z (lines src) (i32_to_usize (Z.max (sl - 2) (-1))) = nth_line src (sl - 1).
Proof.
  intros src sl Hs Hl. unfold nth_line, small in *.
  destruct (Z.leb_spec 1 (sl - 1)).
  - rewrite Z.max_l by lia. unfold i32_to_usize. destruct (Z.ltb_spec (sl - 2) 0); [lia |].
    rewrite nth_z_nth_error by lia. f_equal. f_equal. lia.
  - rewrite Z.max_r by lia. change (i32_to_usize (-1)) with usize_max. now apply nth_z_usize_max.
Qed.

Lemma line_lookup : forall src sl, small sl -> src_len_ok src ->
  nth_z (lines src) (i32_to_usize (Z.max (sl - 1) (-1))) = nth_line src sl.
Proof.
  intros src sl Hs Hl. unfold nth_line, small in *.
  destruct (Z.leb_spec 1 sl).
  - rewrite Z.max_l by lia. unfold i32_to_usize. destruct (Z.ltb_spec (sl - 1) 0); [lia |].
    now rewrite nth_z_nth_error by lia.
  - rewrite Z.max_r by lia. change (i32_to_usize (-1)) with usize_max. now apply nth_z_usize_max.
Qed.

Lemma after_lookup : forall src sl, small sl -> src_len_ok src ->
  nth_z (lines src) (Z.max sl usize_max) = None.
Proof.
  intros src sl Hs Hl. rewrite Z.max_r by (unfold small, usize_max in *; lia). now apply nth_z_usize_max.
Qed.

Lemma nth_line_some_pos : forall src n l, nth_line src n = Some l -> 1 <= n.
Proof. intros src n l. unfold nth_line. destruct (Z.leb_spec 1 n); [lia | discriminate]. Qed.

(** ** The closed-form specification of [format_location] *)

Definition spec_width (p : position) : Z := Z.max 1 (Z.abs (col (end_ p) - col (start p))).

(** One excerpt row: the line numbered [n], quoted verbatim behind its number, or [dflt] when there is no
    such line or it is empty. *)
Definition spec_row (ind : string) (n : Z) (src : string) (dflt : string) : string :=
  match nth_line src n with
  | Some l => if is_empty l then dflt else quote_row ind n l
  | None => dflt
  end.

Definition spec_excerpt (ind : string) (p : position) (source : option string) : string * string :=
  match source with
  | Some src => (spec_row ind (line (start p) - 1) src EmptyString,
                 spec_row ind (line (start p)) src (UNKNOWN ++ NL))
  | None => (EmptyString, UNKNOWN ++ NL)
  end.

Definition spec_caret_row (offset : Z) (p : position) : string :=
  GUTTER ++ rep " " (Z.to_nat (offset * OFFSET_WIDTH + col (start p) - 1))
         ++ rep "^" (Z.to_nat (spec_width p)).

Definition spec_location (offset : Z) (msg : option string) (p : position) (source : option string) : string :=
  let ind := rep " " (Z.to_nat (OFFSET_WIDTH * offset)) in
  hook_line ind msg ++ fst (spec_excerpt ind p source) ++ snd (spec_excerpt ind p source)
  ++ spec_caret_row offset p ++ NL.

(** A position the renderer can draw at indentation level [offset] (0 for the error itself, 1 for its
    first cause). *)
Definition in_range (offset : Z) (p : position) : Prop :=
  small (line (start p)) /\ small (col (start p)) /\ small (col (end_ p)) /\
  1 <= offset * OFFSET_WIDTH + col (start p) /\
  offset * OFFSET_WIDTH + col (start p) - 1 <= alloc_cap /\
  Z.abs (col (end_ p) - col (start p)) <= alloc_cap.

Definition source_ok (source : option string) : Prop :=
  match source with Some src => src_len_ok src | None => True end.

Lemma get_width_spec : forall p, small (col (start p)) -> small (col (end_ p)) ->
  get_width p = Val (spec_width p).
Proof.
  intros p Hs He. unfold get_width, spec_width, small in *.
  rewrite !as_i32_small by (unfold two31; lia).
  rewrite !i32_sub_ok by (unfold two31; lia). cbn [bind]. f_equal. f_equal.
  unfold i32_to_usize.
  destruct (Z.ltb_spec (Z.max (col (end_ p) - col (start p)) (col (start p) - col (end_ p))) 0); lia.
Qed.

Lemma caret_row_spec : forall offset p, (offset = 0 \/ offset = 1) -> in_range offset p ->
  caret_row offset p = Val (spec_caret_row offset p).
Proof.
  intros offset p Ho (Hl & Hs & He & H1 & Hcap & Hw). pose proof ow_bounds as Hb.
  unfold caret_row, spec_caret_row, small in *.
  rewrite usize_mul_ok by (unfold usize_max; nia). cbn [bind].
  rewrite usize_add_ok by (unfold usize_max; nia). cbn [bind].
  rewrite usize_sub_ok by lia. cbn [bind].
  rewrite byte_vec_ok by lia. cbn [bind].
  rewrite get_width_spec by (unfold small; lia). cbn [bind].
  rewrite byte_vec_ok by (unfold spec_width, alloc_cap in *; lia). cbn [bind].
  reflexivity.
Qed.

Lemma source_parts_spec : forall ind p source,
  small (line (start p)) -> source_ok source ->
  source_parts ind p source = Val (fst (spec_excerpt ind p source), snd (spec_excerpt ind p source), NL).
Proof.
  intros ind p [src |] Hl Hok; [| reflexivity].
  cbn [source_ok] in Hok. unfold source_parts, spec_excerpt, spec_row. cbn [fst snd].
  set (sl := line (start p)) in *.
  assert (Hs : 0 <= sl < two31) by (unfold small, two31 in *; lia).
  rewrite (as_i32_small sl Hs), as_i32_usize_max.
  rewrite !i32_sub_ok by (unfold small, two31 in *; lia). cbn [bind].
  rewrite before_lookup, line_lookup, after_lookup by assumption. cbn [bind].
  destruct (nth_line src (sl - 1)) as [l0 |] eqn:E0.
  - apply nth_line_some_pos in E0.
    destruct (is_empty l0); cbn [bind].
    + destruct (nth_line src sl) as [l1 |]; [destruct (is_empty l1) |]; reflexivity.
    + rewrite usize_sub_ok by lia. cbn [bind].
      destruct (nth_line src sl) as [l1 |]; [destruct (is_empty l1) |]; reflexivity.
  - cbn [bind]. destruct (nth_line src sl) as [l1 |]; [destruct (is_empty l1) |]; reflexivity.
Qed.

(** *** Main lemma: the renderer equals its specification on every in-range position. *)
Theorem format_location_spec : forall offset msg p source,
  (offset = 0 \/ offset = 1) -> pos_eqb p invisible = false ->
  in_range offset p -> source_ok source ->
  format_location offset msg p source = Val (spec_location offset msg p source).
Proof.
  intros offset msg p source Ho Hinv Hr Hok. pose proof ow_bounds as Hb.
  unfold format_location, spec_location.
  rewrite usize_mul_ok by (unfold usize_max; destruct Ho; subst; lia). cbn [bind].
  rewrite byte_vec_ok by (unfold alloc_cap; destruct Ho; subst; lia). cbn [bind].
  rewrite Hinv.
  rewrite source_parts_spec by (try assumption; apply Hr). cbn [bind].
  rewrite caret_row_spec by assumption. cbn [bind fst snd].
  reflexivity.
Qed.

(** The invisible position is rendered as an empty line (after the hook line of a cause). *)
Lemma format_location_invisible : forall offset msg source, (offset = 0 \/ offset = 1) ->
  format_location offset msg invisible source
  = Val (hook_line (rep " " (Z.to_nat (OFFSET_WIDTH * offset))) msg ++ NL).
Proof.
  intros offset msg source Ho. pose proof ow_bounds as Hb. unfold format_location.
  rewrite usize_mul_ok by (unfold usize_max; destruct Ho; subst; lia). cbn [bind].
  rewrite byte_vec_ok by (unfold alloc_cap; destruct Ho; subst; lia). cbn [bind].
  reflexivity.
Qed.

(** ** Whole diagnostics *)

Definition cat_all (l : list string) : string := fold_right append EmptyString l.

(** What [format_err] draws for the causes, in closed form. *)
Definition spec_cause_line (c : cause) : string :=
  rep " " (Z.to_nat OFFSET_WIDTH) ++ " " ++ HOOK_ARROW ++ " " ++ cmsg c ++ NL.

Definition cause_located (pos : option position) (c : cause) : bool :=
  match pos with Some p => negb (pos_eqb p (cpos c)) | None => false end.

Definition spec_cause_located (source : option string) (c : cause) : string :=
  if pos_eqb (cpos c) invisible
  then hook_line (rep " " (Z.to_nat (OFFSET_WIDTH * 1))) (Some (cmsg c)) ++ NL
  else spec_location 1 (Some (cmsg c)) (cpos c) source.

Definition spec_causes (pos : option position) (source : option string) (cs : list cause) : string :=
  match cs with
  | [] => EmptyString
  | c :: r => (if cause_located pos c then spec_cause_located source c else spec_cause_line c)
              ++ cat_all (map spec_cause_line r)
  end.

Definition spec_err (msg : string) (path : option string) (pos : option position)
  (source : option string) (cs : list cause) : string :=
  header msg path pos
  ++ match pos with
     | Some p => if pos_eqb p invisible then NL else spec_location 0 None p source
     | None => EmptyString
     end
  ++ spec_causes pos source cs.

(** Well-positioned: the error's own position and, if it is drawn, the first cause's position are in range
    or invisible. *)
Definition drawable (offset : Z) (p : position) : Prop :=
  pos_eqb p invisible = true \/ (pos_eqb p invisible = false /\ in_range offset p).

Definition well_positioned (pos : option position) (source : option string) (cs : list cause) : Prop :=
  source_ok source /\
  match pos with Some p => drawable 0 p | None => True end /\
  match cs with c :: _ => cause_located pos c = true -> drawable 1 (cpos c) | [] => True end.

Lemma pos_eqb_eq : forall p q, pos_eqb p q = true -> p = q.
Proof.
  intros [[a b] [c d]] [[a' b'] [c' d']] H. unfold pos_eqb, caret_eqb in H. cbn [start end_ line col] in H.
  apply andb_prop in H. destruct H as [H1 H2].
  apply andb_prop in H1. destruct H1 as [Ha Hb]. apply andb_prop in H2. destruct H2 as [Hc Hd].
  apply Z.eqb_eq in Ha, Hb, Hc, Hd. now subst.
Qed.

Lemma format_location_drawable : forall offset msg p source,
  (offset = 0 \/ offset = 1) -> drawable offset p -> source_ok source ->
  format_location offset msg p source
  = Val (if pos_eqb p invisible
         then hook_line (rep " " (Z.to_nat (OFFSET_WIDTH * offset))) msg ++ NL
         else spec_location offset msg p source).
Proof.
  intros offset msg p source Ho [Hi | [Hi Hr]] Hok; rewrite Hi.
  - apply pos_eqb_eq in Hi. subst p.
    now apply format_location_invisible.
  - now apply format_location_spec.
Qed.

Lemma cause_line_val : forall c,
  bind (byte_vec " " OFFSET_WIDTH) (fun o => Val (o ++ " " ++ HOOK_ARROW ++ " " ++ cmsg c ++ NL))
  = Val (spec_cause_line c).
Proof.
  intros c. pose proof ow_bounds. rewrite byte_vec_ok by (unfold alloc_cap; lia). reflexivity.
Qed.

Lemma format_causes_rest : forall pos source r,
  format_causes false pos source r = Val (cat_all (map spec_cause_line r)).
Proof.
  induction r as [| c r IH]; [reflexivity |].
  cbn [format_causes andb]. rewrite cause_line_val. cbn [bind]. rewrite IH. reflexivity.
Qed.

Theorem format_err_spec : forall msg path pos source cs,
  well_positioned pos source cs ->
  format_err msg path pos source cs = Val (spec_err msg path pos source cs).
Proof.
  intros msg path pos source cs (Hok & Hp & Hc). unfold format_err, spec_err.
  assert (Hhead :
    match pos with
    | Some p => bind (format_location 0 None p source) (fun loc => Val (header msg path pos ++ loc))
    | None => Val (header msg path pos)
    end = Val (header msg path pos ++ match pos with
                                       | Some p => if pos_eqb p invisible then NL else spec_location 0 None p source
                                       | None => EmptyString end)).
  { destruct pos as [p |]; [| now rewrite app_empty_r].
    rewrite (format_location_drawable 0 None p source) by (auto; lia). cbn [bind hook_line].
    destruct (pos_eqb p invisible); reflexivity. }
  rewrite Hhead. cbn [bind].
  assert (Htail : format_causes true pos source cs = Val (spec_causes pos source cs)).
  { destruct cs as [| c r]; [reflexivity |]. cbn [format_causes spec_causes andb].
    fold (cause_located pos c). destruct (cause_located pos c) eqn:E.
    - rewrite (format_location_drawable 1 (Some (cmsg c)) (cpos c) source) by (auto; lia). cbn [bind].
      rewrite format_causes_rest. cbn [bind]. unfold spec_cause_located.
      destruct (pos_eqb (cpos c) invisible); reflexivity.
    - rewrite cause_line_val. cbn [bind]. rewrite format_causes_rest. reflexivity. }
  rewrite Htail. cbn [bind]. now rewrite app_assoc_s.
Qed.

(** *** [render_total]: a well-positioned diagnostic always renders. *)
Theorem render_type_total : forall e,
  well_positioned (te_pos e) (te_source e) (te_causes e) ->
  render_type e = Rendered (spec_err (te_msg e) (te_path e) (te_pos e) (te_source e) (te_causes e)).
Proof. intros e H. unfold render_type. now rewrite format_err_spec. Qed.

Theorem render_gen_total : forall e,
  well_positioned (Some (ge_pos e)) (ge_source e) [] ->
  render_gen e = Rendered (spec_err (ge_msg e) (ge_path e) (Some (ge_pos e)) (ge_source e) []).
Proof. intros e H. unfold render_gen. now rewrite format_err_spec. Qed.

(** ParseErr shows the first [min (len - 1) SYNTAX_ERR_MAX_DEPTH] causes: with the generated depth 1, no
    cause unless there are at least two, and then only the first. *)
Definition spec_parse_causes (cs : list cause) : list cause :=
  firstn (Nat.min (List.length cs - 1) (Z.to_nat SYNTAX_ERR_MAX_DEPTH)) cs.

Lemma parse_shown_causes_spec : forall cs, Z.of_nat (List.length cs) < two31 ->
  parse_shown_causes cs = Val (spec_parse_causes cs).
Proof.
  intros cs Hlen. pose proof depth_bounds as Hd. unfold parse_shown_causes, spec_parse_causes.
  rewrite as_i32_small by lia.
  rewrite i32_sub_ok by (unfold two31 in *; lia). cbn [bind].
  set (n := List.length cs) in *.
  assert (Hu : i32_to_usize (Z.max (Z.of_nat n - 1) 0) = Z.max (Z.of_nat n - 1) 0).
  { unfold i32_to_usize. destruct (Z.ltb_spec (Z.max (Z.of_nat n - 1) 0) 0); [lia | reflexivity]. }
  rewrite Hu.
  destruct (Z.leb_spec (Z.min (Z.max (Z.of_nat n - 1) 0) SYNTAX_ERR_MAX_DEPTH) (Z.of_nat n)); [| lia].
  f_equal. f_equal. lia.
Qed.

Theorem render_parse_total : forall e,
  Z.of_nat (List.length (pe_causes e)) < two31 ->
  well_positioned (Some (pe_pos e)) (pe_source e) (spec_parse_causes (pe_causes e)) ->
  render_parse e = Rendered (spec_err (pe_msg e) (pe_path e) (Some (pe_pos e)) (pe_source e)
                                      (spec_parse_causes (pe_causes e))).
Proof.
  intros e Hl H. unfold render_parse. rewrite parse_shown_causes_spec by assumption. cbn [bind].
  now rewrite format_err_spec.
Qed.

Lemma depth_is_one : SYNTAX_ERR_MAX_DEPTH = 1.
Proof. reflexivity. Qed.

Theorem parse_shows_at_most_one_cause : forall cs, Z.of_nat (List.length cs) < two31 ->
  exists shown, parse_shown_causes cs = Val shown /\
                (shown = [] \/ exists c r, cs = c :: r /\ shown = [c] /\ r <> []).
Proof.
  intros cs H. exists (spec_parse_causes cs). split; [now apply parse_shown_causes_spec |].
  unfold spec_parse_causes. rewrite depth_is_one. change (Z.to_nat 1) with 1%nat.
  destruct cs as [| c [| c2 r]]; [now left | now left |].
  right. exists c, (c2 :: r). split; [reflexivity | split; [| discriminate]].
  cbn [List.length Nat.sub]. destruct (List.length r); reflexivity.
Qed.

Theorem render_total :
  (forall e, well_positioned (te_pos e) (te_source e) (te_causes e) ->
             exists text, render_type e = Rendered text)
  /\ (forall e, Z.of_nat (List.length (pe_causes e)) < two31 ->
                well_positioned (Some (pe_pos e)) (pe_source e) (spec_parse_causes (pe_causes e)) ->
                exists text, render_parse e = Rendered text)
  /\ (forall e, well_positioned (Some (ge_pos e)) (ge_source e) [] ->
                exists text, render_gen e = Rendered text).
Proof.
  split; [| split]; intros e.
  - intros H. eexists. exact (render_type_total e H).
  - intros Hl H. eexists. exact (render_parse_total e Hl H).
  - intros H. eexists. exact (render_gen_total e H).
Qed.

(** ** The clauses of the property, read off the specification *)

(** Header: the first lines are the message, then the arrow, the path (or "<unknown>") and [line:col]. *)
Theorem header_names_path_and_position : forall msg path p source cs s,
  format_err msg path (Some p) source cs = Val s ->
  exists rest,
    s = msg ++ NL ++ " " ++ RIGHT_ARROW ++ " " ++ path_text path ++ ":"
        ++ dec (line (start p)) ++ ":" ++ dec (col (start p)) ++ NL ++ rest.
Proof.
  intros msg path p source cs s H. unfold format_err in H.
  destruct (format_location 0 None p source) as [loc | |]; cbn [bind] in H; try discriminate.
  destruct (format_causes true (Some p) source cs) as [tail | |]; cbn [bind] in H; try discriminate.
  apply Val_inj in H. subst s. exists (loc ++ tail). unfold header.
  repeat rewrite app_assoc_s. reflexivity.
Qed.

Theorem header_without_position : forall msg path source cs s,
  format_err msg path None source cs = Val s ->
  exists rest, s = msg ++ NL ++ " " ++ RIGHT_ARROW ++ " " ++ path_text path ++ NL ++ rest.
Proof.
  intros msg path source cs s H. unfold format_err in H. cbn [bind] in H.
  destruct (format_causes true None source cs) as [tail | |]; cbn [bind] in H; try discriminate.
  apply Val_inj in H. subst s. exists tail. unfold header. repeat rewrite app_assoc_s. reflexivity.
Qed.

(** Verbatim quote: when the position's line exists and is not empty, the excerpt row is the line's
    number, " | ", the line itself, newline; directly below it is the caret row. *)
Theorem quoted_line_verbatim : forall offset msg p src l,
  (offset = 0 \/ offset = 1) -> pos_eqb p invisible = false -> in_range offset p -> src_len_ok src ->
  nth_line src (line (start p)) = Some l -> l <> EmptyString ->
  exists before,
    format_location offset msg p (Some src)
    = Val (hook_line (rep " " (Z.to_nat (OFFSET_WIDTH * offset))) msg ++ before
           ++ (rep " " (Z.to_nat (OFFSET_WIDTH * offset)) ++ pad_left 4 (dec (line (start p))) ++ SEP ++ l ++ NL)
           ++ spec_caret_row offset p ++ NL)
    /\ (before = EmptyString \/
        exists l0, nth_line src (line (start p) - 1) = Some l0 /\ l0 <> EmptyString /\
                   before = rep " " (Z.to_nat (OFFSET_WIDTH * offset))
                            ++ pad_left 4 (dec (line (start p) - 1)) ++ SEP ++ l0 ++ NL).
Proof.
  intros offset msg p src l Ho Hi Hr Hok Hl Hne.
  exists (spec_row (rep " " (Z.to_nat (OFFSET_WIDTH * offset))) (line (start p) - 1) src EmptyString).
  split.
  - rewrite format_location_spec by assumption. unfold spec_location, spec_excerpt. cbn [fst snd].
    unfold spec_row at 2. rewrite Hl. destruct l; [contradiction |]. reflexivity.
  - unfold spec_row. destruct (nth_line src (line (start p) - 1)) as [l0 |]; [| now left].
    destruct l0; [now left |]. right. eexists. repeat split. discriminate.
Qed.

(** Caret column: the quoted text starts [ind + 7] bytes into its row when the line number has at most
    four digits, and the first caret stands [ind + 7 + col - 1] bytes into the caret row: under byte
    [col] of the quoted line. *)
Definition row_prefix (ind : nat) (n : Z) : string := rep " " ind ++ pad_left 4 (dec n) ++ SEP.
Definition caret_prefix (ind : nat) (c : Z) : string := GUTTER ++ rep " " (ind + Z.to_nat (c - 1)).

Lemma dec_len_4 : forall n, 0 <= n < 10000 -> (String.length (dec n) <= 4)%nat.
Proof.
  intros n H.
  assert (forallb (fun k => (String.length (dec (Z.of_nat k)) <=? 4)%nat) (seq 0 (Z.to_nat 10000)) = true) as A
    by (vm_compute; reflexivity).
  rewrite forallb_forall in A. specialize (A (Z.to_nat n)).
  rewrite Z2Nat.id in A by lia. apply Nat.leb_le. apply A. apply in_seq. lia.
Qed.

Lemma length_pad_left : forall w s, (String.length s <= w)%nat -> String.length (pad_left w s) = w.
Proof. intros w s H. unfold pad_left. rewrite length_app, length_rep. lia. Qed.

Theorem caret_under_column : forall ind n c, 0 <= n < 10000 -> 1 <= c ->
  (String.length (row_prefix ind n) + Z.to_nat (c - 1) = String.length (caret_prefix ind c))%nat.
Proof.
  intros ind n c Hn Hc. unfold row_prefix, caret_prefix.
  rewrite !length_app, !length_rep, length_pad_left by (now apply dec_len_4).
  cbn [String.length SEP GUTTER]. lia.
Qed.

Lemma spec_caret_row_prefix : forall offset p, (offset = 0 \/ offset = 1) -> 1 <= col (start p) ->
  spec_caret_row offset p
  = caret_prefix (Z.to_nat (OFFSET_WIDTH * offset)) (col (start p)) ++ rep "^" (Z.to_nat (spec_width p)).
Proof.
  intros offset p Ho Hc. pose proof ow_bounds. unfold spec_caret_row, caret_prefix.
  rewrite app_assoc_s. repeat f_equal. destruct Ho; subst; lia.
Qed.

Lemma spec_width_pos : forall p, 1 <= spec_width p.
Proof. intros p. unfold spec_width. lia. Qed.

(** ** Refutations: what is false of the code, with witnesses (each re-checked against the real code
    by the `render` correspondence). *)

(** A visible position whose start column is 0 makes the renderer panic (usize underflow in
    [offset * OFFSET_WIDTH + pos.start.pos - 1]) whatever the source. *)
Lemma res_bind_not_big_sub : forall (A : Type) (a b : Z) (f : Z -> res A),
  (forall x, f x <> Big) -> bind (usize_sub a b) f <> Big.
Proof. intros A a b f H. unfold usize_sub. destruct (b <=? a); cbn [bind]; [apply H | discriminate]. Qed.

Theorem column_zero_panics : forall msg p source,
  pos_eqb p invisible = false -> col (start p) = 0 -> small (line (start p)) -> source_ok source ->
  format_location 0 msg p source = Pan.
Proof.
  intros msg p source Hi Hc Hl Hok. pose proof ow_bounds as Hb. unfold format_location.
  rewrite usize_mul_ok by (unfold usize_max; lia). cbn [bind].
  rewrite byte_vec_ok by (unfold alloc_cap; lia). cbn [bind]. rewrite Hi.
  rewrite source_parts_spec by assumption. cbn [bind].
  unfold caret_row. rewrite usize_mul_ok by (unfold usize_max; lia). cbn [bind].
  rewrite Hc. rewrite usize_add_ok by (unfold usize_max; lia). cbn [bind].
  rewrite usize_sub_pan by lia. reflexivity.
Qed.

(** [Position::union] with the invisible position gives start (0,0): such a position is not the invisible
    one (unless the other is) and so cannot be rendered. *)
Theorem union_invisible_panics : forall q msg source,
  0 <= line (start q) -> 0 <= col (start q) ->
  0 <= line (end_ q) -> 0 <= col (end_ q) ->
  pos_eqb q invisible = false -> pos_eqb (union invisible q) invisible = false ->
  source_ok source ->
  format_location 0 msg (union invisible q) source = Pan.
Proof.
  intros q msg source H1 H2 H3 H4 Hq Hu Hok.
  apply column_zero_panics; try assumption.
  - unfold union, invisible. cbn [start col]. lia.
  - unfold union, invisible, small. cbn [start line]. lia.
Qed.

Lemma union_invisible_visible : forall q,
  0 <= line (end_ q) -> 0 <= col (end_ q) -> (0 < line (end_ q) \/ 0 < col (end_ q)) ->
  pos_eqb (union invisible q) invisible = false.
Proof.
  intros [[a b] [c d]] H1 H2 H3. unfold pos_eqb, caret_eqb, union, invisible. cbn [start end_ line col] in *.
  rewrite !Z.max_r by lia.
  destruct (Z.eqb_spec c 0); destruct (Z.eqb_spec d 0); try lia; rewrite ?andb_false_r; reflexivity.
Qed.

Definition witness_union : type_err :=
  TypeErr (Some (union invisible (Position (Caret 1 1) (Caret 1 5)))) "m" (Some "src/prog.mamba")
          (Some ("def a := 1" ++ NL)) [].

Theorem render_total_refuted :
  exists e, (forall p, te_pos e = Some p ->
               is_usize (line (start p)) /\ is_usize (col (start p)) /\
               is_usize (line (end_ p)) /\ is_usize (col (end_ p)))
            /\ source_ok (te_source e) /\ render_type e = Panic.
Proof.
  exists witness_union. split; [| split].
  - intros p H. injection H as <-. unfold is_usize, usize_max. cbn. lia.
  - cbn. unfold src_len_ok, isize_max. cbn. lia.
  - vm_compute. reflexivity.
Qed.

(** The quoted line is looked up through [as i32]; the label is not.  At line 2^32 + 1 the row is
    labelled 4294967297 and shows line 1. *)
Theorem quoted_line_wraps_refuted :
  exists p src s l1,
    is_usize (line (start p)) /\ nth_line src (line (start p)) = None /\ nth_line src 1 = Some l1 /\
    format_location 0 None p (Some src) = Val s /\
    s = pad_left 4 (dec (line (start p))) ++ SEP ++ l1 ++ NL ++ spec_caret_row 0 p ++ NL.
Proof.
  exists (Position (Caret 4294967297 1) (Caret 4294967297 2)), ("first" ++ NL ++ "second" ++ NL).
  eexists. exists "first". repeat split; try (vm_compute; reflexivity); unfold is_usize, usize_max; cbn; lia.
Qed.

(** An existing but empty line is not quoted at all: the row reads "<unknown>". *)
Theorem empty_line_quoted_unknown :
  exists p src,
    in_range 0 p /\ pos_eqb p invisible = false /\ nth_line src (line (start p)) = Some EmptyString /\
    format_location 0 None p (Some src)
    = Val (quote_row EmptyString 1 "a" ++ UNKNOWN ++ NL ++ spec_caret_row 0 p ++ NL).
Proof.
  exists (Position (Caret 2 1) (Caret 2 1)), ("a" ++ NL ++ NL ++ "b" ++ NL).
  split; [| split; [| split]]; try (vm_compute; reflexivity).
  unfold in_range, small, alloc_cap. cbn. pose proof ow_bounds. lia.
Qed.

(** From line 10000 on the line number is wider than the four columns reserved for it and the caret is
    no longer under the column. *)
Theorem caret_misaligned_refuted :
  exists n c, 1 <= c /\
    (String.length (row_prefix 0 n) + Z.to_nat (c - 1))%nat <> String.length (caret_prefix 0 c).
Proof. exists 10000, 3. split; [lia |]. vm_compute. discriminate. Qed.

(** ** LexErr's own Display (never called by the pipeline, which converts LexErr into ParseErr) *)

Definition spec_lex (e : lex_err) : string :=
  "--> " ++ match le_path e with Some p => p | None => UNKNOWN end ++ ":"
  ++ dec (line (le_pos e)) ++ ":" ++ dec (col (le_pos e)) ++ NL
  ++ "     | " ++ le_msg e ++ NL
  ++ pad_left 3 (dec (line (le_pos e))) ++ "  |- "
  ++ match le_source e with
     | Some src => match nth_line src (line (le_pos e)) with Some l => l | None => UNKNOWN end
     | None => UNKNOWN
     end ++ NL
  ++ "     | " ++ rep " " (Z.to_nat (col (le_pos e)))
  ++ rep "^" (Z.to_nat (match le_width e with Some w => w | None => 1 end)).

Theorem lex_render_spec : forall e,
  0 <= line (le_pos e) -> 0 <= col (le_pos e) <= alloc_cap ->
  match le_width e with Some w => 0 <= w <= alloc_cap | None => True end ->
  render_lex e = Rendered (spec_lex e).
Proof.
  intros e Hl Hc Hw. unfold render_lex, format_lex, spec_lex, lex_source_line.
  assert (Hsl : match le_source e with
                | Some src =>
                    if line (le_pos e) >? 0
                    then bind (usize_sub (line (le_pos e)) 1)
                           (fun i => Val match nth_z (lines src) i with Some l => l | None => UNKNOWN end)
                    else Val UNKNOWN
                | None => Val UNKNOWN
                end
                = Val match le_source e with
                      | Some src => match nth_line src (line (le_pos e)) with Some l => l | None => UNKNOWN end
                      | None => UNKNOWN
                      end).
  { destruct (le_source e) as [src |]; [| reflexivity]. unfold nth_line.
    destruct (Z.gtb_spec (line (le_pos e)) 0); destruct (Z.leb_spec 1 (line (le_pos e))); try lia; [| reflexivity].
    rewrite usize_sub_ok by lia. cbn [bind]. now rewrite nth_z_nth_error by lia. }
  rewrite Hsl. cbn [bind].
  rewrite byte_vec_ok by lia. cbn [bind].
  rewrite byte_vec_ok by (destruct (le_width e); unfold alloc_cap in *; lia). cbn [bind].
  reflexivity.
Qed.

(** ** [lines]: the characterisation that makes "the line with that number" meaningful *)

Fixpoint no_nl (s : string) : bool :=
  match s with
  | EmptyString => true
  | String c r => negb (Ascii.eqb c nl) && no_nl r
  end.

Lemma split_nl_cons : forall l rest, no_nl l = true ->
  split_nl (l ++ String nl rest) = (l, true) :: split_nl rest.
Proof.
  induction l as [| c r IH]; intros rest H; cbn [append split_nl].
  - now rewrite Ascii.eqb_refl.
  - cbn [no_nl] in H. apply andb_prop in H. destruct H as [Hc Hr].
    destruct (Ascii.eqb c nl); [discriminate |]. now rewrite IH.
Qed.

Lemma split_nl_last : forall l, no_nl l = true -> l <> EmptyString -> split_nl l = [(l, false)].
Proof.
  induction l as [| c r IH]; intros H Hne; [contradiction |].
  cbn [no_nl] in H. apply andb_prop in H. destruct H as [Hc Hr]. cbn [split_nl].
  destruct (Ascii.eqb c nl); [discriminate |].
  destruct r as [| c2 r2]; [reflexivity |]. rewrite IH by (auto; discriminate). reflexivity.
Qed.

(** A text made of a first line [l] (no newline in it), a newline and [rest] has [l] -- minus one
    carriage return before the newline -- as its first line, followed by the lines of [rest];
    a text without newline is its own single line; the empty text has no lines. *)
Theorem lines_characterisation :
  lines EmptyString = []
  /\ (forall l, no_nl l = true -> l <> EmptyString -> lines l = [l])
  /\ (forall l rest, no_nl l = true -> lines (l ++ String nl rest) = strip_cr l :: lines rest).
Proof.
  split; [reflexivity | split].
  - intros l H Hne. unfold lines. now rewrite split_nl_last.
  - intros l rest H. unfold lines. now rewrite split_nl_cons.
Qed.

(** ** Non-vacuity: the hypotheses of the theorems are satisfiable by an ordinary diagnostic *)

Definition example_err : type_err :=
  TypeErr (Some (Position (Caret 2 7) (Caret 2 9))) "Undefined variable: zz" (Some "src/prog.mamba")
          (Some ("def a := 1" ++ NL ++ "print(zz)" ++ NL))
          [Cause (Position (Caret 1 1) (Caret 1 4)) "in this definition"].

Example example_well_positioned :
  well_positioned (te_pos example_err) (te_source example_err) (te_causes example_err).
Proof.
  pose proof ow_bounds. unfold well_positioned, example_err, drawable, in_range, small, alloc_cap.
  cbn [te_pos te_source te_causes source_ok cause_located cpos start end_ line col].
  split; [unfold src_len_ok, isize_max; cbn; lia |].
  split; [right; split; [reflexivity | lia] |].
  intros _. right. split; [reflexivity | lia].
Qed.

Example example_rendering :
  render_type example_err
  = Rendered ("Undefined variable: zz" ++ NL ++ " " ++ RIGHT_ARROW ++ " src/prog.mamba:2:7" ++ NL
              ++ "   1 | def a := 1" ++ NL
              ++ "   2 | print(zz)" ++ NL
              ++ "             ^^" ++ NL
              ++ "     " ++ HOOK_ARROW ++ " in this definition" ++ NL
              ++ "       1 | def a := 1" ++ NL
              ++ "           ^^^" ++ NL).
Proof. vm_compute. reflexivity. Qed.

Example example_quoted :
  nth_line ("def a := 1" ++ NL ++ "print(zz)" ++ NL) 2 = Some "print(zz)".
Proof. reflexivity. Qed.

Example example_in_range :
  in_range 0 (Position (Caret 2 7) (Caret 2 9))
  /\ nth_line ("def a := 1" ++ NL ++ "print(zz)" ++ NL) 2 = Some "print(zz)".
Proof.
  split; [| reflexivity]. pose proof ow_bounds.
  unfold in_range, small, alloc_cap. cbn [start end_ line col]. lia.
Qed.
