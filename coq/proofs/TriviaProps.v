(** * Layout trivia and the token stream: the edits of C14 at lexer level

    Every theorem speaks about the whole run of the lexer model ([run_tls], i.e. [tokenize]
    before the tokens of interpolated expressions are flattened in; [raw_tls] is the same
    before the doc-string pass) on the original and on the edited text.  The edit is made at a
    point [pre | R] of the text where [pre] is lexically complete on its own ([complete]) and
    [R] starts with a line break or is empty ([hd_eol]).  [tl_eqv]/[tok_eqv]: same token, same
    nesting, identical span unless the token is a synthetic layout token. *)
From Coq Require Import List Ascii ZArith Bool Lia Arith.
From MambaModel Require Import model.LexTok gen.LexTables model.Lex proofs.LexProps model.Trivia
  proofs.TriviaFuel proofs.TriviaScan proofs.TriviaSim.
Import ListNotations.
Local Open Scope Z_scope.

(** ** the prefix on its own *)

Definition prefix_run (pre : str) : lres := tok_loop (S (length pre)) pre state0 [].
Definition complete (eol : bool) (pre : str) : bool := splittable eol (S (length pre)) pre.

(** [pre] is accepted on its own and its last line holds a token *)
Definition ends_on_token_line (pre : str) : bool :=
  match prefix_run pre with inl (inl (st, _)) => token_this_line st | _ => false end.

Definition accepted (pre : str) : bool :=
  match prefix_run pre with inl (inl _) => true | _ => false end.

Lemma loop_fuel2 f1 f2 s st acc :
  (length s < f1)%nat -> (length s < f2)%nat -> tok_loop f1 s st acc = tok_loop f2 s st acc.
Proof. intros H1 H2. rewrite (loop_fuel f1), (loop_fuel f2) by assumption. reflexivity. Qed.

Lemma accepted_run s : accepted s = true <-> exists tls, run_tls s = Some tls.
Proof.
  unfold accepted, prefix_run, run_tls, run_fuel.
  rewrite (loop_fuel2 (S (S (length s))) (S (length s))) by lia.
  destruct (tok_loop (S (length s)) s state0 []) as [[[st acc]|?]|?]; split; try discriminate.
  - intros _. eexists. reflexivity.
  - reflexivity.
  - intros [tls H]. discriminate H.
  - intros [tls H]. discriminate H.
Qed.

Lemma prefix_ok_weaken e c a : prefix_ok false c a = true -> prefix_ok e c a = true.
Proof.
  unfold prefix_ok. destruct (scan c a) as [t rest | content exprs rest | rest | err]; try tauto.
  destruct t; try tauto. destruct rest; [discriminate | tauto].
Qed.

Lemma splittable_weaken e fuel : forall s, splittable false fuel s = true -> splittable e fuel s = true.
Proof.
  induction fuel as [|fuel IH]; intros s H; [reflexivity|]. destruct s as [|c r]; [reflexivity|].
  cbn [splittable] in *. apply andb_prop in H as [H1 H2]. rewrite (prefix_ok_weaken e c r H1). cbn [andb].
  destruct (scan_rest (scan c r)); [apply IH, H2 | reflexivity].
Qed.

(** the run on [pre ++ R], any sufficient fuel *)
Lemma run_split pre R st acc F :
  hd_stop R = true -> complete (hd_eol R) pre = true -> prefix_run pre = inl (inl (st, acc)) ->
  (length (pre ++ R) < F)%nat ->
  forall F2, (length R < F2)%nat ->
  tok_loop F (pre ++ R) state0 [] = with_acc acc (tok_loop F2 R st []).
Proof.
  intros HR Hc Hp HF F2 HF2. unfold complete, prefix_run in *.
  rewrite (split_run pre R state0 [] st acc F HR Hc Hp HF).
  rewrite loop_acc. rewrite (loop_fuel2 (S (length R)) F2) by lia. reflexivity.
Qed.

Lemma raw_of_res s1 s2 x1 x2 :
  tok_loop (run_fuel s1) s1 state0 [] = x1 -> tok_loop (run_fuel s2) s2 state0 [] = x2 ->
  res_rel same_indent x1 x2 -> opt_rel (Forall2 tl_eqv) (raw_tls s1) (raw_tls s2).
Proof.
  intros H1 H2 Hr. unfold raw_tls. rewrite H1, H2.
  destruct x1 as [[[a oa]|e1]|u1], x2 as [[[b ob]|e2]|u2]; cbn in *; try tauto.
  destruct Hr as [Hi Ho]. apply raw_of_eqv; assumption.
Qed.

Lemma run_of_raw s1 s2 :
  opt_rel (Forall2 tl_eqv) (raw_tls s1) (raw_tls s2) -> opt_rel (Forall2 tl_eqv) (run_tls s1) (run_tls s2).
Proof. intros H. rewrite !run_tls_raw. apply raw_rel_run, H. Qed.

(** ** blanks *)

Lemma iter_shift {A} (f : A -> A) n x : Nat.iter n f (f x) = Nat.iter (S n) f x.
Proof.
  induction n as [|n IH]; [reflexivity|].
  change (Nat.iter (S n) f (f x)) with (f (Nat.iter n f (f x))). rewrite IH. reflexivity.
Qed.

Lemma loop_spaces n : forall fuel R st acc,
  tok_loop (n + fuel) (spaces n ++ R) st acc = tok_loop fuel R (Nat.iter n state_space st) acc.
Proof.
  induction n as [|n IH]; intros fuel R st acc; [reflexivity|].
  cbn [spaces repeat app plus]. rewrite tok_loop_step, step_sp, app_nil_r.
  fold (spaces n). rewrite IH. rewrite iter_shift. reflexivity.
Qed.

Lemma spaces_state n st :
  let st2 := Nat.iter n state_space st in
  newlines st2 = newlines st /\ cur_indent st2 = cur_indent st
  /\ token_this_line st2 = token_this_line st /\ line (pos st2) = line (pos st)
  /\ (token_this_line st = true -> line_indent st2 = line_indent st).
Proof.
  induction n as [|n IH]; [cbv zeta; repeat split|].
  cbv zeta in *. change (Nat.iter (S n) state_space st) with (state_space (Nat.iter n state_space st)).
  set (s1 := Nat.iter n state_space st) in *. destruct IH as (H1 & H2 & H3 & H4 & H5).
  unfold state_space. cbn [newlines cur_indent token_this_line pos line_indent offset_pos line].
  repeat split; try assumption. intros F. rewrite H3, F, (H5 F). lia.
Qed.

Lemma spaces_length n : length (spaces n) = n.
Proof. apply repeat_length. Qed.

Lemma hd_stop_spaces n R : hd_stop R = true -> hd_stop (spaces n ++ R) = true.
Proof. destruct n; [tauto | reflexivity]. Qed.

(** *** blanks before a line break *)
Theorem trailing_spaces pre R n :
  accepted pre = true -> complete false pre = true -> hd_eol R = true ->
  opt_rel (Forall2 tl_eqv) (run_tls (pre ++ R)) (run_tls (pre ++ spaces n ++ R)).
Proof.
  intros Hacc Hc HR. apply run_of_raw. unfold accepted in Hacc.
  destruct (prefix_run pre) as [[[st acc]|?]|?] eqn:Hp; try discriminate Hacc.
  pose proof (hd_eol_stop R HR) as HRs.
  eapply raw_of_res.
  - apply (run_split pre R st acc _ HRs (splittable_weaken _ _ _ Hc) Hp); [unfold run_fuel; lia|].
    apply Nat.lt_succ_diag_r.
  - assert (HF : (length (pre ++ spaces n ++ R) < run_fuel (pre ++ spaces n ++ R))%nat) by (unfold run_fuel; lia).
    apply (run_split pre (spaces n ++ R) st acc _ (hd_stop_spaces n R HRs) (splittable_weaken _ _ _ Hc) Hp
             HF (n + S (length R))%nat).
    rewrite app_length, spaces_length. lia.
  - rewrite loop_spaces. apply res_rel_with_acc; [apply tls_eqv_refl|].
    apply eol_sim; [exact HR|].
    destruct (spaces_state n st) as (H1 & H2 & _ & H4 & _).
    split; [rewrite H1; apply toks_eqv_refl | split; [symmetry; exact H2 | symmetry; exact H4]].
Qed.

(** *** a final line break adds no token *)
Theorem final_newline s :
  accepted s = true -> complete true s = true ->
  opt_rel (Forall2 tl_eqv) (run_tls s) (run_tls (s ++ [c_nl])).
Proof.
  intros Hacc Hc. apply run_of_raw. unfold accepted in Hacc.
  destruct (prefix_run s) as [[[st acc]|?]|?] eqn:Hp; try discriminate Hacc.
  eapply raw_of_res.
  - rewrite <- (app_nil_r s) at 2.
    apply (run_split s [] st acc _ eq_refl Hc Hp); [unfold run_fuel; rewrite app_nil_r; lia|].
    apply Nat.lt_succ_diag_r.
  - assert (HF : (length (s ++ [c_nl]) < run_fuel (s ++ [c_nl]))%nat) by (unfold run_fuel; lia).
    apply (run_split s [c_nl] st acc _ eq_refl Hc Hp HF 2%nat). cbn. lia.
  - rewrite tok_loop_nil, tok_loop_step, step_nl, tok_loop_nil. cbn.
    split; [reflexivity | apply tls_eqv_refl].
Qed.

(** ** a comment at the end of a line that holds a token *)

Lemma emit_layout_flag st :
  newlines st = [] -> line_indent st = cur_indent st -> emit_layout st = [].
Proof.
  intros Hn Hl. unfold emit_layout. rewrite Hn, Hl, Z.leb_refl, Z.sub_diag. reflexivity.
Qed.

Definition one_more_comment (text : str) (l1 l2 : list tl) : Prop :=
  exists a b b' cm,
    l1 = a ++ b /\ l2 = a ++ tl0 cm :: b' /\ ltok cm = MComment text /\ lnested cm = false
    /\ Forall2 tl_eqv b b'.

Lemma comment_run pre R k text st acc :
  prefix_run pre = inl (inl (st, acc)) -> token_this_line st = true ->
  complete false pre = true -> no_eol text = true -> hd_eol R = true ->
  exists cm st3,
    ltok cm = MComment text /\ lnested cm = false /\ pre_eol st st3
    /\ tok_loop (run_fuel (pre ++ R)) (pre ++ R) state0 []
       = with_acc acc (tok_loop (S (length R)) R st [])
    /\ tok_loop (run_fuel (pre ++ spaces (S k) ++ c_hash :: text ++ R))
                (pre ++ spaces (S k) ++ c_hash :: text ++ R) state0 []
       = with_acc (acc ++ [tl0 cm]) (tok_loop (S (length R)) R st3 []).
Proof.
  intros Hp Hflag Hc Ht HR.
  pose proof (hd_eol_stop R HR) as HRs.
  assert (Hinv : flag_inv st).
  { unfold prefix_run in Hp. eapply flag_inv_loop; [exact flag_inv0 | exact Hp]. }
  destruct (Hinv Hflag) as [Hn Hl].
  set (st2 := Nat.iter (S k) state_space st).
  destruct (spaces_state (S k) st) as (H1 & H2 & H3 & H4 & H5). fold st2 in H1, H2, H3, H4, H5.
  exists (mk_lex (pos st2) (MComment text)), (after_emit st2 (MComment text)).
  split; [reflexivity|]. split; [reflexivity|]. split.
  { unfold pre_eol, after_emit. cbn [newlines cur_indent pos offset_pos line].
    rewrite Hn. split; [constructor|]. split; [rewrite (H5 Hflag); exact (eq_sym Hl) | symmetry; exact H4]. }
  split.
  { apply (run_split pre R st acc _ HRs (splittable_weaken _ _ _ Hc) Hp); [unfold run_fuel; lia|].
    apply Nat.lt_succ_diag_r. }
  set (R2 := spaces (S k) ++ c_hash :: text ++ R).
  assert (HF : (length (pre ++ R2) < run_fuel (pre ++ R2))%nat) by (unfold run_fuel; lia).
  rewrite (run_split pre R2 st acc _ eq_refl (splittable_weaken _ _ _ Hc) Hp
             HF (S k + S (S (length (text ++ R))))%nat).
  2:{ subst R2. rewrite app_length, spaces_length. cbn [length]. lia. }
  subst R2. rewrite loop_spaces. fold st2.
  rewrite tok_loop_step. unfold step. rewrite (scan_hash text R Ht HR).
  rewrite (state_token_other st2 (MComment text)) by discriminate.
  rewrite (emit_layout_flag st2) by (rewrite ?H1, ?H2, ?(H5 Hflag); assumption).
  cbn [app map].
  rewrite (loop_acc _ R _ [tl0 _]).
  rewrite (loop_fuel2 (S (length (text ++ R))) (S (length R))) by (rewrite ?app_length; lia).
  destruct (tok_loop (S (length R)) R (after_emit st2 (MComment text)) []) as [[[s4 o4]|e]|u]; cbn; try reflexivity.
  rewrite <- app_assoc. reflexivity.
Qed.

(** on the stream before the doc-string pass: exactly one more token, the comment *)
Theorem trailing_comment_raw pre R k text :
  ends_on_token_line pre = true -> complete false pre = true ->
  no_eol text = true -> hd_eol R = true ->
  opt_rel (one_more_comment text)
          (raw_tls (pre ++ R)) (raw_tls (pre ++ spaces (S k) ++ c_hash :: text ++ R)).
Proof.
  intros He Hc Ht HR. unfold ends_on_token_line in He.
  destruct (prefix_run pre) as [[[st acc]|?]|?] eqn:Hp; try discriminate He.
  destruct (comment_run pre R k text st acc Hp He Hc Ht HR) as (cm & st3 & Hcm & Hcn & Hpe & E1 & E2).
  unfold raw_tls. rewrite E1, E2.
  pose proof (eol_sim (S (length R)) R st st3 HR Hpe) as Hs.
  destruct (tok_loop (S (length R)) R st []) as [[[a oa]|e1]|u1],
           (tok_loop (S (length R)) R st3 []) as [[[b ob]|e2]|u2]; cbn in *; try tauto.
  destruct Hs as [Hi Ho].
  exists acc,
    (oa ++ map tl0 (flush_indents a)
        ++ [tl0 (mk_lex (last_end ((acc ++ oa) ++ map tl0 (flush_indents a))) MEof)]),
    (ob ++ map tl0 (flush_indents b)
        ++ [tl0 (mk_lex (last_end (((acc ++ [tl0 cm]) ++ ob) ++ map tl0 (flush_indents b))) MEof)]), cm.
  split; [|split; [|split; [exact Hcm | split; [exact Hcn|]]]].
  - unfold raw_of. cbn [fst snd]. rewrite <- !app_assoc. reflexivity.
  - unfold raw_of. cbn [fst snd]. rewrite <- !app_assoc. reflexivity.
  - apply Forall2_app; [exact Ho|]. apply Forall2_app.
    + apply Forall2_map_tl0. unfold flush_indents. rewrite Hi. apply Forall2_repeat, tok_eqv_synth. reflexivity.
    + constructor; [|constructor]. split; [apply tok_eqv_synth; reflexivity | reflexivity].
Qed.

(** *** the same after the doc-string pass *)

Lemma eol_first fuel R st st' out :
  hd_eol R = true -> nls_ok st -> tok_loop fuel R st [] = inl (inl (st', out)) ->
  match out with [] => True | x :: _ => ltok (top x) = MNL end.
Proof.
  intros HR Hok H. destruct fuel as [|fuel]; [rewrite tok_loop_O in H; discriminate H|].
  destruct R as [|c R]; [rewrite tok_loop_nil in H; inversion H; exact I|].
  assert (Hnl : forall R', tok_loop fuel R' (state_newline st) ([] ++ []) = inl (inl (st', out)) ->
                 match out with [] => True | x :: _ => ltok (top x) = MNL end).
  { intros R' H'. cbn [app] in H'. eapply first_out_nl; [| apply newline_nls_ok, Hok | exact H'].
    unfold state_newline. cbn. intros F. apply app_eq_nil in F as [_ F]. discriminate F. }
  rewrite tok_loop_step in H. cbn [hd_eol] in HR. unfold is_eolc in HR.
  apply orb_prop in HR as [Hc|Hc]; apply Ascii.eqb_eq in Hc; subst c.
  - rewrite step_nl in H. eapply Hnl, H.
  - destruct R as [|x R]; [rewrite step_cr_nil in H; discriminate H|].
    destruct (Ascii.eqb_spec c_nl x) as [<-|Hx].
    + rewrite step_crnl in H. eapply Hnl, H.
    + apply Ascii.eqb_neq in Hx. rewrite (step_cr_other _ x R _ Hx) in H. discriminate H.
Qed.

Lemma head_nonstr (oa : list tl) (fl : list lex) (e : lex) :
  match oa with [] => True | x :: _ => ltok (top x) = MNL end ->
  Forall (fun l => ltok l = MDedent) fl -> ltok e = MEof ->
  exists x b0, oa ++ map tl0 fl ++ [tl0 e] = x :: b0 /\ is_str (ltok (top x)) = false.
Proof.
  intros Ho Hf He. destruct oa as [|x oa].
  - destruct fl as [|l fl]; cbn [app map].
    + eexists. eexists. split; [reflexivity|]. cbn. rewrite He. reflexivity.
    + eexists. eexists. split; [reflexivity|]. inversion Hf; subst. cbn. rewrite H1. reflexivity.
  - eexists. eexists. split; [reflexivity|]. rewrite Ho. reflexivity.
Qed.

Definition one_more_comment_sep (text : str) (l1 l2 : list tl) : Prop :=
  exists a x b x' b' cm,
    l1 = a ++ x :: b /\ l2 = a ++ tl0 cm :: x' :: b' /\ ltok cm = MComment text /\ lnested cm = false
    /\ is_str (ltok (top x)) = false /\ Forall2 tl_eqv (x :: b) (x' :: b').

Lemma prefix_nls_ok pre st acc : prefix_run pre = inl (inl (st, acc)) -> nls_ok st.
Proof.
  unfold prefix_run. intros H.
  apply (loop_no_eof _ pre state0 [] st acc (Forall_nil _) nls_ok0 H).
Qed.

Lemma trailing_comment_sep pre R k text :
  ends_on_token_line pre = true -> complete false pre = true ->
  no_eol text = true -> hd_eol R = true ->
  opt_rel (one_more_comment_sep text)
          (raw_tls (pre ++ R)) (raw_tls (pre ++ spaces (S k) ++ c_hash :: text ++ R)).
Proof.
  intros He Hc Ht HR. unfold ends_on_token_line in He.
  destruct (prefix_run pre) as [[[st acc]|?]|?] eqn:Hp; try discriminate He.
  destruct (comment_run pre R k text st acc Hp He Hc Ht HR) as (cm & st3 & Hcm & Hcn & Hpe & E1 & E2).
  unfold raw_tls. rewrite E1, E2.
  pose proof (eol_sim (S (length R)) R st st3 HR Hpe) as Hs.
  pose proof (eol_first (S (length R)) R st) as Hfirst.
  destruct (tok_loop (S (length R)) R st []) as [[[a oa]|e1]|u1],
           (tok_loop (S (length R)) R st3 []) as [[[b ob]|e2]|u2]; cbn in *; try tauto.
  destruct Hs as [Hi Ho].
  specialize (Hfirst a oa HR (prefix_nls_ok _ _ _ Hp) eq_refl).
  set (eA := mk_lex (last_end ((acc ++ oa) ++ map tl0 (flush_indents a))) MEof).
  set (eB := mk_lex (last_end (((acc ++ [tl0 cm]) ++ ob) ++ map tl0 (flush_indents b))) MEof).
  destruct (head_nonstr oa (flush_indents a) eA Hfirst) as (x & b0 & Hx & Hxs).
  { unfold flush_indents. apply Forall_forall. intros l Hl. apply repeat_spec in Hl. subst. reflexivity. }
  { reflexivity. }
  assert (Hrel : Forall2 tl_eqv (oa ++ map tl0 (flush_indents a) ++ [tl0 eA])
                                (ob ++ map tl0 (flush_indents b) ++ [tl0 eB])).
  { apply Forall2_app; [exact Ho|]. apply Forall2_app.
    - apply Forall2_map_tl0. unfold flush_indents. rewrite Hi. apply Forall2_repeat, tok_eqv_synth. reflexivity.
    - constructor; [|constructor]. split; [apply tok_eqv_synth; reflexivity | reflexivity]. }
  rewrite Hx in Hrel.
  destruct (ob ++ map tl0 (flush_indents b) ++ [tl0 eB]) as [|x' b0'] eqn:Hb; [inversion Hrel|].
  exists acc, x, b0, x', b0', cm.
  split; [|split; [|split; [exact Hcm | split; [exact Hcn | split; [exact Hxs | exact Hrel]]]]].
  - unfold raw_of. cbn [fst snd]. fold eA. rewrite <- Hx, <- !app_assoc. reflexivity.
  - unfold raw_of. cbn [fst snd]. fold eB. rewrite <- Hb, <- !app_assoc. reflexivity.
Qed.

(** exactly one more token - the comment - in the token list [tokenize] answers *)
Theorem trailing_comment pre R k text :
  ends_on_token_line pre = true -> complete false pre = true ->
  no_eol text = true -> hd_eol R = true ->
  opt_rel (one_more_comment text)
          (run_tls (pre ++ R)) (run_tls (pre ++ spaces (S k) ++ c_hash :: text ++ R)).
Proof.
  intros He Hc Ht HR. pose proof (trailing_comment_sep pre R k text He Hc Ht HR) as H.
  rewrite !run_tls_raw.
  destruct (raw_tls (pre ++ R)) as [l1|], (raw_tls (pre ++ spaces (S k) ++ c_hash :: text ++ R)) as [l2|];
    cbn in *; try tauto.
  destruct H as (a & x & b & x' & b' & cm & -> & -> & Hcm & Hcn & Hx & Hrel).
  assert (Hx' : is_str (ltok (top x')) = false).
  { inversion Hrel as [|? ? ? ? [[Hk _] _] _]; subst. rewrite <- Hk. exact Hx. }
  assert (Hc' : is_str (ltok (top (tl0 cm))) = false) by (cbn; rewrite Hcm; reflexivity).
  unfold docstring_pass.
  rewrite (doc_pass_sep a None None x b Hx).
  rewrite (doc_pass_sep a None None (tl0 cm) (x' :: b') Hc').
  change (x' :: b') with ([] ++ x' :: b'). rewrite (doc_pass_sep [] None (Some (tl0 cm)) x' b' Hx').
  exists (doc_pass None None None a), (doc_pass None None (Some x) b), (doc_pass None None (Some x') b'), cm.
  split; [reflexivity|]. split; [reflexivity|]. split; [exact Hcm|]. split; [exact Hcn|].
  inversion Hrel; subst. apply doc_pass_eqv; [assumption | exact I | assumption].
Qed.

(** ** what the parser is given *)

Lemma norm_of_run s :
  norm_of s = match run_tls s with Some tls => Some (kinds_norm (flatten tls)) | None => None end.
Proof.
  unfold norm_of, tokenize, tokenize_fuel, run_tls, run_fuel.
  destruct (tok_loop (S (S (length s))) s state0 []) as [[[st acc]|[p e]]|u]; reflexivity.
Qed.

Lemma kinds_norm_filter ts : kinds_norm ts = filter (fun t => negb (is_comment t)) (kinds ts).
Proof.
  unfold kinds_norm, kinds, strip_comments. induction ts as [|l ts IH]; [reflexivity|].
  cbn [filter map]. destruct (negb (is_comment (ltok l))); cbn [map]; rewrite IH; reflexivity.
Qed.

Lemma kinds_flatten_app a b : kinds (flatten (a ++ b)) = kinds (flatten a) ++ kinds (flatten b).
Proof. unfold kinds, flatten. rewrite flat_map_app, map_app. reflexivity. Qed.

Lemma kinds_flatten_eqv l1 l2 : Forall2 tl_eqv l1 l2 -> kinds (flatten l1) = kinds (flatten l2).
Proof.
  induction 1 as [|x y l1 l2 [[Hk _] Hin] _ IH]; [reflexivity|].
  change (x :: l1) with ([x] ++ l1). change (y :: l2) with ([y] ++ l2).
  rewrite !kinds_flatten_app, IH. f_equal. unfold kinds, flatten. cbn. rewrite Hk, Hin. reflexivity.
Qed.

Lemma norm_of_eqv s1 s2 :
  opt_rel (Forall2 tl_eqv) (run_tls s1) (run_tls s2) -> norm_of s1 = norm_of s2.
Proof.
  rewrite !norm_of_run. destruct (run_tls s1), (run_tls s2); cbn; try tauto.
  intros H. rewrite !kinds_norm_filter, (kinds_flatten_eqv _ _ H). reflexivity.
Qed.

Theorem trailing_spaces_norm pre R n :
  accepted pre = true -> complete false pre = true -> hd_eol R = true ->
  norm_of (pre ++ spaces n ++ R) = norm_of (pre ++ R).
Proof. intros H1 H2 H3. symmetry. apply norm_of_eqv, trailing_spaces; assumption. Qed.

Theorem final_newline_norm s :
  accepted s = true -> complete true s = true -> norm_of (s ++ [c_nl]) = norm_of s.
Proof. intros H1 H2. symmetry. apply norm_of_eqv, final_newline; assumption. Qed.

Theorem trailing_comment_norm pre R k text :
  ends_on_token_line pre = true -> complete false pre = true ->
  no_eol text = true -> hd_eol R = true ->
  norm_of (pre ++ spaces (S k) ++ c_hash :: text ++ R) = norm_of (pre ++ R).
Proof.
  intros He Hc Ht HR. pose proof (trailing_comment pre R k text He Hc Ht HR) as H.
  rewrite !norm_of_run.
  destruct (run_tls (pre ++ R)) as [l1|], (run_tls (pre ++ spaces (S k) ++ c_hash :: text ++ R)) as [l2|];
    cbn in *; try tauto.
  destruct H as (a & b & b' & cm & -> & -> & Hcm & _ & Hrel).
  rewrite !kinds_norm_filter. change (tl0 cm :: b') with ([tl0 cm] ++ b').
  rewrite !kinds_flatten_app, !filter_app, (kinds_flatten_eqv _ _ Hrel).
  unfold kinds at 2. cbn [flatten flat_map tl0 top inner app map filter]. rewrite Hcm. reflexivity.
Qed.
