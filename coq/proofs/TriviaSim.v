(** * Two lexer runs that differ only in positions of layout tokens (used by C14)

    [tok_eqv]: same token (kind and payload), same nesting flag, and - unless the token is
    one of the synthetic layout tokens NL / Indent / Dedent / Eof - the very same span.
    [sim_loop]: from states that agree up to the positions stored in pending NL tokens, the
    loop produces [tok_eqv] token lists.  [eol_sim]: the same when the two states are about
    to read a line break and differ in column, indentation of the current line and flag.
    [doc_pass_eqv]: the doc-string pass respects the relation. *)
From Coq Require Import List Ascii ZArith Bool Lia Arith.
From MambaModel Require Import model.LexTok gen.LexTables model.Lex proofs.LexProps model.Trivia
  proofs.TriviaFuel proofs.TriviaScan.
Import ListNotations.
Local Open Scope Z_scope.

Definition tok_eqv (a b : lex) : Prop :=
  ltok a = ltok b /\ lnested a = lnested b /\ (synthetic (ltok a) = false -> a = b).
Definition tl_eqv (x y : tl) : Prop := tok_eqv (top x) (top y) /\ inner x = inner y.

Lemma tok_eqv_refl a : tok_eqv a a.
Proof. repeat split. Qed.
Lemma tl_eqv_refl x : tl_eqv x x.
Proof. split; [apply tok_eqv_refl | reflexivity]. Qed.
Lemma Forall2_refl {A} (R : A -> A -> Prop) : (forall x, R x x) -> forall l, Forall2 R l l.
Proof. intros H. induction l; constructor; auto. Qed.
Lemma tls_eqv_refl l : Forall2 tl_eqv l l.
Proof. apply Forall2_refl, tl_eqv_refl. Qed.
Lemma toks_eqv_refl l : Forall2 tok_eqv l l.
Proof. apply Forall2_refl, tok_eqv_refl. Qed.

Lemma tok_eqv_synth p q t : synthetic t = true -> tok_eqv (mk_lex p t) (mk_lex q t).
Proof.
  intros H. split; [reflexivity|]. split; [reflexivity|]. cbn [ltok mk_lex]. rewrite H. discriminate.
Qed.

Lemma Forall2_map_tl0 l l' : Forall2 tok_eqv l l' -> Forall2 tl_eqv (map tl0 l) (map tl0 l').
Proof. induction 1; cbn; constructor; [split; [assumption | reflexivity] | assumption]. Qed.

Lemma Forall2_repeat {A} (R : A -> A -> Prop) x y n : R x y -> Forall2 R (repeat x n) (repeat y n).
Proof. intros H. induction n; cbn; constructor; assumption. Qed.

Lemma Forall2_rev' {A} (R : A -> A -> Prop) l l' : Forall2 R l l' -> Forall2 R (rev l) (rev l').
Proof.
  induction 1; cbn; [constructor|]. apply Forall2_app; [assumption | constructor; [assumption | constructor]].
Qed.

(** ** what [State::token] hands out *)

Definition emit_layout (st : state) : list lex :=
  let p := pos st in
  (match rev (newlines st) with [] => [] | nl :: _ => [nl] end)
  ++ (if cur_indent st <=? line_indent st then
        repeat (mk_lex p MIndent) (Z.to_nat (Z.quot (line_indent st - cur_indent st) 4))
      else
        repeat (mk_lex p MDedent) (Z.to_nat (Z.quot (cur_indent st - line_indent st) 4))
          ++ [mk_lex p MNL])
  ++ (match rev (newlines st) with [] => [] | _ :: r => rev r end).

Definition after_emit (st : state) (t : token) : state :=
  let p1 := offset_pos (pos st) (width t) in
  {| newlines := []; cur_indent := line_indent st; line_indent := line_indent st;
     token_this_line := true;
     pos := match t with MStr s | MDocStr s => offset_line p1 (count_nl s) | _ => p1 end |}.

Lemma emit_token_eq st t :
  emit_token st t = (after_emit st t, emit_layout st ++ [mk_lex (pos st) t]).
Proof. unfold emit_token, emit_layout, after_emit. rewrite <- !app_assoc. reflexivity. Qed.

Lemma state_token_nl st : state_token st MNL = (state_newline st, []).
Proof. reflexivity. Qed.

Lemma state_token_other st t :
  t <> MNL -> state_token st t = (after_emit st t, emit_layout st ++ [mk_lex (pos st) t]).
Proof. intros H. rewrite (state_token_emit st t H). apply emit_token_eq. Qed.

Lemma string_tok_not_nl content : string_tok content <> MNL.
Proof. apply string_tok_kind. Qed.

Lemma emit_str_eq st content inn :
  emit_str st content inn =
  (after_emit st (string_tok content),
   map tl0 (emit_layout st) ++ [{| top := mk_lex (pos st) (string_tok content); inner := inn |}]).
Proof.
  unfold emit_str. rewrite (state_token_other st _ (string_tok_not_nl content)).
  rewrite rev_app_distr. cbn [rev app]. rewrite rev_involutive. reflexivity.
Qed.

(** ** states that agree up to positions of pending NL tokens *)

Definition st_eqv (a b : state) : Prop :=
  Forall2 tok_eqv (newlines a) (newlines b) /\ cur_indent a = cur_indent b
  /\ line_indent a = line_indent b /\ token_this_line a = token_this_line b /\ pos a = pos b.

Lemma st_eqv_refl a : st_eqv a a.
Proof. repeat split. apply toks_eqv_refl. Qed.

Lemma emit_layout_eqv a b : st_eqv a b -> Forall2 tok_eqv (emit_layout a) (emit_layout b).
Proof.
  intros (Hn & Hc & Hl & _ & Hp). unfold emit_layout. rewrite Hc, Hl, Hp.
  apply Forall2_rev' in Hn.
  apply Forall2_app; [|apply Forall2_app].
  - destruct Hn; [constructor | constructor; [assumption | constructor]].
  - apply toks_eqv_refl.
  - destruct Hn; [constructor | apply Forall2_rev'; assumption].
Qed.

Lemma after_emit_eqv a b t : st_eqv a b -> st_eqv (after_emit a t) (after_emit b t).
Proof.
  intros (_ & _ & Hl & _ & Hp). unfold after_emit, st_eqv. cbn [newlines cur_indent line_indent token_this_line pos].
  rewrite Hl, Hp. repeat split. constructor.
Qed.

Lemma state_newline_eqv a b : st_eqv a b -> st_eqv (state_newline a) (state_newline b).
Proof.
  intros (Hn & Hc & _ & _ & Hp). unfold state_newline, st_eqv.
  cbn [newlines cur_indent line_indent token_this_line pos]. rewrite Hp. repeat split; [|exact Hc].
  apply Forall2_app; [exact Hn | apply toks_eqv_refl].
Qed.

Lemma state_space_eqv a b : st_eqv a b -> st_eqv (state_space a) (state_space b).
Proof.
  intros (Hn & Hc & Hl & Hf & Hp). unfold state_space, st_eqv.
  cbn [newlines cur_indent line_indent token_this_line pos]. rewrite Hl, Hf, Hp. repeat split; assumption.
Qed.

Definition step_eqv (x y : stepres) : Prop :=
  match x, y with
  | Halt e1, Halt e2 => e1 = e2
  | OOF, OOF => True
  | Next r1 a o1, Next r2 b o2 => r1 = r2 /\ st_eqv a b /\ Forall2 tl_eqv o1 o2
  | _, _ => False
  end.

Lemma token_step_eqv a b t rest :
  st_eqv a b ->
  step_eqv (let '(st', out) := state_token a t in Next rest st' (map tl0 out))
           (let '(st', out) := state_token b t in Next rest st' (map tl0 out)).
Proof.
  intros H. destruct (is_nl t) eqn:Ht.
  - apply is_nl_true in Ht. subst t. rewrite !state_token_nl. cbn.
    split; [reflexivity|]. split; [apply state_newline_eqv, H | constructor].
  - apply is_nl_false in Ht. rewrite !(state_token_other _ t Ht). cbn [step_eqv].
    split; [reflexivity|]. split; [apply after_emit_eqv, H|].
    apply Forall2_map_tl0, Forall2_app; [apply emit_layout_eqv, H|].
    destruct H as (_ & _ & _ & _ & ->). apply toks_eqv_refl.
Qed.

Lemma step_sim d c r a b : st_eqv a b -> step_eqv (step d c r a) (step d c r b).
Proof.
  intros H. unfold step. destruct (scan c r) as [t rest | content exprs rest | rest | e].
  - apply token_step_eqv, H.
  - destruct (is_docstring_arm content); [apply token_step_eqv, H|].
    assert (Hp : pos a = pos b) by apply H. rewrite Hp.
    destruct (nest_all d (pos b) exprs) as [[inn|]|err]; [| exact I | reflexivity].
    rewrite !emit_str_eq. cbn [step_eqv]. split; [reflexivity|]. split; [apply after_emit_eqv, H|].
    apply Forall2_app; [apply Forall2_map_tl0, emit_layout_eqv, H|].
    rewrite Hp. apply tls_eqv_refl.
  - cbn. split; [reflexivity|]. split; [apply state_space_eqv, H | constructor].
  - cbn. destruct H as (_ & _ & _ & _ & ->). reflexivity.
Qed.

(** outcomes of the loop: same verdict; on success related tokens and related final state *)
Definition res_rel (R : state -> state -> Prop) (x y : lres) : Prop :=
  match x, y with
  | inl (inl (a, oa)), inl (inl (b, ob)) => R a b /\ Forall2 tl_eqv oa ob
  | inl (inr e1), inl (inr e2) => True
  | inr _, inr _ => True
  | _, _ => False
  end.

Lemma res_rel_with_acc R acc1 acc2 x y :
  Forall2 tl_eqv acc1 acc2 -> res_rel R x y -> res_rel R (with_acc acc1 x) (with_acc acc2 y).
Proof.
  intros Ha. destruct x as [[[a oa]|e1]|u1], y as [[[b ob]|e2]|u2]; cbn; try tauto.
  intros [H1 H2]. split; [exact H1 | apply Forall2_app; assumption].
Qed.

Lemma sim_loop fuel : forall s a b,
  st_eqv a b -> res_rel st_eqv (tok_loop fuel s a []) (tok_loop fuel s b []).
Proof.
  induction fuel as [|fuel IH]; intros s a b H.
  - rewrite !tok_loop_O. exact I.
  - destruct s as [|c r].
    + rewrite !tok_loop_nil. cbn. split; [exact H | constructor].
    + rewrite !tok_loop_step. pose proof (step_sim (direct fuel) c r a b H) as Hs.
      destruct (step (direct fuel) c r a) as [e1| |r1 a1 o1], (step (direct fuel) c r b) as [e2| |r2 b1 o2];
        cbn [step_eqv] in Hs; try contradiction; try exact I.
      destruct Hs as (-> & Hst & Ho). cbn [app].
      rewrite (loop_acc fuel r2 a1 o1), (loop_acc fuel r2 b1 o2).
      apply res_rel_with_acc; [exact Ho | apply IH, Hst].
Qed.

(** ** two states about to read a line break *)

Definition pre_eol (a b : state) : Prop :=
  Forall2 tok_eqv (newlines a) (newlines b) /\ cur_indent a = cur_indent b
  /\ line (pos a) = line (pos b).

Definition same_indent (a b : state) : Prop := cur_indent a = cur_indent b.

Lemma res_rel_weaken (R R' : state -> state -> Prop) x y :
  (forall a b, R a b -> R' a b) -> res_rel R x y -> res_rel R' x y.
Proof.
  intros H. destruct x as [[[a oa]|e1]|u1], y as [[[b ob]|e2]|u2]; cbn; try tauto.
  intros [H1 H2]. split; [apply H, H1 | exact H2].
Qed.

Lemma st_eqv_same_indent a b : st_eqv a b -> same_indent a b.
Proof. intros H. apply H. Qed.

Lemma pre_eol_newline a b : pre_eol a b -> st_eqv (state_newline a) (state_newline b).
Proof.
  intros (Hn & Hc & Hl). unfold state_newline, st_eqv.
  cbn [newlines cur_indent line_indent token_this_line pos]. rewrite Hl.
  repeat split; [|exact Hc]. apply Forall2_app; [exact Hn|].
  constructor; [apply tok_eqv_synth; reflexivity | constructor].
Qed.

Lemma step_nl d r st : step d c_nl r st = Next r (state_newline st) [].
Proof. unfold step. rewrite scan_nl. reflexivity. Qed.
Lemma step_crnl d r st : step d c_cr (c_nl :: r) st = Next r (state_newline st) [].
Proof. unfold step. rewrite scan_crnl. reflexivity. Qed.
Lemma step_sp d r st : step d c_sp r st = Next r (state_space st) [].
Proof. unfold step. rewrite scan_sp. reflexivity. Qed.
Lemma step_cr_nil d st : step d c_cr [] st = Halt (pos st, ErrCR).
Proof. unfold step. rewrite scan_cr_nil. reflexivity. Qed.
Lemma step_cr_other d x r st : Ascii.eqb c_nl x = false -> step d c_cr (x :: r) st = Halt (pos st, ErrCR).
Proof. intros H. unfold step. rewrite (scan_cr_other x r H). reflexivity. Qed.

Lemma eol_sim fuel R a b :
  hd_eol R = true -> pre_eol a b ->
  res_rel same_indent (tok_loop fuel R a []) (tok_loop fuel R b []).
Proof.
  intros HR H. destruct fuel as [|fuel]; [rewrite !tok_loop_O; exact I|].
  destruct R as [|c R].
  - rewrite !tok_loop_nil. cbn. split; [apply H | constructor].
  - rewrite !tok_loop_step. cbn [hd_eol] in HR. unfold is_eolc in HR.
    apply orb_prop in HR as [Hc|Hc]; apply Ascii.eqb_eq in Hc; subst c.
    + rewrite !step_nl. cbn [app]. eapply res_rel_weaken; [exact st_eqv_same_indent|].
      apply sim_loop, pre_eol_newline, H.
    + destruct R as [|x R]; [rewrite !step_cr_nil; exact I|].
      destruct (Ascii.eqb_spec c_nl x) as [<-|Hx].
      * rewrite !step_crnl. cbn [app]. eapply res_rel_weaken; [exact st_eqv_same_indent|].
        apply sim_loop, pre_eol_newline, H.
      * apply Ascii.eqb_neq in Hx. rewrite !(step_cr_other _ x R _ Hx). exact I.
Qed.

(** ** the doc-string pass respects the relation *)

Definition is_str (t : token) : bool := match t with MStr _ => true | _ => false end.
Lemma is_str_not_synth t : is_str t = true -> synthetic t = false.
Proof. destruct t; cbn; easy. Qed.

Lemma tok_eqv_str a b :
  tok_eqv a b -> (is_str (ltok a) = true /\ a = b) \/ (is_str (ltok a) = false /\ is_str (ltok b) = false).
Proof.
  intros (Ht & _ & Hs). destruct (is_str (ltok a)) eqn:E.
  - left. split; [reflexivity | apply Hs, is_str_not_synth, E].
  - right. split; [reflexivity | rewrite <- Ht; exact E].
Qed.

Lemma doc_get_f_nonstr lf m b : is_str (ltok lf) = false -> doc_get (Some lf) m b = None.
Proof. intros H. unfold doc_get. destruct m, b; try reflexivity. destruct (ltok lf); try reflexivity. discriminate H. Qed.
Lemma doc_get_m_nonstr f lm b : is_str (ltok lm) = false -> doc_get f (Some lm) b = None.
Proof.
  intros H. unfold doc_get. destruct f as [lf|], b; try reflexivity.
  destruct (ltok lf); try reflexivity. destruct (ltok lm); try reflexivity. discriminate H.
Qed.
Lemma doc_get_b_nonstr f m lb : is_str (ltok lb) = false -> doc_get f m (Some lb) = None.
Proof.
  intros H. unfold doc_get. destruct f as [lf|], m as [lm|]; try reflexivity.
  destruct (ltok lf); try reflexivity. destruct (ltok lm); try reflexivity.
  destruct (ltok lb); try reflexivity. discriminate H.
Qed.

Definition olex_eqv (x y : option lex) : Prop :=
  match x, y with Some a, Some b => tok_eqv a b | None, None => True | _, _ => False end.
Definition otl_eqv (x y : option tl) : Prop :=
  match x, y with Some a, Some b => tl_eqv a b | None, None => True | _, _ => False end.

Lemma otop_eqv x y : otl_eqv x y -> olex_eqv (otop x) (otop y).
Proof. destruct x, y; cbn; try tauto. intros [H _]. exact H. Qed.

Lemma doc_get_none_l m b : doc_get None m b = None.
Proof. reflexivity. Qed.
Lemma doc_get_none_m f b : doc_get f None b = None.
Proof. destruct f; reflexivity. Qed.
Lemma doc_get_none_b f m : doc_get f m None = None.
Proof. destruct f, m; reflexivity. Qed.

Lemma doc_get_eqv f f' m m' b b' :
  olex_eqv f f' -> olex_eqv m m' -> olex_eqv b b' -> doc_get f m b = doc_get f' m' b'.
Proof.
  intros Hf Hm Hb.
  destruct f as [lf|], f' as [lf'|]; cbn in Hf; try contradiction; [|reflexivity].
  destruct m as [lm|], m' as [lm'|]; cbn in Hm; try contradiction; [|rewrite !doc_get_none_m; reflexivity].
  destruct b as [lb|], b' as [lb'|]; cbn in Hb; try contradiction; [|rewrite !doc_get_none_b; reflexivity].
  destruct (tok_eqv_str _ _ Hf) as [[_ <-] | [H1 H2]];
    [|rewrite (doc_get_f_nonstr _ _ _ H1), (doc_get_f_nonstr _ _ _ H2); reflexivity].
  destruct (tok_eqv_str _ _ Hm) as [[_ <-] | [H1 H2]];
    [|rewrite (doc_get_m_nonstr _ _ _ H1), (doc_get_m_nonstr _ _ _ H2); reflexivity].
  destruct (tok_eqv_str _ _ Hb) as [[_ <-] | [H1 H2]];
    [|rewrite (doc_get_b_nonstr _ _ _ H1), (doc_get_b_nonstr _ _ _ H2); reflexivity].
  reflexivity.
Qed.

Lemma opt_list_eqv (m m' : option tl) :
  otl_eqv m m' ->
  Forall2 tl_eqv (match m with Some l => [l] | None => [] end) (match m' with Some l => [l] | None => [] end).
Proof. destruct m, m'; cbn; try tauto; intros H; constructor; [exact H | constructor]. Qed.

Lemma doc_pass_eqv input input' :
  Forall2 tl_eqv input input' ->
  forall m m' b b', otl_eqv m m' -> otl_eqv b b' ->
    Forall2 tl_eqv (doc_pass None m b input) (doc_pass None m' b' input').
Proof.
  induction 1 as [|l l' rest rest' Hl Hrest IH]; intros m m' b b' Hm Hb.
  - cbn [doc_pass app]. apply Forall2_app; apply opt_list_eqv; assumption.
  - cbn [doc_pass].
    rewrite (doc_get_eqv (otop m) (otop m') (otop b) (otop b') (otop (Some l)) (otop (Some l')));
      [| apply otop_eqv, Hm | apply otop_eqv, Hb | apply (otop_eqv (Some l) (Some l')), Hl].
    destruct (doc_get (otop m') (otop b') (otop (Some l'))) as [d|].
    + constructor; [apply tl_eqv_refl | apply IH; exact I].
    + destruct m as [x|], m' as [x'|]; cbn in Hm; try contradiction.
      * constructor; [exact Hm | apply IH; [exact Hb | exact Hl]].
      * apply IH; [exact Hb | exact Hl].
Qed.

Lemma docstring_pass_eqv l l' : Forall2 tl_eqv l l' -> Forall2 tl_eqv (docstring_pass l) (docstring_pass l').
Proof. intros H. unfold docstring_pass. apply doc_pass_eqv; [exact H | exact I | exact I]. Qed.

(** ** from the loop's answer to the token list *)

Definition raw_of (x : state * list tl) : list tl :=
  let ts := snd x ++ map tl0 (flush_indents (fst x)) in
  ts ++ [tl0 (mk_lex (last_end ts) MEof)].

Definition raw_tls (s : str) : option (list tl) :=
  match tok_loop (run_fuel s) s state0 [] with inl (inl x) => Some (raw_of x) | _ => None end.

Lemma run_tls_raw s :
  run_tls s = match raw_tls s with Some l => Some (docstring_pass l) | None => None end.
Proof.
  unfold run_tls, raw_tls, raw_of.
  destruct (tok_loop (run_fuel s) s state0 []) as [[[st acc]|?]|?]; reflexivity.
Qed.

Lemma raw_of_eqv a oa b ob :
  same_indent a b -> Forall2 tl_eqv oa ob -> Forall2 tl_eqv (raw_of (a, oa)) (raw_of (b, ob)).
Proof.
  intros Hi Ho. unfold raw_of. cbn [fst snd]. apply Forall2_app; [apply Forall2_app; [exact Ho|]|].
  - apply Forall2_map_tl0. unfold flush_indents. rewrite Hi. apply Forall2_repeat, tok_eqv_synth. reflexivity.
  - constructor; [|constructor]. split; [apply tok_eqv_synth; reflexivity | reflexivity].
Qed.

(** the verdicts agree and, on success, the token lists are related *)
Definition opt_rel {A} (R : A -> A -> Prop) (x y : option A) : Prop :=
  match x, y with Some a, Some b => R a b | None, None => True | _, _ => False end.

Lemma raw_rel_run (l1 l2 : option (list tl)) :
  opt_rel (Forall2 tl_eqv) l1 l2 ->
  opt_rel (Forall2 tl_eqv) (match l1 with Some l => Some (docstring_pass l) | None => None end)
                           (match l2 with Some l => Some (docstring_pass l) | None => None end).
Proof. destruct l1, l2; cbn; try tauto. apply docstring_pass_eqv. Qed.

(** ** an invariant of reachable states: after a token on the line nothing is pending *)

Definition flag_inv (st : state) : Prop :=
  token_this_line st = true -> newlines st = [] /\ line_indent st = cur_indent st.

Lemma flag_inv0 : flag_inv state0.
Proof. intros H. discriminate H. Qed.

Lemma flag_inv_step d c r st rest st' out :
  flag_inv st -> step d c r st = Next rest st' out -> flag_inv st'.
Proof.
  intros Hi. unfold step.
  assert (Htok : forall t st1 o, state_token st t = (st1, o) -> flag_inv st1).
  { intros t st1 o. destruct (is_nl t) eqn:Ht.
    - apply is_nl_true in Ht. subst t. rewrite state_token_nl. intros E. inversion E; subst.
      intros F. discriminate F.
    - apply is_nl_false in Ht. rewrite (state_token_other st t Ht). intros E. inversion E; subst.
      intros _. split; reflexivity. }
  destruct (scan c r) as [t rest0 | content exprs rest0 | rest0 | e].
  - destruct (state_token st t) as [st1 o] eqn:E. intros H. inversion H; subst. eapply Htok, E.
  - destruct (is_docstring_arm content).
    + destruct (state_token st (string_tok content)) as [st1 o] eqn:E. intros H. inversion H; subst. eapply Htok, E.
    + destruct (nest_all d (pos st) exprs) as [[inn|]|err]; try discriminate.
      rewrite emit_str_eq. intros H. inversion H; subst. intros _. split; reflexivity.
  - intros H. inversion H; subst. intros F. cbn in F. destruct (Hi F) as [H1 H2].
    unfold state_space. cbn. rewrite F. split; [exact H1 | lia].
  - discriminate.
Qed.

Lemma flag_inv_loop fuel : forall s st acc st' acc',
  flag_inv st -> tok_loop fuel s st acc = inl (inl (st', acc')) -> flag_inv st'.
Proof.
  induction fuel as [|fuel IH]; intros s st acc st' acc' Hi H.
  - rewrite tok_loop_O in H. discriminate H.
  - destruct s as [|c r].
    + rewrite tok_loop_nil in H. inversion H; subst. exact Hi.
    + rewrite tok_loop_step in H. destruct (step (direct fuel) c r st) as [e| |rest st1 out] eqn:Hs; try discriminate H.
      eapply IH; [|exact H]. eapply flag_inv_step; eassumption.
Qed.

(** ** a token that is not a string literal cuts the doc-string pass in two *)

Lemma doc_pass_sep : forall a m b x rest,
  is_str (ltok (top x)) = false ->
  doc_pass None m b (a ++ x :: rest) = doc_pass None m b a ++ doc_pass None None (Some x) rest.
Proof.
  induction a as [|l a IH]; intros m b x rest Hx.
  - change ([] ++ x :: rest) with (x :: rest).
    assert (E : doc_get (otop m) (otop b) (otop (Some x)) = None) by (apply doc_get_b_nonstr; exact Hx).
    destruct rest as [|y rest].
    + cbn [doc_pass]. rewrite E. destruct m, b; reflexivity.
    + assert (E2 : doc_get (otop b) (otop (Some x)) (otop (Some y)) = None) by (apply doc_get_m_nonstr; exact Hx).
      cbn [doc_pass]. rewrite E, E2.
      destruct m as [xm|], b as [xb|]; reflexivity.
  - change ((l :: a) ++ x :: rest) with (l :: a ++ x :: rest). cbn [doc_pass].
    destruct (doc_get (otop m) (otop b) (otop (Some l))) as [d|].
    + cbn [app]. f_equal. apply IH, Hx.
    + destruct m as [xm|]; cbn [app]; [f_equal|]; apply IH, Hx.
Qed.

(** ** with a line break pending, the next token handed out is an NL *)

Lemma emit_layout_head st :
  newlines st <> [] -> nls_ok st -> exists l ls, emit_layout st = l :: ls /\ ltok l = MNL.
Proof.
  intros Hne Hok. unfold emit_layout.
  destruct (rev (newlines st)) as [|nl r] eqn:Hr.
  - exfalso. apply Hne. apply (f_equal (@rev _)) in Hr. rewrite rev_involutive in Hr. exact Hr.
  - eexists. eexists. split; [reflexivity|].
    unfold nls_ok in Hok. apply Forall_rev in Hok. rewrite Hr in Hok. inversion Hok; assumption.
Qed.

Lemma step_first d c r st rest st1 o :
  step d c r st = Next rest st1 o -> newlines st <> [] -> nls_ok st ->
  (o = [] /\ newlines st1 <> [] /\ nls_ok st1)
  \/ (exists x o', o = x :: o' /\ ltok (top x) = MNL).
Proof.
  intros H Hne Hok. unfold step in H.
  assert (Htok : forall t st2 out, state_token st t = (st2, out) ->
            (map tl0 out = [] /\ newlines st2 <> [] /\ nls_ok st2)
            \/ (exists x o', map tl0 out = x :: o' /\ ltok (top x) = MNL)).
  { intros t st2 out E. destruct (is_nl t) eqn:Ht.
    - apply is_nl_true in Ht. subst t. rewrite state_token_nl in E. inversion E; subst. left.
      split; [reflexivity|]. split; [|apply newline_nls_ok, Hok].
      unfold state_newline. cbn. intros F. apply app_eq_nil in F as [_ F]. discriminate F.
    - apply is_nl_false in Ht. rewrite (state_token_other st t Ht) in E. inversion E; subst. right.
      destruct (emit_layout_head st Hne Hok) as (l & ls & -> & Hl). cbn [app map].
      eexists. eexists. split; [reflexivity | exact Hl]. }
  destruct (scan c r) as [t rest0 | content exprs rest0 | rest0 | e].
  - destruct (state_token st t) as [st2 out] eqn:E. inversion H; subst. eapply Htok, E.
  - destruct (is_docstring_arm content).
    + destruct (state_token st (string_tok content)) as [st2 out] eqn:E. inversion H; subst. eapply Htok, E.
    + destruct (nest_all d (pos st) exprs) as [[inn|]|err]; try discriminate H.
      rewrite emit_str_eq in H. inversion H; subst. right.
      destruct (emit_layout_head st Hne Hok) as (l & ls & -> & Hl). cbn [app map].
      eexists. eexists. split; [reflexivity | exact Hl].
  - inversion H; subst. left. split; [reflexivity|]. split; [exact Hne | apply space_nls_ok, Hok].
  - discriminate H.
Qed.

Lemma first_out_nl fuel : forall s st st' out,
  newlines st <> [] -> nls_ok st -> tok_loop fuel s st [] = inl (inl (st', out)) ->
  match out with [] => True | x :: _ => ltok (top x) = MNL end.
Proof.
  induction fuel as [|fuel IH]; intros s st st' out Hne Hok H.
  - rewrite tok_loop_O in H. discriminate H.
  - destruct s as [|c r].
    + rewrite tok_loop_nil in H. inversion H; subst. exact I.
    + rewrite tok_loop_step in H.
      destruct (step (direct fuel) c r st) as [e| |rest st1 o] eqn:Hs; try discriminate H.
      cbn [app] in H. rewrite loop_acc in H.
      destruct (step_first _ _ _ _ _ _ _ Hs Hne Hok) as [(-> & Hne1 & Hok1) | (x & o' & -> & Hx)].
      * destruct (tok_loop fuel rest st1 []) as [[[s2 o2]|?]|?] eqn:E; try discriminate H.
        cbn in H. inversion H; subst. eapply IH; eassumption.
      * destruct (tok_loop fuel rest st1 []) as [[[s2 o2]|?]|?]; try discriminate H.
        cbn in H. inversion H; subst. exact Hx.
Qed.
