(** * Renaming and the insertion of returns / assignments, and the assembly of a class body *)
From Coq Require Import List String Bool Arith Lia.
From MambaModel Require Import model.Core gen.Names model.Convert model.Rename
  proofs.ConvertProps proofs.RenameProps proofs.RenameTypes.
Import ListNotations.
Local Open Scope string_scope.

Section Class.
  Context {rho : string -> string} {rfs : string -> string} {G : Good rho}.
  Notation ren := (ren_core rho rfs).
  Notation rnm := (ren_nm rho).
  Notation ronm := (ren_onm rho).
  Notation iok := (@iok rho rfs).
  Notation sren := (@sren rho rfs).

  (** ** [append_ret] *)
  Lemma append_ret_ren_n n : forall c, csize c <= n -> append_ret (ren c) = ren (append_ret c).
  Proof.
    induction n as [|n IH]; intros c Hn; [destruct c; cbn in Hn; lia|].
    assert (Hl : forall l, csizes l <= n -> forall y, In y l -> ren (append_ret y) = append_ret (ren y)).
    { intros l Hs y Hy. symmetry. apply IH. pose proof (csizes_in y l Hy). lia. }
    destruct c; try reflexivity; try (match goal with o : cun |- _ => destruct o; reflexivity end);
      cbn [csize] in Hn; fold (csizes) in Hn.
    - (* Block *)
      match goal with |- context [Block ?l] => destruct l as [|x l'] end; [reflexivity|].
      rewrite append_ret_block. cbn [ren_core map]. rewrite append_ret_block. f_equal.
      change (ren x :: map ren l') with (map ren (x :: l')). symmetry.
      apply map_replace_last. apply Hl. unfold csizes. cbn [fold_right] in *. lia.
    - (* IfElse *) cbn [append_ret ren_core]. rewrite !IH by lia. reflexivity.
    - (* Match *) cbn [append_ret ren_core]. f_equal. rewrite !map_map. symmetry. apply map_ext_in. apply Hl. unfold csizes. lia.
    - (* Case *) cbn [append_ret ren_core]. rewrite IH by lia. reflexivity.
    - (* TryExcept *) cbn [append_ret ren_core]. rewrite IH by lia. f_equal.
      rewrite !map_map. symmetry. apply map_ext_in. apply Hl. unfold csizes. lia.
    - cbn [append_ret ren_core]. rewrite IH by lia. reflexivity.
    - cbn [append_ret ren_core]. rewrite IH by lia. reflexivity.
  Qed.
  Lemma append_ret_ren c : append_ret (ren c) = ren (append_ret c).
  Proof. apply (append_ret_ren_n (csize c)). lia. Qed.

  (** ** [append_assign] *)
  Lemma sren_smap (f' f : core -> imports -> core * imports) l :
    (forall y, In y l -> sren ren (f' (ren y)) (f y)) -> sren (map ren) (smap f' (map ren l)) (smap f l).
  Proof.
    induction l as [|x l IH]; intros H s; [split; [reflexivity | auto]|]. cbn [map smap].
    destruct (H x (or_introl eq_refl) s) as [E P]. rewrite E. destruct (f x s) as [y s1]. cbn [fst snd] in *.
    destruct (IH (fun z Hz => H z (or_intror Hz)) s1) as [E2 P2]. rewrite E2. destruct (smap f l s1) as [ys s2].
    cbn [fst snd map] in *. split; [reflexivity | auto].
  Qed.
  Lemma sren_smap_last (f' f : core -> imports -> core * imports) l :
    (forall y, In y l -> sren ren (f' (ren y)) (f y)) -> sren (map ren) (smap_last f' (map ren l)) (smap_last f l).
  Proof.
    induction l as [|x l IH]; intros H s; [split; [reflexivity | auto]|]. cbn [map smap_last]. destruct l as [|x2 l].
    - cbn [map]. destruct (H x (or_introl eq_refl) s) as [E P]. rewrite E. destruct (f x s) as [y s1].
      cbn [fst snd map] in *. split; [reflexivity | auto].
    - destruct (IH (fun z Hz => H z (or_intror Hz)) s) as [E P]. cbn [map] in *. rewrite E.
      destruct (smap_last f (x2 :: l) s) as [ys s1]. cbn [fst snd map] in *. split; [reflexivity | auto].
  Qed.

  Lemma assign_leaf_ren t n c : sren ren (assign_leaf (ren t) (ronm n) (ren c)) (assign_leaf t n c).
  Proof.
    intros i. unfold assign_leaf. rewrite skip_assign_ren. destruct (skip_assign c); [split; [reflexivity | auto]|].
    destruct n as [n|]; cbn [ren_onm option_map]; [|split; [reflexivity | auto]].
    destruct (nm_ren (rfs:=rfs) n i) as [E P]. rewrite E. destruct (nm_to_py n i) as [ty i']. cbn [fst snd] in *.
    split; [reflexivity | exact P].
  Qed.

  Lemma append_assign_ren_n k : forall t n c, csize c <= k ->
    sren ren (append_assign (ren t) (ronm n) (ren c)) (append_assign t n c).
  Proof.
    induction k as [|k IH]; intros t n c Hk; [destruct c; cbn in Hk; lia|].
    assert (Hl : forall l, csizes l <= k -> forall y, In y l ->
               sren ren (append_assign (ren t) (ronm n) (ren y)) (append_assign t n y)).
    { intros l Hs y Hy. apply IH. pose proof (csizes_in y l Hy). lia. }
    destruct c;
      try (match goal with |- sren _ _ (append_assign t n ?c) =>
             change (append_assign t n c) with (assign_leaf t n c);
             change (append_assign (ren t) (ronm n) (ren c)) with (assign_leaf (ren t) (ronm n) (ren c));
             apply assign_leaf_ren
           end);
      cbn [csize] in Hk; fold (csizes) in Hk; intros i.
    - (* Block *)
      match goal with |- context [Block ?l] => destruct l as [|x l'] end; [split; [reflexivity | auto]|].
      cbn [ren_core map]. rewrite !append_assign_block.
      assert (Hs : csizes (x :: l') <= k) by (unfold csizes; cbn [fold_right] in *; lia).
      destruct (sren_smap_last (append_assign (ren t) (ronm n)) (append_assign t n) (x :: l') (Hl _ Hs) i) as [E P].
      cbn [map] in E. rewrite E.
      destruct (smap_last (append_assign t n) (x :: l') i) as [sts' i']. cbn [fst snd ren_core] in *.
      split; [reflexivity | exact P].
    - (* IfElse *)
      cbn [ren_core append_assign]. destruct (IH t n c2 ltac:(lia) i) as [E1 P1]. rewrite E1.
      destruct (append_assign t n c2 i) as [t' i1]. cbn [fst snd] in *.
      destruct (IH t n c3 ltac:(lia) i1) as [E2 P2]. rewrite E2.
      destruct (append_assign t n c3 i1) as [e' i2]. cbn [fst snd ren_core] in *. split; [reflexivity | auto].
    - (* Match *)
      cbn [ren_core append_assign].
      assert (Hs : csizes cases <= k) by (unfold csizes; lia).
      destruct (sren_smap (append_assign (ren t) (ronm n)) (append_assign t n) cases (Hl _ Hs) i) as [E P].
      rewrite E. destruct (smap (append_assign t n) cases i) as [cs i']. cbn [fst snd ren_core] in *.
      split; [reflexivity | exact P].
    - (* Case *)
      cbn [ren_core append_assign]. destruct (IH t n c2 ltac:(lia) i) as [E1 P1]. rewrite E1.
      destruct (append_assign t n c2 i) as [b' i1]. cbn [fst snd ren_core] in *. split; [reflexivity | exact P1].
    - (* TryExcept *)
      cbn [ren_core append_assign]. destruct (IH t n c ltac:(lia) i) as [E1 P1]. rewrite E1.
      destruct (append_assign t n c i) as [a' i1]. cbn [fst snd] in *.
      assert (Hs : csizes except <= k) by (unfold csizes; lia).
      destruct (sren_smap (append_assign (ren t) (ronm n)) (append_assign t n) except (Hl _ Hs) i1) as [E P].
      rewrite E. destruct (smap (append_assign t n) except i1) as [ex' i2]. cbn [fst snd ren_core] in *.
      split; [reflexivity | auto].
    - cbn [ren_core append_assign]. destruct (IH t n c3 ltac:(lia) i) as [E1 P1]. rewrite E1.
      destruct (append_assign t n c3 i) as [b' i1]. cbn [fst snd ren_core] in *. split; [reflexivity | exact P1].
    - cbn [ren_core append_assign]. destruct (IH t n c2 ltac:(lia) i) as [E1 P1]. rewrite E1.
      destruct (append_assign t n c2 i) as [b' i1]. cbn [fst snd ren_core] in *. split; [reflexivity | exact P1].
  Qed.
  Lemma append_assign_ren t n c : sren ren (append_assign (ren t) (ronm n) (ren c)) (append_assign t n c).
  Proof. apply (append_assign_ren_n (csize c)). lia. Qed.

  (** ** Class assembly *)
  Definition rentry (e : entry) : entry := (ren (fst e), (fst (snd e), ren (snd (snd e)))).
  Definition rvalue (v : (nat * nat) * core) : (nat * nat) * core := (fst v, ren (snd v)).

  Lemma stmt_entry_ren i s : stmt_entry i (ren s) = rentry (stmt_entry i s).
  Proof.
    destruct s; unfold rentry; cbn [ren_core stmt_entry fst snd]; rewrite ?(fx "@") by in_list; try reflexivity.
    match goal with |- context [funop_name ?o] => rewrite (Hfix (funop_name o) (in_funop o)) end. reflexivity.
  Qed.

  Lemma hm_insert_ren k v m :
    hm_insert (ren k) (rvalue v) (map rentry m) = map rentry (hm_insert k v m).
  Proof.
    induction m as [|[k' v'] m IH]; [reflexivity|]. cbn [map hm_insert rentry fst snd].
    rewrite key_eqb_ren. destruct (key_eqb k k'); [reflexivity|]. cbn [map]. rewrite IH. reflexivity.
  Qed.
  Lemma hm_get_ren k m :
    hm_get (ren k) (map rentry m) = option_map rvalue (hm_get k m).
  Proof.
    induction m as [|[k' v'] m IH]; [reflexivity|]. cbn [map hm_get rentry fst snd].
    rewrite key_eqb_ren. destruct (key_eqb k k'); [reflexivity | exact IH].
  Qed.
  Lemma body_entries_ren stmts : forall i m,
    body_entries i (map ren stmts) (map rentry m) = map rentry (body_entries i stmts m).
  Proof.
    induction stmts as [|s r IH]; intros i m; [reflexivity|]. cbn [map body_entries].
    rewrite stmt_entry_ren. destruct (stmt_entry i s) as [k v]. unfold rentry at 1. cbn [fst snd].
    change (fst v, ren (snd v)) with (rvalue v). rewrite hm_insert_ren. apply IH.
  Qed.
  Lemma insert_by_pos_ren e l :
    insert_by_pos (rvalue e) (map rvalue l) = map rvalue (insert_by_pos e l).
  Proof.
    induction l as [|x l IH]; [reflexivity|]. cbn [map insert_by_pos rvalue fst].
    destruct (pos_ltb (fst e) (fst x)); [reflexivity|]. cbn [map]. rewrite <- IH. reflexivity.
  Qed.
  Lemma sort_by_pos_ren l : sort_by_pos (map rvalue l) = map rvalue (sort_by_pos l).
  Proof.
    induction l as [|x l IH]; [reflexivity|]. unfold sort_by_pos in *. cbn [map fold_right].
    rewrite IH. apply insert_by_pos_ren.
  Qed.

  (** parents that are a type or a call of a type (anything else makes [assemble_class] fail) *)
  Definition good_parent (p : core) : Prop := parent_name p <> None.

  Lemma parent_name_ren p : parent_name (ren p) = option_map ren (parent_name p).
  Proof.
    destruct p; try reflexivity. cbn [ren_core parent_name].
    match goal with |- context [match ren ?f with _ => _ end] => destruct f; reflexivity end.
  Qed.

  Lemma parent_init_ren p : good_parent p ->
    parent_init (ren p) = (ren (fst (parent_init p)), map ren (snd (parent_init p))).
  Proof.
    assert (Hs : rho n_self_ = n_self_) by (apply fx; in_list).
    assert (Hi : rho n_init = n_init) by (apply fx; in_list).
    unfold good_parent. destruct p; cbn [parent_name]; intros Hg; try (exfalso; apply Hg; reflexivity).
    - (* FunctionCall *)
      destruct p; try (exfalso; apply Hg; reflexivity).
      rewrite ren_call by reflexivity. unfold parent_init. cbn [ren_core fst snd map]. rewrite Hs, Hi. reflexivity.
    - unfold parent_init. cbn [ren_core fst snd map]. rewrite Hs, Hi. reflexivity.
  Qed.

  Lemma flat_map_vars_ren args :
    flat_map (fun a => match a with FunArg _ var _ _ => [var] | _ => [] end) (map ren args)
    = map ren (flat_map (fun a => match a with FunArg _ var _ _ => [var] | _ => [] end) args).
  Proof.
    induction args as [|a r IH]; [reflexivity|]. cbn [map flat_map]. rewrite IH, map_app. f_equal.
    destruct a; reflexivity.
  Qed.
  Lemma existsb_shallow_ren v pa :
    existsb (core_eqb_shallow (ren v)) (map ren pa) = existsb (core_eqb_shallow v) pa.
  Proof.
    induction pa as [|x pa IH]; [reflexivity|]. cbn [map existsb]. rewrite shallow_eqb_ren, IH. reflexivity.
  Qed.
  Lemma existsb2_shallow_ren v pas :
    existsb (fun pa => existsb (core_eqb_shallow (ren v)) pa) (map (map ren) pas)
    = existsb (fun pa => existsb (core_eqb_shallow v) pa) pas.
  Proof.
    induction pas as [|pa pas IHp]; [reflexivity|]. cbn [map existsb]. rewrite existsb_shallow_ren, IHp. reflexivity.
  Qed.
  Lemma filter_fresh_ren vars pas :
    filter (fun v => negb (existsb (fun pa => existsb (core_eqb_shallow v) pa) (map (map ren) pas))) (map ren vars)
    = map ren (filter (fun v => negb (existsb (fun pa => existsb (core_eqb_shallow v) pa) pas)) vars).
  Proof.
    induction vars as [|v r IH]; [reflexivity|]. cbn [map filter]. rewrite existsb2_shallow_ren.
    destruct (existsb _ pas); cbn [negb]; [exact IH|]. cbn [map]. rewrite IH. reflexivity.
  Qed.
  Lemma block_stmts_ren b : block_stmts (ren b) = map ren (block_stmts b).
  Proof. destruct b; reflexivity. Qed.

  Lemma class_init_ren old args ps : Forall good_parent ps ->
    class_init (option_map ren old) (map ren args) (map ren ps) = option_map ren (class_init old args ps).
  Proof.
    intros Hgood.
    assert (Hs : rho n_self_ = n_self_) by (apply fx; in_list).
    assert (Hi : rho n_init = n_init) by (apply fx; in_list).
    unfold class_init.
    assert (Hpis : map parent_init (map ren ps)
                   = map (fun p => (ren (fst p), map ren (snd p))) (map parent_init ps)).
    { rewrite !map_map. apply map_ext_in. intros p Hp. apply parent_init_ren.
      rewrite Forall_forall in Hgood. apply Hgood, Hp. }
    rewrite Hpis. rewrite !map_map. cbn [fst snd].
    set (pinits := map (fun x => fst (parent_init x)) ps).
    set (pargs := map (fun x => snd (parent_init x)) ps).
    assert (E1 : map (fun x => ren (fst (parent_init x))) ps = map ren pinits)
      by (subst pinits; rewrite map_map; reflexivity).
    assert (E2 : map (fun x => map ren (snd (parent_init x))) ps = map (map ren) pargs)
      by (subst pargs; rewrite map_map; reflexivity).
    rewrite E1, E2. rewrite flat_map_vars_ren, filter_fresh_ren.
    set (fresh := filter _ (flat_map _ args)).
    assert (Hassign : map (fun v => Assign (PropertyCall (Id n_self_) v) v OpAssign) (map ren fresh)
                      = map ren (map (fun v => Assign (PropertyCall (Id n_self_) v) v OpAssign) fresh)).
    { rewrite !map_map. apply map_ext. intros v. cbn [ren_core]. rewrite Hs. reflexivity. }
    rewrite Hassign.
    assert (Hfin : forall a sts,
       (let first_is_self := match map ren a with
                             | FunArg _ (Id lit) _ _ :: _ => String.eqb lit n_self_ | _ => false end in
        let a' := if first_is_self then map ren a else Id n_self_ :: map ren a in
        match map ren sts with [] => None | _ => Some (FunDef [] n_init a' None (Block (map ren sts))) end)
       = option_map ren
          (let first_is_self := match a with
                                | FunArg _ (Id lit) _ _ :: _ => String.eqb lit n_self_ | _ => false end in
           let a' := if first_is_self then a else Id n_self_ :: a in
           match sts with [] => None | _ => Some (FunDef [] n_init a' None (Block sts)) end)).
    { intros a sts. cbv zeta.
      assert (Hss : match map ren a with FunArg _ (Id lit) _ _ :: _ => String.eqb lit n_self_ | _ => false end
                   = match a with FunArg _ (Id lit) _ _ :: _ => String.eqb lit n_self_ | _ => false end).
      { destruct a as [|x r]; [reflexivity|]. destruct x; try reflexivity. cbn [map ren_core].
        match goal with |- context [match ren ?v with _ => _ end] => destruct v; try reflexivity end.
        cbn [ren_core]. apply eqb_fixed. inres. }
      rewrite Hss. destruct sts as [|s0 r0]; [reflexivity|]. cbn [map option_map ren_core].
      destruct (match a with FunArg _ (Id lit) _ _ :: _ => String.eqb lit n_self_ | _ => false end);
        cbn [map ren_core]; rewrite ?Hs, ?Hi; reflexivity. }
    destruct old as [o|]; cbn [option_map].
    - destruct o; cbn [ren_core];
        try (rewrite <- (map_app ren); apply (Hfin [] _)).
      (* FunDef *)
      rewrite block_stmts_ren. rewrite <- !(map_app ren). apply Hfin.
    - rewrite <- (map_app ren). apply Hfin.
  Qed.

  Lemma init_pos_ren m : init_pos (map rentry m) = init_pos m.
  Proof.
    induction m as [|[k [p c]] m IH]; [reflexivity|]. unfold init_pos in *. cbn [map fold_right rentry fst snd].
    rewrite IH. destruct c; reflexivity.
  Qed.

  Lemma existsb_none_ren (l : list (option core)) :
    existsb (fun o => match o with None => true | Some _ => false end) (map (option_map ren) l)
    = existsb (fun o => match o with None => true | Some _ => false end) l.
  Proof. induction l as [|o l IH]; [reflexivity|]. cbn [map existsb]. rewrite IH. destruct o; reflexivity. Qed.
  Lemma flat_some_ren (l : list (option core)) :
    flat_map (fun o => match o with Some x => [x] | None => [] end) (map (option_map ren) l)
    = map ren (flat_map (fun o => match o with Some x => [x] | None => [] end) l).
  Proof.
    induction l as [|o l IH]; [reflexivity|]. cbn [map flat_map]. rewrite IH, map_app. destruct o; reflexivity.
  Qed.
  Lemma existsb_none_good ps :
    existsb (fun o => match o with None => true | Some _ => false end) (map parent_name ps) = false ->
    Forall good_parent ps.
  Proof.
    induction ps as [|p ps IH]; [constructor|]. cbn [map existsb]. intros H. apply orb_false_iff in H as [H1 H2].
    constructor; [|apply IH, H2]. unfold good_parent. destruct (parent_name p); [discriminate | discriminate H1].
  Qed.

  Definition rpair (x : list core * list core) : list core * list core := (map ren (fst x), map ren (snd x)).

  Lemma assemble_class_ren stmts args ps :
    assemble_class (map ren stmts) (map ren args) (map ren ps)
    = option_map rpair (assemble_class stmts args ps).
  Proof.
    assert (Hi : rho n_init = n_init) by (apply fx; in_list).
    unfold assemble_class.
    rewrite !map_map.
    assert (Hn : map (fun x => parent_name (ren x)) ps = map (option_map ren) (map parent_name ps)).
    { rewrite map_map. apply map_ext. intros p. apply parent_name_ren. }
    rewrite Hn. rewrite existsb_none_ren.
    destruct (existsb _ (map parent_name ps)) eqn:Hex; [reflexivity|].
    pose proof (existsb_none_good _ Hex) as Hgood.
    pose proof (body_entries_ren stmts 0 []) as Hm. cbn [map] in Hm. rewrite Hm. clear Hm.
    set (m := body_entries 0 stmts []).
    pose proof (hm_get_ren (Id n_init) m) as Hg. cbn [ren_core] in Hg. rewrite Hi in Hg. rewrite Hg.
    assert (Hold : match option_map rvalue (hm_get (Id n_init) m) with Some (_, f) => Some f | None => None end
                   = option_map ren (match hm_get (Id n_init) m with Some (_, f) => Some f | None => None end)).
    { destruct (hm_get (Id n_init) m) as [[p f]|]; reflexivity. }
    rewrite Hold, (class_init_ren _ _ _ Hgood).
    fold (init_pos (map rentry m)). fold (init_pos m). rewrite init_pos_ren.
    set (old := match hm_get (Id n_init) m with Some (_, f) => Some f | None => None end).
    assert (Hm' :
      match option_map ren (class_init old args ps) with
      | Some new_init =>
          hm_insert (Id n_init)
            (match option_map rvalue (hm_get (Id n_init) m) with Some (p, _) => p | None => init_pos m end, new_init)
            (map rentry m)
      | None => map rentry m
      end
      = map rentry
          (match class_init old args ps with
           | Some new_init =>
               hm_insert (Id n_init)
                 (match hm_get (Id n_init) m with Some (p, _) => p | None => init_pos m end, new_init) m
           | None => m
           end)).
    { destruct (class_init old args ps) as [ni|]; cbn [option_map]; [|reflexivity].
      pose proof (hm_insert_ren (Id n_init)
                    (match hm_get (Id n_init) m with Some (p, _) => p | None => init_pos m end, ni) m) as Hins.
      cbn [ren_core rvalue fst snd] in Hins. rewrite Hi in Hins. rewrite <- Hins. f_equal. f_equal.
      destruct (hm_get (Id n_init) m) as [[p f]|]; reflexivity. }
    rewrite Hm'. clear Hm'.
    set (m' := match class_init old args ps with Some _ => _ | None => m end).
    cbn [option_map]. unfold rpair. cbn [fst snd].
    f_equal. f_equal.
    - apply flat_some_ren.
    - assert (Hsn : map (fun x => snd (rentry x)) m' = map rvalue (map snd m')).
      { rewrite map_map. apply map_ext. intros [k [p c]]. reflexivity. }
      rewrite map_map, Hsn, sort_by_pos_ren, map_map.
      assert (Hx : map (fun x => snd (rvalue x)) (sort_by_pos (map snd m')) = map ren (map snd (sort_by_pos (map snd m')))).
      { rewrite map_map. reflexivity. }
      rewrite Hx. destruct (map snd (sort_by_pos (map snd m'))); reflexivity.
  Qed.
End Class.
