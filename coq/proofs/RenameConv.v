(** * [conv] commutes with renaming: the induction over typed ASTs *)
From Coq Require Import List String Bool Arith Lia.
From MambaModel Require Import model.Core gen.Names model.Convert model.Rename
  proofs.ConvUnfold proofs.ConvertProps proofs.ConvertSim
  proofs.RenameProps proofs.RenameTypes proofs.RenameClass.
Import ListNotations.
Local Open Scope string_scope.

Section Conv.
  Context {rho : string -> string} {rfs : string -> string} {G : Good rho}.
  Notation ren := (ren_core rho rfs).
  Notation rena := (ren_ast rho rfs).
  Notation rnm := (ren_nm rho).
  Notation rtn := (ren_tn rho).
  Notation ronm := (ren_onm rho).
  Notation rst := (ren_state rho rfs).
  Notation iok := (@iok rho rfs).
  Notation sren := (@sren rho rfs).

  (** the renamed computation returns the renamed value and the same imports; names registered
      in the imports stay fixed *)
  Definition omap2 {X} (f : X -> X) (r : option (X * imports)) : option (X * imports) :=
    match r with Some (x, j) => Some (f x, j) | None => None end.
  Definition mren {X} (f : X -> X) (m' m : M X) : Prop :=
    forall i, m' i = omap2 f (m i) /\ (iok i -> forall x j, m i = Some (x, j) -> iok j).

  Lemma mren_ret {X} (f : X -> X) x' x : x' = f x -> mren f (ret x') (ret x).
  Proof. intros -> i. split; [reflexivity|]. intros Hi y j E. inversion E; subst; exact Hi. Qed.
  Lemma mren_fail {X} (f : X -> X) : mren f fail fail.
  Proof. intros i. split; [reflexivity | discriminate]. Qed.

  (** the continuation may use that [x] is a value the first computation can return *)
  Lemma mren_bind_w {X Y} (f : X -> X) (g : Y -> Y) (m' m : M X) (k' k : X -> M Y) :
    mren f m' m -> (forall x, (exists i j, m i = Some (x, j)) -> mren g (k' (f x)) (k x)) ->
    mren g (bind m' k') (bind m k).
  Proof.
    intros Hm Hk i. unfold bind. destruct (Hm i) as [E P]. rewrite E.
    destruct (m i) as [[x j]|] eqn:Em; cbn [omap2]; [|split; [reflexivity | discriminate]].
    destruct (Hk x (ex_intro _ i (ex_intro _ j Em)) j) as [E2 P2]. split; [exact E2|].
    intros Hi y j2 Ey. apply (P2 (P Hi x j eq_refl) y j2 Ey).
  Qed.
  Lemma mren_bind {X Y} (f : X -> X) (g : Y -> Y) (m' m : M X) (k' k : X -> M Y) :
    mren f m' m -> (forall x, mren g (k' (f x)) (k x)) -> mren g (bind m' k') (bind m k).
  Proof. intros Hm Hk. apply (mren_bind_w f g); [exact Hm | intros x _; apply Hk]. Qed.

  Lemma mren_same {X} (f : X -> X) (m' m : M X) : mren f m' m -> mren (fun x => x) m m.
  Proof.
    intros H i. destruct (H i) as [_ P]. split; [|exact P]. destruct (m i) as [[x j]|]; reflexivity.
  Qed.

  Lemma mren_lift {X} (f : X -> X) (g' g : imports -> X * imports) :
    sren f g' g -> mren f (lift g') (lift g).
  Proof.
    intros H i. unfold lift. destruct (H i) as [E P]. rewrite E. destruct (g i) as [x j]. cbn [fst snd omap2] in *.
    split; [reflexivity|]. intros Hi y j2 Ey. inversion Ey; subst. exact (P Hi).
  Qed.
  Lemma mren_touch (h : imports -> imports) :
    (forall i, iok i -> iok (h i)) -> mren (fun u : unit => u) (touch h) (touch h).
  Proof.
    intros H i. unfold touch. split; [reflexivity|]. intros Hi y j Ey. inversion Ey; subst. apply H, Hi.
  Qed.

  Lemma mren_mmap {X Y} (h : X -> X) (f : Y -> Y) (g' g : X -> M Y) l :
    (forall x, In x l -> mren f (g' (h x)) (g x)) -> mren (map f) (mmap g' (map h l)) (mmap g l).
  Proof.
    induction l as [|x l IH]; intros H; cbn [map mmap]; [apply mren_ret; reflexivity|].
    eapply mren_bind; [apply H; left; reflexivity|]. intros c.
    eapply mren_bind; [apply IH; intros y Hy; apply H; right; exact Hy|]. intros cs.
    apply mren_ret. reflexivity.
  Qed.
  Lemma mren_mfiltermap {X Y} (h : X -> X) (f : Y -> Y) (g' g : X -> M (option Y)) l :
    (forall x, In x l -> mren (option_map f) (g' (h x)) (g x)) ->
    mren (map f) (mfiltermap g' (map h l)) (mfiltermap g l).
  Proof.
    induction l as [|x l IH]; intros H; cbn [map mfiltermap]; [apply mren_ret; reflexivity|].
    eapply mren_bind; [apply H; left; reflexivity|]. intros c.
    eapply mren_bind; [apply IH; intros y Hy; apply H; right; exact Hy|]. intros cs.
    apply mren_ret. destruct c; reflexivity.
  Qed.
  Lemma mren_mopt {X Y} (h : X -> X) (f : Y -> Y) (g' g : X -> M Y) o :
    (forall x, o = Some x -> mren f (g' (h x)) (g x)) ->
    mren (option_map f) (mopt g' (option_map h o)) (mopt g o).
  Proof.
    intros H. destruct o as [x|]; cbn [option_map mopt]; [|apply mren_ret; reflexivity].
    eapply mren_bind; [apply H; reflexivity|]. intros c. apply mren_ret. reflexivity.
  Qed.

  Lemma mren_nm n : mren ren (lift (nm_to_py (rnm n))) (lift (nm_to_py n)).
  Proof. apply mren_lift, nm_ren. Qed.
  Lemma mren_tn b name gs :
    mren ren (lift (tn_to_py (TN b (rho name) (map rnm gs)))) (lift (tn_to_py (TN b name gs))).
  Proof. apply mren_lift. apply (tn_ren (rfs:=rfs) (TN b name gs)). Qed.
  Lemma mren_opt_nm o : mren (option_map ren) (opt_nm_to_py (ronm o)) (opt_nm_to_py o).
  Proof.
    destruct o as [n|]; cbn [ren_onm option_map opt_nm_to_py]; [|apply mren_ret; reflexivity].
    apply mren_lift. intros i. destruct (nm_ren (rfs:=rfs) n i) as [E P]. rewrite E.
    destruct (nm_to_py n i) as [c j]. cbn [fst snd] in *. split; [reflexivity | exact P].
  Qed.

  Lemma tn_value_type t x : (exists i j, lift (tn_to_py t) i = Some (x, j)) -> is_newtype x = false.
  Proof.
    intros (i & j & E). unfold lift in E. destruct (tn_is_type t i) as (lit & gs & Ht).
    destruct (tn_to_py t i) as [c j']. cbn [fst] in Ht. inversion E; subst. reflexivity.
  Qed.

  Lemma post_ren st r' r : mren ren r' r -> mren ren (bind r' (post (rst st))) (bind r (post st)).
  Proof.
    intros Hr. eapply mren_bind; [exact Hr|]. intros c. unfold post.
    cbn [assign_to last_ret ren_state].
    eapply mren_bind with (f := ren).
    - destruct (assign_to st) as [[t n]|]; cbn [option_map ren_assign fst snd]; [|apply mren_ret; reflexivity].
      apply mren_lift, append_assign_ren.
    - intros c1. apply mren_ret. destruct (last_ret st); [apply append_ret_ren | reflexivity].
  Qed.

  (** ** small facts used in the cases *)
  Lemma ren_ast_A ty n : rena (A ty n) = A (ronm ty) (ren_node_with rho rfs rena n).
  Proof. reflexivity. Qed.
  Lemma ast_ty_ren a : ast_ty (rena a) = ronm (ast_ty a).
  Proof. destruct a; reflexivity. Qed.
  Lemma ivt_ren t e : is_valid_in_ternary (rena t) (rena e) = is_valid_in_ternary t e.
  Proof.
    destruct t as [ty nt], e as [te ne]. unfold is_valid_in_ternary. rewrite !ren_ast_A. cbn [ast_node].
    destruct nt; cbn [ren_node_with]; try reflexivity; destruct ne; reflexivity.
  Qed.
  Lemma bin_core_ren o l r : bin_core o (ren l) (ren r) = ren (bin_core o l r).
  Proof. destruct o; reflexivity. Qed.
  Lemma un_core_ren o e : un_core o (ren e) = ren (un_core o e).
  Proof. destruct o; reflexivity. Qed.
  Lemma is_branching_ren' c : is_branching (ren c) = is_branching c.
  Proof. destruct c; reflexivity. Qed.
  Lemma tl_default_ren v : tl_default (ren v) = option_map ren (tl_default v).
  Proof.
    destruct v; try reflexivity. cbn [ren_core tl_default option_map]. rewrite !map_map. reflexivity.
  Qed.
  Lemma id_lit_ren c : id_lit (ren c) = option_map rho (id_lit c).
  Proof. destruct c; reflexivity. Qed.
  Lemma is_underscore_ren c : is_underscore (ren c) = is_underscore c.
  Proof. destruct c; reflexivity. Qed.
  Lemma some_match {X} (o : option core) (F : core -> X) (D : X) :
    match option_map ren o with Some v => F v | None => D end = match o with Some v => F (ren v) | None => D end.
  Proof. destruct o; reflexivity. Qed.

  Ltac fxr s := rewrite (fx (rho:=rho) s) by in_list.

  Lemma conv_ren_n : forall n a, size a <= n ->
    forall st st', st' = rst st -> mren ren (conv (rena a) st') (conv a st).
  Proof.
    induction n as [|n IH]; intros a Hn; [destruct a; rewrite size_unfold in Hn; lia|].
    intros st st' ->. destruct a as [aty nd].
    rewrite (conv_eq (A aty nd) st), (conv_eq (rena (A aty nd)) (rst st)).
    rewrite ren_ast_A. rewrite size_unfold in Hn.
    assert (Hone : forall x s s', s' = rst s -> size x <= n -> mren ren (conv (rena x) s') (conv x s))
      by (intros x s s' Hs Hx; apply (IH x Hx s s' Hs)).
    assert (Hlist : forall l s s', s' = rst s -> sizes l <= n ->
               mren (map ren) (mmap (fun x => conv x s') (map rena l)) (mmap (fun x => conv x s) l)).
    { intros l s s' Hs Hl. apply mren_mmap. intros x Hx. apply Hone; [exact Hs|].
      pose proof (sizes_in x l Hx). lia. }
    assert (Hopt : forall o s s', s' = rst s -> sizeo o <= n ->
               mren (option_map ren) (mopt (fun x => conv x s') (option_map rena o)) (mopt (fun x => conv x s) o)).
    { intros o s s' Hs Ho. apply mren_mopt. intros x ->. apply Hone; [exact Hs | exact Ho]. }
    destruct nd; cbn [ren_node_with]; cbv zeta; apply post_ren.
    - apply mren_ret; reflexivity.
    - apply mren_ret; reflexivity.
    - apply mren_ret; reflexivity.
    - destruct interpolated; apply mren_ret; reflexivity.
    - apply mren_ret; reflexivity.
    - apply mren_ret; reflexivity.
    - (* NId *) apply mren_ret. cbn [ren_core]. rewrite c2p_ren. reflexivity.
    - apply mren_ret; reflexivity.
    - apply mren_ret; reflexivity.
    - apply mren_ret; reflexivity.
    - apply mren_ret; reflexivity.
    - apply mren_ret; reflexivity.
    - apply mren_ret; reflexivity.
    - (* NBin *)
      eapply mren_bind; [apply Hone; [reflexivity | lia]|]. intros cl.
      eapply mren_bind; [apply Hone; [reflexivity | lia]|]. intros cr.
      apply mren_ret. apply bin_core_ren.
    - (* NUn *)
      destruct o.
      1-4: (eapply mren_bind; [apply Hone; [reflexivity | lia]|]; intros c; apply mren_ret; reflexivity).
      eapply mren_bind; [apply mren_touch; intros i Hi; apply add_import_iok; [apply fx; in_list | exact Hi]|].
      intros _. eapply mren_bind; [apply Hone; [reflexivity | lia]|]. intros c. apply mren_ret. reflexivity.
    - (* NTuple *)
      eapply mren_bind; [apply Hlist; [reflexivity | lia]|]. intros cs. apply mren_ret.
      cbn [tup_lit with_last_ret with_assign ren_state]. destruct (tup_lit st); reflexivity.
    - eapply mren_bind; [apply Hlist; [reflexivity | lia]|]. intros cs. apply mren_ret. reflexivity.
    - eapply mren_bind; [apply Hlist; [reflexivity | lia]|]. intros cs. apply mren_ret. reflexivity.
    - (* NIndex *)
      eapply mren_bind; [apply Hone; [reflexivity | lia]|]. intros ci.
      eapply mren_bind; [apply Hone; [reflexivity | lia]|]. intros cr. apply mren_ret. reflexivity.
    - (* NRange *)
      eapply mren_bind; [apply Hone; [reflexivity | lia]|]. intros cf.
      eapply mren_bind; [apply Hone; [reflexivity | lia]|]. intros ct.
      eapply mren_bind with (f := ren).
      { destruct step as [s|]; cbn [option_map sizeo] in *; [apply Hone; [reflexivity | lia] | apply mren_ret; reflexivity]. }
      intros cs. apply mren_ret. rewrite ren_call by reflexivity. cbn [ren_core map]. fxr n_range.
      destruct incl; reflexivity.
    - (* NSlice *)
      eapply mren_bind; [apply Hone; [reflexivity | lia]|]. intros cf.
      eapply mren_bind; [apply Hone; [reflexivity | lia]|]. intros ct.
      eapply mren_bind with (f := ren).
      { destruct step as [s|]; cbn [option_map sizeo] in *; [apply Hone; [reflexivity | lia] | apply mren_ret; reflexivity]. }
      intros cs. apply mren_ret. rewrite ren_call by reflexivity. cbn [ren_core map]. fxr n_slice.
      destruct incl; reflexivity.
    - (* NCall *)
      eapply mren_bind_w; [apply mren_tn|]. intros f Hf.
      eapply mren_bind; [apply Hlist; [reflexivity | lia]|]. intros cs. apply mren_ret.
      rewrite ren_call; [reflexivity | exact (tn_value_type _ _ Hf)].
    - (* NProp *)
      eapply mren_bind; [apply Hone; [reflexivity | lia]|]. intros ci.
      eapply mren_bind; [apply Hone; [reflexivity | lia]|]. intros cp. apply mren_ret. reflexivity.
    - (* NAnonFun *)
      eapply mren_bind; [apply Hlist; [reflexivity | lia]|]. intros ca.
      eapply mren_bind; [apply Hone; [reflexivity | lia]|]. intros cb. apply mren_ret. reflexivity.
    - (* NExprType *)
      apply Hone; [reflexivity | lia].
    - (* NVarDef *)
      eapply mren_bind; [apply Hone; [reflexivity | lia]|]. intros v. cbv beta.
      rewrite is_tuple_literal_ren.
      cbn [annotate expand_ty def_as_fun_arg with_last_ret with_assign ren_state].
      eapply mren_bind with (f := option_map ren).
      { destruct (annotate st && expand_ty st && negb (is_tuple_literal v)); [|apply mren_ret; reflexivity].
        destruct vty as [t|]; [apply (mren_opt_nm (Some t))|].
        destruct expr as [e|]; cbn [option_map]; [|apply mren_ret; reflexivity].
        rewrite ast_ty_ren. apply mren_opt_nm. }
      intros ty. destruct (def_as_fun_arg st).
      + eapply mren_bind; [apply Hopt; [reflexivity | lia]|]. intros d. apply mren_ret. reflexivity.
      + destruct expr as [e|]; cbn [option_map sizeo] in *.
        * eapply mren_bind; [apply Hone; [reflexivity | lia]|]. intros c.
          rewrite !branch_match, is_branching_ren'. destruct (is_branching c).
          -- rewrite ast_ty_ren. apply Hone; [reflexivity | lia].
          -- apply mren_ret. reflexivity.
        * rewrite !tl_match. apply mren_ret. cbn [ren_core]. rewrite tl_default_ren. reflexivity.
    - (* NReassign *)
      eapply mren_bind; [apply Hone; [reflexivity | lia]|]. intros cl.
      eapply mren_bind; [apply Hone; [reflexivity | lia]|]. intros cr.
      destruct (core_op op); [apply mren_ret; reflexivity | apply mren_fail].
    - (* NFunDef *)
      eapply mren_bind; [apply Hlist; [reflexivity | lia]|]. intros arg.
      cbn [annotate interface with_last_ret with_assign ren_state].
      eapply mren_bind with (f := option_map ren).
      { destruct (annotate st); [apply mren_opt_nm | apply mren_ret; reflexivity]. }
      intros ty.
      eapply mren_bind with (f := fun d : list string * core => (fst d, ren (snd d))).
      { destruct body as [b|]; cbn [option_map sizeo] in *.
        - rewrite andb_false_r.
          eapply mren_bind; [apply Hone; [|lia]|].
          { destruct ret as [r|]; reflexivity. }
          intros c. apply mren_ret. reflexivity.
        - rewrite andb_true_r. destruct (interface st); [|apply mren_ret; reflexivity].
          eapply mren_bind; [apply mren_touch; intros i Hi; apply add_from_iok; [apply fx; in_list | exact Hi]|].
          intros _. apply mren_ret. reflexivity. }
      intros d.
      eapply mren_bind; [apply Hone; [reflexivity | lia]|]. intros cid.
      rewrite !id_match, id_lit_ren. destruct (id_lit cid) as [lit|]; cbn [option_map]; [|apply mren_fail].
      rewrite funop_of_ren. destruct (funop_of lit); apply mren_ret; cbn [ren_core fst snd]; [reflexivity|].
      rewrite eqb_fixed by inres. destruct (String.eqb lit "size"); [fxr "__size__"|]; reflexivity.
    - (* NFunArg *)
      eapply mren_bind; [apply Hone; [reflexivity | lia]|]. intros v. cbv beta.
      rewrite is_self_ren. cbn [annotate expand_ty with_last_ret with_assign ren_state].
      eapply mren_bind with (f := option_map ren).
      { destruct (annotate st && expand_ty st && negb (is_self v)); [apply mren_opt_nm | apply mren_ret; reflexivity]. }
      intros ty. eapply mren_bind; [apply Hopt; [reflexivity | lia]|]. intros d. apply mren_ret. reflexivity.
    - (* NBlock *)
      eapply mren_bind; [apply Hlist; [reflexivity | lia]|]. intros cs. apply mren_ret. reflexivity.
    - (* NReturn *)
      cbn [remove_ret with_last_ret with_assign ren_state]. destruct (remove_ret st).
      + apply Hone; [reflexivity | lia].
      + eapply mren_bind; [apply Hone; [reflexivity | lia]|]. intros c. apply mren_ret. reflexivity.
    - (* NIfElse *)
      eapply mren_bind; [apply Hone; [reflexivity | lia]|]. intros cc.
      destruct el as [e|]; cbn [option_map sizeo] in *.
      + rewrite ivt_ren.
        assert (Ha : match ronm aty with Some _ => true | None => false end
                     = match aty with Some _ => true | None => false end) by (destruct aty; reflexivity).
        rewrite Ha. destruct (match aty with Some _ => true | None => false end && is_valid_in_ternary t e).
        * eapply mren_bind; [apply Hone; [reflexivity | lia]|]. intros ct.
          eapply mren_bind; [apply Hone; [reflexivity | lia]|]. intros ce. apply mren_ret. reflexivity.
        * eapply mren_bind; [apply Hone; [reflexivity | lia]|]. intros ct.
          eapply mren_bind; [apply Hone; [reflexivity | lia]|]. intros ce. apply mren_ret. reflexivity.
      + eapply mren_bind; [apply Hone; [reflexivity | lia]|]. intros ct. apply mren_ret. reflexivity.
    - (* NMatch *)
      eapply mren_bind; [apply Hone; [reflexivity | lia]|]. intros ce.
      eapply mren_bind with (f := map ren).
      { apply mren_mfiltermap. intros x Hx. pose proof (sizes_in x cases Hx) as Hsx.
        destruct x as [xty xn]. rewrite ren_ast_A.
        destruct xn; cbn [ren_node_with]; try (apply mren_ret; reflexivity).
        destruct cond as [cty cn]. rewrite ren_ast_A.
        destruct cn; cbn [ren_node_with]; try (apply mren_ret; reflexivity).
        rewrite !size_unfold in Hsx.
        eapply mren_bind; [apply Hone; [reflexivity | lia]|]. intros pe.
        eapply mren_bind; [apply Hone; [reflexivity | lia]|]. intros pb.
        apply mren_ret. reflexivity. }
      intros cs. apply mren_ret. reflexivity.
    - (* NCase *) apply mren_ret; reflexivity.
    - (* NWhile *)
      eapply mren_bind; [apply Hone; [reflexivity | lia]|]. intros cc.
      eapply mren_bind; [apply Hone; [reflexivity | lia]|]. intros cb. apply mren_ret. reflexivity.
    - (* NFor *)
      eapply mren_bind; [apply Hone; [reflexivity | lia]|]. intros ce.
      eapply mren_bind; [apply Hone; [reflexivity | lia]|]. intros cc.
      eapply mren_bind; [apply Hone; [reflexivity | lia]|]. intros cb. apply mren_ret. reflexivity.
    - (* NRaise *)
      eapply mren_bind; [apply Hone; [reflexivity | lia]|]. intros c. apply mren_ret. reflexivity.
    - (* NHandle *)
      assert (He : size e <= n) by lia.
      assert (Hcs : sizes cases <= n) by lia.
      rewrite ast_ty_ren.
      eapply mren_bind with
        (f := fun vt : option core * option core => (option_map ren (fst vt), option_map ren (snd vt))).
      { destruct e as [ety en]. rewrite ren_ast_A.
        destruct en; cbn [ren_node_with]; try (apply mren_ret; reflexivity).
        rewrite size_unfold in He.
        eapply mren_bind; [apply mren_opt_nm|]. intros t.
        eapply mren_bind; [apply Hone; [reflexivity | lia]|]. intros v. apply mren_ret. reflexivity. }
      intros vt. cbn [fst snd].
      eapply mren_bind; [apply Hone; [reflexivity | lia]|]. intros attempt.
      eapply mren_bind with (f := map ren).
      { apply mren_mmap. intros x Hx. pose proof (sizes_in x cases Hx) as Hsx.
        destruct x as [xty xn]. rewrite ren_ast_A.
        destruct xn; cbn [ren_node_with]; try apply mren_fail.
        destruct cond as [cty cn]. rewrite ren_ast_A.
        destruct cn; cbn [ren_node_with]; try apply mren_fail.
        destruct ety as [cty'|]; cbn [ren_onm option_map]; [|apply mren_fail].
        rewrite !size_unfold in Hsx.
        eapply mren_bind; [apply Hone; [reflexivity | lia]|]. intros id.
        eapply mren_bind; [apply mren_nm|]. intros cl.
        eapply mren_bind.
        { apply Hone; [|lia]. destruct (fst vt); reflexivity. }
        intros b. apply mren_ret. rewrite !underscore_match, is_underscore_ren.
        destruct (is_underscore id); reflexivity. }
      intros ex. apply mren_ret. destruct (fst vt); reflexivity.
    - (* NImport: the module after `from` is not renamed; it is the same sub-tree converted in the same state *)
      eapply mren_bind with (f := fun o : option core => o).
      { eapply mren_same. apply (Hopt from); [reflexivity | lia]. }
      intros f.
      eapply mren_bind; [apply Hlist; [reflexivity | lia]|]. intros im.
      eapply mren_bind; [apply Hlist; [reflexivity | lia]|]. intros al. apply mren_ret. reflexivity.
    - (* NClass *)
      eapply mren_bind; [apply Hlist; [reflexivity | lia]|]. intros ps.
      eapply mren_bind; [apply Hopt; [reflexivity | lia]|]. intros b.
      eapply mren_bind; [apply Hlist; [reflexivity | lia]|]. intros ca.
      rewrite (some_match b block_stmts []).
      assert (Hst : match b with Some v => block_stmts (ren v) | None => [] end
                    = map ren (match b with Some x => block_stmts x | None => [] end))
        by (destruct b; [apply block_stmts_ren | reflexivity]).
      rewrite Hst, assemble_class_ren.
      destruct (assemble_class _ ca ps) as [[pn bs]|]; cbn [option_map rpair fst snd]; [|apply mren_fail].
      eapply mren_bind; [apply mren_tn|]. intros t.
      destruct t; cbn [ren_core]; try apply mren_fail. apply mren_ret. reflexivity.
    - (* NParent *)
      eapply mren_bind_w; [apply mren_tn|]. intros t Ht.
      destruct args as [|x r]; [apply mren_ret; reflexivity|].
      eapply mren_bind; [apply (Hlist (x :: r)); [reflexivity | lia]|]. intros cs. apply mren_ret.
      rewrite ren_call; [reflexivity | exact (tn_value_type _ _ Ht)].
    - (* NTypeDef *)
      eapply mren_bind with (f := map ren).
      { destruct isa as [nmi|]; cbn [ren_onm option_map]; [|apply mren_ret; reflexivity].
        eapply mren_bind; [apply mren_nm|]. intros t. apply mren_ret. reflexivity. }
      intros ps.
      eapply mren_bind; [apply Hopt; [reflexivity | lia]|]. intros b.
      rewrite (some_match b block_stmts []).
      assert (Hst : match b with Some v => block_stmts (ren v) | None => [] end
                    = map ren (match b with Some x => block_stmts x | None => [] end))
        by (destruct b; [apply block_stmts_ren | reflexivity]).
      rewrite Hst.
      pose proof (assemble_class_ren (rfs:=rfs) (match b with Some x => block_stmts x | None => [] end) [] ps) as Ha.
      cbn [map] in Ha. rewrite Ha. clear Ha.
      destruct (assemble_class _ [] ps) as [[pn bs]|]; cbn [option_map rpair fst snd]; [|apply mren_fail].
      eapply mren_bind with (f := map ren).
      { destruct abstract_parent; [apply mren_ret; reflexivity|].
        eapply mren_bind; [apply mren_touch; intros i Hi; apply add_from_iok; [apply fx; in_list | exact Hi]|].
        intros _. apply mren_ret. rewrite map_app. cbn [map ren_core]. fxr "ABC". reflexivity. }
      intros pn'.
      eapply mren_bind; [apply mren_tn|]. intros t.
      destruct t; cbn [ren_core]; try apply mren_fail. apply mren_ret. reflexivity.
    - (* NTypeAlias *)
      eapply mren_bind; [apply mren_touch; intros i Hi; apply add_from_iok; [apply fx; in_list | exact Hi]|].
      intros _. eapply mren_bind; [apply mren_nm|]. intros t. apply mren_ret.
      cbn [ren_core map]. fxr "NewType". reflexivity.
    - (* NDict *)
      eapply mren_bind with (f := map (fun kv : core * core => (ren (fst kv), ren (snd kv)))).
      { apply mren_mmap. intros kv Hkv. pose proof (sizesp_in kv elements Hkv) as Hs. cbn [fst snd].
        eapply mren_bind; [apply Hone; [reflexivity | lia]|]. intros k0.
        eapply mren_bind; [apply Hone; [reflexivity | lia]|]. intros v0. apply mren_ret. reflexivity. }
      intros kvs. apply mren_ret. reflexivity.
    - (* NListBuilder *)
      eapply mren_bind; [apply Hone; [reflexivity | lia]|]. intros e.
      destruct conds as [|col rest]; cbn [map]; [apply mren_fail|]. cbn [sizes] in Hn.
      eapply mren_bind; [apply Hlist; [reflexivity | lia]|]. intros cs.
      eapply mren_bind; [apply Hone; [reflexivity | lia]|]. intros cc. apply mren_ret. reflexivity.
    - (* NSetBuilder *)
      eapply mren_bind; [apply Hone; [reflexivity | lia]|]. intros e.
      destruct conds as [|col rest]; cbn [map]; [apply mren_fail|]. cbn [sizes] in Hn.
      eapply mren_bind; [apply Hlist; [reflexivity | lia]|]. intros cs.
      eapply mren_bind; [apply Hone; [reflexivity | lia]|]. intros cc. apply mren_ret. reflexivity.
    - (* NDictBuilder *)
      eapply mren_bind; [apply Hone; [reflexivity | lia]|]. intros f.
      eapply mren_bind; [apply Hone; [reflexivity | lia]|]. intros t.
      destruct conds as [|col rest]; cbn [map]; [apply mren_fail|]. cbn [sizes] in Hn.
      eapply mren_bind; [apply Hlist; [reflexivity | lia]|]. intros cs.
      eapply mren_bind; [apply Hone; [reflexivity | lia]|]. intros cc. apply mren_ret. reflexivity.
    - (* NWith *)
      eapply mren_bind; [apply Hone; [reflexivity | lia]|]. intros r.
      destruct alias as [al|]; cbn [option_map sizeo] in *.
      + eapply mren_bind; [apply Hone; [reflexivity | lia]|]. intros ca.
        eapply mren_bind; [apply Hone; [reflexivity | lia]|]. intros b. apply mren_ret. reflexivity.
      + eapply mren_bind; [apply Hone; [reflexivity | lia]|]. intros b. apply mren_ret. reflexivity.
  Qed.

  Theorem conv_ren a st : mren ren (conv (rena a) (rst st)) (conv a st).
  Proof. apply (conv_ren_n (size a)); [lia | reflexivity]. Qed.
End Conv.

(** ** The statements of C15 over the model *)

Section Statements.
  Variables rho rfs : string -> string.
  Hypothesis Hi : injective rho.
  Hypothesis Hf : fixes rho reserved.
  Let G : Good rho := {| Hinj := Hi; Hfix := Hf |}.
  Notation ren := (ren_core rho rfs).
  Notation rena := (ren_ast rho rfs).
  Notation rst := (ren_state rho rfs).

  (** every name registered in the imports is fixed by the renaming *)
  Definition imports_fixed (i : imports) : Prop := ren_imports rho rfs i = i.

  Lemma iok_iff i : RenameTypes.iok (rho:=rho) (rfs:=rfs) i <-> imports_fixed i.
  Proof.
    split; [apply iok_ren_imports|]. unfold imports_fixed, ren_imports. destruct i as [a b c]. intros E.
    inversion E as [[E1 E2 E3]]. unfold RenameTypes.iok. cbn [imps typing_imps other_from]. rewrite !E1, !E2, !E3.
    repeat split; assumption.
  Qed.

  Theorem conv_equivariant_value a st i :
    conv (rena a) (rst st) i = option_map (fun r => (ren (fst r), snd r)) (conv a st i).
  Proof.
    destruct (conv_ren (G:=G) (rfs:=rfs) a st i) as [E _]. rewrite E.
    destruct (conv a st i) as [[c j]|]; reflexivity.
  Qed.

  Theorem conv_keeps_imports_fixed a st i c j :
    imports_fixed i -> conv a st i = Some (c, j) -> imports_fixed j.
  Proof.
    intros H E. apply iok_iff. destruct (conv_ren (G:=G) (rfs:=rfs) a st i) as [_ P].
    apply (P (proj2 (iok_iff i) H) c j E).
  Qed.

  Theorem conv_equivariant a st i :
    imports_fixed i ->
    conv (rena a) (rst st) (ren_imports rho rfs i) = option_map (ren_result rho rfs) (conv a st i).
  Proof.
    intros H. rewrite H, conv_equivariant_value.
    destruct (conv a st i) as [[c j]|] eqn:E; [|reflexivity]. cbn [option_map fst snd]. unfold ren_result.
    cbn [fst snd]. rewrite (conv_keeps_imports_fixed a st i c j H E). reflexivity.
  Qed.

  Lemma from_imps_fixed j : imports_fixed j ->
    map (fun kv : string * (list core * list core) => (fst kv, ren_names rho rfs (snd kv))) (from_imps j) = from_imps j.
  Proof.
    intros H. apply iok_iff in H. destruct H as (H1 & H2 & H3). unfold from_imps.
    destruct (typing_imps j) as [v|]; [|exact H3].
    apply map_insert_fixed; [|exact H3]. cbn [option_map] in H2. congruence.
  Qed.

  Lemma import_list_fixed j : imports_fixed j -> map ren (import_list j) = import_list j.
  Proof.
    intros H. unfold import_list. rewrite map_app. pose proof (from_imps_fixed j H) as Hfi.
    apply iok_iff in H. destruct H as (H1 & _). rewrite H1. f_equal.
    rewrite <- Hfi at 2. rewrite !map_map. apply map_ext. intros [k [ns al]]. reflexivity.
  Qed.

  Theorem gen_equivariant ann a : gen ann (rena a) = option_map ren (gen ann a).
  Proof.
    unfold gen. change (state0 ann) with (rst (state0 ann)) at 1.
    rewrite conv_equivariant_value.
    destruct (conv a (state0 ann) imports0) as [[c j]|] eqn:E; [|reflexivity]. cbn [option_map fst snd].
    assert (Hj : imports_fixed j).
    { apply (conv_keeps_imports_fixed a (state0 ann) imports0 c j); [|exact E]. reflexivity. }
    pose proof (import_list_fixed j Hj) as Hl.
    destruct c; cbn [ren_core]; try (destruct (imports_empty j); cbn [option_map ren_core];
      rewrite ?map_app, ?Hl; reflexivity).
  Qed.

  Theorem gen_verdict ann a : gen ann (rena a) = None <-> gen ann a = None.
  Proof.
    rewrite gen_equivariant. destruct (gen ann a); cbn [option_map]; split; intros E; try discriminate E; reflexivity.
  Qed.

  Lemma imports0_fixed : imports_fixed imports0.
  Proof. reflexivity. Qed.
End Statements.
