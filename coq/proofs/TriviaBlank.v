(** * A blank or whitespace-only line (used by C14)

    Inserting a line that holds only blanks after a line break point [pre | R] makes the lexer
    keep one more pending NL token.  It is handed out with the next token, directly before the
    older pending NL tokens - i.e. after the NL of the line and after the Indent/Dedent tokens -
    and every later token moves down one line.  If no token follows, nothing changes
    (pending NL tokens are dropped at the end of input). *)
From Coq Require Import List Ascii ZArith Bool Lia Arith.
From MambaModel Require Import model.LexTok gen.LexTables model.Lex proofs.LexProps model.Trivia
  proofs.TriviaFuel proofs.TriviaScan proofs.TriviaSim proofs.TriviaShift proofs.TriviaProps.
Import ListNotations.
Local Open Scope Z_scope.

Definition set_nl (st : state) (n : list lex) : state :=
  {| newlines := n; cur_indent := cur_indent st; line_indent := line_indent st;
     token_this_line := token_this_line st; pos := pos st |}.

Definition nl_like (l : lex) : Prop := ltok l = MNL /\ lnested l = false.

Lemma rev_nonempty {A} (l : list A) : l <> [] -> exists x r, rev l = x :: r.
Proof.
  intros H. destruct (rev l) as [|x r] eqn:E; [|eauto].
  exfalso. apply H. apply (f_equal (@rev _)) in E. rewrite rev_involutive in E. exact E.
Qed.

(** the last token of [P] is an NL or an Indent *)
Definition ends_nl_indent (P : list lex) : Prop :=
  exists P0 z, P = P0 ++ [z] /\ (ltok z = MNL \/ ltok z = MIndent).

(** the extra pending NL [x] is handed out after the layout tokens *)
Lemma emit_layout_extra b x rest :
  newlines b = x :: rest -> rest <> [] -> Forall (fun l => ltok l = MNL) rest ->
  exists P Q, emit_layout (set_nl b rest) = P ++ Q /\ emit_layout b = P ++ x :: Q
              /\ P <> [] /\ Forall (fun l => synthetic (ltok l) = true) P /\ ends_nl_indent P.
Proof.
  intros Hn Hne Hall. destruct (rev_nonempty rest Hne) as (l0 & r & Hr).
  unfold emit_layout, set_nl. cbn [newlines cur_indent line_indent pos]. rewrite Hn. cbn [rev]. rewrite Hr.
  cbn [app]. rewrite rev_app_distr. cbn [rev app].
  set (layout := if cur_indent b <=? line_indent b then _ else _).
  exists ([l0] ++ layout), (rev r). split; [rewrite <- app_assoc; reflexivity|].
  split; [rewrite <- app_assoc; reflexivity|]. split; [discriminate|].
  assert (Hl0 : ltok l0 = MNL).
  { apply Forall_rev in Hall. rewrite Hr in Hall. inversion Hall; subst. assumption. }
  split.
  - apply Forall_app. split.
    + constructor; [|constructor]. rewrite Hl0. reflexivity.
    + subst layout. destruct (cur_indent b <=? line_indent b).
      * apply Forall_forall. intros l Hl. apply repeat_spec in Hl. subst. reflexivity.
      * apply Forall_app. split.
        -- apply Forall_forall. intros l Hl. apply repeat_spec in Hl. subst. reflexivity.
        -- constructor; [reflexivity | constructor].
  - subst layout. unfold ends_nl_indent. destruct (cur_indent b <=? line_indent b).
    + destruct (Z.to_nat ((line_indent b - cur_indent b) ÷ 4)) as [|m].
      * exists [], l0. split; [reflexivity | left; exact Hl0].
      * exists ([l0] ++ repeat (mk_lex (pos b) MIndent) m), (mk_lex (pos b) MIndent).
        split; [|right; reflexivity]. rewrite <- app_assoc. f_equal. apply repeat_cons.
    + exists ([l0] ++ repeat (mk_lex (pos b) MDedent) (Z.to_nat ((cur_indent b - line_indent b) ÷ 4))),
             (mk_lex (pos b) MNL).
      split; [rewrite <- app_assoc; reflexivity | left; reflexivity].
Qed.

Lemma after_emit_set_nl b rest t : after_emit (set_nl b rest) t = after_emit b t.
Proof. reflexivity. Qed.
Lemma state_space_set_nl b rest : state_space (set_nl b rest) = set_nl (state_space b) rest.
Proof. reflexivity. Qed.
Lemma state_newline_set_nl b rest :
  state_newline (set_nl b rest) = set_nl (state_newline b) (rest ++ [mk_lex (pos b) MNL]).
Proof. reflexivity. Qed.

(** one step from [b] and from [b] without its oldest pending NL *)
Definition step_extra_rel (x : lex) (s1 s2 : stepres) : Prop :=
  match s1, s2 with
  | Halt e1, Halt e2 => e1 = e2
  | OOF, OOF => True
  | Next r1 b1 o1, Next r2 b2 o2 =>
      r1 = r2 /\
      ((o1 = [] /\ o2 = [] /\ exists rest', newlines b2 = x :: rest' /\ b1 = set_nl b2 rest' /\ rest' <> []
                                           /\ Forall (fun l => ltok l = MNL) rest')
       \/ (b1 = b2 /\ exists P Q, P <> [] /\ Forall (fun l => synthetic (ltok l) = true) P
                                  /\ ends_nl_indent P
                                  /\ o1 = map tl0 P ++ Q /\ o2 = map tl0 P ++ tl0 x :: Q))
  | _, _ => False
  end.

Lemma step_extra f c r b x rest :
  newlines b = x :: rest -> rest <> [] -> Forall (fun l => ltok l = MNL) rest ->
  step_extra_rel x (step f c r (set_nl b rest)) (step f c r b).
Proof.
  intros Hn Hne Hall. unfold step.
  assert (Htok : forall t rest0,
            step_extra_rel x (let '(st', out) := state_token (set_nl b rest) t in Next rest0 st' (map tl0 out))
                             (let '(st', out) := state_token b t in Next rest0 st' (map tl0 out))).
  { intros t rest0. destruct (is_nl t) eqn:Ht.
    - apply is_nl_true in Ht. subst t. rewrite !state_token_nl. cbn [step_extra_rel map].
      split; [reflexivity|]. left. split; [reflexivity|]. split; [reflexivity|].
      exists (rest ++ [mk_lex (pos b) MNL]). split; [unfold state_newline; cbn; rewrite Hn; reflexivity|].
      split; [apply state_newline_set_nl|]. split.
      + intros F. apply app_eq_nil in F as [_ F]. discriminate F.
      + apply Forall_app. split; [exact Hall | constructor; [reflexivity | constructor]].
    - apply is_nl_false in Ht. rewrite !(state_token_other _ t Ht). cbn [step_extra_rel].
      split; [reflexivity|]. right. split; [apply after_emit_set_nl|].
      destruct (emit_layout_extra b x rest Hn Hne Hall) as (P & Q & E1 & E2 & HP & HS & HE).
      exists P, (map tl0 (Q ++ [mk_lex (pos b) t])). split; [exact HP|]. split; [exact HS|]. split; [exact HE|].
      rewrite E1, E2. cbn [set_nl pos]. rewrite <- !app_assoc, !map_app. cbn [map app]. split; reflexivity. }
  destruct (scan c r) as [t rest0 | content exprs rest0 | rest0 | e].
  - apply Htok.
  - destruct (is_docstring_arm content); [apply Htok|].
    cbn [set_nl pos]. destruct (nest_all f (pos b) exprs) as [[inn|]|err]; [| exact I | reflexivity].
    rewrite !emit_str_eq. cbn [step_extra_rel]. split; [reflexivity|]. right.
    split; [apply after_emit_set_nl|].
    destruct (emit_layout_extra b x rest Hn Hne Hall) as (P & Q & E1 & E2 & HP & HS & HE).
    exists P, (map tl0 Q ++ [{| top := mk_lex (pos b) (string_tok content); inner := inn |}]).
    split; [exact HP|]. split; [exact HS|]. split; [exact HE|]. rewrite E1, E2. cbn [set_nl pos].
    rewrite !map_app. cbn [map]. rewrite <- !app_assoc. cbn [app]. split; reflexivity.
  - cbn [step_extra_rel]. split; [reflexivity|]. left. split; [reflexivity|]. split; [reflexivity|].
    exists rest. split; [unfold state_space; cbn; exact Hn|]. split; [apply state_space_set_nl|].
    split; assumption.
  - reflexivity.
Qed.

(** ** the phase until the next token is handed out *)

(** [b] is [a] one line further down with one more pending NL *)
Definition ph1 (a b : state) : Prop :=
  exists x rest, newlines b = x :: rest /\ nl_like x /\ rest <> []
                 /\ Forall (fun l => ltok l = MNL) rest /\ st_sh 1 a (set_nl b rest).

Definition ins_out (oa ob : list tl) : Prop :=
  exists u v u' x v',
    oa = u ++ v /\ ob = u' ++ x :: v' /\ u' <> []
    /\ Forall (fun y => synthetic (ltok (top y)) = true /\ inner y = []) u'
    /\ (exists u0 z, u' = u0 ++ [z] /\ (ltok (top z) = MNL \/ ltok (top z) = MIndent))
    /\ Forall2 (tl_sh 1) u u' /\ ltok (top x) = MNL /\ inner x = []
    /\ Forall2 (tl_sh 1) v v'.

Definition ph1_res (x y : lres) : Prop :=
  match x, y with
  | inl (inl (a, oa)), inl (inl (b, ob)) =>
      same_indent a b /\ ((oa = [] /\ ob = []) \/ ins_out oa ob)
  | inl (inr _), inl (inr _) => True
  | inr _, inr _ => True
  | _, _ => False
  end.

Lemma st_sh_same_indent d a b : st_sh d a b -> same_indent a b.
Proof. intros H. apply H. Qed.

Lemma ph1_loop fuel : forall s a b,
  ph1 a b -> ph1_res (tok_loop fuel s a []) (tok_loop fuel s b []).
Proof.
  induction fuel as [|fuel IH]; intros s a b H.
  - rewrite !tok_loop_O. exact I.
  - destruct H as (x & rest & Hn & Hx & Hne & Hall & Hsh).
    destruct s as [|c r].
    + rewrite !tok_loop_nil. cbn. split; [|left; split; reflexivity].
      apply (st_sh_same_indent 1 a (set_nl b rest) Hsh).
    + rewrite !tok_loop_step.
      pose proof (step_sim_sh (direct fuel) 1 c r a (set_nl b rest) Hsh) as H1.
      pose proof (step_extra (direct fuel) c r b x rest Hn Hne Hall) as H2.
      destruct (step (direct fuel) c r a) as [e1| |r1 a1 o1],
               (step (direct fuel) c r (set_nl b rest)) as [e0| |r0 b0 o0],
               (step (direct fuel) c r b) as [e2| |r2 b2 o2];
        cbn [step_sh step_extra_rel] in H1, H2; try contradiction; try exact I.
      destruct H1 as (-> & Hst & Ho). destruct H2 as (-> & H2). cbn [app].
      destruct H2 as [(-> & -> & rest' & Hn' & -> & Hne' & Hall') | (-> & P & Q & HP & HS & HE & -> & ->)].
      * inversion Ho; subst. apply IH. exists x, rest'.
        split; [exact Hn'|]. split; [exact Hx|]. split; [exact Hne'|]. split; [exact Hall' | exact Hst].
      * rewrite (loop_acc fuel r2 a1 o1), (loop_acc fuel r2 b2 (map tl0 P ++ tl0 x :: Q)).
        pose proof (sim_loop_sh 1 fuel r2 a1 b2 Hst) as Hl.
        destruct (tok_loop fuel r2 a1 []) as [[[a3 o3]|?]|?], (tok_loop fuel r2 b2 []) as [[[b3 o4]|?]|?];
          cbn in Hl |- *; try contradiction; try exact I.
        destruct Hl as [Hs3 Ho3]. split; [apply (st_sh_same_indent 1 _ _ Hs3)|]. right.
        apply Forall2_app_inv_r in Ho as (u & v & Hu & Hv & ->).
        exists u, (v ++ o3), (map tl0 P), (tl0 x), (Q ++ o4).
        split; [rewrite app_assoc; reflexivity|]. split; [rewrite <- app_assoc; reflexivity|].
        split; [destruct P; [contradiction | discriminate]|].
        split; [apply Forall_forall; intros y Hy; apply in_map_iff in Hy as (l & <- & Hl);
                rewrite Forall_forall in HS; split; [apply HS, Hl | reflexivity]|].
        split; [destruct HE as (P0 & z & -> & Hz); exists (map tl0 P0), (tl0 z); split;
                [rewrite map_app; reflexivity | exact Hz]|].
        split; [exact Hu|]. split; [apply Hx|]. split; [reflexivity|].
        apply Forall2_app; assumption.
Qed.

(** ** the doc-string pass next to a token that is not a string literal *)

Lemma doc_pass_nonstr_head x rest :
  is_str (ltok (top x)) = false ->
  doc_pass None None (Some x) rest = x :: doc_pass None None None rest.
Proof.
  intros Hx. destruct rest as [|z rest]; [reflexivity|].
  cbn [doc_pass otop]. rewrite doc_get_none_l.
  destruct rest as [|w rest]; [reflexivity|].
  cbn [doc_pass otop]. rewrite (doc_get_f_nonstr (top x) (Some (top z)) (Some (top w)) Hx).
  rewrite doc_get_none_l. reflexivity.
Qed.

Lemma docstring_pass_cut u z v :
  is_str (ltok (top z)) = false ->
  docstring_pass ((u ++ [z]) ++ v) = (docstring_pass u ++ [z]) ++ docstring_pass v.
Proof.
  intros Hz. unfold docstring_pass. rewrite <- app_assoc. cbn [app].
  rewrite (doc_pass_sep u None None z v Hz), (doc_pass_nonstr_head z v Hz), <- app_assoc. reflexivity.
Qed.

(** ** pending NL tokens are plain NL tokens *)

Definition nl_inv (st : state) : Prop := Forall nl_like (newlines st).

Lemma nl_inv_step d c r st rest st' out : nl_inv st -> step d c r st = Next rest st' out -> nl_inv st'.
Proof.
  intros Hi. unfold step.
  assert (Htok : forall t st1 o, state_token st t = (st1, o) -> nl_inv st1).
  { intros t st1 o. destruct (is_nl t) eqn:Ht.
    - apply is_nl_true in Ht. subst t. rewrite state_token_nl. intros E. inversion E; subst.
      unfold nl_inv, state_newline. cbn. apply Forall_app. split; [exact Hi|].
      constructor; [split; reflexivity | constructor].
    - apply is_nl_false in Ht. rewrite (state_token_other st t Ht). intros E. inversion E; subst. constructor. }
  destruct (scan c r) as [t rest0 | content exprs rest0 | rest0 | e].
  - destruct (state_token st t) as [st1 o] eqn:E. intros H. inversion H; subst. eapply Htok, E.
  - destruct (is_docstring_arm content).
    + destruct (state_token st (string_tok content)) as [st1 o] eqn:E. intros H. inversion H; subst. eapply Htok, E.
    + destruct (nest_all d (pos st) exprs) as [[inn|]|err]; try discriminate.
      rewrite emit_str_eq. intros H. inversion H; subst. constructor.
  - intros H. inversion H; subst. exact Hi.
  - discriminate.
Qed.

Lemma nl_inv_loop fuel : forall s st acc st' acc',
  nl_inv st -> tok_loop fuel s st acc = inl (inl (st', acc')) -> nl_inv st'.
Proof.
  induction fuel as [|fuel IH]; intros s st acc st' acc' Hi H.
  - rewrite tok_loop_O in H. discriminate H.
  - destruct s as [|c r].
    + rewrite tok_loop_nil in H. inversion H; subst. exact Hi.
    + rewrite tok_loop_step in H. destruct (step (direct fuel) c r st) as [e| |rest st1 out] eqn:Hs; try discriminate H.
      eapply IH; [|exact H]. eapply nl_inv_step; eassumption.
Qed.

Lemma nl_lists_sh d la : forall lb,
  Forall nl_like la -> Forall nl_like lb -> length la = length lb -> Forall2 (lex_sh d) la lb.
Proof.
  induction la as [|a la IH]; intros [|b lb] Ha Hb Hl; try discriminate Hl; [constructor|].
  inversion Ha as [|? ? [A1 A2] Ha']; inversion Hb as [|? ? [B1 B2] Hb']; subst.
  constructor; [|apply IH; [assumption | assumption | cbn in Hl; lia]].
  split; [rewrite A1, B1; reflexivity|]. split; [rewrite A2, B2; reflexivity|]. rewrite A1. discriminate.
Qed.

(** the two states after the line break that follows the insertion point *)
Lemma ph1_start st n :
  nl_inv st ->
  ph1 (state_newline st) (state_newline (Nat.iter n state_space (state_newline st))).
Proof.
  intros Hi. set (st2 := Nat.iter n state_space (state_newline st)).
  destruct (spaces_state n (state_newline st)) as (H1 & H2 & _ & H4 & _). fold st2 in H1, H2, H4.
  assert (HA : Forall nl_like (newlines (state_newline st))).
  { unfold state_newline. cbn. apply Forall_app. split; [exact Hi | constructor; [split; reflexivity | constructor]]. }
  assert (HB : Forall nl_like (newlines (state_newline st2))).
  { unfold state_newline at 1. cbn [newlines]. rewrite H1. apply Forall_app.
    split; [exact HA | constructor; [split; reflexivity | constructor]]. }
  assert (HL : length (newlines (state_newline st2)) = S (length (newlines (state_newline st)))).
  { unfold state_newline at 1. cbn [newlines]. rewrite H1, app_length. cbn. lia. }
  destruct (newlines (state_newline st2)) as [|x rest] eqn:Hn; [discriminate HL|].
  inversion HB as [|? ? Hx Hrest]; subst.
  exists x, rest. split; [exact Hn|]. split; [exact Hx|].
  assert (Hlen : length (newlines (state_newline st)) = length rest) by (cbn [length] in HL; lia).
  split.
  { intros ->. unfold state_newline in Hlen. cbn in Hlen. rewrite app_length in Hlen. cbn in Hlen. lia. }
  split; [revert Hrest; apply Forall_impl; intros l [Hl _]; exact Hl|].
  unfold st_sh, set_nl. cbn [newlines cur_indent line_indent token_this_line pos].
  split; [apply nl_lists_sh; assumption|].
  unfold state_newline. cbn [cur_indent line_indent token_this_line pos].
  split; [symmetry; exact H2|]. split; [reflexivity|]. split; [reflexivity|].
  unfold shift. cbn [line col]. rewrite H4. unfold state_newline. cbn. reflexivity.
Qed.

(** ** the theorem *)

Definition nl_inserted (l1 l2 : list tl) : Prop :=
  exists u v u' x v',
    l1 = u ++ v /\ l2 = u' ++ x :: v' /\ ltok (top x) = MNL /\ inner x = []
    /\ (exists u0 z, u' = u0 ++ [z] /\ (ltok (top z) = MNL \/ ltok (top z) = MIndent) /\ inner z = [])
    /\ Forall2 tl_eqv u u' /\ Forall2 (tl_sh 1) v v'.

Lemma sh_synth_eqv d y y' :
  tl_sh d y y' -> synthetic (ltok (top y')) = true -> inner y' = [] -> tl_eqv y y'.
Proof.
  intros [(H1 & H2 & _) Hin] Hs Hi. split.
  - split; [exact H1|]. split; [exact H2|]. rewrite H1, Hs. discriminate.
  - rewrite Hi in Hin. inversion Hin. rewrite Hi. reflexivity.
Qed.

Lemma synth_nonstr t : synthetic t = true -> is_str t = false.
Proof. destruct t; cbn; easy. Qed.

Lemma lex_sh_mk_synth d p q t : synthetic t = true -> lex_sh d (mk_lex p t) (mk_lex q t).
Proof. intros H. split; [reflexivity|]. split; [reflexivity|]. cbn [ltok mk_lex]. rewrite H. discriminate. Qed.

Lemma eol_cases R :
  hd_eol R = true ->
  R = [] \/ (exists R', R = c_nl :: R') \/ (exists R', R = c_cr :: c_nl :: R')
  \/ (exists R', R = c_cr :: R' /\ match R' with [] => True | x :: _ => Ascii.eqb c_nl x = false end).
Proof.
  destruct R as [|c R]; [left; reflexivity|]. cbn [hd_eol]. unfold is_eolc. intros H. right.
  apply orb_prop in H as [H|H]; apply Ascii.eqb_eq in H; subst c.
  - left. eauto.
  - right. destruct R as [|x R]; [right; exists []; split; [reflexivity | exact I]|].
    destruct (Ascii.eqb_spec c_nl x) as [<-|Hx]; [left; eauto|].
    right. exists (x :: R). split; [reflexivity | apply Ascii.eqb_neq, Hx].
Qed.

Theorem blank_line pre R n :
  accepted pre = true -> complete true pre = true -> hd_eol R = true ->
  opt_rel (fun l1 l2 => Forall2 tl_eqv l1 l2 \/ nl_inserted l1 l2)
          (run_tls (pre ++ R)) (run_tls (pre ++ c_nl :: spaces n ++ R)).
Proof.
  intros Hacc Hc HR. unfold accepted in Hacc.
  destruct (prefix_run pre) as [[[st acc]|?]|?] eqn:Hp; try discriminate Hacc.
  pose proof (hd_eol_stop R HR) as HRs.
  assert (Hinv : nl_inv st).
  { unfold prefix_run in Hp. eapply nl_inv_loop; [|exact Hp]. constructor. }
  assert (HF1 : (length (pre ++ R) < run_fuel (pre ++ R))%nat) by (unfold run_fuel; lia).
  assert (HF2 : (length (pre ++ c_nl :: spaces n ++ R) < run_fuel (pre ++ c_nl :: spaces n ++ R))%nat)
    by (unfold run_fuel; lia).
  assert (Hc1 : complete (hd_eol R) pre = true) by (rewrite HR; exact Hc).
  pose proof (run_split pre R st acc _ HRs Hc1 Hp HF1 (S (S (length R))) ltac:(lia)) as E1.
  pose proof (run_split pre (c_nl :: spaces n ++ R) st acc _ eq_refl Hc Hp HF2
                (S (n + S (S (length R)))) ltac:(cbn [length]; rewrite app_length, spaces_length; lia)) as E2.
  rewrite tok_loop_step, step_nl in E2. cbn [app] in E2. rewrite loop_spaces in E2.
  set (st2 := Nat.iter n state_space (state_newline st)) in *.
  rewrite !run_tls_raw. unfold raw_tls. rewrite E1, E2. clear E1 E2.
  (* the runs on R from [st] and from [st2] *)
  assert (Hres : ph1_res (tok_loop (S (S (length R))) R st []) (tok_loop (S (S (length R))) R st2 [])
                 \/ (tok_loop (S (S (length R))) R st [] = inl (inl (st, []))
                     /\ tok_loop (S (S (length R))) R st2 [] = inl (inl (st2, [])))).
  { destruct (eol_cases R HR) as [-> | [(R' & ->) | [(R' & ->) | (R' & -> & HR')]]].
    - right. split; reflexivity.
    - left. rewrite !tok_loop_step, !step_nl. cbn [app]. apply ph1_loop, ph1_start, Hinv.
    - left. rewrite !tok_loop_step, !step_crnl. cbn [app]. apply ph1_loop, ph1_start, Hinv.
    - left. rewrite !tok_loop_step. destruct R' as [|x R'].
      + rewrite !step_cr_nil. exact I.
      + rewrite !(step_cr_other _ x R' _ HR'). exact I. }
  destruct (spaces_state n (state_newline st)) as (_ & Hcur & _ & _ & _). fold st2 in Hcur.
  destruct Hres as [Hres | [-> ->]].
  2:{ cbn [with_acc opt_rel]. left. apply docstring_pass_eqv, raw_of_eqv; [|apply tls_eqv_refl].
      unfold same_indent. rewrite Hcur. reflexivity. }
  destruct (tok_loop (S (S (length R))) R st []) as [[[a oa]|?]|?],
           (tok_loop (S (S (length R))) R st2 []) as [[[b ob]|?]|?]; cbn in Hres |- *; try tauto.
  destruct Hres as [Hi [[-> ->] | Hins]].
  { left. apply docstring_pass_eqv, raw_of_eqv; [exact Hi | apply tls_eqv_refl]. }
  right. destruct Hins as (u & v & u' & x & v' & -> & -> & Hne & Hsyn & (u0' & z' & -> & Hzk) & Hu & Hx & Hxi & Hv).
  apply Forall2_app_inv_r in Hu as (u0 & uz & Hu0 & Huz & ->).
  inversion Huz as [|z ? ? ? Hz Hnil]; subst. inversion Hnil; subst. clear Huz Hnil.
  apply Forall_app in Hsyn as [Hsyn0 Hsynz]. inversion Hsynz as [|? ? [Hzs Hzi] _]; subst.
  assert (Hzz : tl_eqv z z') by (apply (sh_synth_eqv 1); assumption).
  assert (Hz' : is_str (ltok (top z')) = false) by (apply synth_nonstr, Hzs).
  assert (Hzn : is_str (ltok (top z)) = false).
  { destruct Hz as [(Hk & _) _]. rewrite Hk. exact Hz'. }
  assert (Hxn : is_str (ltok (top x)) = false) by (rewrite Hx; reflexivity).
  set (VA := v ++ map tl0 (flush_indents a)
               ++ [tl0 (mk_lex (last_end ((acc ++ (u0 ++ [z]) ++ v) ++ map tl0 (flush_indents a))) MEof)]).
  set (VB := v' ++ map tl0 (flush_indents b)
               ++ [tl0 (mk_lex (last_end ((acc ++ (u0' ++ [z']) ++ x :: v') ++ map tl0 (flush_indents b))) MEof)]).
  assert (E1 : raw_of (a, acc ++ (u0 ++ [z]) ++ v) = ((acc ++ u0) ++ [z]) ++ VA).
  { unfold raw_of, VA. cbn [fst snd]. rewrite <- !app_assoc. reflexivity. }
  assert (E2 : raw_of (b, acc ++ (u0' ++ [z']) ++ x :: v') = ((acc ++ u0') ++ [z']) ++ x :: VB).
  { unfold raw_of, VB. cbn [fst snd]. rewrite <- !app_assoc. reflexivity. }
  change (nl_inserted (docstring_pass (raw_of (a, acc ++ (u0 ++ [z]) ++ v)))
                      (docstring_pass (raw_of (b, acc ++ (u0' ++ [z']) ++ x :: v')))).
  rewrite E1, E2, !docstring_pass_cut by assumption.
  assert (HVV : Forall2 (tl_sh 1) VA VB).
  { unfold VA, VB. apply Forall2_app; [exact Hv|]. apply Forall2_app.
    - apply tl0_sh. unfold flush_indents. rewrite Hi. apply Forall2_repeat2, lex_sh_mk_synth. reflexivity.
    - constructor; [|constructor]. split; [apply lex_sh_mk_synth; reflexivity | constructor]. }
  exists (docstring_pass (acc ++ u0) ++ [z]), (docstring_pass VA),
         (docstring_pass (acc ++ u0') ++ [z']), x, (docstring_pass VB).
  split; [reflexivity|]. split.
  { f_equal. unfold docstring_pass. cbn [doc_pass otop]. rewrite doc_get_none_l.
    apply (doc_pass_nonstr_head x VB Hxn). }
  split; [exact Hx|]. split; [exact Hxi|].
  split; [exists (docstring_pass (acc ++ u0')), z'; split; [reflexivity | split; [exact Hzk | exact Hzi]]|].
  split.
  - apply Forall2_app; [|constructor; [exact Hzz | constructor]].
    apply docstring_pass_eqv, Forall2_app; [apply tls_eqv_refl|].
    clear -Hu0 Hsyn0. induction Hu0 as [|y y' l l' Hy _ IH]; [constructor|].
    inversion Hsyn0 as [|? ? [Hs1 Hs2] Hs']; subst.
    constructor; [apply (sh_synth_eqv 1); assumption | apply IH, Hs'].
  - unfold docstring_pass. apply doc_pass_sh; [exact HVV | exact I | exact I].
Qed.

(** what the parser is given: unchanged, or exactly one more NL *)
Theorem blank_line_norm pre R n :
  accepted pre = true -> complete true pre = true -> hd_eol R = true ->
  norm_of (pre ++ c_nl :: spaces n ++ R) = norm_of (pre ++ R)
  \/ exists k1 k2, norm_of (pre ++ R) = Some (k1 ++ k2)
                   /\ norm_of (pre ++ c_nl :: spaces n ++ R) = Some (k1 ++ MNL :: k2).
Proof.
  intros H1 H2 H3. pose proof (blank_line pre R n H1 H2 H3) as H.
  rewrite !norm_of_run.
  destruct (run_tls (pre ++ R)) as [l1|], (run_tls (pre ++ c_nl :: spaces n ++ R)) as [l2|];
    cbn in H; try contradiction; [|left; reflexivity].
  destruct H as [H | (u & v & u' & x & v' & -> & -> & Hx & Hxi & _ & Hu & Hv)].
  - left. rewrite !kinds_norm_filter, (kinds_flatten_eqv _ _ H). reflexivity.
  - right. exists (kinds_norm (flatten u)), (kinds_norm (flatten v)).
    rewrite !kinds_norm_filter. change (x :: v') with ([x] ++ v').
    rewrite !kinds_flatten_app, !filter_app. split; [reflexivity|].
    rewrite (kinds_flatten_eqv _ _ Hu). unfold kinds at 5. rewrite (kinds_flatten_sh 1 _ _ Hv).
    f_equal. f_equal. unfold kinds, flatten. cbn [flat_map]. rewrite Hxi. cbn [app map]. rewrite Hx. reflexivity.
Qed.

(** ** with the filter of the proposed repair the blank line is invisible *)

Lemma nl_drop_after k2 : forall k1 prev z, (z = MNL \/ z = MIndent) ->
  nl_drop prev (k1 ++ z :: MNL :: k2) = nl_drop prev (k1 ++ z :: k2).
Proof.
  induction k1 as [|a k1 IH]; intros prev z Hz.
  - cbn [app]. destruct Hz as [-> | ->]; cbn [nl_drop]; [|reflexivity].
    destruct prev as [p|]; [destruct p|]; reflexivity.
  - cbn [app]. destruct a; cbn [nl_drop]; try (rewrite (IH _ _ Hz); reflexivity).
    destruct prev as [p|]; [destruct p|]; rewrite (IH _ _ Hz); reflexivity.
Qed.

Lemma repaired_of_norm s :
  repaired_norm_of s = match norm_of s with Some n => Some (nl_drop None n) | None => None end.
Proof. unfold repaired_norm_of, norm_of, kinds_repaired. destruct (tokenize s); reflexivity. Qed.

Theorem blank_line_repaired pre R n :
  accepted pre = true -> complete true pre = true -> hd_eol R = true ->
  repaired_norm_of (pre ++ c_nl :: spaces n ++ R) = repaired_norm_of (pre ++ R).
Proof.
  intros H1 H2 H3. pose proof (blank_line pre R n H1 H2 H3) as H.
  rewrite !repaired_of_norm, !norm_of_run.
  destruct (run_tls (pre ++ R)) as [l1|], (run_tls (pre ++ c_nl :: spaces n ++ R)) as [l2|];
    cbn in H; try contradiction; [|reflexivity].
  destruct H as [H | (u & v & u' & x & v' & -> & -> & Hx & Hxi & (u0 & z & -> & Hz & Hzi) & Hu & Hv)].
  - rewrite !kinds_norm_filter, (kinds_flatten_eqv _ _ H). reflexivity.
  - f_equal. rewrite !kinds_norm_filter.
    change (x :: v') with ([x] ++ v'). rewrite !kinds_flatten_app, (kinds_flatten_eqv _ _ Hu).
    rewrite !kinds_flatten_app, !filter_app.
    replace (kinds (flatten v)) with (kinds (flatten v'))
      by (unfold kinds; symmetry; apply (kinds_flatten_sh 1 _ _ Hv)).
    assert (Ez : filter (fun t => negb (is_comment t)) (kinds (flatten [z])) = [ltok (top z)]).
    { unfold kinds, flatten. cbn [flat_map]. rewrite Hzi. cbn [app map filter].
      destruct Hz as [-> | ->]; reflexivity. }
    assert (Ex : filter (fun t => negb (is_comment t)) (kinds (flatten [x])) = [MNL]).
    { unfold kinds, flatten. cbn [flat_map]. rewrite Hxi. cbn [app map]. rewrite Hx. reflexivity. }
    rewrite Ez, Ex. rewrite <- !app_assoc. cbn [app]. apply nl_drop_after. exact Hz.
Qed.
