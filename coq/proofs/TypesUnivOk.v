(** * Side conditions of the generated class table and the laws decided over the finite universe
      (all by evaluation inside the kernel: [vm_compute]). *)
From Coq Require Import List String Bool Arith.
From MambaModel Require Import gen.TypesConf model.Types gen.Stubs model.TypesUniv proofs.TypesProps.
Import ListNotations.
Local Open Scope string_scope.
Local Open Scope list_scope.

(** ** the regenerated table *)
Lemma consts_ok : (src_TUPLE, src_COLLECTION, src_ANY, src_NONE) = (TUPLE, COLLECTION, ANY, NONE).
Proof. reflexivity. Qed.

Lemma generated_wf : stubs_wf generated = true.
Proof. vm_compute. reflexivity. Qed.

Lemma demo_wf : stubs_wf demo = true.
Proof. vm_compute. reflexivity. Qed.

Lemma wf_ok cx : stubs_wf cx = true -> ctx_ok cx = true /\ acyclic cx.
Proof.
  unfold stubs_wf. intros H. apply andb_true_iff in H. destruct H as [H Ha].
  apply andb_true_iff in H. destruct H as [Hc _]. split; [exact Hc | apply ctx_acyclic; assumption].
Qed.

Lemma demo_ok : ctx_ok demo = true /\ acyclic demo.
Proof. apply wf_ok. exact demo_wf. Qed.

(** ** the finite universe *)
Lemma univ_size : (List.length univ, List.length univ_rel, List.length univ_small) = (143, 139, 29).
Proof. vm_compute. reflexivity. Qed.

Lemma univ_no_divergence : no_divergence demo univ = true.
Proof. vm_compute. reflexivity. Qed.

Lemma univ_refl : refl_check demo univ = true.
Proof. vm_compute. reflexivity. Qed.

Lemma univ_refl_exact : refl_exact demo univ = true.
Proof. vm_compute. reflexivity. Qed.

Lemma univ_trans : trans_outside demo univ_rel = true.
Proof. vm_compute. reflexivity. Qed.

Lemma univ_any_top : any_top_check demo univ_rel = true.
Proof. vm_compute. reflexivity. Qed.

Lemma univ_union_upper : union_upper_check demo univ_rel = true.
Proof. vm_compute. reflexivity. Qed.

Lemma univ_union_comm : union_comm_check univ = true.
Proof. vm_compute. reflexivity. Qed.

Lemma univ_union_idem : union_idem_check univ = true.
Proof. vm_compute. reflexivity. Qed.

Lemma univ_union_assoc : union_assoc_check univ_small = true.
Proof. vm_compute. reflexivity. Qed.

Lemma univ_union_member : union_member_check demo univ_small = true.
Proof. vm_compute. reflexivity. Qed.

(** ** Refutations of the full-strength laws (witnesses over the generated table) *)
Definition tInt := c "Int". Definition tStr := c "Str". Definition tNone := c "None". Definition tAny := c "Any".

(** D17: forming unions is not associative *)
Lemma union_assoc_refuted :
  exists A B C, plainN generated A = true /\ plainN generated B = true /\ plainN generated C = true /\
    union_members (union_members A B) C = [q tInt; tStr] /\
    union_members A (union_members B C) = [tInt; q tStr] /\
    super generated (union_members (union_members A B) C) (union_members A (union_members B C)) = Ok false /\
    super generated (union_members A (union_members B C)) (union_members (union_members A B) C) = Ok false.
Proof. exists [tInt], [tNone], [tStr]. vm_compute. repeat split; reflexivity. Qed.

(** D22: a generic instantiation with a nullable argument is not assignable to itself *)
Lemma super_refl_refuted :
  exists A, super generated A A = Ok false.
Proof. exists [g1 "List" (q tInt)]. vm_compute. reflexivity. Qed.

(** D23: Any accepts Int and accepts None but not their union Int? *)
Lemma union_member_refuted :
  exists U A B, plainN generated U = true /\ plainN generated A = true /\ plainN generated B = true /\
    super generated U A = Ok true /\ super generated U B = Ok true /\
    super generated U (union_members A B) = Ok false.
Proof. exists [tAny], [tInt], [tNone]. vm_compute. repeat split; reflexivity. Qed.

(** ... and so does every name that spreads "accepts None" and "accepts Int" over different members *)
Lemma union_member_refuted_stored :
  super generated [tInt; tNone] [tInt] = Ok true /\ super generated [tInt; tNone] [tNone] = Ok true /\
  super generated [tInt; tNone] (union_members [tInt] [tNone]) = Ok false.
Proof. vm_compute. repeat split; reflexivity. Qed.

(** a stored set {Int, None} is changed by the union with itself, and does not accept the result *)
Lemma union_idem_refuted :
  exists A, plainN generated A = true /\ union_members A A = [q tInt] /\
            super generated A (union_members A A) = Ok false.
Proof. exists [tInt; tNone]. vm_compute. repeat split; reflexivity. Qed.

(** C06: the non-nullable type Any accepts None *)
Lemma any_accepts_none : super generated [tAny] [tNone] = Ok true.
Proof. vm_compute. reflexivity. Qed.

(** D30: tuples of different length are mutually assignable, which breaks transitivity.  The condition that
    makes it so is read from the source on every run ([tuple_zip_truncates], gen/TypesConf.v); once tuples are
    compared only at equal length, transitivity holds for every triple of the universe. *)
Lemma super_trans_refuted :
  tuple_zip_truncates = true ->
  exists A B C, super generated A B = Ok true /\ super generated B C = Ok true /\ super generated A C = Ok false.
Proof.
  intros H. vm_compute in H.
  first [ discriminate H
        | exists [tup [tInt; tStr]], [tup [tInt]], [tup [tInt; tInt]]; vm_compute; repeat split; reflexivity ].
Qed.

Lemma univ_trans_full : tuple_zip_truncates = false -> trans_table (matrix demo univ_rel) = true.
Proof. intros H. vm_compute in H. first [ discriminate H | vm_compute; reflexivity ]. Qed.

(** D31: Collection[Str] against a tuple whose first element is not a Str is an error, also when another
    member of the accepting name covers the tuple: the union does not accept its own member *)
Lemma union_upper_refuted :
  exists A B, super generated (union_members A B) B = Err /\ super generated B B = Ok true.
Proof. exists [g1 "Collection" tStr], [tup [tInt; tStr]]. vm_compute. repeat split; reflexivity. Qed.

(** outside the plain fragment: {None} u {None?} is the empty name *)
Lemma union_none_nullable_none : union_members [tNone] [q tNone] = [].
Proof. reflexivity. Qed.

(** D8: with a class that inherits from itself the relation diverges *)
Lemma cyclic_super_diverges :
  super (generated ++ cyclic_table) [c "A"] [c "A"] = Div.
Proof. vm_compute. reflexivity. Qed.
