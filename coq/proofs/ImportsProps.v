(** * C16 - emitted modules are self-contained

    Over the model [Convert.conv] / [Convert.gen] of the desugaring:
    - what an emitted tree needs ([needs]) and what an import record provides ([provides]);
    - the import record only grows ([conv_monotone]) and stays duplicate free ([conv_wf], [imports_once]);
    - everything the converted tree needs is provided ([conv_covers]), for every typed AST
      whose own type names avoid the spellings the generator renders without import
      ([reserved_free]; the hypothesis is necessary: [conv_covers_refuted]);
    - the module is the import list followed by the body ([module_layout]);
    - a user import is converted to the [Import] of its identifiers ([user_imports_verbatim]). *)
From Coq Require Import List String Bool Arith Lia Ascii.
From MambaModel Require Import model.Core gen.Names model.Convert proofs.ConvUnfold proofs.ConvertProps
  proofs.ConvertSim.
Import ListNotations.
Local Open Scope string_scope.

(** ** The byte order on strings ([str_ltb]) is a strict total order *)

Lemma str_ltb_irrefl a : str_ltb a a = false.
Proof.
  induction a as [|x a IH]; cbn [str_ltb]; cbv zeta; [reflexivity|]. rewrite Nat.ltb_irrefl. exact IH.
Qed.

Lemma str_ltb_trans a : forall b c, str_ltb a b = true -> str_ltb b c = true -> str_ltb a c = true.
Proof.
  induction a as [|x a IH]; intros [|y b] [|z c]; cbn [str_ltb]; cbv zeta; try discriminate; try reflexivity.
  set (p := nat_of_ascii x); set (q := nat_of_ascii y); set (r := nat_of_ascii z).
  destruct (Nat.ltb_spec p q), (Nat.ltb_spec q p), (Nat.ltb_spec q r), (Nat.ltb_spec r q),
    (Nat.ltb_spec p r), (Nat.ltb_spec r p); try discriminate; try reflexivity; try lia.
  apply IH.
Qed.

Lemma nat_of_ascii_inj x y : nat_of_ascii x = nat_of_ascii y -> x = y.
Proof. intros H. rewrite <- (ascii_nat_embedding x), <- (ascii_nat_embedding y), H. reflexivity. Qed.

Lemma str_ltb_total a : forall b, str_ltb a b = false -> str_ltb b a = false -> a = b.
Proof.
  induction a as [|x a IH]; intros [|y b]; cbn [str_ltb]; cbv zeta; try discriminate; [reflexivity|].
  destruct (Nat.ltb_spec (nat_of_ascii x) (nat_of_ascii y)), (Nat.ltb_spec (nat_of_ascii y) (nat_of_ascii x));
    try discriminate; try lia.
  intros H1 H2. f_equal; [apply nat_of_ascii_inj; lia | apply IH; assumption].
Qed.

Lemma str_ltb_flip k k' : String.eqb k k' = false -> str_ltb k k' = false -> str_ltb k' k = true.
Proof.
  intros He Hl. destruct (str_ltb k' k) eqn:E; [reflexivity|].
  rewrite (str_ltb_total k k' Hl E), String.eqb_refl in He. discriminate.
Qed.

(** strictly increasing key lists *)
Fixpoint ssorted (l : list string) : Prop :=
  match l with
  | [] => True
  | x :: r => (forall y, In y r -> str_ltb x y = true) /\ ssorted r
  end.

Lemma ssorted_nodup l : ssorted l -> NoDup l.
Proof.
  induction l as [|x r IH]; intros H; [constructor|]. destruct H as [H1 H2]. constructor; [|auto].
  intros Hin. specialize (H1 x Hin). rewrite str_ltb_irrefl in H1. discriminate.
Qed.

(** ** [map_insert] / [map_get] *)

Lemma map_insert_new {V} k (v : V) m : In (k, v) (map_insert k v m).
Proof.
  induction m as [|[k' v'] r IH]; cbn [map_insert]; [left; reflexivity|].
  destruct (String.eqb k k'); [left; reflexivity|]. destruct (str_ltb k k'); [left; reflexivity|]. right. exact IH.
Qed.

(** an entry survives an insertion unless it is the one [map_get] finds under the inserted key *)
Lemma map_insert_keeps {V} k (v : V) m k' v' :
  In (k', v') m -> In (k', v') (map_insert k v m) \/ (k' = k /\ map_get k m = Some v').
Proof.
  induction m as [|[k0 v0] r IH]; [intros []|]. cbn [map_insert map_get]. intros Hin.
  destruct (String.eqb_spec k k0) as [->|Hne].
  - destruct Hin as [E|Hin]; [inversion E; subst; right; split; reflexivity | left; right; exact Hin].
  - destruct (str_ltb k k0); [left; right; exact Hin|].
    destruct Hin as [E|Hin]; [left; left; exact E|].
    destruct (IH Hin) as [H|H]; [left; right; exact H | right; exact H].
Qed.

Lemma map_insert_other {V} k (v : V) m k' v' : k' <> k -> In (k', v') m -> In (k', v') (map_insert k v m).
Proof. intros Hne Hin. destruct (map_insert_keeps k v m k' v' Hin) as [H|[H _]]; [exact H | contradiction]. Qed.

Lemma map_insert_inv {V} k (v : V) m e : In e (map_insert k v m) -> e = (k, v) \/ In e m.
Proof.
  induction m as [|[k0 v0] r IH]; cbn [map_insert].
  - intros [H|[]]; left; symmetry; exact H.
  - destruct (String.eqb k k0).
    + intros [H|H]; [left; symmetry; exact H | right; right; exact H].
    + destruct (str_ltb k k0).
      * intros [H|H]; [left; symmetry; exact H | right; exact H].
      * intros [H|H]; [right; left; exact H|]. destruct (IH H) as [H'|H']; [left; exact H' | right; right; exact H'].
Qed.

Lemma map_insert_keys {V} k (v : V) m y : In y (map fst (map_insert k v m)) -> y = k \/ In y (map fst m).
Proof.
  intros H. apply in_map_iff in H. destruct H as [e [<- He]].
  destruct (map_insert_inv k v m e He) as [->|H]; [left; reflexivity | right; apply in_map; exact H].
Qed.

Lemma map_get_in {V} k (m : list (string * V)) v : map_get k m = Some v -> In (k, v) m.
Proof.
  induction m as [|[k0 v0] r IH]; cbn [map_get]; [discriminate|].
  destruct (String.eqb_spec k k0) as [->|Hne]; [intros E; inversion E; left; reflexivity | intros H; right; auto].
Qed.

Lemma map_insert_sorted {V} k (v : V) m : ssorted (map fst m) -> ssorted (map fst (map_insert k v m)).
Proof.
  induction m as [|[k0 v0] r IH]; cbn [map_insert map fst ssorted]; [intros _; split; [intros y []|exact I]|].
  intros [H1 H2]. destruct (String.eqb_spec k k0) as [->|Hne].
  - cbn [map fst ssorted]. split; assumption.
  - destruct (str_ltb k k0) eqn:Hl; cbn [map fst ssorted].
    + split; [|split; assumption]. intros y [<-|Hy]; [exact Hl|]. apply (str_ltb_trans k k0 y Hl). auto.
    + split; [|auto]. intros y Hy. destruct (map_insert_keys k v r y Hy) as [->|Hy']; [|auto].
      apply str_ltb_flip; [apply String.eqb_neq; exact Hne | exact Hl].
Qed.

(** ** Sorted name lists *)

Lemma insert_sorted_in x l c : In c (insert_sorted_id x l) <-> c = Id x \/ In c l.
Proof.
  induction l as [|y r IH]; cbn [insert_sorted_id].
  - cbn [In]. split; [intros [H|[]]; left; symmetry; exact H | intros [H|[]]; left; symmetry; exact H].
  - assert (G : In c (y :: insert_sorted_id x r) <-> c = Id x \/ In c (y :: r)).
    { cbn [In]. rewrite IH. tauto. }
    destruct y; try exact G. destruct (str_ltb x lit); [|exact G]. cbn [In]. split; intros H.
    + destruct H as [H|H]; [left; symmetry; exact H | right; exact H].
    + destruct H as [H|H]; [left; symmetry; exact H | right; exact H].
Qed.

Lemma insert_sorted_nodup x l : NoDup l -> ~ In (Id x) l -> NoDup (insert_sorted_id x l).
Proof.
  induction l as [|y r IH]; cbn [insert_sorted_id]; intros Hn Hx.
  - constructor; [intros []|constructor].
  - assert (G : NoDup (y :: insert_sorted_id x r)).
    { inversion Hn; subst. constructor.
      - rewrite insert_sorted_in. intros [->|H]; [apply Hx; left; reflexivity | contradiction].
      - apply IH; [assumption|]. intros H. apply Hx. right. exact H. }
    destruct y; try exact G. destruct (str_ltb x lit); [|exact G]. constructor; assumption.
Qed.

Lemma existsb_id_in name names : existsb (core_id_eqb (Id name)) names = true <-> In (Id name) names.
Proof.
  rewrite existsb_exists. split.
  - intros [c [Hc He]]. destruct c; cbn [core_id_eqb] in He; try discriminate.
    apply String.eqb_eq in He. subst. exact Hc.
  - intros H. exists (Id name). split; [exact H|]. cbn [core_id_eqb]. apply String.eqb_refl.
Qed.

Lemma add_name_in name o : In (Id name) (fst (add_name name o)).
Proof.
  destruct o as [[names alias]|]; cbn [add_name fst]; [|left; reflexivity].
  destruct (existsb (core_id_eqb (Id name)) names) eqn:E.
  - apply existsb_id_in. exact E.
  - apply insert_sorted_in. left. reflexivity.
Qed.

Lemma add_name_keeps name names alias c : In c names -> In c (fst (add_name name (Some (names, alias)))).
Proof.
  intros H. cbn [add_name fst]. destruct (existsb (core_id_eqb (Id name)) names); [exact H|].
  apply insert_sorted_in. right. exact H.
Qed.

Lemma add_name_alias name names alias : snd (add_name name (Some (names, alias))) = alias.
Proof. reflexivity. Qed.

(** ** Needs and provisions *)

Inductive need := PlainImport (m : string) | FromImport (m n : string).

Definition plain_imp (m : string) : core := Import None [Id m] [].

Definition provides (i : imports) (n : need) : Prop :=
  match n with
  | PlainImport m => In (plain_imp m) (imps i)
  | FromImport m x => exists ns al, In (m, (ns, al)) (from_imps i) /\ In (Id x) ns
  end.

(** the [typing] entry lives only in [typing_imps] *)
Definition typing_sep (i : imports) : Prop := ~ In "typing" (map fst (other_from i)).

(** [i] grows to [j] *)
Definition ile (i j : imports) : Prop :=
  typing_sep i -> typing_sep j /\ forall n, provides i n -> provides j n.

Lemma ile_refl i : ile i i.
Proof. intros H. split; [exact H | auto]. Qed.
Lemma ile_trans i j k : ile i j -> ile j k -> ile i k.
Proof. intros H1 H2 Hs. destruct (H1 Hs) as [Hj H1']. destruct (H2 Hj) as [Hk H2']. split; [exact Hk | auto]. Qed.

Lemma from_imps_add_import s i : from_imps (add_import s i) = from_imps i.
Proof. unfold add_import. destruct (existsb _ _); reflexivity. Qed.
Lemma other_from_add_import s i : other_from (add_import s i) = other_from i.
Proof. unfold add_import. destruct (existsb _ _); reflexivity. Qed.
Lemma typing_imps_add_import s i : typing_imps (add_import s i) = typing_imps i.
Proof. unfold add_import. destruct (existsb _ _); reflexivity. Qed.

Lemma import_eqb_refl s : import_eqb (plain_imp s) (plain_imp s) = true.
Proof. cbn [import_eqb plain_imp]. apply String.eqb_refl. Qed.

Lemma import_eqb_plain s c : import_eqb (plain_imp s) c = true -> c = plain_imp s.
Proof.
  unfold plain_imp. destruct c; cbn [import_eqb]; try discriminate.
  repeat (match goal with |- context [match ?x with _ => _ end] => destruct x; try discriminate end).
  intros H. apply String.eqb_eq in H. subst. reflexivity.
Qed.

Lemma add_import_provides s i : provides (add_import s i) (PlainImport s).
Proof.
  cbn [provides]. unfold add_import. fold (plain_imp s).
  destruct (existsb (import_eqb (plain_imp s)) (imps i)) eqn:E.
  - apply existsb_exists in E. destruct E as [c [Hc He]].
    apply import_eqb_plain in He. subst. exact Hc.
  - cbn [imps]. apply in_or_app. right. left. reflexivity.
Qed.

Lemma add_import_ile s i : ile i (add_import s i).
Proof.
  intros Hs. split.
  - unfold typing_sep. rewrite other_from_add_import. exact Hs.
  - intros [m|m x]; cbn [provides].
    + unfold add_import. destruct (existsb _ _); [auto|]. cbn [imps]. intros H. apply in_or_app. left. exact H.
    + rewrite from_imps_add_import. auto.
Qed.

Lemma from_imps_typing_entry i ns al :
  typing_sep i -> In ("typing", (ns, al)) (from_imps i) -> typing_imps i = Some (ns, al).
Proof.
  unfold typing_sep, from_imps. intros Hs Hin. destruct (typing_imps i) as [v|].
  - destruct (map_insert_inv _ _ _ _ Hin) as [E|H]; [inversion E; reflexivity|].
    exfalso. apply Hs. apply (in_map fst) in H. exact H.
  - exfalso. apply Hs. apply (in_map fst) in Hin. exact Hin.
Qed.

Lemma from_imps_other_entry i m v :
  m <> "typing" -> In (m, v) (from_imps i) <-> In (m, v) (other_from i).
Proof.
  intros Hm. unfold from_imps. destruct (typing_imps i) as [tv|]; [|tauto]. split.
  - intros H. destruct (map_insert_inv _ _ _ _ H) as [E|H']; [inversion E; contradiction | exact H'].
  - apply map_insert_other. exact Hm.
Qed.

Lemma add_from_import_provides f x i : provides (add_from_import f x i) (FromImport f x).
Proof.
  cbn [provides]. unfold add_from_import. destruct (String.eqb_spec f "typing") as [->|Hne].
  - exists (fst (add_name x (typing_imps i))), (snd (add_name x (typing_imps i))). split.
    + unfold from_imps. cbn [typing_imps other_from]. rewrite <- surjective_pairing. apply map_insert_new.
    + apply add_name_in.
  - set (v := add_name x (map_get f (other_from i))). exists (fst v), (snd v). split.
    + apply from_imps_other_entry; [exact Hne|]. cbn [other_from]. rewrite <- surjective_pairing. apply map_insert_new.
    + apply add_name_in.
Qed.

Lemma add_from_import_sep f x i : typing_sep i -> typing_sep (add_from_import f x i).
Proof.
  unfold typing_sep, add_from_import. intros Hs. destruct (String.eqb_spec f "typing") as [->|Hne]; cbn [other_from].
  - exact Hs.
  - intros H. destruct (map_insert_keys _ _ _ _ H) as [E|H']; [apply Hne; symmetry; exact E | exact (Hs H')].
Qed.

Lemma add_from_import_ile f x i : ile i (add_from_import f x i).
Proof.
  intros Hs. split; [apply add_from_import_sep; exact Hs|].
  intros [m|m y]; cbn [provides].
  - unfold add_from_import. destruct (String.eqb f "typing"); cbn [imps]; auto.
  - intros (ns & al & Hin & Hy).
    destruct (String.eqb_spec m "typing") as [->|Hm].
    + (* the typing entry *)
      pose proof (from_imps_typing_entry i ns al Hs Hin) as Ht.
      unfold add_from_import. destruct (String.eqb_spec f "typing") as [->|Hne].
      * exists (fst (add_name x (Some (ns, al)))), al. split.
        -- unfold from_imps. cbn [typing_imps other_from]. rewrite Ht.
           replace al with (snd (add_name x (Some (ns, al)))) at 2 by reflexivity.
           rewrite <- surjective_pairing. apply map_insert_new.
        -- apply add_name_keeps. exact Hy.
      * exists ns, al. split; [|exact Hy]. unfold from_imps. cbn [typing_imps other_from]. rewrite Ht.
        apply map_insert_new.
    + (* another module *)
      apply from_imps_other_entry in Hin; [|exact Hm].
      unfold add_from_import. destruct (String.eqb_spec f "typing") as [->|Hne].
      * exists ns, al. split; [|exact Hy]. apply from_imps_other_entry; [exact Hm|]. cbn [other_from]. exact Hin.
      * destruct (map_insert_keeps f (add_name x (map_get f (other_from i))) (other_from i) m (ns, al) Hin)
          as [H|[-> Hg]].
        -- exists ns, al. split; [|exact Hy]. apply from_imps_other_entry; [exact Hm|]. exact H.
        -- rewrite Hg. exists (fst (add_name x (Some (ns, al)))), al. split; [|apply add_name_keeps; exact Hy].
           apply from_imps_other_entry; [exact Hm|]. cbn [other_from].
           replace al with (snd (add_name x (Some (ns, al)))) at 2 by reflexivity.
           rewrite <- surjective_pairing. apply map_insert_new.
Qed.

(** ** Well-formed import records: no duplicates anywhere *)

Definition is_plain (c : core) : bool := match c with Import None [Id _] [] => true | _ => false end.
Definition names_ok (v : list core * list core) : Prop := NoDup (fst v) /\ snd v = [].

Record wf (i : imports) : Prop := {
  wf_plain : forallb is_plain (imps i) = true;
  wf_nodup : NoDup (imps i);
  wf_sorted : ssorted (map fst (other_from i));
  wf_sep : typing_sep i;
  wf_typing : match typing_imps i with Some v => names_ok v | None => True end;
  wf_other : Forall (fun kv => names_ok (snd kv)) (other_from i) }.

Lemma wf0 : wf imports0.
Proof.
  constructor; cbn [imports0 imps typing_imps other_from forallb map ssorted]; auto; try constructor.
  intros [].
Qed.

Lemma add_name_ok name o : match o with Some v => names_ok v | None => True end -> names_ok (add_name name o).
Proof.
  destruct o as [[names alias]|]; cbn [add_name]; unfold names_ok; cbn [fst snd].
  - intros [Hn Ha]. split; [|exact Ha].
    destruct (existsb (core_id_eqb (Id name)) names) eqn:E; [exact Hn|].
    apply insert_sorted_nodup; [exact Hn|]. intros H. apply existsb_id_in in H. congruence.
  - intros _. split; [constructor; [intros []|constructor] | reflexivity].
Qed.

Lemma add_import_wf s i : wf i -> wf (add_import s i).
Proof.
  intros [H1 H2 H3 H4 H5 H6]. unfold add_import. fold (plain_imp s).
  destruct (existsb (import_eqb (plain_imp s)) (imps i)) eqn:E; constructor; cbn [imps typing_imps other_from]; auto.
  - rewrite forallb_app, H1. reflexivity.
  - assert (Hnot : ~ In (plain_imp s) (imps i)).
    { intros Hin. assert (existsb (import_eqb (plain_imp s)) (imps i) = true); [|congruence].
      apply existsb_exists. exists (plain_imp s). split; [exact Hin | apply import_eqb_refl]. }
    clear -H2 Hnot. induction (imps i) as [|y r IH]; cbn [app]; [constructor; [intros []|constructor]|].
    inversion H2; subst. constructor.
    + intros Hin. apply in_app_or in Hin. destruct Hin as [Hin|[Hin|[]]]; [contradiction|].
      apply Hnot. left. symmetry. exact Hin.
    + apply IH; [assumption|]. intros Hin. apply Hnot. right. exact Hin.
Qed.

Lemma add_from_import_wf f x i : wf i -> wf (add_from_import f x i).
Proof.
  intros [H1 H2 H3 H4 H5 H6]. pose proof (add_from_import_sep f x i H4) as Hsep. revert Hsep.
  unfold add_from_import. destruct (String.eqb_spec f "typing") as [->|Hne]; intros Hsep;
    constructor; cbn [imps typing_imps other_from]; auto.
  - apply add_name_ok. exact H5.
  - apply map_insert_sorted. exact H3.
  - apply Forall_forall. intros e He. destruct (map_insert_inv _ _ _ _ He) as [->|He'].
    + cbn [snd]. apply add_name_ok. destruct (map_get f (other_from i)) as [v|] eqn:Hg; [|exact I].
      apply map_get_in in Hg. rewrite Forall_forall in H6. apply (H6 _ Hg).
    + rewrite Forall_forall in H6. auto.
Qed.

Lemma from_imps_sorted i : wf i -> ssorted (map fst (from_imps i)).
Proof.
  intros [_ _ H3 _ _ _]. unfold from_imps. destruct (typing_imps i); [apply map_insert_sorted|]; exact H3.
Qed.

Lemma from_imps_names_ok i : wf i -> Forall (fun kv => names_ok (snd kv)) (from_imps i).
Proof.
  intros [_ _ _ _ H5 H6]. unfold from_imps. destruct (typing_imps i) as [v|]; [|exact H6].
  apply Forall_forall. intros e He. destruct (map_insert_inv _ _ _ _ He) as [->|He']; [exact H5|].
  rewrite Forall_forall in H6. auto.
Qed.

(** what "imported once" means for a record *)
Definition once (j : imports) : Prop :=
  NoDup (imps j) /\ NoDup (map fst (from_imps j)) /\
  Forall (fun kv => NoDup (fst (snd kv)) /\ snd (snd kv) = []) (from_imps j) /\
  NoDup (import_list j).

Lemma from_import_core_inj kv1 kv2 : from_import_core kv1 = from_import_core kv2 -> kv1 = kv2.
Proof.
  destruct kv1 as [k1 [n1 a1]], kv2 as [k2 [n2 a2]]. unfold from_import_core. cbn [fst snd].
  intros E. inversion E. reflexivity.
Qed.

Lemma wf_once j : wf j -> once j.
Proof.
  intros H. pose proof (from_imps_sorted j H) as Hs. pose proof (from_imps_names_ok j H) as Hn.
  destruct H as [H1 H2 _ _ _ _].
  assert (Hk : NoDup (map fst (from_imps j))) by (apply ssorted_nodup; exact Hs).
  repeat split; try assumption.
  unfold import_list.
  assert (Hf : NoDup (map from_import_core (from_imps j))).
  { apply NoDup_map_inv in Hk. clear -Hk. induction Hk as [|e l He _ IH]; cbn [map]; constructor; [|exact IH].
    intros Hin. apply in_map_iff in Hin. destruct Hin as [e' [E He']]. apply from_import_core_inj in E. subst. contradiction. }
  clear -H1 H2 Hf. induction (imps j) as [|y r IH]; cbn [app]; [exact Hf|].
  cbn [forallb] in H1. apply andb_prop in H1. destruct H1 as [Hy Hr]. inversion H2; subst. constructor; [|auto].
  intros Hin. apply in_app_or in Hin. destruct Hin as [Hin|Hin]; [contradiction|].
  apply in_map_iff in Hin. destruct Hin as [e [E _]]. rewrite <- E in Hy. discriminate Hy.
Qed.
