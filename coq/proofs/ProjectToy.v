(** * ProjectToy.v - a small concrete [world] for the examples (hypotheses are satisfiable) and for the
    witnesses of the refuted strengthenings of C13.

    Toy source language: a text is a sequence of 3-character statements
      [cNd] class N with data d        [fNs] function N with signature s     [dNt] field N with type t
      [uN_] use class N (emits its data)   [gN_] call function N (emits its signature)
      [eN_] read field N               [nN_] construct N (constructor look-up by full name)
      [?__] a declaration the context builder rejects       [x__] something the generator rejects
    anything else is a syntax error. *)
From Coq Require Import List String Ascii Bool Arith Lia Permutation.
Import ListNotations.
From MambaModel Require Import model.Project proofs.ProjectFs proofs.ProjectProps.
Local Open Scope string_scope.
Local Open Scope list_scope.

Inductive stmt :=
| SClass (n d : string) | SFun (n s : ascii) | SField (n t : string)
| SUseC (n : string) | SUseF (n : string) | SUseD (n : string) | SNew (n : string)
| SBadDecl | SUnimpl.

Definition s1 (c : ascii) : string := String c EmptyString.

Definition stmt_of (a b c : ascii) : option stmt :=
  if Ascii.eqb a "c" then Some (SClass (s1 b) (s1 c))
  else if Ascii.eqb a "f" then Some (SFun b c)
  else if Ascii.eqb a "d" then Some (SField (s1 b) (s1 c))
  else if Ascii.eqb a "u" then Some (SUseC (s1 b))
  else if Ascii.eqb a "g" then Some (SUseF (s1 b))
  else if Ascii.eqb a "e" then Some (SUseD (s1 b))
  else if Ascii.eqb a "n" then Some (SNew (s1 b))
  else if Ascii.eqb a "?" then Some SBadDecl
  else if Ascii.eqb a "x" then Some SUnimpl
  else None.

Fixpoint tparse (s : string) : res (list stmt) string :=
  match s with
  | EmptyString => Ok []
  | String a (String b (String c r)) =>
      match stmt_of a b c with
      | Some st => match tparse r with Ok l => Ok (st :: l) | Err m => Err m end
      | None => Err "syntax error"
      end
  | _ => Err "syntax error"
  end.

Definition pairE := (string * string)%type.
Definition funE := (ascii * ascii)%type.      (* name and signature: one character each *)
Definition tdecls := decls pairE pairE funE.
Definition tlk := lookups pairE pairE funE.

Definition tdecls_of (a : list stmt) : res tdecls (list string) :=
  if existsb (fun st => match st with SBadDecl => true | _ => false end) a then Err ["bad declaration"]
  else Ok {| d_classes := flat_map (fun st => match st with SClass n d => [(n, d)] | _ => [] end) a;
             d_fields := flat_map (fun st => match st with SField n t => [(n, t)] | _ => [] end) a;
             d_funs := flat_map (fun st => match st with SFun n s => [(n, s)] | _ => [] end) a |}.

Definition need {A : Type} (what n : string) (o : option A) : list string :=
  match o with Some _ => [] | None => [(what ++ " " ++ n ++ " is undefined")%string] end.

Definition cerr (lk : tlk) (st : stmt) : list string :=
  match st with
  | SUseC n => need "class" n (lk_class lk n)
  | SUseF n => need "function" n (lk_fun lk n)
  | SUseD n => need "field" n (lk_field lk n)
  | SNew n => need "constructor" n (lk_ctor lk n)
  | _ => []
  end.

Definition tcheck (lk : tlk) (a : list stmt) : res (list stmt) (list string) :=
  match flat_map (cerr lk) a with
  | [] => Ok a
  | e :: es => Err (e :: es)
  end.

Definition data {A : Type} (o : option (A * string)) : string :=
  match o with Some (_, d) => d | None => "?" end.
Definition fdata (o : option funE) : string :=
  match o with Some (_, d) => s1 d | None => "?" end.

Definition gpiece (ann : bool) (lk : tlk) (st : stmt) : string :=
  match st with
  | SClass n d => ("C" ++ n)%string
  | SFun n s => ("F" ++ s1 n)%string
  | SField n t => if ann then ("D" ++ n ++ ":" ++ t)%string else ("D" ++ n)%string
  | SUseC n => data (lk_class lk n)
  | SUseF n => fdata (lk_fun lk n)
  | SUseD n => data (lk_field lk n)
  | SNew n => data (lk_ctor lk n)
  | _ => ""
  end.

Definition tgen (ann : bool) (lk : tlk) (t : list stmt) : res string string :=
  if existsb (fun st => match st with SUnimpl => true | _ => false end) t then Err "unimplemented"
  else Ok (String.concat "" (map (gpiece ann lk) t)).

Definition srefs (st : stmt) : list string :=
  match st with SUseC n | SUseF n | SUseD n | SNew n => [n] | _ => [] end.
Definition trefs (a : list stmt) : list string := flat_map srefs a.

Definition toy : world :=
  {| w_msg := string; w_centry := pairE; w_dentry := pairE; w_fentry := funE;
     w_c_key := fst; w_c_base := fst;
     w_f_key := fun f => String (fst f) (s1 (snd f)); w_f_name := fun f => s1 (fst f);
     w_d_name := fst;
     w_any := ("Any", "any");
     w_prim_c := [("Int", "int")]; w_std_c := [("Range", "range")];
     w_prim_d := []; w_std_d := [];
     w_prim_f := [("p"%char, "q"%char)]; w_std_f := [];
     w_ast := list stmt; w_tast := list stmt;
     w_parse := tparse; w_decls_of := tdecls_of; w_check := tcheck; w_gen := tgen |}.

Definition ord_id : enumeration := fun _ l => l.
Definition ord_rev : enumeration := fun _ l => rev l.

Lemma ord_id_ok : ord_ok ord_id.
Proof. intros A l. apply Permutation_refl. Qed.
Lemma ord_rev_ok : ord_ok ord_rev.
Proof. intros A l. apply Permutation_sym, Permutation_rev. Qed.

(** ** the toy stages satisfy the hypotheses of the theorems *)
Lemma toy_compat : key_compat toy.
Proof.
  split; cbn.
  - intros x y H. exact H.
  - intros [a b] [c d] H. cbn in *. now injection H as -> _.
Qed.

Lemma toy_stmt_local : forall (K : string -> Prop) lk lk' st,
  (forall k, In k (srefs st) -> K k) -> lk_eq_on toy K lk lk' ->
  cerr lk st = cerr lk' st /\ (forall ann, gpiece ann lk st = gpiece ann lk' st).
Proof.
  intros K lk lk' st HK E. destruct st; cbn [cerr gpiece]; try (split; reflexivity);
    (destruct (E n) as (E1 & E2 & E3 & E4); [apply HK; now left|]);
    cbn [toy w_centry w_dentry w_fentry] in E1, E2, E3, E4;
    (split; [|intro ann]); first [now rewrite E1 | now rewrite E2 | now rewrite E3 | now rewrite E4].
Qed.

Lemma toy_local_gen : forall (K : string -> Prop) lk lk' a,
  (forall k, In k (trefs a) -> K k) -> lk_eq_on toy K lk lk' ->
  tcheck lk a = tcheck lk' a /\ (forall ann, tgen ann lk a = tgen ann lk' a).
Proof.
  intros K lk lk' a HK E.
  assert (H : flat_map (cerr lk) a = flat_map (cerr lk') a /\ forall ann, map (gpiece ann lk) a = map (gpiece ann lk') a).
  { induction a as [|st a IH]; [split; reflexivity|].
    destruct IH as [I1 I2]. { intros k Hk. apply HK. unfold trefs. cbn [flat_map]. apply in_or_app. now right. }
    destruct (toy_stmt_local K lk lk' st) as [S1 S2]; [|assumption|].
    { intros k Hk. apply HK. unfold trefs. cbn [flat_map]. apply in_or_app. now left. }
    split; [cbn [flat_map]; now rewrite S1, I1 | intro ann; cbn [map]; now rewrite S2, I2]. }
  destruct H as [H1 H2]. split.
  - unfold tcheck. now rewrite H1.
  - intro ann. unfold tgen. now rewrite H2.
Qed.

Lemma tcheck_same : forall lk a t, tcheck lk a = Ok t -> t = a.
Proof. intros lk a t H. unfold tcheck in H. destruct (flat_map _ a); [now injection H | discriminate]. Qed.

Lemma toy_extensional : stages_extensional toy.
Proof.
  intros lk lk' E. split.
  - intro a. apply (toy_local_gen (fun _ => True)); auto.
  - intros ann t. apply (toy_local_gen (fun _ => True)); auto.
Qed.

Lemma toy_local : stages_local toy trefs.
Proof.
  intros lk lk' a E. destruct (toy_local_gen (fun k => In k (trefs a)) lk lk' a (fun k H => H) E) as [H1 H2].
  split; [exact H1|]. intros ann t C. cbn in C. apply tcheck_same in C. subst t. apply H2.
Qed.

(** ** A project with cross-file use: file a defines class F and function h, file sub/b uses both.
    The target already holds a stale file. *)
Definition fs0 : FS :=
  [ (["src"], Dir); (["src"; "a.mamba"], File "cFxfhi"); (["src"; "sub"], Dir);
    (["src"; "sub"; "b.mamba"], File "uF_gh_nF_");
    (["target"], Dir); (["target"; "old.py"], File "stale") ].

Definition fs0_after : FS :=
  [ (["src"], Dir); (["src"; "a.mamba"], File "cFxfhi"); (["src"; "sub"], Dir);
    (["src"; "sub"; "b.mamba"], File "uF_gh_nF_");
    (["target"], Dir); (["target"; "old.py"], File "stale");
    (["target"; "a.py"], File "CFFh"); (["target"; "sub"], Dir); (["target"; "sub"; "b.py"], File "xix") ].

Example toy_run : tdir toy ord_id fs0 [] None None false = (fs0_after, Ok ["target"]).
Proof. vm_compute. reflexivity. Qed.

Example toy_rerun : tdir toy ord_id fs0_after [] None None false = (fs0_after, Ok ["target"]).
Proof. vm_compute. reflexivity. Qed.

(** one faulty file (type error in c.mamba): an error naming that file, nothing written *)
Example toy_faulty :
  tdir toy ord_id (fs_set fs0 ["src"; "c.mamba"] (File "uZ_")) [] None None false =
  (fs_set fs0 ["src"; "c.mamba"] (File "uZ_"),
   Err [EStage SCheck (Some ["src"; "c.mamba"]) "class Z is undefined"]).
Proof. vm_compute. reflexivity. Qed.

Definition source0 : list input :=
  [("cFxfhi", Some ["src"; "a.mamba"]); ("uF_gh_nF_", Some ["src"; "sub"; "b.mamba"])].

Ltac in_cases :=
  repeat match goal with
         | H : In _ (_ :: _) |- _ => destruct H as [H | H]
         | H : In _ [] |- _ => destruct H
         end.

Example toy_uniq : uniq_names toy (asts_of toy source0).
Proof.
  unfold uniq_names, uniq_on. repeat split; intros x y Hx Hy E; vm_compute in Hx, Hy;
    repeat (destruct Hx as [Hx|Hx]); try contradiction; repeat (destruct Hy as [Hy|Hy]); try contradiction;
    subst; try reflexivity; vm_compute in E; discriminate.
Qed.

(** the hypotheses of [order_independent] are satisfiable together, on a project with cross-file use *)
Example toy_hypotheses :
  key_compat toy /\ stages_extensional toy /\ stages_local toy trefs /\ ord_ok ord_id /\ ord_ok ord_rev /\
  uniq_names toy (asts_of toy source0) /\
  m2p toy ord_id false source0 ["src"] = Ok ["CFFh"; "xix"] /\
  m2p toy ord_rev false (rev source0) ["src"] = Ok ["xix"; "CFFh"].
Proof.
  split; [apply toy_compat|]. split; [apply toy_extensional|]. split; [apply toy_local|].
  split; [apply ord_id_ok|]. split; [apply ord_rev_ok|]. split; [apply toy_uniq|].
  split; vm_compute; reflexivity.
Qed.

(** ** Witnesses for the refuted strengthenings *)

(** duplicate class names across files: the first file in the order wins, so the output of the user
    file depends on the order (all other hypotheses of [order_independent] hold) *)
Theorem order_independent_without_unique_names_refuted :
  exists (source source' : list input) pys pys' i py py',
    key_compat toy /\ stages_extensional toy /\ ord_ok ord_id /\ Permutation source source' /\
    m2p toy ord_id false source ["src"] = Ok pys /\ m2p toy ord_id false source' ["src"] = Ok pys' /\
    In (i, py) (combine source pys) /\ In (i, py') (combine source' pys') /\ py <> py'.
Proof.
  exists [("cFx", Some ["src"; "a.mamba"]); ("cFy", Some ["src"; "b.mamba"]); ("uF_", Some ["src"; "u.mamba"])],
         [("cFy", Some ["src"; "b.mamba"]); ("cFx", Some ["src"; "a.mamba"]); ("uF_", Some ["src"; "u.mamba"])],
         ["CF"; "CF"; "x"], ["CF"; "CF"; "y"], ("uF_", Some ["src"; "u.mamba"]), "x", "y".
  split; [apply toy_compat|]. split; [apply toy_extensional|]. split; [apply ord_id_ok|].
  split; [apply perm_swap|]. split; [vm_compute; reflexivity|]. split; [vm_compute; reflexivity|].
  split; [cbn; tauto|]. split; [cbn; tauto | discriminate].
Qed.

(** two functions of one name with different signatures are both kept (the set key includes the
    signature) and the look-up takes whichever the enumeration yields first: same files, same order,
    different enumeration, different output *)
Theorem enumeration_dependent_refuted :
  exists (source : list input) pys pys',
    key_compat toy /\ stages_extensional toy /\ ord_ok ord_id /\ ord_ok ord_rev /\
    m2p toy ord_id false source [] = Ok pys /\ m2p toy ord_rev false source [] = Ok pys' /\ pys <> pys'.
Proof.
  exists [("fhi", None); ("fhj", None); ("gh_", None)], ["Fh"; "Fh"; "i"], ["Fh"; "Fh"; "j"].
  split; [apply toy_compat|]. split; [apply toy_extensional|]. split; [apply ord_id_ok|]. split; [apply ord_rev_ok|].
  split; [vm_compute; reflexivity|]. split; [vm_compute; reflexivity | discriminate].
Qed.

(** since 2d1bc77 an error raised while the context is built names the file whose declarations are
    rejected (here b.mamba) *)
Example ctx_error_attributed :
  m2p toy ord_id false [("cFx", Some ["src"; "a.mamba"]); ("?__", Some ["src"; "b.mamba"]); ("uF_", Some ["src"; "u.mamba"])] ["src"]
  = Err [EStage SCtx (Some ["src"; "b.mamba"]) "bad declaration"].
Proof. vm_compute. reflexivity. Qed.

(** a failing write in the middle of the loop leaves the files written before it: an error result
    with Python on disk (here x.mamba and x.py/y.mamba: the second needs a directory where the first
    put a file) *)
Definition fs_conflict : FS :=
  [ (["src"], Dir); (["src"; "x.mamba"], File "cAx"); (["src"; "x.py"], Dir);
    (["src"; "x.py"; "y.mamba"], File "cBy") ].

Theorem error_implies_nothing_written_refuted :
  exists fs fs' es p t,
    tdir toy ord_id fs [] None None false = (fs', Err es) /\
    fs_get fs p = None /\ fs_get fs' p = Some (File t).
Proof.
  exists fs_conflict. eexists. exists [EIo IoMkdirs (Some ["target"; "x.py"])], ["target"; "x.py"], "CA".
  split; [vm_compute; reflexivity | split; reflexivity].
Qed.

(** a directory named like a source is skipped (c8709a7) *)
Example dir_named_mamba_skipped :
  tdir toy ord_id [ (["src"], Dir); (["src"; "x.mamba"], File "cAx"); (["src"; "d.mamba"], Dir) ] [] None None false =
  ([ (["src"], Dir); (["src"; "x.mamba"], File "cAx"); (["src"; "d.mamba"], Dir); (["target"], Dir);
     (["target"; "x.py"], File "CA") ], Ok ["target"]).
Proof. vm_compute. reflexivity. Qed.

(** [.mamba] and [.mamba.mamba] are two sources with ONE output path: the run succeeds and the
    second output silently replaces the first *)
Definition fs_dot : FS :=
  [ (["src"], Dir); (["src"; ".mamba"], File "cAx"); (["src"; ".mamba.mamba"], File "cBy") ].

Theorem one_output_per_source_refuted :
  exists fs fs' o,
    NoDup (map fst fs) /\
    tdir toy ord_id fs [] None None false = (fs', Ok o) /\
    List.length (relative_files fs ["src"]) = 2 /\
    out_paths fs' ["src"] o = [["target"; ".mamba.py"]; ["target"; ".mamba.py"]].
Proof.
  exists fs_dot. eexists. exists ["target"]. split; [|split; [vm_compute; reflexivity | split; reflexivity]].
  cbn. repeat constructor; cbn; intuition discriminate.
Qed.
