(** * C16, part 5: the statements about [conv] and [gen] *)
From Coq Require Import List String Bool Arith Lia.
From MambaModel Require Import model.Core gen.Names model.Convert proofs.ConvUnfold proofs.ConvertProps
  proofs.ConvertSim proofs.ImportsProps proofs.ImportsNeeds proofs.ImportsClass proofs.ImportsConv.
Import ListNotations.
Local Open Scope string_scope.
Local Open Scope list_scope.

(** ** Coverage, for every typed AST, state and initial import record *)

Definition target_covered (st : state) (i : imports) : Prop :=
  match assign_to st with
  | Some (t, name) => covers i (needs t) /\ onm_ok name = true
  | None => True
  end.

Theorem conv_covers a st i c j :
  reserved_free a = true -> typing_sep i -> target_covered st i ->
  conv a st i = Some (c, j) -> forall n, In n (needs c) -> provides j n.
Proof.
  intros Hrf Hs Ht E.
  set (L := match assign_to st with Some (t, _) => needs t | None => [] end).
  assert (Htok : tgt_ok (assign_to st) L).
  { unfold L, target_covered in *. destruct (assign_to st) as [[t nme]|]; cbn [tgt_ok]; [|exact I].
    split; [apply incl_refl | exact (proj2 Ht)]. }
  assert (Hc : covers i L).
  { unfold L, target_covered in *. destruct (assign_to st) as [[t nme]|]; [exact (proj1 Ht) | apply covers_nil]. }
  destruct (conv_covers_all a st L Hrf Htok i c j Hs Hc E) as (_ & K & _). exact K.
Qed.

(** a parent of a converted class is never the call of a type rendered [ABC] *)
Theorem conv_head a st i c j :
  reserved_free a = true -> typing_sep i -> target_covered st i ->
  conv a st i = Some (c, j) -> head_ok c.
Proof.
  intros Hrf Hs Ht E.
  set (L := match assign_to st with Some (t, _) => needs t | None => [] end).
  assert (Htok : tgt_ok (assign_to st) L).
  { unfold L, target_covered in *. destruct (assign_to st) as [[t nme]|]; cbn [tgt_ok]; [|exact I].
    split; [apply incl_refl | exact (proj2 Ht)]. }
  assert (Hc : covers i L).
  { unfold L, target_covered in *. destruct (assign_to st) as [[t nme]|]; [exact (proj1 Ht) | apply covers_nil]. }
  destruct (conv_covers_all a st L Hrf Htok i c j Hs Hc E) as (_ & _ & K). exact K.
Qed.

(** *** The hypothesis [reserved_free] is necessary, and says exactly this *)

Lemma type_name_ok_spec s : type_name_ok s = true <-> s <> "Optional" /\ s <> "Union".
Proof.
  split.
  - intros H. split; intros ->; vm_compute in H; discriminate H.
  - intros [H1 H2]. unfold type_name_ok, concrete_to_python, py_names. cbn [lookup].
    unfold typing_support. cbn [existsb].
    repeat match goal with
           | |- context [String.eqb s ?k] =>
               destruct (String.eqb_spec s k) as [->|?]; [try reflexivity; try contradiction|]
           end.
    reflexivity.
Qed.

Lemma abc_ok_spec s : abc_ok s = true <-> s <> "ABC".
Proof.
  split.
  - intros H ->. vm_compute in H. discriminate H.
  - intros H1. unfold abc_ok, concrete_to_python, py_names. cbn [lookup].
    repeat match goal with
           | |- context [String.eqb s ?k] =>
               destruct (String.eqb_spec s k) as [->|?]; [try reflexivity; try contradiction|]
           end.
    reflexivity.
Qed.

Lemma reserved_spellings s :
  (type_name_ok s = true <-> s <> "Optional" /\ s <> "Union") /\ (abc_ok s = true <-> s <> "ABC").
Proof. split; [apply type_name_ok_spec | apply abc_ok_spec]. Qed.

(** a user class literally named [Optional], called: the rendered [Optional] has no import *)
Definition user_optional : ast := A None (NCall "Optional" [] []).
(** [class X: ABC(1)]: the parent name [ABC] is emitted as an identifier, nothing imports it *)
Definition user_abc_parent : ast :=
  A None (NClass "X" [] [] [A None (NParent "ABC" [] [A None (NInt "1")])] None).

Theorem conv_covers_refuted :
  exists a st i c j n,
    typing_sep i /\ target_covered st i /\ conv a st i = Some (c, j) /\ In n (needs c) /\ ~ provides j n.
Proof.
  exists user_optional, (state0 true), imports0, (FunctionCall (Type_ "Optional" []) []), imports0,
    (FromImport "typing" "Optional").
  split; [intros []|]. split; [exact I|]. split; [vm_compute; reflexivity|]. split; [left; reflexivity|].
  intros (ns & al & [] & _).
Qed.

Theorem conv_covers_refuted_parent :
  exists c j n,
    conv user_abc_parent (state0 true) imports0 = Some (c, j) /\ In n (needs c) /\ ~ provides j n.
Proof.
  eexists. exists imports0, (FromImport "abc" "ABC").
  split; [vm_compute; reflexivity|]. split; [left; reflexivity|]. intros (ns & al & [] & _).
Qed.

Example user_optional_not_free : reserved_free user_optional = false. Proof. reflexivity. Qed.
Example user_abc_parent_not_free : reserved_free user_abc_parent = false. Proof. reflexivity. Qed.

(** ** Imported once *)

Theorem imports_once_from a st i c j : wf i -> conv a st i = Some (c, j) -> once j.
Proof. intros Hw E. apply wf_once. eapply conv_wf; eassumption. Qed.

Theorem imports_once a st c j : conv a st imports0 = Some (c, j) -> once j.
Proof. apply imports_once_from, wf0. Qed.

(** each need is bound by exactly one statement of the import list *)
Definition stmt_binds (s : core) (n : need) : Prop :=
  match n with
  | PlainImport m => s = plain_imp m
  | FromImport m x => exists ns, s = Import (Some (Id m)) ns [] /\ In (Id x) ns
  end.

Lemma provides_stmt j n : wf j -> provides j n -> exists s, In s (import_list j) /\ stmt_binds s n.
Proof.
  intros Hw. pose proof (from_imps_names_ok j Hw) as Hn. destruct n as [m|m x]; cbn [provides stmt_binds].
  - intros H. exists (plain_imp m). split; [|reflexivity]. unfold import_list. apply in_or_app. left. exact H.
  - intros (ns & al & Hin & Hx). rewrite Forall_forall in Hn. destruct (Hn _ Hin) as [_ Hal]. cbn [snd] in Hal. subst al.
    exists (Import (Some (Id m)) ns []). split; [|exists ns; split; [reflexivity | exact Hx]].
    unfold import_list. apply in_or_app. right. apply in_map_iff. exists (m, (ns, [])). split; [reflexivity | exact Hin].
Qed.

Lemma binds_unique j n s1 s2 :
  wf j -> In s1 (import_list j) -> In s2 (import_list j) -> stmt_binds s1 n -> stmt_binds s2 n -> s1 = s2.
Proof.
  intros Hw H1 H2 B1 B2. destruct n as [m|m x]; cbn [stmt_binds] in *; [congruence|].
  destruct B1 as (ns1 & -> & _), B2 as (ns2 & -> & _).
  assert (G : forall ns, In (Import (Some (Id m)) ns []) (import_list j) -> In (m, (ns, [])) (from_imps j)).
  { intros ns H. unfold import_list in H. apply in_app_or in H. destruct H as [H|H].
    - destruct Hw as [Hp _ _ _ _ _]. rewrite forallb_forall in Hp. specialize (Hp _ H). discriminate Hp.
    - apply in_map_iff in H. destruct H as [[k [n0 a0]] [E Hk]]. unfold from_import_core in E. cbn [fst snd] in E.
      inversion E; subst. exact Hk. }
  pose proof (G _ H1) as G1. pose proof (G _ H2) as G2.
  pose proof (ssorted_nodup _ (from_imps_sorted j Hw)) as Hnd.
  assert (ns1 = ns2); [|subst; reflexivity].
  clear -G1 G2 Hnd. induction (from_imps j) as [|[k v] r IH]; [contradiction|].
  cbn [map fst] in Hnd. inversion Hnd; subst.
  destruct G1 as [E1|G1], G2 as [E2|G2].
  - inversion E1; inversion E2; subst. congruence.
  - inversion E1; subst. exfalso. apply H1. apply (in_map fst) in G2. exact G2.
  - inversion E2; subst. exfalso. apply H1. apply (in_map fst) in G1. exact G1.
  - auto.
Qed.

(** ** Layout of the emitted module *)

Theorem module_layout ann a sts :
  gen ann a = Some (Block sts) ->
  exists c j, conv a (state0 ann) imports0 = Some (c, j) /\ sts = import_list j ++ stmts_of c.
Proof.
  rewrite gen_is_module. destruct (conv a (state0 ann) imports0) as [[c j]|]; [|discriminate].
  intros H. exists c, j. split; [reflexivity|]. unfold module_stmts in H.
  destruct c; destruct (imports_empty j); inversion H; reflexivity.
Qed.

(** a module that is not a block has registered no import (and then needs none) *)
Theorem module_single ann a c :
  gen ann a = Some c -> (forall sts, c <> Block sts) ->
  exists j, conv a (state0 ann) imports0 = Some (c, j) /\ import_list j = [].
Proof.
  rewrite gen_is_module. destruct (conv a (state0 ann) imports0) as [[c0 j]|]; [|discriminate].
  intros H Hnb. exists j.
  assert (He : imports_empty j = true -> import_list j = []).
  { unfold imports_empty, import_list. destruct (imps j); [|discriminate]. destruct (from_imps j); [reflexivity | discriminate]. }
  revert H.
  destruct c0; (destruct (imports_empty j) eqn:Ee; intros H; inversion H; subst;
                first [ (exfalso; eapply Hnb; reflexivity) | (split; [reflexivity | apply He; reflexivity]) ]).
Qed.

(** ** User imports *)

Definition idn (x : option nm * string) : ast := A (fst x) (NId (snd x)).
Definition pid (x : option nm * string) : core := Id (concrete_to_python (snd x)).

Lemma conv_id t s st i :
  assign_to st = None -> last_ret st = false -> conv (A t (NId s)) st i = Some (Id (concrete_to_python s), i).
Proof. intros H1 H2. rewrite conv_eq. cbv zeta. rewrite H1, H2. reflexivity. Qed.

Lemma mmap_ids l st i :
  assign_to st = None -> last_ret st = false ->
  mmap (fun x => conv x st) (map idn l) i = Some (map pid l, i).
Proof.
  intros H1 H2. induction l as [|x l IH]; [reflexivity|]. cbn [map mmap]. unfold bind at 1.
  unfold idn at 1. rewrite (conv_id _ _ _ _ H1 H2). unfold bind at 1. rewrite IH. reflexivity.
Qed.

Theorem user_imports_verbatim ty f im al st i :
  assign_to st = None -> last_ret st = false ->
  conv (A ty (NImport (option_map idn f) (map idn im) (map idn al))) st i
  = Some (Import (option_map pid f) (map pid im) (map pid al), i).
Proof.
  intros H1 H2. rewrite conv_eq. cbv zeta. rewrite H1, H2.
  set (s' := with_last_ret (with_assign st None) false).
  assert (A1 : assign_to s' = None) by reflexivity. assert (A2 : last_ret s' = false) by reflexivity.
  unfold bind at 1. unfold bind at 1.
  assert (Hf : mopt (fun x => conv x s') (option_map idn f) i = Some (option_map pid f, i)).
  { destruct f as [x|]; [|reflexivity]. cbn [option_map mopt]. unfold bind. unfold idn.
    rewrite (conv_id _ _ _ _ A1 A2). reflexivity. }
  rewrite Hf. unfold bind at 1. rewrite (mmap_ids im s' i A1 A2).
  unfold bind at 1. rewrite (mmap_ids al s' i A1 A2). reflexivity.
Qed.

(** the identifiers are reproduced unchanged unless they are keys of the type-name table *)
Lemma pid_verbatim x : lookup (snd x) py_names = None -> pid x = Id (snd x).
Proof. unfold pid, concrete_to_python. intros ->. reflexivity. Qed.

Theorem user_imports_renamed_refuted :
  exists x, pid x <> Id (snd x).
Proof. exists (None, "Enum"). vm_compute. discriminate. Qed.

(** ** The combined statement for [gen] *)

Theorem C16_self_contained_gen ann a sts :
  gen ann a = Some (Block sts) ->
  exists c j body,
    conv a (state0 ann) imports0 = Some (c, j) /\
    sts = import_list j ++ body /\ body = stmts_of c /\
    once j /\
    (reserved_free a = true ->
       forall n, In n (flat_map needs body) ->
         exists s, In s (import_list j) /\ stmt_binds s n /\
                   forall s', In s' (import_list j) -> stmt_binds s' n -> s' = s).
Proof.
  intros H. destruct (module_layout ann a sts H) as (c & j & E & ->).
  exists c, j, (stmts_of c). split; [exact E|]. split; [reflexivity|]. split; [reflexivity|].
  assert (Hw : wf j) by (eapply conv_wf; [apply wf0 | exact E]).
  split; [apply wf_once; exact Hw|].
  intros Hrf n Hn.
  assert (Hn' : In n (needs c)).
  { destruct c; cbn [stmts_of flat_map] in Hn; try (rewrite app_nil_r in Hn; exact Hn). exact Hn. }
  assert (Hs0 : typing_sep imports0) by (intros []).
  pose proof (conv_covers a (state0 ann) imports0 c j Hrf Hs0 I E n Hn') as Hp.
  destruct (provides_stmt j n Hw Hp) as (s & Hs & Hb). exists s. split; [exact Hs|]. split; [exact Hb|].
  intros s' Hs' Hb'. eapply binds_unique; eassumption.
Qed.

(** ** The separation hypothesis of [conv_monotone] is necessary (for records no conversion produces) *)
Definition odd_imports : imports :=
  {| imps := []; typing_imps := None; other_from := [("typing", ([Id "Any"], []))] |}.

Theorem conv_monotone_refuted_without_sep :
  exists a st i c j n, provides i n /\ conv a st i = Some (c, j) /\ ~ provides j n.
Proof.
  exists (A None (NTypeAlias "T" [] (NM [TN false "Int" []]))), (state0 false), odd_imports.
  eexists. eexists. exists (FromImport "typing" "Any").
  split; [exists [Id "Any"], []; split; left; reflexivity|].
  split; [vm_compute; reflexivity|].
  intros (ns & al & Hin & Hx). vm_compute in Hin. destruct Hin as [E|[]]. inversion E; subst.
  destruct Hx as [E'|[]]. discriminate E'.
Qed.

(** ** Non-vacuity: one program using every construct that needs a support import *)
Definition t_int : nm := NM [TN false "Int" []].
Definition t_str : nm := NM [TN false "Str" []].
Definition t_float : nm := NM [TN false "Float" []].
Definition t_opt_int : nm := NM [TN true "Int" []].
Definition t_pair : nm := NM [TN false "Tuple" [t_int; NM [TN true "Str" []]]].
Definition t_fun : nm := NM [TN false "Callable" [NM [TN false "Tuple" [t_int]]; t_int]].
Definition t_any : nm := NM [TN false "Any" []].
Definition t_union : nm := NM [TN false "Int" []; TN false "Str" []].

Definition sample16 : ast :=
  A None (NBlock [
    (* type MyType: Str *)
    A None (NTypeAlias "MyType" [] t_str);
    (* type Iface \n def fun_a(self) *)
    A None (NTypeDef "Iface" [] None
              (Some (A None (NBlock [A None (NFunDef (A None (NId "fun_a"))
                                               [A None (NFunArg false (A None (NId "self")) None None)] None None)])))
              false);
    (* def f(x: Int?, p: (Int, Str?), h: (Int) -> Int, y: Any, u: Int or Str) -> Float => sqrt 4 *)
    A None (NFunDef (A None (NId "f"))
              [A None (NFunArg false (A (Some t_opt_int) (NId "x")) (Some t_opt_int) None);
               A None (NFunArg false (A (Some t_pair) (NId "p")) (Some t_pair) None);
               A None (NFunArg false (A (Some t_fun) (NId "h")) (Some t_fun) None);
               A None (NFunArg false (A (Some t_any) (NId "y")) (Some t_any) None);
               A None (NFunArg false (A (Some t_union) (NId "u")) (Some t_union) None)]
              (Some t_float)
              (Some (A (Some t_float) (NUn SSqrt (A (Some t_int) (NInt "4"))))))]).

Example sample16_reserved_free : reserved_free sample16 = true.
Proof. reflexivity. Qed.

Example sample16_gen_annotated :
  exists body,
    gen true sample16 =
    Some (Block ([Import None [Id "math"] [];
                  Import (Some (Id "abc")) [Id "ABC"; Id "abstractmethod"] [];
                  Import (Some (Id "typing"))
                    [Id "Any"; Id "Callable"; Id "NewType"; Id "Optional"; Id "Tuple"; Id "Union"] []] ++ body))
    /\ flat_map needs body =
       [FromImport "typing" "NewType"; FromImport "abc" "ABC"; FromImport "abc" "abstractmethod";
        FromImport "typing" "Optional"; FromImport "typing" "Tuple"; FromImport "typing" "Optional";
        FromImport "typing" "Callable"; FromImport "typing" "Tuple"; FromImport "typing" "Any";
        FromImport "typing" "Union"; PlainImport "math"].
Proof. eexists. split; vm_compute; reflexivity. Qed.

Example sample16_gen_plain :
  exists body,
    gen false sample16 =
    Some (Block ([Import None [Id "math"] [];
                  Import (Some (Id "abc")) [Id "ABC"; Id "abstractmethod"] [];
                  Import (Some (Id "typing")) [Id "NewType"] []] ++ body))
    /\ flat_map needs body =
       [FromImport "typing" "NewType"; FromImport "abc" "ABC"; FromImport "abc" "abstractmethod"; PlainImport "math"].
Proof. eexists. split; vm_compute; reflexivity. Qed.

(** D20 in the model: [def math := 3] followed by [sqrt 4]; the import is registered and
    provided, but the user's definition rebinds the imported name *)
Definition d20 : ast :=
  A None (NBlock [A None (NVarDef (A (Some t_int) (NId "math")) None (Some (A (Some t_int) (NInt "3"))));
                  A (Some t_float) (NUn SSqrt (A (Some t_int) (NInt "4")))]).
Example d20_capture :
  gen false d20 = Some (Block [Import None [Id "math"] [];
                               VarDef (Id "math") None (Some (Int "3"));
                               Un CuSqrt (Int "4")])
  /\ reserved_free d20 = true.
Proof. split; vm_compute; reflexivity. Qed.
