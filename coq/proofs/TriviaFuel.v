(** * The lexer's main loop: steps, accumulator, fuel (used by C14)

    The main loop as iteration of a [step] function ([tok_loop_step]); the accumulator
    is only a prefix of the answer ([loop_acc]); more fuel never changes an answer
    ([loop_mono], [loop_agree]); the fuel [tokenize] passes always suffices
    ([loop_adequate]), hence [tokenize] never answers [OutOfFuel]. *)
From Coq Require Import List Ascii ZArith Bool Lia Arith.
From MambaModel Require Import model.LexTok gen.LexTables model.Lex proofs.LexProps model.Trivia.
Import ListNotations.
Local Open Scope Z_scope.

(** ** One step of the loop *)

Definition dres := ((list tl) + (cpos * lexerr) + unit)%type.
Definition nacc := (option (list lex) + (cpos * lexerr))%type.

Definition nest_step (d : str -> dres) (p : cpos) (a : nacc) (oe : Z * str) : nacc :=
  match a with
  | inl (Some ls) =>
      match d (snd oe) with
      | inl (inl toks) =>
          let off := offset_pos p (fst oe) in
          inl (Some (ls ++ flat_map (fun x =>
            nest (mk_lex (pos_offset (lstart (top x)) off) (ltok (top x))) :: inner x) toks))
      | inl (inr e) => inr e
      | inr _ => inl None
      end
  | other => other
  end.

Definition nest_all (d : str -> dres) (p : cpos) (exprs : list (Z * str)) : nacc :=
  fold_left (nest_step d p) exprs (inl (Some [])).

Definition emit_str (st : state) (content : str) (inn : list lex) : state * list tl :=
  let '(st', out) := state_token st (string_tok content) in
  (st', match rev out with
        | l :: before => map tl0 (rev before) ++ [{| top := l; inner := inn |}]
        | [] => []
        end).

Inductive stepres :=
| Halt (e : cpos * lexerr)
| OOF
| Next (rest : str) (st : state) (out : list tl).

Definition step (d : str -> dres) (c : ascii) (r : str) (st : state) : stepres :=
  match scan c r with
  | SErr e => Halt (pos st, e)
  | SSpace rest => Next rest (state_space st) []
  | STok t rest => let '(st', out) := state_token st t in Next rest st' (map tl0 out)
  | SString content exprs rest =>
      if is_docstring_arm content then
        let '(st', out) := state_token st (string_tok content) in Next rest st' (map tl0 out)
      else
        match nest_all d (pos st) exprs with
        | inr e => Halt e
        | inl None => OOF
        | inl (Some inn) => let '(st', out) := emit_str st content inn in Next rest st' out
        end
  end.

Definition lres := ((state * list tl) + (cpos * lexerr) + unit)%type.

Lemma tok_loop_nil fuel st acc : tok_loop (S fuel) [] st acc = inl (inl (st, acc)).
Proof. reflexivity. Qed.

Lemma tok_loop_step fuel c r st acc :
  tok_loop (S fuel) (c :: r) st acc =
  match step (direct fuel) c r st with
  | Halt e => inl (inr e)
  | OOF => inr tt
  | Next rest st' out => tok_loop fuel rest st' (acc ++ out)
  end.
Proof.
  unfold step, nest_all, emit_str. cbn [tok_loop].
  destruct (scan c r) as [t rest | content exprs rest | rest | e].
  - destruct (state_token st t) as [st' out]. reflexivity.
  - destruct (is_docstring_arm content).
    + destruct (state_token st (string_tok content)) as [st' out]. reflexivity.
    + match goal with
      | |- match ?a with _ => _ end = match match ?b with _ => _ end with _ => _ end =>
          change a with b; destruct b as [[inn|]|err]
      end.
      * destruct (state_token st (string_tok content)) as [st' out]. reflexivity.
      * reflexivity.
      * reflexivity.
  - rewrite app_nil_r. reflexivity.
  - reflexivity.
Qed.

Lemma direct_S fuel s :
  direct (S fuel) s =
  match tok_loop fuel s state0 [] with
  | inl (inl (st, acc)) => inl (inl (docstring_pass (acc ++ map tl0 (flush_indents st))))
  | inl (inr e) => inl (inr e)
  | inr u => inr u
  end.
Proof. reflexivity. Qed.

Lemma tok_loop_O s st acc : tok_loop 0 s st acc = inr tt.
Proof. reflexivity. Qed.
Lemma direct_O s : direct 0 s = inr tt.
Proof. reflexivity. Qed.

Global Opaque tok_loop direct.

(** the accumulator is only a prefix of the answer *)
Definition with_acc (acc : list tl) (x : lres) : lres :=
  match x with
  | inl (inl (st', out)) => inl (inl (st', acc ++ out))
  | other => other
  end.

Lemma loop_acc fuel : forall s st acc, tok_loop fuel s st acc = with_acc acc (tok_loop fuel s st []).
Proof.
  induction fuel as [|fuel IH]; intros s st acc.
  - Transparent tok_loop. cbn. Opaque tok_loop. reflexivity.
  - destruct s as [|c r].
    + rewrite !tok_loop_nil. cbn. rewrite app_nil_r. reflexivity.
    + rewrite !tok_loop_step. destruct (step (direct fuel) c r st) as [e| |rest st' out]; try reflexivity.
      rewrite (IH rest st' (acc ++ out)), (IH rest st' ([] ++ out)). cbn [app].
      destruct (tok_loop fuel rest st' []) as [[[st2 o2]|e]|u]; cbn; try reflexivity.
      rewrite app_assoc. reflexivity.
Qed.

(** *** more fuel never changes an answer *)

Lemma nest_fold_absorb_none d p ex : fold_left (nest_step d p) ex (inl None) = inl None.
Proof. induction ex as [|oe ex IH]; cbn; [reflexivity | exact IH]. Qed.
Lemma nest_fold_absorb_err d p ex e : fold_left (nest_step d p) ex (inr e) = inr e.
Proof. induction ex as [|oe ex IH]; cbn; [reflexivity | exact IH]. Qed.

Lemma nest_fold_mono d1 d2 p :
  (forall e r, d1 e = inl r -> d2 e = inl r) ->
  forall ex a, fold_left (nest_step d1 p) ex a <> inl None ->
               fold_left (nest_step d2 p) ex a = fold_left (nest_step d1 p) ex a.
Proof.
  intros Hd. induction ex as [|oe ex IH]; intros a Hne; [reflexivity|].
  cbn [fold_left] in *.
  destruct a as [[ls|]|e].
  - cbn [nest_step] in *. destruct (d1 (snd oe)) as [r|u] eqn:H1.
    + rewrite (Hd _ _ H1). apply IH. exact Hne.
    + exfalso. apply Hne. destruct u. apply nest_fold_absorb_none.
  - cbn [nest_step] in *. exfalso. apply Hne. apply nest_fold_absorb_none.
  - cbn [nest_step]. rewrite !nest_fold_absorb_err. reflexivity.
Qed.

Lemma step_mono d1 d2 c r st :
  (forall e x, d1 e = inl x -> d2 e = inl x) ->
  step d1 c r st <> OOF -> step d2 c r st = step d1 c r st.
Proof.
  intros Hd. unfold step. destruct (scan c r) as [t rest | content exprs rest | rest | e]; try reflexivity.
  destruct (is_docstring_arm content); [reflexivity|].
  intros Hne. unfold nest_all in *.
  rewrite (nest_fold_mono d1 d2 (pos st) Hd exprs (inl (Some []))); [reflexivity|].
  intros H. rewrite H in Hne. apply Hne. reflexivity.
Qed.

Lemma loop_mono1 fuel :
  (forall s st acc x, tok_loop fuel s st acc = inl x -> tok_loop (S fuel) s st acc = inl x)
  /\ (forall s x, direct fuel s = inl x -> direct (S fuel) s = inl x).
Proof.
  induction fuel as [|fuel [IHP IHQ]].
  - split.
    + intros s st acc x H. Transparent tok_loop. cbn in H. Opaque tok_loop. discriminate H.
    + intros s x H. Transparent direct. cbn in H. Opaque direct. discriminate H.
  - assert (HP : forall s st acc x, tok_loop (S fuel) s st acc = inl x -> tok_loop (S (S fuel)) s st acc = inl x).
    { intros s st acc x H. destruct s as [|c r].
      - rewrite tok_loop_nil in *. exact H.
      - rewrite tok_loop_step in *.
        assert (Hne : step (direct fuel) c r st <> OOF).
        { intros E. rewrite E in H. discriminate H. }
        rewrite (step_mono _ _ c r st IHQ Hne).
        destruct (step (direct fuel) c r st) as [e| |rest st' out]; [exact H | exact H |].
        apply IHP, H. }
    split; [exact HP|].
    intros s x H. rewrite direct_S in *.
    destruct (tok_loop fuel s state0 []) as [y|u] eqn:E; [|discriminate H].
    rewrite (IHP _ _ _ _ E). exact H.
Qed.

Lemma loop_mono fuel fuel' s st acc x :
  (fuel <= fuel')%nat -> tok_loop fuel s st acc = inl x -> tok_loop fuel' s st acc = inl x.
Proof.
  induction 1 as [|m Hle IH]; intros H; [exact H|]. apply (proj1 (loop_mono1 m)), IH, H.
Qed.

Lemma direct_mono fuel fuel' s x :
  (fuel <= fuel')%nat -> direct fuel s = inl x -> direct fuel' s = inl x.
Proof.
  induction 1 as [|m Hle IH]; intros H; [exact H|]. apply (proj2 (loop_mono1 m)), IH, H.
Qed.

(** two sufficient amounts of fuel give the same answer *)
Lemma loop_agree f1 f2 s st acc x y :
  tok_loop f1 s st acc = inl x -> tok_loop f2 s st acc = inl y -> x = y.
Proof.
  intros H1 H2.
  pose proof (loop_mono f1 (Nat.max f1 f2) s st acc x (Nat.le_max_l _ _) H1) as A.
  pose proof (loop_mono f2 (Nat.max f1 f2) s st acc y (Nat.le_max_r _ _) H2) as B.
  rewrite A in B. inversion B. reflexivity.
Qed.

(** ** The fuel of [tokenize] suffices *)

Definition op_words_nonempty : bool :=
  forallb (fun wt : str * token => match fst wt with [] => false | _ => true end) op_table.
Lemma op_words_nonempty_true : op_words_nonempty = true.
Proof. vm_compute. reflexivity. Qed.

Lemma match_prefix_shrinks s t rest :
  match_prefix op_table s = Some (t, rest) -> (length rest < length s)%nat.
Proof.
  intros H. apply match_prefix_sound in H as (w & Hin & ->).
  pose proof op_words_nonempty_true as Hne. unfold op_words_nonempty in Hne.
  rewrite forallb_forall in Hne. specialize (Hne _ Hin). cbn in Hne.
  destruct w; [discriminate|]. rewrite app_length. cbn. lia.
Qed.

Lemma take_while_len p s a b : take_while p s = (a, b) -> (length b <= length s)%nat.
Proof. intros H. apply take_while_split in H as [-> _]. rewrite app_length. lia. Qed.

Lemma scan_number_len fuel :
  forall num exp fl en s num' exp' fl' en' rest,
    scan_number fuel num exp fl en s = (num', exp', fl', en', rest) -> (length rest <= length s)%nat.
Proof.
  induction fuel as [|fuel IH]; intros num exp fl en s num' exp' fl' en' rest H; cbn [scan_number] in H.
  - inversion H; subst. lia.
  - destruct s as [|c r]; [inversion H; subst; cbn; lia|].
    destruct (is_digit c).
    + destruct en; apply IH in H; cbn [length]; lia.
    + destruct (Ascii.eqb c c_E).
      * destruct en; [inversion H; subst; lia|]. apply IH in H. cbn [length]; lia.
      * destruct (Ascii.eqb c c_dot); [|inversion H; subst; lia].
        destruct (fl || en); [inversion H; subst; lia|].
        destruct r as [|c2 r2].
        -- apply IH in H. cbn [length] in *; lia.
        -- destruct (Ascii.eqb c2 c_dot); [inversion H; subst; lia|]. apply IH in H. cbn [length] in *; lia.
Qed.

(** one character of the string scanner *)
Definition ss_closing (st : sstate) (c : ascii) : bool :=
  negb (s_bslash st) && (s_depth st =? 0) && Ascii.eqb c c_quote.

Definition ss_step (st : sstate) (c : ascii) : sstate :=
  let content := s_content st ++ [c] in
  if s_bslash st then
    {| s_content := content; s_bslash := Ascii.eqb c c_bslash; s_depth := s_depth st;
       s_cur_off := s_cur_off st; s_cur := s_cur st; s_exprs := s_exprs st |}
  else
    let cur := if 0 <? s_depth st then s_cur st ++ [c] else s_cur st in
    let off := if Ascii.eqb c c_lcb && (s_depth st =? 0)
               then Z.of_nat (length content) + 1 else s_cur_off st in
    let depth := if Ascii.eqb c c_lcb then s_depth st + 1
                 else if Ascii.eqb c c_rcb then s_depth st - 1 else s_depth st in
    if (depth =? 0) && negb (match cur with [] => true | _ => false end) then
      let e := removelast cur in
      {| s_content := content; s_bslash := Ascii.eqb c c_bslash; s_depth := depth;
         s_cur_off := off; s_cur := [];
         s_exprs := match e with [] => s_exprs st | _ => s_exprs st ++ [(off, e)] end |}
    else
      {| s_content := content; s_bslash := Ascii.eqb c c_bslash; s_depth := depth;
         s_cur_off := off; s_cur := cur; s_exprs := s_exprs st |}.

Lemma scan_string_cons st c r :
  scan_string st (c :: r) = if ss_closing st c then (st, r) else scan_string (ss_step st c) r.
Proof. reflexivity. Qed.

Lemma ss_step_content st c : s_content (ss_step st c) = s_content st ++ [c].
Proof.
  unfold ss_step. destruct (s_bslash st); [reflexivity|]. cbv zeta.
  match goal with |- s_content (if ?b then _ else _) = _ => destruct b end; reflexivity.
Qed.

Definition ss_inv (st : sstate) : Prop :=
  (s_depth st <> 0 -> (1 <= length (s_content st))%nat)
  /\ (s_cur st = [] \/ (length (s_cur st) + 1 <= length (s_content st))%nat)
  /\ Forall (fun oe : Z * str => (length (snd oe) + 2 <= length (s_content st))%nat) (s_exprs st).

Lemma removelast_length {A} (l : list A) : l <> [] -> length l = S (length (removelast l)).
Proof.
  intros H. destruct (exists_last H) as (l' & a & ->). rewrite removelast_last, app_length. cbn. lia.
Qed.

Lemma ss_step_inv st c : ss_inv st -> ss_inv (ss_step st c).
Proof.
  intros (Hd & Hc & He).
  assert (Hmono : forall n, Forall (fun oe : Z * str => (length (snd oe) + 2 <= n)%nat) (s_exprs st) ->
                            (n <= length (s_content st ++ [c]))%nat ->
                            Forall (fun oe : Z * str => (length (snd oe) + 2 <= length (s_content st ++ [c]))%nat) (s_exprs st)).
  { intros n H Hn. revert H. apply Forall_impl. intros oe Hoe. lia. }
  assert (He' := Hmono _ He ltac:(rewrite app_length; cbn; lia)).
  unfold ss_step. destruct (s_bslash st).
  - split; [|split]; cbn [s_depth s_content s_cur s_exprs].
    + intros _. rewrite app_length. cbn. lia.
    + destruct Hc as [Hc | Hc]; [left; exact Hc | right; rewrite app_length; cbn; lia].
    + exact He'.
  - cbv zeta.
    set (cur := if 0 <? s_depth st then s_cur st ++ [c] else s_cur st).
    set (depth := if Ascii.eqb c c_lcb then s_depth st + 1
                  else if Ascii.eqb c c_rcb then s_depth st - 1 else s_depth st).
    assert (Hcur : cur = [] \/ (length cur + 1 <= length (s_content st ++ [c]))%nat).
    { subst cur. rewrite app_length. cbn [length]. destruct (0 <? s_depth st) eqn:Hpos.
      - right. rewrite app_length. cbn [length]. apply Z.ltb_lt in Hpos.
        destruct Hc as [-> | Hc]; [cbn; assert (1 <= length (s_content st))%nat by (apply Hd; lia); lia | lia].
      - destruct Hc as [Hc | Hc]; [left; exact Hc | right; lia]. }
    destruct ((depth =? 0) && negb (match cur with [] => true | _ => false end)) eqn:Hcond.
    + split; [|split]; cbn [s_depth s_content s_cur s_exprs].
      * intros _. rewrite app_length. cbn. lia.
      * left. reflexivity.
      * apply andb_prop in Hcond as [_ Hne].
        destruct (removelast cur) as [|x e] eqn:Hrl; [exact He'|].
        apply Forall_app. split; [exact He'|]. constructor; [|constructor]. cbn [snd].
        assert (Hcn : cur <> []) by (destruct cur; [discriminate Hne | discriminate]).
        pose proof (removelast_length cur Hcn) as Hl. rewrite Hrl in Hl.
        destruct Hcur as [Hcur | Hcur]; [contradiction|]. lia.
    + split; [|split]; cbn [s_depth s_content s_cur s_exprs].
      * intros _. rewrite app_length. cbn. lia.
      * exact Hcur.
      * exact He'.
Qed.

Lemma scan_string_inv : forall s st st' rest,
  scan_string st s = (st', rest) -> ss_inv st ->
  ss_inv st' /\ (length (s_content st') + length rest <= length (s_content st) + length s)%nat.
Proof.
  induction s as [|c r IH]; intros st st' rest H Hinv.
  - cbn in H. inversion H; subst. split; [exact Hinv | lia].
  - rewrite scan_string_cons in H. destruct (ss_closing st c).
    + inversion H; subst. split; [exact Hinv | cbn [length]; lia].
    + apply IH in H; [|apply ss_step_inv, Hinv]. destruct H as [H1 H2]. split; [exact H1|].
      rewrite ss_step_content, app_length in H2. cbn [length] in *. lia.
Qed.

Definition ss0 : sstate :=
  {| s_content := []; s_bslash := false; s_depth := 0; s_cur_off := 1; s_cur := []; s_exprs := [] |}.
Lemma ss0_inv : ss_inv ss0.
Proof. split; [|split]; cbn; [intros H; contradiction | left; reflexivity | constructor]. Qed.

(** what [scan] leaves is shorter than what it was given; interpolated expressions are
    at least two characters shorter *)
Lemma scan_shrinks c r :
  match scan c r with
  | STok _ rest | SSpace rest => (length rest <= length r)%nat
  | SString _ exprs rest =>
      (length rest <= length r)%nat
      /\ Forall (fun oe : Z * str => (length (snd oe) + 2 <= length r)%nat) exprs
  | SErr _ => True
  end.
Proof.
  unfold scan.
  destruct (match_prefix op_table (c :: r)) as [[t0 rest0]|] eqn:Hm.
  { apply match_prefix_shrinks in Hm. cbn [length] in Hm. lia. }
  destruct (Ascii.eqb c c_hash).
  { destruct (take_while not_eol r) as [cm rest] eqn:Ht. apply take_while_len in Ht. exact Ht. }
  destruct (Ascii.eqb c c_quote).
  { fold ss0. destruct (scan_string ss0 r) as [st rest] eqn:Hs.
    apply scan_string_inv in Hs as [(_ & _ & He) Hl]; [|exact ss0_inv]. cbn [s_content ss0 length] in Hl.
    split; [lia|]. revert He. apply Forall_impl. intros oe Hoe. lia. }
  destruct (Ascii.eqb c c_sp); [lia|].
  destruct (Ascii.eqb c c_cr); [exact I|].
  destruct (Ascii.eqb c (ch 33)); [exact I|].
  destruct (is_digit c).
  { destruct (scan_number (S (length r)) [c] [] false false r) as [[[[number exp] float] e_num] rest] eqn:Hn.
    apply scan_number_len in Hn. exact Hn. }
  destruct (is_id_start c); [|exact I].
  destruct (take_while is_id_char r) as [w rest] eqn:Ht. apply take_while_len in Ht. exact Ht.
Qed.

Lemma nest_fold_adequate d p :
  forall ex a, a <> inl None -> Forall (fun oe : Z * str => d (snd oe) <> inr tt) ex ->
               fold_left (nest_step d p) ex a <> inl None.
Proof.
  induction ex as [|oe ex IH]; intros a Ha Hall; [exact Ha|].
  inversion Hall as [|? ? Hoe Hex]; subst. cbn [fold_left]. apply IH; [|exact Hex].
  destruct a as [[ls|]|e]; cbn [nest_step].
  - destruct (d (snd oe)) as [[toks|e]|u] eqn:Hd; try discriminate. destruct u. contradiction.
  - contradiction.
  - discriminate.
Qed.

Lemma loop_adequate1 fuel :
  (forall s st acc, (length s < fuel)%nat -> tok_loop fuel s st acc <> inr tt)
  /\ (forall e, (S (length e) < fuel)%nat -> direct fuel e <> inr tt).
Proof.
  induction fuel as [|fuel [IHA IHB]]; [split; intros; lia|].
  split.
  - intros s st acc Hlen. destruct s as [|c r]; [rewrite tok_loop_nil; discriminate|].
    rewrite tok_loop_step. cbn [length] in Hlen.
    pose proof (scan_shrinks c r) as Hs. unfold step.
    destruct (scan c r) as [t rest | content exprs rest | rest | e].
    + destruct (state_token st t) as [st' out]. apply IHA. lia.
    + destruct Hs as [Hr He]. destruct (is_docstring_arm content).
      * destruct (state_token st (string_tok content)) as [st' out]. apply IHA. lia.
      * assert (Hn : nest_all (direct fuel) (pos st) exprs <> inl None).
        { apply nest_fold_adequate; [discriminate|]. revert He. apply Forall_impl. intros oe Hoe.
          apply IHB. lia. }
        destruct (nest_all (direct fuel) (pos st) exprs) as [[inn|]|err]; [| contradiction | discriminate].
        destruct (emit_str st content inn) as [st' out]. apply IHA. lia.
    + apply IHA. lia.
    + discriminate.
  - intros e Hlen. rewrite direct_S.
    assert (Hl : tok_loop fuel e state0 [] <> inr tt) by (apply IHA; lia).
    destruct (tok_loop fuel e state0 []) as [[[st acc]|err]|u]; try discriminate. destruct u. contradiction.
Qed.

Lemma loop_adequate fuel s st acc : (length s < fuel)%nat -> exists x, tok_loop fuel s st acc = inl x.
Proof.
  intros H. pose proof (proj1 (loop_adequate1 fuel) s st acc H) as Hne.
  destruct (tok_loop fuel s st acc) as [x|u]; [exists x; reflexivity | destruct u; contradiction].
Qed.

(** any sufficient fuel gives the answer [tokenize] computes *)
Lemma loop_fuel fuel s st acc :
  (length s < fuel)%nat -> tok_loop fuel s st acc = tok_loop (S (length s)) s st acc.
Proof.
  intros H. destruct (loop_adequate (S (length s)) s st acc ltac:(lia)) as [x Hx].
  rewrite Hx. apply (loop_mono (S (length s)) fuel); [lia | exact Hx].
Qed.

Theorem tokenize_total s : tokenize s <> OutOfFuel.
Proof.
  unfold tokenize, tokenize_fuel.
  destruct (loop_adequate (S (S (length s))) s state0 [] ltac:(lia)) as [x Hx]. rewrite Hx.
  destruct x as [[st acc]|[p e]]; discriminate.
Qed.
