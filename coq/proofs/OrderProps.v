(** * OrderProps.v - permutation invariance (and its failures) of the hash-ordered sites of [model/Order.v] *)
From Coq Require Import List String Ascii Bool Arith PeanoNat Lia Permutation Sorting.Sorted
  Structures.OrderedTypeEx.
Import ListNotations.
Local Open Scope string_scope.
Local Open Scope list_scope.
From MambaModel Require Import model.Order.

(* ------------------------------------------------------------------------------------------------ *)
(** ** Total orders given by a comparison function *)

Record total_order {A : Type} (cmp : A -> A -> comparison) : Prop := {
  to_eq : forall x y, cmp x y = Eq -> x = y;
  to_antisym : forall x y, cmp y x = CompOpp (cmp x y);
  to_trans : forall x y z, cmp x y = Lt -> cmp y z = Lt -> cmp x z = Lt }.

Lemma compopp_fix : forall r, r = CompOpp r -> r = Eq.
Proof. destruct r; simpl; congruence. Qed.

Lemma to_refl {A} (cmp : A -> A -> comparison) : total_order cmp -> forall x, cmp x x = Eq.
Proof. intros H x. apply compopp_fix. apply (to_antisym _ H). Qed.

Section SortProps.
  Context {A : Type}.
  Variable cmp : A -> A -> comparison.
  Let le (x y : A) : Prop := leb cmp x y = true.

  Lemma insert_perm : forall x l, Permutation (insert cmp x l) (x :: l).
  Proof.
    intros x l. induction l as [|y t IH]; cbn [insert]; [reflexivity|].
    destruct (leb cmp x y); [reflexivity|].
    rewrite IH. apply perm_swap.
  Qed.

  Lemma isort_perm : forall l, Permutation (isort cmp l) l.
  Proof.
    induction l as [|x t IH]; cbn [isort]; [reflexivity|].
    rewrite insert_perm. now constructor.
  Qed.

  (** what the order has to satisfy on the elements at hand *)
  Hypothesis le_total : forall x y, leb cmp x y = false -> le y x.
  Hypothesis le_trans : forall x y z, le x y -> le y z -> le x z.

  Lemma insert_sorted : forall x l, StronglySorted le l -> StronglySorted le (insert cmp x l).
  Proof.
    intros x l Hs. induction Hs as [|y t Hs IH Hall]; cbn [insert].
    - repeat constructor.
    - destruct (leb cmp x y) eqn:E.
      + constructor; [now constructor|]. constructor; [exact E|].
        eapply Forall_impl; [|exact Hall]. intros z Hz. eapply le_trans; [exact E|exact Hz].
      + constructor; [exact IH|].
        assert (Hp := insert_perm x t).
        apply Forall_forall. intros z Hz. apply (Permutation_in _ Hp) in Hz.
        destruct Hz as [<-|Hz]; [now apply le_total|].
        rewrite Forall_forall in Hall. now apply Hall.
  Qed.

  Lemma isort_sorted : forall l, StronglySorted le (isort cmp l).
  Proof.
    induction l as [|x t IH]; cbn [isort]; [constructor|]. now apply insert_sorted.
  Qed.

  Lemma sorted_unique : forall l1 l2,
    StronglySorted le l1 -> StronglySorted le l2 -> Permutation l1 l2 ->
    (forall x y, In x l1 -> In y l1 -> le x y -> le y x -> x = y) ->
    l1 = l2.
  Proof.
    induction l1 as [|a t IH]; intros l2 H1 H2 Hp Has.
    - now apply Permutation_nil in Hp.
    - destruct l2 as [|b u]; [apply Permutation_sym, Permutation_nil in Hp; discriminate|].
      apply StronglySorted_inv in H1. destruct H1 as [H1 Ha].
      apply StronglySorted_inv in H2. destruct H2 as [H2 Hb].
      rewrite Forall_forall in Ha, Hb.
      assert (Hab : a = b).
      { assert (Hina : In a (b :: u)) by (eapply Permutation_in; [exact Hp|now left]).
        assert (Hinb : In b (a :: t)) by (eapply Permutation_in; [apply Permutation_sym; exact Hp|now left]).
        destruct Hina as [-> |Hina]; [reflexivity|].
        destruct Hinb as [-> |Hinb]; [reflexivity|].
        apply Has; [now left|now right|now apply Ha|now apply Hb]. }
      subst b. f_equal. apply IH; [exact H1|exact H2|eapply Permutation_cons_inv; exact Hp|].
      intros x y Hx Hy. apply Has; now right.
  Qed.

  Lemma isort_perm_eq : forall l l',
    (forall x y, In x l -> In y l -> le x y -> le y x -> x = y) ->
    Permutation l l' -> isort cmp l = isort cmp l'.
  Proof.
    intros l l' Has Hp. apply sorted_unique; try apply isort_sorted.
    - rewrite (isort_perm l), (isort_perm l'). exact Hp.
    - intros x y Hx Hy. apply Has; eapply Permutation_in; try apply isort_perm; assumption.
  Qed.
End SortProps.

Lemma NoDup_map_inj {A B} (f : A -> B) : forall l x y,
  NoDup (map f l) -> In x l -> In y l -> f x = f y -> x = y.
Proof.
  induction l as [|a t IH]; intros x y Hn Hx Hy Hf; [contradiction|].
  cbn [map] in Hn. apply NoDup_cons_iff in Hn. destruct Hn as [Hna Hn].
  destruct Hx as [-> |Hx], Hy as [-> |Hy]; try reflexivity.
  - exfalso. apply Hna. rewrite Hf. now apply in_map.
  - exfalso. apply Hna. rewrite <- Hf. now apply in_map.
  - now apply IH.
Qed.

(** Sorting by a key whose order is total: if no two elements share a key, the result does not depend on
    the order in which the elements are presented.  Covers [sorted()] on a set (key = canonical form) and
    [sorted_by_key(pos)] (key = recorded position). *)
Theorem isort_key_perm {A B} (cmp : A -> A -> comparison) (f : B -> A) :
  total_order cmp -> forall l l',
  NoDup (map f l) -> Permutation l l' ->
  isort (fun x y => cmp (f x) (f y)) l = isort (fun x y => cmp (f x) (f y)) l'.
Proof.
  intros Ho l l' Hn Hp.
  assert (Hgt : forall a b, cmp a b = Gt -> cmp b a = Lt).
  { intros a b H. rewrite (to_antisym _ Ho a b), H. reflexivity. }
  apply isort_perm_eq; [| | |exact Hp].
  - intros x y H. unfold leb in *. destruct (cmp (f x) (f y)) eqn:E; try discriminate.
    now rewrite (Hgt _ _ E).
  - intros x y z. unfold leb.
    destruct (cmp (f x) (f y)) eqn:E1; try discriminate; intros _;
    destruct (cmp (f y) (f z)) eqn:E2; try discriminate; intros _.
    + apply (to_eq _ Ho) in E1. rewrite E1, E2. reflexivity.
    + apply (to_eq _ Ho) in E1. rewrite E1, E2. reflexivity.
    + apply (to_eq _ Ho) in E2. rewrite <- E2, E1. reflexivity.
    + now rewrite (to_trans _ Ho _ _ _ E1 E2).
  - intros x y Hx Hy. unfold leb.
    destruct (cmp (f x) (f y)) eqn:E1; try discriminate; intros _.
    + intros _. apply (to_eq _ Ho) in E1. eapply NoDup_map_inj; eassumption.
    + rewrite (to_antisym _ Ho (f x) (f y)), E1. discriminate.
Qed.

(* ------------------------------------------------------------------------------------------------ *)
(** ** Lexicographic comparison *)

Section LexProps.
  Context {A : Type}.
  Variable c : A -> A -> comparison.

  Lemma lex_eq : forall l1 l2,
    Forall (fun x => forall y, c x y = Eq -> x = y) l1 -> lex c l1 l2 = Eq -> l1 = l2.
  Proof.
    induction l1 as [|x t IH]; intros [|y u] Hf H; cbn [lex] in H; try discriminate; [reflexivity|].
    apply Forall_cons_iff in Hf. destruct Hf as [Hx Hf].
    destruct (c x y) eqn:E; try discriminate.
    f_equal; [now apply Hx|now apply IH].
  Qed.

  Lemma lex_antisym : forall l1 l2,
    Forall (fun x => forall y, c y x = CompOpp (c x y)) l1 -> lex c l2 l1 = CompOpp (lex c l1 l2).
  Proof.
    induction l1 as [|x t IH]; intros [|y u] Hf; cbn [lex]; try reflexivity.
    apply Forall_cons_iff in Hf. destruct Hf as [Hx Hf].
    rewrite (Hx y). destruct (c x y); cbn [CompOpp]; try reflexivity. now apply IH.
  Qed.

  Lemma lex_trans :
    (forall x y, c x y = Eq -> x = y) ->
    forall l1 l2 l3,
    Forall (fun x => forall y z, c x y = Lt -> c y z = Lt -> c x z = Lt) l1 ->
    lex c l1 l2 = Lt -> lex c l2 l3 = Lt -> lex c l1 l3 = Lt.
  Proof.
    intros Heq. induction l1 as [|x t IH]; intros [|y u] [|z v] Hf H1 H2; cbn [lex] in *;
      try discriminate; try reflexivity.
    apply Forall_cons_iff in Hf. destruct Hf as [Hx Hf].
    destruct (c x y) eqn:E1; try discriminate; destruct (c y z) eqn:E2; try discriminate.
    - apply Heq in E1. subst y. rewrite E2. eapply IH; eassumption.
    - apply Heq in E1. subst y. now rewrite E2.
    - apply Heq in E2. subst z. now rewrite E1.
    - now rewrite (Hx _ _ E1 E2).
  Qed.
End LexProps.

Lemma lex_total_order {A} (c : A -> A -> comparison) : total_order c -> total_order (lex c).
Proof.
  intros Ho. split.
  - intros l1 l2. apply lex_eq. apply Forall_forall. intros x _. apply (to_eq _ Ho).
  - intros l1 l2. apply lex_antisym. apply Forall_forall. intros x _ y. apply (to_antisym _ Ho).
  - intros l1 l2 l3. apply lex_trans; [apply (to_eq _ Ho)|].
    apply Forall_forall. intros x _. apply (to_trans _ Ho).
Qed.

(* ------------------------------------------------------------------------------------------------ *)
(** ** [tcmp] is a total order on type names *)

Section tname_ind2.
  Variable P : tname -> Prop.
  Hypothesis H : forall n m s gs, Forall (Forall P) gs -> P (TN n m s gs).
  Fixpoint tname_ind2 (t : tname) : P t :=
    match t with
    | TN n m s gs =>
      H n m s gs
        ((fix go1 (gs : list (list tname)) : Forall (Forall P) gs :=
            match gs with
            | [] => Forall_nil _
            | g :: r =>
              Forall_cons g
                ((fix go2 (g : list tname) : Forall P g :=
                    match g with
                    | [] => Forall_nil _
                    | x :: r2 => Forall_cons x (tname_ind2 x) (go2 r2)
                    end) g)
                (go1 r)
            end) gs)
    end.
End tname_ind2.

Lemma bool_cmp_total : total_order bool_cmp.
Proof. split; [intros [] []|intros [] []|intros [] [] []]; cbn; congruence. Qed.

Lemma string_cmp_total : total_order String.compare.
Proof.
  split.
  - apply String.compare_eq_iff.
  - intros x y. apply String.compare_antisym.
  - intros x y z H1 H2.
    apply (proj1 (String_as_OT.cmp_lt x y)) in H1. apply (proj1 (String_as_OT.cmp_lt y z)) in H2.
    apply (proj2 (String_as_OT.cmp_lt x z)). eapply String_as_OT.lt_trans; eassumption.
Qed.

Lemma tcmp_unfold : forall n1 m1 s1 g1 n2 m2 s2 g2,
  tcmp (TN n1 m1 s1 g1) (TN n2 m2 s2 g2) =
  match String.compare s1 s2 with
  | Eq => match lex (lex tcmp) g1 g2 with
          | Eq => match bool_cmp n1 n2 with Eq => bool_cmp m1 m2 | r => r end
          | r => r
          end
  | r => r
  end.
Proof. reflexivity. Qed.

Lemma tcmp_eq : forall a b, tcmp a b = Eq -> a = b.
Proof.
  induction a as [n1 m1 s1 g1 IH] using tname_ind2. intros [n2 m2 s2 g2] H.
  rewrite tcmp_unfold in H.
  destruct (String.compare s1 s2) eqn:Es; try discriminate.
  destruct (lex (lex tcmp) g1 g2) eqn:Eg; try discriminate.
  destruct (bool_cmp n1 n2) eqn:En; try discriminate.
  apply String.compare_eq_iff in Es. apply (to_eq _ bool_cmp_total) in En, H.
  apply lex_eq in Eg; [congruence|].
  eapply Forall_impl; [|exact IH]. intros g Hg g'. now apply lex_eq.
Qed.

Lemma tcmp_antisym : forall a b, tcmp b a = CompOpp (tcmp a b).
Proof.
  induction a as [n1 m1 s1 g1 IH] using tname_ind2. intros [n2 m2 s2 g2].
  rewrite !tcmp_unfold.
  rewrite (String.compare_antisym s1 s2).
  destruct (String.compare s2 s1); cbn [CompOpp]; try reflexivity.
  rewrite (lex_antisym (lex tcmp) g1 g2).
  2:{ eapply Forall_impl; [|exact IH]. intros g Hg g'. now apply lex_antisym. }
  destruct (lex (lex tcmp) g1 g2); cbn [CompOpp]; try reflexivity.
  rewrite (to_antisym _ bool_cmp_total n1 n2).
  destruct (bool_cmp n1 n2); cbn [CompOpp]; try reflexivity.
  apply (to_antisym _ bool_cmp_total).
Qed.

Lemma tcmp_refl : forall a, tcmp a a = Eq.
Proof. intros a. apply compopp_fix. apply tcmp_antisym. Qed.

Lemma lex_refl {A} (c : A -> A -> comparison) : (forall x, c x x = Eq) -> forall l, lex c l l = Eq.
Proof. intros H. induction l as [|x t IH]; cbn [lex]; [reflexivity|]. now rewrite H. Qed.

Lemma tcmp_trans : forall a b c, tcmp a b = Lt -> tcmp b c = Lt -> tcmp a c = Lt.
Proof.
  induction a as [n1 m1 s1 g1 IH] using tname_ind2. intros [n2 m2 s2 g2] [n3 m3 s3 g3] H1 H2.
  rewrite tcmp_unfold in *.
  assert (Hll : forall x y : list tname, lex tcmp x y = Eq -> x = y).
  { intros x y. apply lex_eq. apply Forall_forall. intros ? _. apply tcmp_eq. }
  assert (Hgg : forall x y : list (list tname), lex (lex tcmp) x y = Eq -> x = y).
  { intros x y. apply lex_eq. apply Forall_forall. intros ? _. apply Hll. }
  assert (Hgr : forall x : list (list tname), lex (lex tcmp) x x = Eq).
  { apply lex_refl. apply lex_refl. apply tcmp_refl. }
  destruct (String.compare s1 s2) eqn:Es1; try discriminate;
  destruct (String.compare s2 s3) eqn:Es2; try discriminate.
  - apply String.compare_eq_iff in Es1, Es2. subst s2 s3.
    rewrite (to_refl _ string_cmp_total).
    destruct (lex (lex tcmp) g1 g2) eqn:Eg1; try discriminate;
    destruct (lex (lex tcmp) g2 g3) eqn:Eg2; try discriminate.
    + apply Hgg in Eg1, Eg2. subst g2 g3. rewrite Hgr.
      destruct n1, n2, n3, m1, m2, m3; cbn in *; congruence.
    + apply Hgg in Eg1. subst g2. now rewrite Eg2.
    + apply Hgg in Eg2. subst g3. now rewrite Eg1.
    + assert (Hg13 : lex (lex tcmp) g1 g3 = Lt).
      { apply (lex_trans (lex tcmp) Hll g1 g2 g3); try assumption.
        eapply Forall_impl; [|exact IH]. intros g Hg y z. apply lex_trans; [apply tcmp_eq|exact Hg]. }
      now rewrite Hg13.
  - apply String.compare_eq_iff in Es1. subst s2. now rewrite Es2.
  - apply String.compare_eq_iff in Es2. subst s3. now rewrite Es1.
  - now rewrite (to_trans _ string_cmp_total _ _ _ Es1 Es2).
Qed.

Theorem tcmp_total : total_order tcmp.
Proof. split; [apply tcmp_eq|intros; apply tcmp_antisym|apply tcmp_trans]. Qed.

(** Rust's [Eq] on type names is equality of canonical forms *)
Lemma tn_eqb_spec : forall a b, tn_eqb a b = true <-> canon a = canon b.
Proof.
  intros a b. unfold tn_eqb, rcmp. split.
  - destruct (tcmp (canon a) (canon b)) eqn:E; try discriminate. intros _. now apply tcmp_eq.
  - intros ->. now rewrite tcmp_refl.
Qed.

(* ------------------------------------------------------------------------------------------------ *)
(** ** Small list facts *)

Lemma find_perm_unique {A} (p : A -> bool) : forall l l',
  (forall x y, In x l -> In y l -> p x = true -> p y = true -> x = y) ->
  Permutation l l' -> find p l = find p l'.
Proof.
  intros l l' Hu Hp.
  destruct (find p l) as [x|] eqn:E1; destruct (find p l') as [y|] eqn:E2; try reflexivity.
  - apply find_some in E1, E2. destruct E1 as [Hx Px], E2 as [Hy Py]. f_equal.
    apply Hu; try assumption. eapply Permutation_in; [apply Permutation_sym; exact Hp|exact Hy].
  - apply find_some in E1. destruct E1 as [Hx Px].
    rewrite (find_none _ _ E2 x) in Px; [discriminate|]. eapply Permutation_in; eassumption.
  - apply find_some in E2. destruct E2 as [Hy Py].
    rewrite (find_none _ _ E1 y) in Py; [discriminate|].
    eapply Permutation_in; [apply Permutation_sym; exact Hp|exact Hy].
Qed.

Lemma find_app_split {A} (p : A -> bool) : forall a b,
  find p (a ++ b) = match find p a with Some x => Some x | None => find p b end.
Proof. induction a as [|x t IH]; intros b; cbn [find app]; [reflexivity|]. destruct (p x); auto. Qed.

Lemma fold_left_perm {A B} (f : A -> B -> A) :
  (forall a x y, f (f a x) y = f (f a y) x) ->
  forall l l', Permutation l l' -> forall a, fold_left f l a = fold_left f l' a.
Proof.
  intros Hc l l' Hp. induction Hp; intros a; cbn [fold_left]; auto.
  - now rewrite Hc.
  - now rewrite IHHp1.
Qed.

Lemma filter_perm {A} (p : A -> bool) : forall l l', Permutation l l' -> Permutation (filter p l) (filter p l').
Proof.
  intros l l' Hp. induction Hp; cbn [filter].
  - constructor.
  - destruct (p x); [now constructor|assumption].
  - destruct (p x), (p y); try reflexivity. apply perm_swap.
  - etransitivity; eassumption.
Qed.

Lemma filter_all {A} (p : A -> bool) : forall l, (forall x, In x l -> p x = true) -> filter p l = l.
Proof.
  induction l as [|x t IH]; intros H; cbn [filter]; [reflexivity|].
  rewrite (H x (or_introl eq_refl)). f_equal. apply IH. intros y Hy. apply H. now right.
Qed.

Lemma existsb_perm {A} (p : A -> bool) : forall l l', Permutation l l' -> existsb p l = existsb p l'.
Proof.
  intros l l' Hp. induction Hp; cbn [existsb]; auto.
  - now rewrite IHHp.
  - destruct (p x), (p y); reflexivity.
  - congruence.
Qed.

Lemma existsb_map {A B} (p : B -> bool) (f : A -> B) : forall l, existsb p (map f l) = existsb (fun x => p (f x)) l.
Proof. induction l as [|x t IH]; cbn [existsb map]; [reflexivity|]. now rewrite IH. Qed.

Lemma concat_perm {A} : forall (l l' : list (list A)), Permutation l l' -> Permutation (List.concat l) (List.concat l').
Proof.
  intros l l' Hp. induction Hp; cbn [List.concat].
  - constructor.
  - now apply Permutation_app_head.
  - rewrite !app_assoc. apply Permutation_app_tail. apply Permutation_app_comm.
  - etransitivity; eassumption.
Qed.

Lemma NoDup_map_app_disj {A B} (g : A -> B) : forall a b x y,
  NoDup (map g (a ++ b)) -> In x a -> In y b -> g x <> g y.
Proof.
  induction a as [|z t IH]; intros b x y Hn Hx Hy; [contradiction|].
  cbn [app map] in Hn. apply NoDup_cons_iff in Hn. destruct Hn as [Hz Hn].
  destruct Hx as [-> |Hx].
  - intros E. apply Hz. rewrite E. apply in_map. apply in_or_app. now right.
  - now apply (IH b).
Qed.

Lemma NoDup_app_r {A} : forall (a b : list A), NoDup (a ++ b) -> NoDup b.
Proof. induction a as [|x t IH]; intros b H; [exact H|]. apply IH. now inversion H. Qed.

Lemma nat_cmp_total : total_order Nat.compare.
Proof.
  split.
  - apply Nat.compare_eq.
  - intros x y. apply Nat.compare_antisym.
  - intros x y z H1 H2. apply Nat.compare_lt_iff in H1, H2. apply Nat.compare_lt_iff. lia.
Qed.

(** the executable enumeration [perms] is exactly the quantifier of the theorems *)
Lemma inserts_perm {A} (x : A) : forall q p, In p (inserts x q) -> Permutation (x :: q) p.
Proof.
  induction q as [|y t IH]; intros p H; cbn [inserts] in H.
  - destruct H as [<-|[]]. reflexivity.
  - destruct H as [<-|H]; [reflexivity|].
    apply in_map_iff in H. destruct H as [r [<- Hr]].
    etransitivity; [apply perm_swap|]. constructor. now apply IH.
Qed.

Lemma inserts_mid {A} (x : A) : forall a b, In (a ++ x :: b) (inserts x (a ++ b)).
Proof.
  induction a as [|y t IH]; intros b; cbn [app].
  - destruct b; cbn [inserts]; now left.
  - cbn [inserts]. right. apply in_map. apply IH.
Qed.

Theorem perms_spec {A} : forall (l p : list A), In p (perms l) <-> Permutation l p.
Proof.
  induction l as [|x t IH]; intros p; cbn [perms].
  - split.
    + intros [<-|[]]. constructor.
    + intros H. apply Permutation_nil in H. subst. now left.
  - rewrite in_flat_map. split.
    + intros [q [Hq Hp]]. apply IH in Hq. etransitivity; [constructor; exact Hq|]. now apply inserts_perm.
    + intros H.
      assert (Hin : In x p) by (eapply Permutation_in; [exact H|now left]).
      apply in_split in Hin. destruct Hin as [a [b ->]].
      exists (a ++ b). split; [|apply inserts_mid].
      apply IH. eapply Permutation_cons_app_inv. exact H.
Qed.

(* ------------------------------------------------------------------------------------------------ *)
(** ** (a) rendering a type union *)

Lemma name_to_py_perm : forall name l l',
  NoDup (map canon l) -> Permutation l l' -> name_to_py name l = name_to_py name l'.
Proof.
  intros name l l' Hn Hp.
  assert (Hs : isort rcmp l = isort rcmp l') by exact (isort_key_perm tcmp canon tcmp_total l l' Hn Hp).
  destruct l as [|x [|y t]].
  - apply Permutation_nil in Hp. now subst.
  - apply Permutation_length_1_inv in Hp. now subst.
  - destruct l' as [|x' [|y' t']].
    + apply Permutation_sym, Permutation_nil in Hp. discriminate.
    + apply Permutation_length in Hp. discriminate.
    + unfold name_to_py. now rewrite Hs.
Qed.

Theorem render_union_perm : forall fuel l l',
  NoDup (map canon l) -> Permutation l l' -> to_py_name fuel l = to_py_name fuel l'.
Proof. intros [|f] l l' Hn Hp; [reflexivity|]. cbn [to_py_name]. now apply name_to_py_perm. Qed.

(* ------------------------------------------------------------------------------------------------ *)
(** ** (b) class bodies *)

Lemma key_eqb_eq : forall a b, key_eqb a b = true <-> a = b.
Proof.
  intros [x|x] [y|y]; cbn [key_eqb]; split; intros H; try discriminate;
    try (apply String.eqb_eq in H; now subst); try (inversion H; apply String.eqb_refl).
Qed.

Lemma keys_unique_pred : forall (k : key) (e : list entry),
  NoDup (map e_key e) ->
  forall x y, In x e -> In y e -> key_eqb (e_key x) k = true -> key_eqb (e_key y) k = true -> x = y.
Proof.
  intros k e Hn x y Hx Hy Kx Ky. apply key_eqb_eq in Kx, Ky.
  eapply NoDup_map_inj; try eassumption. congruence.
Qed.

Theorem find_init_perm : forall e e',
  NoDup (map e_key e) -> Permutation e e' -> find_init e = find_init e'.
Proof. intros e e' Hn Hp. apply find_perm_unique; [|exact Hp]. now apply keys_unique_pred. Qed.

Theorem init_pos_new_perm : forall e e', Permutation e e' -> init_pos_new e = init_pos_new e'.
Proof.
  intros e e' Hp. unfold init_pos_new. apply fold_left_perm; [|exact Hp].
  intros a x y. destruct (e_var x), (e_var y); lia.
Qed.

(** what [HashMap::insert] does to any projection of the values *)
Lemma map_insert_in {B} (f : entry -> B) : forall x m v,
  In v (map f (map_insert x m)) -> v = f x \/ In v (map f m).
Proof.
  induction m as [|y t IH]; intros v H; cbn [map_insert] in H.
  - destruct H as [<-|[]]. now left.
  - destruct (key_eqb (e_key y) (e_key x)) eqn:E; cbn [map] in *.
    + destruct H as [<-|H]; [now left|right; now right].
    + destruct H as [<-|H]; [right; now left|]. apply IH in H. destruct H; [now left|right; now right].
Qed.

Lemma map_insert_nodup_f {B} (f : entry -> B) : forall x m,
  NoDup (map f m) -> ~ In (f x) (map f m) -> NoDup (map f (map_insert x m)).
Proof.
  induction m as [|y t IH]; intros Hn Hx; cbn [map_insert].
  - repeat constructor. intros [].
  - cbn [map] in Hn, Hx. apply NoDup_cons_iff in Hn. destruct Hn as [Hy Hn].
    destruct (key_eqb (e_key y) (e_key x)); cbn [map].
    + constructor; [|exact Hn]. intros H. apply Hx. now right.
    + constructor.
      * intros H. apply map_insert_in in H. destruct H as [H|H]; [|contradiction].
        apply Hx. left. exact H.
      * apply IH; [exact Hn|]. intros H. apply Hx. now right.
Qed.

Lemma map_insert_forall (P : entry -> Prop) : forall x m, P x -> Forall P m -> Forall P (map_insert x m).
Proof.
  induction m as [|y t IH]; intros Hx Hm; cbn [map_insert]; [now repeat constructor|].
  apply Forall_cons_iff in Hm. destruct Hm as [Hy Ht].
  destruct (key_eqb (e_key y) (e_key x)); constructor; auto.
Qed.

Lemma map_insert_nodup : forall x m, NoDup (map e_key m) -> NoDup (map e_key (map_insert x m)).
Proof.
  induction m as [|y t IH]; intros Hn; cbn [map_insert].
  - repeat constructor. intros [].
  - cbn [map] in Hn. apply NoDup_cons_iff in Hn. destruct Hn as [Hy Hn].
    destruct (key_eqb (e_key y) (e_key x)) eqn:E; cbn [map].
    + apply key_eqb_eq in E. rewrite <- E. now constructor.
    + constructor; [|now apply IH]. intros H. apply map_insert_in in H.
      destruct H as [H|H]; [|contradiction].
      rewrite H in E. rewrite (proj2 (key_eqb_eq _ _) eq_refl) in E. discriminate.
Qed.

Lemma entries_from_nodup : forall ms i acc, NoDup (map e_key acc) -> NoDup (map e_key (entries_from i ms acc)).
Proof. induction ms as [|m t IH]; intros i acc H; cbn [entries_from]; [exact H|]. apply IH. now apply map_insert_nodup. Qed.

Lemma entries_nodup_keys : forall ms, NoDup (map e_key (entries ms)).
Proof. intros ms. apply entries_from_nodup. constructor. Qed.

Lemma map_insert_perm_filter : forall x e, NoDup (map e_key e) ->
  Permutation (map_insert x e) (x :: filter (fun y => negb (key_eqb (e_key y) (e_key x))) e).
Proof.
  induction e as [|y t IH]; intros Hn; cbn [map_insert filter]; [reflexivity|].
  cbn [map] in Hn. apply NoDup_cons_iff in Hn. destruct Hn as [Hy Hn].
  destruct (key_eqb (e_key y) (e_key x)) eqn:E; cbn [negb].
  - rewrite filter_all; [reflexivity|]. intros z Hz. apply negb_true_iff.
    destruct (key_eqb (e_key z) (e_key x)) eqn:Ez; [|reflexivity].
    apply key_eqb_eq in E, Ez. exfalso. apply Hy. rewrite E, <- Ez. now apply in_map.
  - rewrite (IH Hn). apply perm_swap.
Qed.

Theorem add_init_perm : forall b e e',
  NoDup (map e_key e) -> Permutation e e' -> Permutation (add_init b e) (add_init b e').
Proof.
  intros b e e' Hn Hp. unfold add_init. destruct b; [|exact Hp].
  rewrite <- (find_init_perm e e' Hn Hp), <- (init_pos_new_perm e e' Hp).
  assert (Hn' : NoDup (map e_key e')).
  { eapply Permutation_NoDup; [|exact Hn]. now apply Permutation_map. }
  rewrite (map_insert_perm_filter _ e Hn), (map_insert_perm_filter _ e' Hn').
  constructor. now apply filter_perm.
Qed.

(** [Ord] on pairs of [usize] *)
Lemma pk_cmp_total : total_order pk_cmp.
Proof.
  split.
  - intros [a b] [c d]. unfold pk_cmp. cbn [fst snd].
    destruct (Nat.compare a c) eqn:E; try discriminate. intros H.
    apply Nat.compare_eq in E, H. congruence.
  - intros [a b] [c d]. unfold pk_cmp. cbn [fst snd].
    rewrite (Nat.compare_antisym a c). destruct (Nat.compare a c); cbn [CompOpp]; try reflexivity.
    apply Nat.compare_antisym.
  - intros [a b] [c d] [e f]. unfold pk_cmp. cbn [fst snd].
    destruct (Nat.compare a c) eqn:E1; try discriminate;
    destruct (Nat.compare c e) eqn:E2; try discriminate; intros H1 H2.
    + apply Nat.compare_eq in E1, E2. subst. rewrite Nat.compare_refl.
      apply Nat.compare_lt_iff in H1, H2. apply Nat.compare_lt_iff. lia.
    + apply Nat.compare_eq in E1. subst. now rewrite E2.
    + apply Nat.compare_eq in E2. subst. now rewrite E1.
    + apply Nat.compare_lt_iff in E1, E2.
      assert (E : Nat.compare a e = Lt) by (apply Nat.compare_lt_iff; lia). now rewrite E.
Qed.

Theorem class_body_perm : forall e e',
  NoDup (map e_pk e) -> Permutation e e' -> class_body e = class_body e'.
Proof.
  intros e e' Hn Hp. unfold class_body. f_equal.
  exact (isort_key_perm pk_cmp e_pk pk_cmp_total e e' Hn Hp).
Qed.

(** *** The recorded positions are pairwise distinct

    Every entry made from the statement at body index [i] carries [(i+2, 2)] or [(i, 0)], so the index can be
    read back from the pair ([idx_of]); different entries come from different indices; the constructor is the
    only entry of kind 1, unless it takes over the pair of the [__init__] it replaces. *)
Definition idx_of (pk : nat * nat) : nat := if Nat.eqb (snd pk) 2 then fst pk - 2 else fst pk.
Definition idxf (e : entry) : nat := idx_of (e_pk e).

Lemma stmt_entry_idx : forall i m, idxf (stmt_entry i m) = i.
Proof.
  intros i m. unfold idxf, idx_of, e_pk.
  destruct m as [id|op|k [|]|]; cbn [stmt_entry e_pos e_kind fst snd Nat.eqb]; try reflexivity; lia.
Qed.

Lemma stmt_entry_kind : forall i m, e_kind (stmt_entry i m) <> 1.
Proof. intros i m. destruct m as [id|op|k [|]|]; cbn [stmt_entry e_kind]; discriminate. Qed.

Lemma entries_from_inv : forall ms i acc,
  Forall (fun e => idxf e < i) acc -> NoDup (map idxf acc) -> Forall (fun e => e_kind e <> 1) acc ->
  NoDup (map idxf (entries_from i ms acc)) /\ Forall (fun e => e_kind e <> 1) (entries_from i ms acc).
Proof.
  induction ms as [|m t IH]; intros i acc Hlt Hn Hk; cbn [entries_from]; [now split|].
  apply IH.
  - apply map_insert_forall.
    + rewrite stmt_entry_idx. lia.
    + eapply Forall_impl; [|exact Hlt]. cbn beta. intros e He. lia.
  - apply map_insert_nodup_f; [exact Hn|].
    rewrite stmt_entry_idx. intros Hin. apply in_map_iff in Hin. destruct Hin as [e [Ee He]].
    rewrite Forall_forall in Hlt. specialize (Hlt e He). lia.
  - apply map_insert_forall; [apply stmt_entry_kind|exact Hk].
Qed.

Lemma entries_inv : forall ms,
  NoDup (map e_pk (entries ms)) /\ Forall (fun e => e_kind e <> 1) (entries ms).
Proof.
  intros ms.
  destruct (entries_from_inv ms 0 [] (Forall_nil _) (NoDup_nil _) (Forall_nil _)) as [Hn Hk].
  split; [|exact Hk].
  apply (NoDup_map_inv idx_of). rewrite map_map. exact Hn.
Qed.

Lemma map_insert_replace_pk : forall x o m,
  NoDup (map e_key m) -> In o m -> e_key o = e_key x -> e_pk x = e_pk o ->
  map e_pk (map_insert x m) = map e_pk m.
Proof.
  induction m as [|y t IH]; intros Hn Ho Hk Hp; [contradiction|]. cbn [map_insert].
  destruct (key_eqb (e_key y) (e_key x)) eqn:E; cbn [map].
  - apply key_eqb_eq in E.
    assert (y = o).
    { apply (NoDup_map_inj e_key (y :: t) y o Hn); [now left|exact Ho|congruence]. }
    subst y. now rewrite Hp.
  - f_equal. cbn [map] in Hn. apply NoDup_cons_iff in Hn. destruct Hn as [_ Hn].
    destruct Ho as [->|Ho].
    + rewrite Hk in E. rewrite (proj2 (key_eqb_eq _ _) eq_refl) in E. discriminate.
    + now apply IH.
Qed.

Lemma map_insert_append : forall x m,
  (forall y, In y m -> key_eqb (e_key y) (e_key x) = false) -> map_insert x m = m ++ [x].
Proof.
  induction m as [|y t IH]; intros H; cbn [map_insert app]; [reflexivity|].
  rewrite (H y (or_introl eq_refl)). f_equal. apply IH. intros z Hz. apply H. now right.
Qed.

Theorem positions_distinct : forall mk ms, NoDup (map e_pk (add_init mk (entries ms))).
Proof.
  intros mk ms. destruct (entries_inv ms) as [Hp Hkind]. assert (Hkeys := entries_nodup_keys ms).
  unfold add_init. destruct mk; [|exact Hp].
  destruct (find_init (entries ms)) as [o|] eqn:Ef.
  - apply find_some in Ef. destruct Ef as [Ho Ko]. apply key_eqb_eq in Ko.
    rewrite (map_insert_replace_pk _ o); try assumption.
    unfold e_pk at 1. cbn [e_pos e_kind]. now destruct (e_pk o).
  - rewrite map_insert_append.
    2:{ intros y Hy. exact (find_none _ _ Ef y Hy). }
    rewrite map_app. cbn [map]. eapply Permutation_NoDup; [apply Permutation_cons_append|].
    constructor; [|exact Hp].
    intros Hin. apply in_map_iff in Hin. destruct Hin as [e [Ee He]].
    rewrite Forall_forall in Hkind. apply (Hkind e He).
    unfold e_pk in Ee. cbn [e_pos e_kind fst snd] in Ee. congruence.
Qed.

(** The whole of [extract_class]'s ordering: [e1]/[e1'] are two iteration orders of the map before the
    constructor is inserted (used by [find] and [max]), [e2]/[e2'] two iteration orders of the final map
    (used by [values().sorted_by_key]).  The class body is the same - for every class body, no side condition. *)
Theorem class_body_deterministic : forall mk ms e1 e1' e2 e2',
  Permutation (entries ms) e1 -> Permutation (entries ms) e1' ->
  Permutation (add_init mk e1) e2 -> Permutation (add_init mk e1') e2' ->
  class_body e2 = class_body e2'.
Proof.
  intros mk ms e1 e1' e2 e2' H1 H1' H2 H2'.
  assert (Ht := positions_distinct mk ms).
  assert (Hk := entries_nodup_keys ms).
  assert (P2 : Permutation (add_init mk (entries ms)) e2).
  { etransitivity; [apply add_init_perm; [exact Hk|exact H1]|exact H2]. }
  assert (P2' : Permutation (add_init mk (entries ms)) e2').
  { etransitivity; [apply add_init_perm; [exact Hk|exact H1']|exact H2']. }
  apply class_body_perm.
  - eapply Permutation_NoDup; [|exact Ht]. now apply Permutation_map.
  - etransitivity; [apply Permutation_sym; exact P2|exact P2'].
Qed.

(** Historical (D15, fixed by /repo commit 88d54a3): with the OLD numbering, which compared the slot alone, the body
    [method, field, field, method, field] had the first method (slot 0+2) tie with the field at index 2, and two
    iteration orders of the same map gave two different class bodies.  This is a statement about
    [class_body_old], not about the current code. *)
Definition d15_members : list member :=
  [MFun "m1"; MVar "f1" true; MVar "f2" true; MFun "m2"; MVar "f3" true].

Theorem d15_old_numbering_refuted :
  exists ms e e',
    Permutation (add_init false (entries ms)) e /\ Permutation (add_init false (entries ms)) e' /\
    class_body_old e <> class_body_old e' /\ class_body e = class_body e'.
Proof.
  exists d15_members, (add_init false (entries d15_members)), (rev (add_init false (entries d15_members))).
  split; [reflexivity|]. split; [apply Permutation_rev|]. split; vm_compute; [discriminate|reflexivity].
Qed.

(* ------------------------------------------------------------------------------------------------ *)
(** ** (c) lookups *)

Theorem class_lookup_perm : forall n l l',
  NoDup (map g_name l) -> Permutation l l' -> class_lookup n l = class_lookup n l'.
Proof.
  intros n l l' Hn Hp. apply find_perm_unique; [|exact Hp].
  intros x y Hx Hy Px Py. apply String.eqb_eq in Px, Py.
  eapply NoDup_map_inj; try eassumption. congruence.
Qed.

Theorem fun_lookup_perm : forall n g l l',
  NoDup (map g_name l) -> Permutation l l' -> fun_lookup n g l = fun_lookup n g l'.
Proof.
  intros n g l l' Hn Hp. apply find_perm_unique; [|exact Hp].
  intros x y Hx Hy Px Py. apply andb_true_iff in Px, Py. destruct Px as [Px _], Py as [Py _].
  apply String.eqb_eq in Px, Py. eapply NoDup_map_inj; try eassumption. congruence.
Qed.

(** [class Foo] and [class Foo[T]] are different elements of [Context.classes] (identity = name and
    generics) but are looked up by the base name alone *)
Definition foo_plain : gdef := {| g_name := "Foo"; g_generics := []; g_sig := ""; g_id := 0 |}.
Definition foo_generic : gdef := {| g_name := "Foo"; g_generics := [[tn "T"]]; g_sig := ""; g_id := 1 |}.

Theorem class_lookup_refuted :
  exists defs n e e',
    Permutation (ctx_build defs) e /\ Permutation (ctx_build defs) e' /\
    class_lookup n e <> class_lookup n e'.
Proof.
  exists [foo_plain; foo_generic], "Foo", [foo_plain; foo_generic], [foo_generic; foo_plain].
  split; [vm_compute; reflexivity|]. split; [vm_compute; apply perm_swap|]. vm_compute. discriminate.
Qed.

(** two top-level [def helper] with different signatures: both in [Context.functions], found by name *)
Definition helper_int : gdef := {| g_name := "helper"; g_generics := []; g_sig := "(x: Int) -> Int"; g_id := 0 |}.
Definition helper_str : gdef := {| g_name := "helper"; g_generics := []; g_sig := "(x: Str) -> Str"; g_id := 1 |}.

Theorem fun_lookup_refuted :
  exists defs n e e',
    Permutation (ctx_build defs) e /\ Permutation (ctx_build defs) e' /\
    fun_lookup n [] e <> fun_lookup n [] e'.
Proof.
  exists [helper_int; helper_str], "helper", [helper_int; helper_str], [helper_str; helper_int].
  split; [vm_compute; reflexivity|]. split; [vm_compute; apply perm_swap|]. vm_compute. discriminate.
Qed.

(** ... while a second definition with the SAME identity is dropped on insertion (first wins), so the content of
    the context is a function of the definition order alone *)
Example ctx_build_first_wins :
  ctx_build [foo_plain; {| g_name := "Foo"; g_generics := []; g_sig := ""; g_id := 7 |}] = [foo_plain].
Proof. reflexivity. Qed.

Definition notin (self : list gdef) (f : gdef) : bool :=
  forallb (fun s => negb (String.eqb (g_name s) (g_name f))) self.

Lemma inherit_all_flat : forall ps self,
  NoDup (map g_name (List.concat ps)) ->
  inherit_all self ps = self ++ filter (notin self) (List.concat ps).
Proof.
  induction ps as [|p ps IH]; intros self Hn; cbn [inherit_all fold_left List.concat].
  - now rewrite app_nil_r.
  - change (fold_left inherit ps (inherit self p)) with (inherit_all (inherit self p) ps).
    cbn [List.concat] in Hn.
    rewrite IH.
    2:{ rewrite map_app in Hn. now apply NoDup_app_r in Hn. }
    unfold inherit. fold (notin self). rewrite filter_app, <- app_assoc. f_equal. f_equal.
    apply filter_ext_in. intros f Hf. unfold notin. rewrite forallb_app.
    fold (notin self f). rewrite <- (andb_true_r (notin self f)) at 2. f_equal.
    apply forallb_forall. intros s Hs. apply filter_In in Hs. destruct Hs as [Hs _].
    apply negb_true_iff. apply String.eqb_neq. eapply NoDup_map_app_disj; eassumption.
Qed.

(** several parents: if no member name is defined by two parents (nor twice in one), the member found after
    inheritance does not depend on the order in which [parents] is iterated *)
Theorem member_lookup_perm : forall n self ps ps',
  NoDup (map g_name (List.concat ps)) -> Permutation ps ps' ->
  member_lookup n self ps = member_lookup n self ps'.
Proof.
  intros n self ps ps' Hn Hp. unfold member_lookup.
  assert (Hc : Permutation (List.concat ps) (List.concat ps')) by now apply concat_perm.
  assert (Hn' : NoDup (map g_name (List.concat ps'))).
  { eapply Permutation_NoDup; [|exact Hn]. now apply Permutation_map. }
  rewrite (inherit_all_flat ps self Hn), (inherit_all_flat ps' self Hn').
  unfold class_lookup. rewrite !find_app_split.
  destruct (find (fun c => g_name c =? n) self); [reflexivity|].
  apply find_perm_unique; [|now apply filter_perm].
  intros x y Hx Hy Px Py. apply filter_In in Hx, Hy. destruct Hx as [Hx _], Hy as [Hy _].
  apply String.eqb_eq in Px, Py. apply (NoDup_map_inj g_name (List.concat ps) x y Hn Hx Hy). congruence.
Qed.

(** [class C: P1, P2] where both parents define [f] with different return types: the [f] that [C] inherits
    is the one of whichever parent the set yields first *)
Definition p1_f : gdef := {| g_name := "f"; g_generics := []; g_sig := "(self: P1) -> Int"; g_id := 1 |}.
Definition p2_f : gdef := {| g_name := "f"; g_generics := []; g_sig := "(self: P2) -> Str"; g_id := 2 |}.

Theorem member_lookup_refuted :
  exists n self ps ps', Permutation ps ps' /\ member_lookup n self ps <> member_lookup n self ps'.
Proof.
  exists "f", [], [[p1_f]; [p2_f]], [[p2_f]; [p1_f]]. split; [apply perm_swap|]. vm_compute. discriminate.
Qed.

(* ------------------------------------------------------------------------------------------------ *)
(** ** (d) first-element choices *)

Theorem is_temporary_perm : forall l l',
  (forall x y, In x l -> In y l -> is_temp x = is_temp y) ->
  Permutation l l' -> is_temporary l = is_temporary l'.
Proof.
  intros l l' H Hp. destruct l as [|x t], l' as [|y u]; cbn [is_temporary]; try reflexivity.
  - apply Permutation_nil in Hp. discriminate.
  - apply Permutation_sym, Permutation_nil in Hp. discriminate.
  - apply H; [now left|]. eapply Permutation_in; [apply Permutation_sym; exact Hp|now left].
Qed.

(** names made by [ConstrBuilder::temp_name] are singletons ([Name::from("@n")]), where the invariant is trivial *)
Corollary is_temporary_singleton : forall x l', Permutation [x] l' -> is_temporary [x] = is_temporary l'.
Proof.
  intros x l' Hp. apply is_temporary_perm; [|exact Hp].
  intros a b [<-|[]] [<-|[]]. reflexivity.
Qed.

Theorem is_temporary_refuted :
  exists l l', Permutation l l' /\ is_temporary l <> is_temporary l'.
Proof. exists [tn "@1"; tn "Int"], [tn "Int"; tn "@1"]. split; [apply perm_swap|]. vm_compute. discriminate. Qed.

Theorem callable_args_perm : forall l l',
  (forall x y, In x l -> In y l -> tn_generics x = tn_generics y) ->
  Permutation l l' -> callable_args l = callable_args l'.
Proof.
  intros l l' H Hp. destruct l as [|x t], l' as [|y u]; cbn [callable_args]; try reflexivity.
  - apply Permutation_nil in Hp. discriminate.
  - apply Permutation_sym, Permutation_nil in Hp. discriminate.
  - f_equal. apply H; [now left|]. eapply Permutation_in; [apply Permutation_sym; exact Hp|now left].
Qed.

Theorem callable_args_refuted :
  exists l l', Permutation l l' /\ callable_args l <> callable_args l'.
Proof.
  exists [tng "" [[tn "Int"]]; tng "" [[tn "Str"]]], [tng "" [[tn "Str"]]; tng "" [[tn "Int"]]].
  split; [apply perm_swap|]. vm_compute. discriminate.
Qed.

(* ------------------------------------------------------------------------------------------------ *)
(** ** (e) [Name::union], [trim_super]: the resulting SET does not depend on the orders *)

(** same set of type names (Rust's set equality: equal canonical forms, any order) *)
Definition seteq (l l' : list tname) : Prop := Permutation (map canon l) (map canon l').

Lemma perm_seteq : forall l l', Permutation l l' -> seteq l l'.
Proof. intros. now apply Permutation_map. Qed.

Lemma canon_name_of : forall x, tn_name (canon x) = tn_name x.
Proof. now intros []. Qed.
Lemma is_null_canon : forall x, is_null (canon x) = is_null x.
Proof. intros x. unfold is_null. now rewrite canon_name_of. Qed.
Lemma as_nullable_canon : forall x, canon (as_nullable x) = as_nullable (canon x).
Proof. now intros []. Qed.

Lemma set_add_in : forall x acc c,
  In c (map canon (set_add x acc)) <-> In c (map canon acc) \/ c = canon x.
Proof.
  intros x acc c. unfold set_add. destruct (existsb (tn_eqb x) acc) eqn:E.
  - split; [now left|]. intros [H| ->]; [exact H|].
    apply existsb_exists in E. destruct E as [y [Hy Exy]]. apply tn_eqb_spec in Exy.
    rewrite Exy. now apply in_map.
  - rewrite map_app, in_app_iff. cbn [map In]. intuition.
Qed.

Lemma set_add_nodup : forall x acc, NoDup (map canon acc) -> NoDup (map canon (set_add x acc)).
Proof.
  intros x acc H. unfold set_add. destruct (existsb (tn_eqb x) acc) eqn:E; [exact H|].
  rewrite map_app. cbn [map]. eapply Permutation_NoDup; [apply Permutation_cons_append|].
  constructor; [|exact H]. intros Hin. apply in_map_iff in Hin. destruct Hin as [y [Ey Hy]].
  assert (existsb (tn_eqb x) acc = true); [|congruence].
  apply existsb_exists. exists y. split; [exact Hy|]. apply tn_eqb_spec. now symmetry.
Qed.

Lemma set_fold_in : forall l acc c,
  In c (map canon (fold_left (fun acc x => set_add x acc) l acc)) <-> In c (map canon acc) \/ In c (map canon l).
Proof.
  induction l as [|x t IH]; intros acc c; cbn [fold_left map In]; [tauto|].
  rewrite IH, set_add_in. intuition.
Qed.

Lemma set_fold_nodup : forall l acc,
  NoDup (map canon acc) -> NoDup (map canon (fold_left (fun acc x => set_add x acc) l acc)).
Proof. induction l as [|x t IH]; intros acc H; cbn [fold_left]; [exact H|]. apply IH. now apply set_add_nodup. Qed.

Lemma set_of_seteq : forall l l',
  (forall c, In c (map canon l) <-> In c (map canon l')) -> seteq (set_of l) (set_of l').
Proof.
  intros l l' H. unfold seteq, set_of. apply NoDup_Permutation.
  - apply set_fold_nodup. constructor.
  - apply set_fold_nodup. constructor.
  - intros c. rewrite !set_fold_in. cbn [map In]. rewrite H. tauto.
Qed.

Lemma seteq_in : forall l l', seteq l l' -> forall c, In c (map canon l) <-> In c (map canon l').
Proof.
  intros l l' H c. split; intros Hc; eapply Permutation_in; try exact Hc; [exact H|apply Permutation_sym; exact H].
Qed.

Lemma map_canon_filter_null : forall l,
  map canon (filter (fun n => negb (is_null n)) l) = filter (fun n => negb (is_null n)) (map canon l).
Proof.
  induction l as [|x t IH]; cbn [filter map]; [reflexivity|].
  rewrite is_null_canon. destruct (is_null x); cbn [negb map]; now rewrite IH.
Qed.

Lemma map_canon_nullable : forall l, map canon (map as_nullable l) = map as_nullable (map canon l).
Proof. intros l. rewrite !map_map. apply map_ext. apply as_nullable_canon. Qed.

Lemma existsb_is_null_canon : forall l, existsb is_null (map canon l) = existsb is_null l.
Proof. induction l as [|x t IH]; cbn [existsb map]; [reflexivity|]. now rewrite is_null_canon, IH. Qed.

Theorem name_union_seteq : forall a a' b b',
  seteq a a' -> seteq b b' -> seteq (name_union a b) (name_union a' b').
Proof.
  intros a a' b b' Ha Hb. unfold name_union.
  assert (Hs : seteq (set_of (a ++ b)) (set_of (a' ++ b'))).
  { apply set_of_seteq. intros c. rewrite !map_app, !in_app_iff.
    rewrite (seteq_in _ _ Ha c), (seteq_in _ _ Hb c). tauto. }
  set (s := set_of (a ++ b)) in *. set (s' := set_of (a' ++ b')) in *.
  assert (E1 : existsb is_null s = existsb is_null s').
  { rewrite <- (existsb_is_null_canon s), <- (existsb_is_null_canon s'). now apply existsb_perm. }
  assert (E2 : List.length s = List.length s').
  { rewrite <- (map_length canon s), <- (map_length canon s'). now apply Permutation_length. }
  rewrite E1, E2. destruct (existsb is_null s' && Nat.ltb 1 (List.length s')); [|exact Hs].
  apply set_of_seteq. intros c.
  rewrite !map_canon_nullable, !map_canon_filter_null.
  split; intros H; eapply Permutation_in; try exact H; apply Permutation_map, filter_perm;
    [exact Hs|apply Permutation_sym; exact Hs].
Qed.

Corollary name_union_perm : forall a a' b b',
  Permutation a a' -> Permutation b b' -> seteq (name_union a b) (name_union a' b').
Proof. intros. apply name_union_seteq; now apply perm_seteq. Qed.

Theorem trim_super_perm : forall sup l l',
  Permutation l l' -> Permutation (trim_super sup l) (trim_super sup l').
Proof.
  intros sup l l' Hp. unfold trim_super. rewrite (Permutation_length Hp).
  destruct (Nat.ltb 1 (List.length l')); [|exact Hp].
  etransitivity; [apply filter_perm; exact Hp|].
  erewrite filter_ext; [reflexivity|]. intros n. now apply existsb_perm.
Qed.
