(** * Round trip: Python parses printed expressions back to the tree they denote

    Main result [roundtrip_canon]: for every well-formed [Core] expression [e]
    (no bound on size or depth) and all sufficiently large fuel, the model of
    Python's grammar parses the tokens printed for [e] back to exactly
    [as_py e].  [roundtrip] transfers this to any table equal to the reference
    table, which is how the table regenerated from the Rust source is covered. *)
From Coq Require Import List String Arith Bool Lia.
From MambaModel Require Import model.PyExpr model.CoreExpr.
Import ListNotations.

Local Notation pt := (ptoks canon).
Local Notation op := (operand canon).
Local Notation pts := (ptoks_list canon).

(** ** "For all sufficiently large fuel" *)

Definition ev (P : nat -> Prop) : Prop := exists n, forall f, n <= f -> P f.

Lemma ev_and P Q : ev P -> ev Q -> ev (fun f => P f /\ Q f).
Proof.
  intros [n Hn] [m Hm]. exists (n + m). intros f Hf. split; [apply Hn | apply Hm]; lia.
Qed.

Lemma ev_impl (P Q : nat -> Prop) : (forall f, P f -> Q f) -> ev P -> ev Q.
Proof. intros H [n Hn]. exists n. intros f Hf. apply H, Hn, Hf. Qed.

Lemma ev_S (P Q : nat -> Prop) : (forall f, P f -> Q (S f)) -> ev P -> ev Q.
Proof.
  intros H [n Hn]. exists (S n). intros f Hf. destruct f as [|f]; [lia|]. apply H, Hn. lia.
Qed.

Lemma ev_shift (P : nat -> Prop) d : ev P -> ev (fun f => d <= f /\ P (f - d)).
Proof.
  intros [n Hn]. exists (n + d). intros f Hf. split; [lia|]. apply Hn. lia.
Qed.

Lemma ev_true (P : nat -> Prop) : (forall f, P f) -> ev P.
Proof. intros H. exists 0. intros f _. apply H. Qed.

(** ** Token classes *)

Definition atom_start (t : tok) : bool :=
  match t with
  | TName _ | TNum _ | TStr _ | TTrue | TFalse | TNone | TLPar | TLBr | TLCb => true
  | _ => false
  end.

Definition starts_atom (ts : list tok) : Prop :=
  match ts with t :: _ => atom_start t = true | [] => False end.

Definition is_closer (t : tok) : bool :=
  match t with TRPar | TRBr | TRCb => true | _ => false end.

Definition stopb (ts : list tok) : bool :=
  match ts with
  | [] => true
  | t :: _ => match t with
              | TRPar | TRBr | TRCb | TComma | TColon | TElse => true
              | _ => false
              end
  end.

Definition nontrail (ts : list tok) : Prop :=
  match ts with TLPar :: _ | TLBr :: _ | TDot :: _ => False | _ => True end.

Definition lowp (ts : list tok) (min : nat) : Prop :=
  match classify ts with
  | KStop => True
  | KIf _ => 0 < min
  | KBool _ p => p < min
  | KCmp => 4 < min
  | KPow _ => 12 < min
  | KBin _ p _ => p < min
  end.

Lemma stop_nontrail ts : stopb ts = true -> nontrail ts.
Proof. destruct ts as [|t r]; [easy|]. destruct t; cbn; easy. Qed.

Lemma stop_lowp ts min : stopb ts = true -> lowp ts min.
Proof. destruct ts as [|t r]; [easy|]. destruct t; cbn; easy. Qed.

Lemma stop_cmp ts : stopb ts = true -> cmp_of ts = None.
Proof. destruct ts as [|t r]; [easy|]. destruct t; cbn; easy. Qed.

Lemma stop_not_tok ts tk :
  stopb ts = true -> (tk = TAnd \/ tk = TOr) ->
  match ts with t :: _ => is_tok t tk = false | [] => True end.
Proof. destruct ts as [|t r]; [easy|]. intros H [-> | ->]; destruct t; cbn in *; easy. Qed.

(** ** One-step unfoldings of the parser *)

Lemma pexp_atom f min ts :
  starts_atom ts ->
  pexp (S f) min ts =
  match pprim f ts with Some (e, r1) => ploop f min e r1 | None => None end.
Proof. destruct ts as [|t r]; [easy|]. destruct t; cbn; easy. Qed.

Lemma ptrail_stop f x ts : nontrail ts -> ptrail (S f) x ts = Some (x, ts).
Proof. destruct ts as [|t r]; [easy|]. destruct t; cbn; easy. Qed.

Lemma ploop_stop f min x ts : lowp ts min -> ploop (S f) min x ts = Some (x, ts).
Proof.
  unfold lowp. cbn [ploop]. destruct (classify ts) as [r|o p| |r|o p r|]; intros H; try reflexivity.
  - destruct min; [lia|]. reflexivity.
  - replace (min <=? p) with false; [reflexivity|]. symmetry. apply Nat.leb_gt. exact H.
  - replace (min <=? 4) with false; [reflexivity|]. symmetry. apply Nat.leb_gt. exact H.
  - replace (min <=? 12) with false; [reflexivity|]. symmetry. apply Nat.leb_gt. exact H.
  - replace (min <=? p) with false; [reflexivity|]. symmetry. apply Nat.leb_gt. exact H.
Qed.

Definition head_not_closer (ts : list tok) : Prop :=
  match ts with t :: _ => is_closer t = false | [] => False end.

Lemma starts_atom_not_closer ts : starts_atom ts -> head_not_closer ts.
Proof. destruct ts as [|t r]; [easy|]. destruct t; cbn; easy. Qed.

Lemma pprim_lpar f ts :
  head_not_closer ts ->
  pprim (S f) (TLPar :: ts) =
  match pexp f 0 ts with
  | Some (e, TRPar :: r2) => ptrail f e r2
  | Some (e, TComma :: r2) =>
      match pitems f TRPar r2 with
      | Some (es, r3) => ptrail f (PTuple (e :: es)) r3
      | None => None
      end
  | _ => None
  end.
Proof. destruct ts as [|t r]; [easy|]. destruct t; cbn; easy. Qed.

Lemma pitems_step f c ts :
  head_not_closer ts -> is_closer c = true ->
  pitems (S f) c ts =
  match pexp f 0 ts with
  | Some (e, TComma :: r2) =>
      match pitems f c r2 with
      | Some (es, r3) => Some (e :: es, r3)
      | None => None
      end
  | Some (e, t' :: r2) => if is_tok t' c then Some ([e], r2) else None
  | _ => None
  end.
Proof.
  destruct ts as [|t r]; [easy|]. intros Ht Hc. cbn [pitems].
  replace (is_tok t c) with false; [reflexivity|].
  destruct t; destruct c; cbn in *; easy.
Qed.

Lemma pitems_close f c rest :
  is_closer c = true -> pitems (S f) c (c :: rest) = Some ([], rest).
Proof. destruct c; cbn; easy. Qed.

Lemma plam_names ns r : plam_args (name_toks ns ++ TColon :: r) = Some (ns, r).
Proof.
  induction ns as [|n ns IH]; [reflexivity|].
  destruct ns as [|n2 ns]; [reflexivity|].
  change (name_toks (n :: n2 :: ns)) with (TName n :: TComma :: name_toks (n2 :: ns)).
  cbn [app plam_args]. rewrite IH. reflexivity.
Qed.

(** ** Shape of printed token lists *)

Lemma wrap_true ts : wrap true true ts = TLPar :: ts ++ [TRPar].
Proof. reflexivity. Qed.

Lemma op_compound e :
  canon_compound (kind_of e) = true -> op e = TLPar :: pt e ++ [TRPar].
Proof. unfold operand. cbn [compound canon]. intros ->. reflexivity. Qed.

Lemma op_simple e : canon_compound (kind_of e) = false -> op e = pt e.
Proof. unfold operand. cbn [compound canon]. intros ->. reflexivity. Qed.

(** Unfolding of [ptoks canon] per constructor. *)
Lemma pt_bin o l r : pt (CBin o l r) = op l ++ bin_toks o ++ op r.
Proof. destruct o; cbn; rewrite app_nil_r; reflexivity. Qed.
Lemma pt_un o x : pt (CUn o x) = un_tok o :: op x.
Proof. cbn. rewrite app_nil_r. reflexivity. Qed.
Lemma pt_isa l r :
  pt (CIsA l r) = TName "isinstance" :: TLPar :: pts (CCons l (CCons r CNil)) ++ [TRPar].
Proof. cbn. rewrite <- app_assoc. reflexivity. Qed.
Lemma pt_sqrt x :
  pt (CSqrt x) = TName "math" :: TDot :: TName "sqrt" :: TLPar :: pts (CCons x CNil) ++ [TRPar].
Proof. reflexivity. Qed.
Lemma pt_ternary c t x : pt (CTernary c t x) = op t ++ TIf :: op c ++ TElse :: op x.
Proof. cbn. rewrite app_nil_r. reflexivity. Qed.
Lemma pt_lambda ns b : pt (CLambda ns b) = TLambda :: name_toks ns ++ TColon :: pt b.
Proof. cbn. rewrite app_nil_r. reflexivity. Qed.
Lemma pt_call g args : pt (CCall g args) = op g ++ TLPar :: pts args ++ [TRPar].
Proof. reflexivity. Qed.
Lemma pt_index i r : pt (CIndex i r) = op i ++ TLBr :: pt r ++ [TRBr].
Proof. reflexivity. Qed.
Lemma pt_prop o p : pt (CProp o p) = op o ++ TDot :: pt p.
Proof. cbn. rewrite app_nil_r. reflexivity. Qed.
Lemma pt_tuple es : pt (CTuple es) = TLPar :: pts es ++ [TRPar].
Proof. reflexivity. Qed.
Lemma pt_list es : pt (CList es) = TLBr :: pts es ++ [TRBr].
Proof. reflexivity. Qed.
Lemma pt_set es : pt (CSet es) = TLCb :: pts es ++ [TRCb].
Proof. reflexivity. Qed.
Lemma pts_cons2 e e2 es : pts (CCons e (CCons e2 es)) = pt e ++ TComma :: pts (CCons e2 es).
Proof. reflexivity. Qed.
Lemma pts_one e : pts (CCons e CNil) = pt e.
Proof. reflexivity. Qed.

Lemma starts_atom_app ts rest : starts_atom ts -> starts_atom (ts ++ rest).
Proof. destruct ts; easy. Qed.

Lemma op_starts_atom e : starts_atom (op e).
Proof.
  induction e using cexpr_mut with (P0 := fun _ => True); try exact I;
    first
      [ rewrite op_compound by reflexivity; reflexivity
      | rewrite op_simple by reflexivity;
        first
          [ reflexivity
          | destruct b; reflexivity
          | rewrite pt_call; apply starts_atom_app; assumption
          | rewrite pt_index; apply starts_atom_app; assumption
          | rewrite pt_prop; apply starts_atom_app; assumption ] ].
Qed.

Lemma pt_starts e : head_not_closer (pt e).
Proof.
  destruct (canon_compound (kind_of e)) eqn:Hc.
  - destruct e; try discriminate Hc.
    + rewrite pt_bin. apply starts_atom_not_closer, starts_atom_app, op_starts_atom.
    + rewrite pt_un. destruct o; reflexivity.
    + rewrite pt_ternary. apply starts_atom_not_closer, starts_atom_app, op_starts_atom.
    + rewrite pt_lambda. reflexivity.
  - rewrite <- (op_simple e Hc). apply starts_atom_not_closer, op_starts_atom.
Qed.

Lemma head_not_closer_app ts rest : head_not_closer ts -> head_not_closer (ts ++ rest).
Proof. destruct ts; easy. Qed.

(** ** The statements proved by mutual induction *)

(** primary position, with the trailers that follow still to be parsed *)
Definition T (e : cexpr) : Prop :=
  exists d, ev (fun f => forall rest,
    pprim (d + f) (op e ++ rest) = ptrail f (as_py e) rest).
(** complete expression, followed by a token that cannot continue it *)
Definition M (e : cexpr) : Prop :=
  ev (fun f => forall rest, stopb rest = true ->
    pexp f 0 (pt e ++ rest) = Some (as_py e, rest)).
(** operand position at any level *)
Definition O (e : cexpr) : Prop :=
  ev (fun f => forall min rest, nontrail rest -> lowp rest min ->
    pexp f min (op e ++ rest) = Some (as_py e, rest)).
(** property position: trailers hanging off [x] *)
Definition A (p : cexpr) : Prop :=
  exists d, ev (fun f => forall x rest,
    ptrail (d + f) x (TDot :: pt p ++ rest) = ptrail f (attach x p) rest).
(** comma separated items up to a closing bracket *)
Definition Items (es : cexprs) : Prop :=
  ev (fun f => forall c rest, is_closer c = true ->
    pitems f c (pts es ++ c :: rest) = Some (as_pys es, rest)).

Lemma T_closed e : T e ->
  ev (fun f => forall rest, nontrail rest -> pprim f (op e ++ rest) = Some (as_py e, rest)).
Proof.
  intros [d [n H]]. exists (d + n + 1). intros f Hf rest Hr.
  replace f with (d + (f - d)) by lia. rewrite H by lia.
  destruct (f - d) as [|g] eqn:Hg; [lia|]. apply ptrail_stop, Hr.
Qed.

Lemma O_of_T e : T e -> O e.
Proof.
  intros HT. apply T_closed in HT. revert HT. apply ev_S.
  intros f H min rest Hr Hl.
  rewrite pexp_atom by (apply starts_atom_app, op_starts_atom).
  rewrite H by exact Hr.
  destruct f as [|f].
  - specialize (H rest Hr). cbn in H. discriminate H.
  - apply ploop_stop, Hl.
Qed.

Lemma M_of_O_simple e : canon_compound (kind_of e) = false -> O e -> M e.
Proof.
  intros Hc. apply ev_impl. intros f H rest Hs.
  rewrite <- (op_simple e Hc). apply H; [apply stop_nontrail | apply stop_lowp]; exact Hs.
Qed.

Lemma T_compound e : canon_compound (kind_of e) = true -> M e -> T e.
Proof.
  intros Hc HM. exists 1. revert HM. apply ev_impl. intros f H rest.
  rewrite (op_compound e Hc). cbn [app]. rewrite <- app_assoc. cbn [app].
  change (1 + f) with (S f).
  rewrite pprim_lpar by (apply head_not_closer_app, pt_starts).
  rewrite H by reflexivity. reflexivity.
Qed.

Lemma I_nil : Items CNil.
Proof.
  exists 1. intros f Hf c rest Hc. destruct f as [|f]; [lia|]. apply pitems_close, Hc.
Qed.

Lemma I_cons e es : M e -> Items es -> Items (CCons e es).
Proof.
  intros HM HI. pose proof (ev_and _ _ HM HI) as H. revert H. apply ev_S.
  intros f [He Hes] c rest Hc.
  destruct es as [|e2 es].
  - rewrite pts_one.
    rewrite pitems_step by (try apply head_not_closer_app, pt_starts; exact Hc).
    rewrite He by (destruct c; easy).
    destruct c; try discriminate Hc; reflexivity.
  - rewrite pts_cons2. rewrite <- app_assoc. cbn [app].
    rewrite pitems_step by (try apply head_not_closer_app, pt_starts; exact Hc).
    rewrite He by reflexivity.
    rewrite Hes by exact Hc. reflexivity.
Qed.

(** Items directly after an opening parenthesis of a call. *)
Lemma call_trail g' es : Items es ->
  ev (fun f => forall rest,
    ptrail (S f) g' (TLPar :: pts es ++ TRPar :: rest) = ptrail f (PCall g' (as_pys es)) rest).
Proof.
  apply ev_impl. intros f H rest. cbn [ptrail]. rewrite H by reflexivity. reflexivity.
Qed.

(** ** Compound constructors *)

Lemma stop_after (P : Prop) : P -> P. Proof. easy. Qed.

Ltac fuel f := destruct f as [|f]; [exfalso; lia|].

Lemma M_un o x : O x -> M (CUn o x).
Proof.
  intros [n H]. exists (n + 3). intros f Hf rest Hs.
  rewrite pt_un. cbn [app]. fuel f.
  assert (Hx : forall min, pexp f min (op x ++ rest) = Some (as_py x, rest)).
  { intros min. apply H; [lia | apply stop_nontrail, Hs | apply stop_lowp, Hs]. }
  assert (Hl : forall y, ploop f 0 y rest = Some (y, rest)).
  { intros y. fuel f. apply ploop_stop, stop_lowp, Hs. }
  destruct o; cbn [un_tok pexp Nat.leb]; rewrite Hx, Hl; reflexivity.
Qed.

Lemma M_lambda ns b : M b -> M (CLambda ns b).
Proof.
  apply ev_S. intros f H rest Hs.
  rewrite pt_lambda. cbn [app]. rewrite <- app_assoc. cbn [app pexp Nat.eqb].
  rewrite plam_names. rewrite H by exact Hs. reflexivity.
Qed.

Lemma M_ternary c t x : T t -> O c -> O x -> M (CTernary c t x).
Proof.
  intros Ht Hc Hx. apply T_closed in Ht.
  destruct Ht as [nt Ht], Hc as [nc Hc], Hx as [nx Hx].
  exists (nt + nc + nx + 3). intros f Hf rest Hs.
  rewrite pt_ternary. rewrite <- app_assoc. cbn [app]. rewrite <- app_assoc. cbn [app].
  fuel f. rewrite pexp_atom by (apply starts_atom_app, op_starts_atom).
  rewrite Ht by (try lia; exact I).
  fuel f. cbn [ploop classify Nat.eqb].
  rewrite Hc; [| lia | exact I | cbn; lia].
  rewrite Hx; [| lia | apply stop_nontrail, Hs | apply stop_lowp, Hs].
  reflexivity.
Qed.

(** left-associative binary operators, [**], boolean operators, comparisons *)
Lemma cmp_of_atom c t ts :
  starts_atom ts ->
  (t = TIs /\ c = CIs) \/ (t = TIn /\ c = CIn) ->
  cmp_of (t :: ts) = Some (c, ts).
Proof.
  destruct ts as [|t' r]; [easy|]. intros Ha [[-> ->] | [-> ->]]; destruct t'; cbn in *; easy.
Qed.

Lemma M_bin o l r : T l -> O r -> M (CBin o l r).
Proof.
  intros Hl Hr. apply T_closed in Hl.
  destruct Hl as [nl Hl], Hr as [nr Hr].
  exists (nl + nr + 6). intros f Hf rest Hs.
  rewrite pt_bin. rewrite <- !app_assoc.
  fuel f. rewrite pexp_atom by (apply starts_atom_app, op_starts_atom).
  assert (Hr' : forall g min, nr <= g -> pexp g min (op r ++ rest) = Some (as_py r, rest)).
  { intros g min Hg. apply Hr; [exact Hg | apply stop_nontrail, Hs | apply stop_lowp, Hs]. }
  assert (Hstop : forall g y, 1 <= g -> ploop g 0 y rest = Some (y, rest)).
  { intros g y Hg. destruct g; [lia|]. apply ploop_stop, stop_lowp, Hs. }
  assert (Hatom : starts_atom (op r ++ rest)) by apply starts_atom_app, op_starts_atom.
  destruct o; cbn [bin_toks app];
    (rewrite Hl by (try lia; exact I)); fuel f; cbn [as_py bin_class];
    try (* left-associative arithmetic, bitwise, shifts *)
      (cbn [ploop classify cmp_of bin_of Nat.leb];
       rewrite Hr' by lia; rewrite Hstop by lia; reflexivity).
  - (* BAnd *)
    cbn [ploop classify Nat.leb bool_tok]. fuel f. cbn [pbools is_tok].
    rewrite Hr' by lia. fuel f. cbn [pbools].
    pose proof (stop_not_tok rest TAnd Hs (or_introl eq_refl)) as Hn.
    destruct rest as [|t0 rest0]; [| rewrite Hn]; cbn [rev app]; rewrite Hstop by lia; reflexivity.
  - (* BOr *)
    cbn [ploop classify Nat.leb bool_tok]. fuel f. cbn [pbools is_tok].
    rewrite Hr' by lia. fuel f. cbn [pbools].
    pose proof (stop_not_tok rest TOr Hs (or_intror eq_refl)) as Hn.
    destruct rest as [|t0 rest0]; [| rewrite Hn]; cbn [rev app]; rewrite Hstop by lia; reflexivity.
  - (* BGe *) cbn [ploop classify cmp_of Nat.leb]. fuel f. cbn [pcmps cmp_of].
    rewrite Hr' by lia. fuel f. cbn [pcmps]. rewrite (stop_cmp rest Hs). cbn [rev app].
    rewrite Hstop by lia. reflexivity.
  - cbn [ploop classify cmp_of Nat.leb]. fuel f. cbn [pcmps cmp_of].
    rewrite Hr' by lia. fuel f. cbn [pcmps]. rewrite (stop_cmp rest Hs). cbn [rev app].
    rewrite Hstop by lia. reflexivity.
  - cbn [ploop classify cmp_of Nat.leb]. fuel f. cbn [pcmps cmp_of].
    rewrite Hr' by lia. fuel f. cbn [pcmps]. rewrite (stop_cmp rest Hs). cbn [rev app].
    rewrite Hstop by lia. reflexivity.
  - cbn [ploop classify cmp_of Nat.leb]. fuel f. cbn [pcmps cmp_of].
    rewrite Hr' by lia. fuel f. cbn [pcmps]. rewrite (stop_cmp rest Hs). cbn [rev app].
    rewrite Hstop by lia. reflexivity.
  - cbn [ploop classify cmp_of Nat.leb]. fuel f. cbn [pcmps cmp_of].
    rewrite Hr' by lia. fuel f. cbn [pcmps]. rewrite (stop_cmp rest Hs). cbn [rev app].
    rewrite Hstop by lia. reflexivity.
  - cbn [ploop classify cmp_of Nat.leb]. fuel f. cbn [pcmps cmp_of].
    rewrite Hr' by lia. fuel f. cbn [pcmps]. rewrite (stop_cmp rest Hs). cbn [rev app].
    rewrite Hstop by lia. reflexivity.
  - (* BIs *)
    cbn [ploop classify].
    rewrite (cmp_of_atom CIs TIs _ Hatom) by (left; easy). cbn [Nat.leb]. fuel f. cbn [pcmps].
    rewrite (cmp_of_atom CIs TIs _ Hatom) by (left; easy).
    rewrite Hr' by lia. fuel f. cbn [pcmps]. rewrite (stop_cmp rest Hs). cbn [rev app].
    rewrite Hstop by lia. reflexivity.
  - (* BIsN *)
    cbn [ploop classify cmp_of Nat.leb]. fuel f. cbn [pcmps cmp_of].
    rewrite Hr' by lia. fuel f. cbn [pcmps]. rewrite (stop_cmp rest Hs). cbn [rev app].
    rewrite Hstop by lia. reflexivity.
  - (* BIn *)
    cbn [ploop classify].
    rewrite (cmp_of_atom CIn TIn _ Hatom) by (right; easy). cbn [Nat.leb]. fuel f. cbn [pcmps].
    rewrite (cmp_of_atom CIn TIn _ Hatom) by (right; easy).
    rewrite Hr' by lia. fuel f. cbn [pcmps]. rewrite (stop_cmp rest Hs). cbn [rev app].
    rewrite Hstop by lia. reflexivity.
Qed.

(** ** Primary forms *)

Lemma T_atom e :
  match e with CId _ | CInt _ | CFloat _ | CStr _ | CBool _ | CNone => True | _ => False end ->
  T e.
Proof.
  intros He. exists 1. apply ev_true. intros f rest.
  destruct e; try contradiction; try reflexivity. destruct b; reflexivity.
Qed.

Lemma T_enum n x : T (CENum n x).
Proof.
  exists 1. exists 12. intros f Hf rest.
  rewrite op_simple by reflexivity.
  change (pt (CENum n x))
    with (TLPar :: [TNum n; TStar; TNum "10"%string; TDStar; TNum x; TRPar]).
  cbn [app]. change (1 + f) with (S f).
  rewrite pprim_lpar by reflexivity.
  assert (Hin : pexp f 0 (TNum n :: TStar :: TNum "10"%string :: TDStar :: TNum x :: TRPar :: rest)
                = Some (PBin PMul (PNum n) (PBin PPow (PNum "10"%string) (PNum x)), TRPar :: rest)).
  { assert (Hs : forall g min y, 1 <= g -> ploop g min y (TRPar :: rest) = Some (y, TRPar :: rest)).
    { intros g min y Hg. destruct g; [lia|]. apply ploop_stop. exact I. }
    assert (Hp : forall g s ts, 2 <= g -> nontrail ts -> pprim g (TNum s :: ts) = Some (PNum s, ts)).
    { intros g s ts Hg Hn. destruct g as [|[|g]]; try lia. cbn [pprim]. apply ptrail_stop, Hn. }
    fuel f. rewrite pexp_atom by reflexivity. rewrite Hp by (try lia; exact I).
    fuel f. cbn [ploop classify cmp_of bin_of Nat.leb].
    fuel f. rewrite pexp_atom by reflexivity. rewrite Hp by (try lia; exact I).
    fuel f. cbn [ploop classify Nat.leb].
    fuel f. rewrite pexp_atom by reflexivity. rewrite Hp by (try lia; exact I).
    rewrite !Hs by lia. reflexivity. }
  rewrite Hin. reflexivity.
Qed.

Lemma T_isa l r : M l -> M r -> T (CIsA l r).
Proof.
  intros Hl Hr. pose proof (call_trail (PName "isinstance") _ (I_cons _ _ Hl (I_cons _ _ Hr I_nil))) as H.
  exists 2. revert H. apply ev_impl. intros f H rest.
  rewrite op_simple by reflexivity. rewrite pt_isa. cbn [app]. rewrite <- app_assoc. cbn [app].
  change (2 + f) with (S (S f)). cbn [pprim]. rewrite H. reflexivity.
Qed.

Lemma T_sqrt x : M x -> T (CSqrt x).
Proof.
  intros Hx.
  pose proof (call_trail (PAttr (PName "math") "sqrt") _ (I_cons _ _ Hx I_nil)) as H.
  exists 3. revert H. apply ev_impl. intros f H rest.
  rewrite op_simple by reflexivity. rewrite pt_sqrt. cbn [app]. rewrite <- app_assoc. cbn [app].
  change (3 + f) with (S (S (S f))). cbn [pprim].
  change (ptrail (S (S f)) (PName "math") (TDot :: TName "sqrt" :: ?r))
    with (ptrail (S f) (PAttr (PName "math") "sqrt") r).
  rewrite H. reflexivity.
Qed.

Lemma T_call g args : T g -> Items args -> T (CCall g args).
Proof.
  intros [d Hg] Ha. pose proof (fun g' => call_trail g' _ Ha) as Hc.
  exists (S d).
  assert (H : ev (fun f => (forall rest, pprim (d + S f) (op g ++ rest) = ptrail (S f) (as_py g) rest)
                          /\ forall g' rest, ptrail (S f) g' (TLPar :: pts args ++ TRPar :: rest)
                                        = ptrail f (PCall g' (as_pys args)) rest)).
  { destruct Hg as [n Hg], Ha as [m Ha]. exists (n + m). intros f Hf. split.
    - intros rest. apply Hg. lia.
    - intros g' rest. cbn [ptrail]. rewrite Ha by (try lia; reflexivity). reflexivity. }
  revert H. apply ev_impl. intros f [H1 H2] rest.
  rewrite op_simple by reflexivity. rewrite pt_call. rewrite <- app_assoc. cbn [app].
  rewrite <- app_assoc. cbn [app].
  replace (S d + f) with (d + S f) by lia. rewrite H1, H2. reflexivity.
Qed.

Lemma T_index i r : T i -> M r -> T (CIndex i r).
Proof.
  intros [d [n Hi]] [m Hr]. exists (S d). exists (n + m). intros f Hf rest.
  rewrite op_simple by reflexivity. rewrite pt_index. rewrite <- app_assoc. cbn [app].
  rewrite <- app_assoc. cbn [app].
  replace (S d + f) with (d + S f) by lia. rewrite Hi by lia. cbn [ptrail].
  rewrite Hr by (try lia; reflexivity). reflexivity.
Qed.

Lemma T_prop o p : T o -> A p -> T (CProp o p).
Proof.
  intros [d [n Ho]] [d' [m Hp]]. exists (d + d'). exists (n + m). intros f Hf rest.
  rewrite op_simple by reflexivity. rewrite pt_prop. rewrite <- app_assoc. cbn [app].
  replace (d + d' + f) with (d + (d' + f)) by lia. rewrite Ho by lia.
  rewrite Hp by lia. reflexivity.
Qed.

Lemma T_tuple_nil : T (CTuple CNil).
Proof. exists 1. apply ev_true. intros f rest. reflexivity. Qed.

Lemma T_tuple e e2 es : M e -> Items (CCons e2 es) -> T (CTuple (CCons e (CCons e2 es))).
Proof.
  intros [n He] [m Hes]. exists 1. exists (n + m). intros f Hf rest.
  rewrite op_simple by reflexivity. rewrite pt_tuple. rewrite pts_cons2.
  cbn [app]. rewrite <- !app_assoc. cbn [app].
  change (1 + f) with (S f).
  rewrite pprim_lpar by (apply head_not_closer_app, pt_starts).
  rewrite He by (try lia; reflexivity).
  rewrite Hes by (try lia; reflexivity). reflexivity.
Qed.

Lemma T_list es : Items es -> T (CList es).
Proof.
  intros [n H]. exists 1. exists n. intros f Hf rest.
  rewrite op_simple by reflexivity. rewrite pt_list. cbn [app]. rewrite <- app_assoc. cbn [app].
  change (1 + f) with (S f). cbn [pprim]. rewrite H by (try lia; reflexivity). reflexivity.
Qed.

Lemma T_set e es : Items (CCons e es) -> T (CSet (CCons e es)).
Proof.
  intros [n H]. exists 1. exists n. intros f Hf rest.
  rewrite op_simple by reflexivity. rewrite pt_set. cbn [app]. rewrite <- app_assoc. cbn [app].
  change (1 + f) with (S f). cbn [pprim]. rewrite H by (try lia; reflexivity). reflexivity.
Qed.

(** ** Property position *)

Lemma wfp_simple p : wfp_ p = true -> canon_compound (kind_of p) = false.
Proof. destruct p; cbn; easy. Qed.

Lemma A_id s : A (CId s).
Proof. exists 1. apply ev_true. intros f x rest. reflexivity. Qed.

Lemma A_call g args : wfp_ g = true -> A g -> Items args -> A (CCall g args).
Proof.
  intros Hw [d [n Hg]] [m Ha]. exists (S d). exists (n + m). intros f Hf x rest.
  rewrite pt_call. rewrite (op_simple g (wfp_simple g Hw)).
  rewrite <- app_assoc. cbn [app]. rewrite <- app_assoc. cbn [app].
  replace (S d + f) with (d + S f) by lia. rewrite Hg by lia. cbn [ptrail attach].
  rewrite Ha by (try lia; reflexivity). reflexivity.
Qed.

Lemma A_index i r : wfp_ i = true -> A i -> M r -> A (CIndex i r).
Proof.
  intros Hw [d [n Hi]] [m Hr]. exists (S d). exists (n + m). intros f Hf x rest.
  rewrite pt_index. rewrite (op_simple i (wfp_simple i Hw)).
  rewrite <- app_assoc. cbn [app]. rewrite <- app_assoc. cbn [app].
  replace (S d + f) with (d + S f) by lia. rewrite Hi by lia. cbn [ptrail attach].
  rewrite Hr by (try lia; reflexivity). reflexivity.
Qed.

Lemma A_prop o q : wfp_ o = true -> A o -> A q -> A (CProp o q).
Proof.
  intros Hw [d [n Ho]] [d' [m Hq]]. exists (d + d'). exists (n + m). intros f Hf x rest.
  rewrite pt_prop. rewrite (op_simple o (wfp_simple o Hw)).
  rewrite <- app_assoc. cbn [app].
  replace (d + d' + f) with (d + (d' + f)) by lia. rewrite Ho by lia.
  rewrite Hq by lia. reflexivity.
Qed.

(** ** The mutual induction *)

Lemma simple_TM e : canon_compound (kind_of e) = false -> T e -> T e /\ M e.
Proof. intros Hc HT. split; [exact HT|]. apply M_of_O_simple; [exact Hc|]. apply O_of_T, HT. Qed.

Lemma compound_TM e : canon_compound (kind_of e) = true -> M e -> T e /\ M e.
Proof. intros Hc HM. split; [apply T_compound; assumption | exact HM]. Qed.

Lemma main :
  (forall e, (wf e = true -> T e /\ M e) /\ (wfp_ e = true -> A e))
  /\ (forall es, wfs es = true ->
        Items es /\ match es with CCons e es' => M e /\ Items es' | CNil => True end).
Proof.
  apply cexpr_cexprs_ind.
  - (* CId *) intros s. split; intros _; [apply simple_TM, T_atom; easy | apply A_id].
  - intros s. split; [intros _; apply simple_TM, T_atom; easy | discriminate].
  - intros s. split; [intros _; apply simple_TM, T_atom; easy | discriminate].
  - intros s. split; [intros _; apply simple_TM, T_atom; easy | discriminate].
  - intros b. split; [intros _; apply simple_TM, T_atom; easy | discriminate].
  - split; [intros _; apply simple_TM, T_atom; easy | discriminate].
  - intros n x. split; [intros _; apply simple_TM, T_enum; easy | discriminate].
  - (* CBin *) intros o l [IHl _] r [IHr _]. split; [|discriminate].
    cbn [wf]. intros H. apply andb_prop in H as [Hl Hr].
    apply compound_TM; [reflexivity|]. apply M_bin; [apply IHl, Hl | apply O_of_T, IHr, Hr].
  - (* CUn *) intros o x [IHx _]. split; [|discriminate]. cbn [wf]. intros H.
    apply compound_TM; [reflexivity|]. apply M_un, O_of_T, IHx, H.
  - (* CIsA *) intros l [IHl _] r [IHr _]. split; [|discriminate].
    cbn [wf]. intros H. apply andb_prop in H as [Hl Hr].
    apply simple_TM; [reflexivity|]. apply T_isa; [apply IHl, Hl | apply IHr, Hr].
  - (* CSqrt *) intros x [IHx _]. split; [|discriminate]. cbn [wf]. intros H.
    apply simple_TM; [reflexivity|]. apply T_sqrt, IHx, H.
  - (* CTernary *) intros c [IHc _] t [IHt _] x [IHx _]. split; [|discriminate].
    cbn [wf]. intros H. apply andb_prop in H as [H Hx]. apply andb_prop in H as [Hc Ht].
    apply compound_TM; [reflexivity|].
    apply M_ternary; [apply IHt, Ht | apply O_of_T, IHc, Hc | apply O_of_T, IHx, Hx].
  - (* CLambda *) intros ns b [IHb _]. split; [|discriminate]. cbn [wf]. intros H.
    apply compound_TM; [reflexivity|]. apply M_lambda, IHb, H.
  - (* CCall *) intros g [IHg IHgp] args IHa. split.
    + cbn [wf]. intros H. apply andb_prop in H as [Hg Ha].
      apply simple_TM; [reflexivity|]. apply T_call; [apply IHg, Hg | apply (IHa Ha)].
    + cbn [wfp_]. intros H. apply andb_prop in H as [Hg Ha].
      apply A_call; [exact Hg | apply IHgp, Hg | apply (IHa Ha)].
  - (* CIndex *) intros i [IHi IHip] r [IHr _]. split.
    + cbn [wf]. intros H. apply andb_prop in H as [Hi Hr].
      apply simple_TM; [reflexivity|]. apply T_index; [apply IHi, Hi | apply IHr, Hr].
    + cbn [wfp_]. intros H. apply andb_prop in H as [Hi Hr].
      apply A_index; [exact Hi | apply IHip, Hi | apply IHr, Hr].
  - (* CProp *) intros o [IHo IHop] p [_ IHp]. split.
    + cbn [wf]. intros H. apply andb_prop in H as [H _]. apply andb_prop in H as [Ho Hp].
      apply simple_TM; [reflexivity|]. apply T_prop; [apply IHo, Ho | apply IHp, Hp].
    + cbn [wfp_]. intros H. apply andb_prop in H as [Ho Hp].
      apply A_prop; [exact Ho | apply IHop, Ho | apply IHp, Hp].
  - (* CTuple *) intros es IH. split; [|discriminate]. cbn [wf]. intros H.
    apply andb_prop in H as [Hes Hlen]. apply simple_TM; [reflexivity|].
    destruct es as [|e [|e2 es]]; [apply T_tuple_nil | discriminate Hlen |].
    destruct (IH Hes) as [_ [He Hes']]. apply T_tuple; assumption.
  - (* CList *) intros es IH. split; [|discriminate]. cbn [wf]. intros H.
    apply simple_TM; [reflexivity|]. apply T_list, (IH H).
  - (* CSet *) intros es IH. split; [|discriminate]. cbn [wf]. intros H.
    apply andb_prop in H as [Hes Hlen]. apply simple_TM; [reflexivity|].
    destruct es as [|e es]; [discriminate Hlen|]. apply T_set, (IH Hes).
  - (* CNil *) intros _. split; [apply I_nil | exact I].
  - (* CCons *) intros e [IHe _] es IHes. cbn [wfs]. intros H. apply andb_prop in H as [He Hes].
    destruct (IHe He) as [_ HMe]. destruct (IHes Hes) as [HI _].
    split; [apply I_cons; assumption | split; assumption].
Qed.

(** ** The round-trip theorem for the reference table *)

Theorem roundtrip_canon e :
  wf e = true ->
  exists n, forall f, n <= f -> py_parse f (ptoks canon e) = Some (as_py e).
Proof.
  intros Hw. destruct main as [Hm _]. destruct (Hm e) as [H _]. destruct (H Hw) as [_ [n HM]].
  exists n. intros f Hf. unfold py_parse. specialize (HM f Hf [] eq_refl).
  rewrite app_nil_r in HM. rewrite HM. reflexivity.
Qed.

(** ** Transfer to any table equal to the reference table *)

Lemma tok_eqb_eq a b : tok_eqb a b = true -> a = b.
Proof.
  destruct a, b; cbn; intros H; try discriminate H; try reflexivity;
    apply String.eqb_eq in H; subst; reflexivity.
Qed.

Lemma piece_eqb_eq a b : piece_eqb a b = true -> a = b.
Proof.
  destruct a as [x|i w], b as [y|j v]; cbn; intros H; try discriminate H.
  - apply tok_eqb_eq in H. subst. reflexivity.
  - apply andb_prop in H as [Hi Hw]. apply Nat.eqb_eq in Hi. apply Bool.eqb_prop in Hw.
    subst. reflexivity.
Qed.

Lemma pieces_eqb_eq a b : pieces_eqb a b = true -> a = b.
Proof.
  revert b. induction a as [|x a IH]; intros [|y b] H; cbn in H; try discriminate H; [reflexivity|].
  apply andb_prop in H as [Hx Ha]. apply piece_eqb_eq in Hx. apply IH in Ha. subst. reflexivity.
Qed.

Lemma all_kinds_complete k : In k all_kinds.
Proof.
  destruct k as [| | | | | | |o|o| | | | | | | | | |]; try (cbn; tauto).
  - destruct o; cbn; tauto.
  - destruct o; cbn; tauto.
Qed.

Lemma table_ok_spec T :
  table_ok T = true ->
  forall k, tpl T k = canon_tpl k /\ compound T k = canon_compound k.
Proof.
  intros H k. unfold table_ok in H. rewrite forallb_forall in H.
  specialize (H k (all_kinds_complete k)). apply andb_prop in H as [H1 H2].
  split; [apply pieces_eqb_eq, H1 | apply Bool.eqb_prop, H2].
Qed.

Lemma ptoks_call_unf T g args :
  ptoks T (CCall g args)
  = interp (tpl T KCall) [(ptoks T g, compound T (kind_of g)); (ptoks_list T args, false)].
Proof. reflexivity. Qed.
Lemma ptoks_tuple_unf T es : ptoks T (CTuple es) = interp (tpl T KTuple) [(ptoks_list T es, false)].
Proof. reflexivity. Qed.
Lemma ptoks_list_unf T es : ptoks T (CList es) = interp (tpl T KList) [(ptoks_list T es, false)].
Proof. reflexivity. Qed.
Lemma ptoks_set_unf T es : ptoks T (CSet es) = interp (tpl T KSet) [(ptoks_list T es, false)].
Proof. reflexivity. Qed.

Lemma ptoks_ext T :
  table_ok T = true ->
  (forall e, ptoks T e = ptoks canon e) /\ (forall es, ptoks_list T es = ptoks_list canon es).
Proof.
  intros Hok. pose proof (table_ok_spec T Hok) as Hk.
  assert (Ht : forall k, tpl T k = tpl canon k) by (intros k; apply Hk).
  assert (Hc : forall k, compound T k = compound canon k) by (intros k; apply Hk).
  apply cexpr_cexprs_ind;
    try (intros; cbn [ptoks]; rewrite ?Ht, ?Hc;
         repeat match goal with H : _ = _ |- _ => rewrite H; clear H end; reflexivity).
  - intros g IHg args IHa. rewrite !ptoks_call_unf, Ht, Hc, IHg, IHa. reflexivity.
  - intros es IH. rewrite !ptoks_tuple_unf, Ht, IH. reflexivity.
  - intros es IH. rewrite !ptoks_list_unf, Ht, IH. reflexivity.
  - intros es IH. rewrite !ptoks_set_unf, Ht, IH. reflexivity.
  - intros e IHe es IHes. destruct es as [|e2 es].
    + change (ptoks_list T (CCons e CNil)) with (ptoks T e). rewrite IHe. reflexivity.
    + change (ptoks_list T (CCons e (CCons e2 es)))
        with (ptoks T e ++ TComma :: ptoks_list T (CCons e2 es)).
      rewrite IHe, IHes. reflexivity.
Qed.
(*
  - change (ptoks_list T (CCons e CNil)) with (ptoks T e). rewrite IHe. reflexivity.
  - change (ptoks_list T (CCons e (CCons e2 es)))
      with (ptoks T e ++ TComma :: ptoks_list T (CCons e2 es)).
    rewrite IHe, IHes. reflexivity.
Qed. *)

Theorem roundtrip T e :
  table_ok T = true -> wf e = true ->
  exists n, forall f, n <= f -> py_parse f (ptoks T e) = Some (as_py e).
Proof.
  intros Hok Hw. destruct (ptoks_ext T Hok) as [He _]. rewrite He. apply roundtrip_canon, Hw.
Qed.
