(** * TypingWitness: concrete programs on which the implementation's verdict and the declarative relation differ,
      one per known class, and a conforming demo program (non-vacuity).  All over the regenerated tables. *)
From Coq Require Import List String Bool ZArith.
From MambaModel Require Import model.Types model.TypingSig gen.Stubs gen.StubSigs model.Typing proofs.TypingProps.
Import ListNotations.
Local Open Scope string_scope.

Definition chk (q : quirks) (p : program) : bool := check generated stub_sigs q p.
Definition cfm (p : program) : Prop := conforms generated stub_sigs p.
Definition impl : quirks := impl_quirks call_params_strip_nullable.

Definition prog (cs : list cdef) (fs : list fdef) (m : list stmt) : program :=
  {| p_classes := cs; p_funs := fs; p_main := m |}.
Definition cC : cdef := {| cd_name := "C"; cd_parent := None; cd_fields := [("a", tInt)]; cd_methods := [] |}.

(** class C(def a: Int) / def d: C? := None / print(d.a)            -- accepted, AttributeError at run time *)
Definition w_field : program :=
  prog [cC] [] [SDef "d" false (Some (opt (tcls "C"))) ENone; SPrint (EField (EVar "d") "a")].

(** def x: Int? := None / def y: Int := x ? None                     -- accepted, y is None *)
Definition w_quest : program :=
  prog [] [] [SDef "x" false (Some (opt tInt)) ENone; SDef "y" false (Some tInt) (EQuest (EVar "x") ENone)].

(** def n: Int? := None / for i in 0 .. n do print(i)               -- accepted, TypeError *)
Definition w_range : program :=
  prog [] [] [SDef "n" false (Some (opt tInt)) ENone; SFor "i" (EInt 0) (EVar "n") [SPrint (EVar "i")]].

(** def h(x: Int) -> Int => def y := x                              -- accepted, h returns None *)
Definition w_falloff : program :=
  prog [] [{| fd_name := "h"; fd_params := [{| pa_name := "x"; pa_ty := tInt; pa_default := None |}];
              fd_ret := Some tInt; fd_body := [SDef "y" true None (EVar "x")]; fd_result := None |}] [].

Definition cE : cdef := {| cd_name := "E"; cd_parent := Some ("Exception", [EVar "msg"]); cd_fields := [("msg", tStr)]; cd_methods := [] |}.
Definition fG : fdef :=
  {| fd_name := "g"; fd_params := [{| pa_name := "a"; pa_ty := tInt; pa_default := None |}]; fd_ret := Some tInt;
     fd_body := [SIf (EOp "__gt__" (EVar "a") (EInt 3)) [SRaise "E" [EStr "big"]] []]; fd_result := Some (EVar "a") |}.
(** def r: Int := g(5) handle / err: E => "s"                        -- accepted, r is a Str *)
Definition w_handle : program :=
  prog [cE] [fG] [SHandle (Some {| b_var := "r"; b_mut := false; b_ann := Some tInt |}) (ECall "g" [EInt 5])
                          [HArm "E" "err" [] (Some (EStr "s"))]].

(** class B(def a: Int) / class D(def x: Int): B("z")               -- accepted *)
Definition w_parent : program :=
  prog [{| cd_name := "B"; cd_parent := None; cd_fields := [("a", tInt)]; cd_methods := [] |};
        {| cd_name := "D"; cd_parent := Some ("B", [EStr "z"]); cd_fields := [("x", tInt)]; cd_methods := [] |}] [] [].

(** def f(x: Int?) -> Int => return 3 / print(f(None))               -- refused although None is an Int? *)
Definition w_param : program :=
  prog [] [{| fd_name := "f"; fd_params := [{| pa_name := "x"; pa_ty := opt tInt; pa_default := None |}];
              fd_ret := Some tInt; fd_body := []; fd_result := Some (EInt 3) |}]
       [SPrint (ECall "f" [ENone])].

(** def x: Int? := None / def y := x ? 3 / print(y)                  -- refused ("cannot infer") although y is an Int *)
Definition w_loose : program :=
  prog [] [] [SDef "x" false (Some (opt tInt)) ENone; SDef "y" false None (EQuest (EVar "x") (EInt 3)); SPrint (EVar "y")].

Lemma not_conforms p : chk noq p = false -> ~ cfm p.
Proof. intros H HC. apply (check_noq_iff generated stub_sigs) in HC. unfold chk in H. rewrite H in HC. discriminate. Qed.
Lemma is_conforms p : chk noq p = true -> cfm p.
Proof. intros H. apply (check_noq_iff generated stub_sigs). exact H. Qed.

(** accepted by the implementation's rules, not conforming *)
Theorem accepts_nonconforming :
  Forall (fun p => chk impl p = true /\ ~ cfm p) [w_field; w_quest; w_range; w_falloff; w_handle; w_parent].
Proof. repeat constructor; try (vm_compute; reflexivity); apply not_conforms; vm_compute; reflexivity. Qed.

Theorem accepts_nonconforming_ex : exists p, chk impl p = true /\ ~ cfm p.
Proof.
  exists w_handle. pose proof accepts_nonconforming as H.
  repeat (inversion H as [|? ? ? H']; subst; clear H; rename H' into H); assumption.
Qed.

Theorem null_flow_refuted :
  Forall (fun p => chk impl p = true /\ ~ cfm p) [w_field; w_quest; w_range] /\
  (exists l, obligations generated stub_sigs w_field = Some l /\ In (OFieldRecv (TN true "C" []) false) l) /\
  (exists l, obligations generated stub_sigs w_quest = Some l /\ In (OSub KInit [tInt] (TN true "Int" []) true) l) /\
  (exists l, obligations generated stub_sigs w_range = Some l /\ In (ORange true (TN true "Int" []) false) l).
Proof.
  split.
  - pose proof accepts_nonconforming as H.
    inversion H as [|? ? H1 H']; subst. inversion H' as [|? ? H2 H'']; subst. inversion H'' as [|? ? H3 _]; subst.
    constructor; [exact H1|]. constructor; [exact H2|]. constructor; [exact H3|]. constructor.
  - repeat split; eexists; (split; [vm_compute; reflexivity|]); cbn; tauto.
Qed.

(** conforming, refused by the implementation's rules *)
Theorem rejects_conforming_loose : chk impl w_loose = false /\ cfm w_loose.
Proof. split; [vm_compute; reflexivity | apply is_conforms; vm_compute; reflexivity]. Qed.

Theorem rejects_conforming_param :
  call_params_strip_nullable = true -> chk impl w_param = false /\ cfm w_param.
Proof.
  intros H. split; [|apply is_conforms; vm_compute; reflexivity].
  unfold impl. rewrite H. vm_compute. reflexivity.
Qed.

(** each witness is in its known class and in no other *)
Theorem witnesses_known :
  forallb (fun p => negb (known_free generated stub_sigs true p))
          [w_field; w_quest; w_range; w_falloff; w_handle; w_parent; w_param; w_loose] = true.
Proof. vm_compute. reflexivity. Qed.

(** a conforming program outside the known classes, using a class with a method, a function with a default, a loop,
    a branch, a match, [x ? d] at a typed position and a nullable value at a nullable position *)
Definition demo : program :=
  prog [{| cd_name := "P"; cd_parent := None; cd_fields := [("a", tInt); ("n", opt tStr)];
           cd_methods := [{| fd_name := "m"; fd_params := [{| pa_name := "q"; pa_ty := tInt; pa_default := Some (EInt 1) |}];
                             fd_ret := Some tInt; fd_body := []; fd_result := Some (EOp "__add__" (EField (EVar "self") "a") (EVar "q")) |}] |}]
       [{| fd_name := "f"; fd_params := [{| pa_name := "x"; pa_ty := tFloat; pa_default := None |};
                                         {| pa_name := "s"; pa_ty := tStr; pa_default := Some (EStr "d") |}];
           fd_ret := Some (opt tFloat);
           fd_body := [SIf (EOp "__lt__" (EVar "x") (EFloat "1.0")) [SReturn ENone] []];
           fd_result := Some (EOp "__mul__" (EVar "x") (EInt 2)) |}]
       [SDef "o" true None (ECall "P" [EInt 3; EStr "s"]);
        SDef "k" false (Some tInt) (EMeth (EVar "o") "m" []);
        SDef "z" true (Some (opt tFloat)) (ECall "f" [EVar "k"]);
        SDef "w" false (Some tFloat) (EQuest (EVar "z") (EFloat "0.5"));
        SFor "i" (EInt 0) (EVar "k") [SMatch (EVar "i") [(PInt 1, [SPrint (EFmt [EVar "i"])]); (PWild, [SPrint (EVar "w")])]];
        SAssign "z" ENone].

Example demo_conforms : cfm demo /\ chk impl demo = true /\ known_free generated stub_sigs call_params_strip_nullable demo = true.
Proof. split; [apply is_conforms; vm_compute; reflexivity|]. split; vm_compute; reflexivity. Qed.
