(** * The code as it is ([restored]) against what C08 demands ([repaired])

    The two threadings differ in one place only: [repaired] checks the declared raises of a method call.
    On a program in which no called method declares a raise (the class outside D19) they are the same
    function, so the soundness theorem of [repaired] is a theorem about the code. *)
From Coq Require Import List Bool Arith PeanoNat.
Import ListNotations.
From MambaModel Require Import model.Scope proofs.ScopeProps proofs.ScopeWitness proofs.ScopeLex.

Definition quiet_method (mt : list (mname * list cls)) (m : mname) : bool :=
  match alook m mt with Some (_ :: _) => false | _ => true end.

Fixpoint nm_expr (mt : list (mname * list cls)) (x : expr) : bool :=
  match x with
  | EBin a b => nm_expr mt a && nm_expr mt b
  | ECall _ args => nm_exprs mt args
  | EPrint args => nm_exprs mt args
  | EMCall _ m args => quiet_method mt m && nm_exprs mt args
  | _ => true
  end
with nm_exprs (mt : list (mname * list cls)) (xs : exprs) : bool :=
  match xs with ENil => true | ECons x r => nm_expr mt x && nm_exprs mt r end.

Definition nm_simple (mt : list (mname * list cls)) (x : simple) : bool :=
  match x with
  | XExpr e | XDef _ _ (Some e) | XAssign _ e | XAug _ e | XFieldSet _ _ e | XReturn (Some e) => nm_expr mt e
  | _ => true
  end.

Fixpoint nm_stmt (mt : list (mname * list cls)) (s : stmt) : bool :=
  match s with
  | SSimple x => nm_simple mt x
  | SHandle x hs => nm_simple mt x && nm_harms mt hs
  | SIf c t => nm_expr mt c && nm_stmts mt t
  | SIfElse c t el => nm_expr mt c && nm_stmts mt t && nm_stmts mt el
  | SMatch c a => nm_expr mt c && nm_arms mt a
  | SWhile c b => nm_expr mt c && nm_stmts mt b
  | SFor _ col b => nm_expr mt col && nm_stmts mt b
  | SFun _ _ _ _ b => nm_stmts mt b
  end
with nm_stmts (mt : list (mname * list cls)) (ss : stmts) : bool :=
  match ss with SNil => true | SCons s r => nm_stmt mt s && nm_stmts mt r end
with nm_arms (mt : list (mname * list cls)) (a : arms) : bool :=
  match a with ANil => true | ACons _ body rest => nm_stmts mt body && nm_arms mt rest end
with nm_harms (mt : list (mname * list cls)) (hs : harms) : bool :=
  match hs with HNil => true | HCons _ _ body rest => nm_stmts mt body && nm_harms mt rest end.

Ltac bs H := repeat match type of H with _ && _ = true =>
  let A := fresh "N" in apply andb_prop in H; destruct H as [A H] end.

Section Modes.
Variable T : tabs.
Notation mt := (t_meth T).

Lemma expr_modes e g :
  (forall x, nm_expr mt x = true -> check_expr T restored e g x = check_expr T repaired e g x) /\
  (forall xs, nm_exprs mt xs = true -> check_exprs T restored e g xs = check_exprs T repaired e g xs).
Proof.
  apply expr_exprs_ind; cbn [nm_expr nm_exprs check_expr check_exprs]; try reflexivity.
  - intros a IHa b IHb H. bs H. rewrite (IHb H), (IHa N). reflexivity.
  - intros f args IH H. rewrite (IH H). reflexivity.
  - intros args IH H. exact (IH H).
  - intros r m args IH H. bs H. rewrite (IH H).
    destruct (check_exprs T repaired e g args); [reflexivity|].
    destruct (get_var e g r); [|reflexivity]. cbn [m_methods restored repaired].
    unfold quiet_method in N. destruct (alook m mt) as [[|c rs]|]; try discriminate; reflexivity.
  - intros x IHx r IHr H. bs H. rewrite (IHx N), (IHr H). reflexivity.
Qed.

Lemma simple_modes e g x : nm_simple mt x = true ->
  check_simple T restored e g x = check_simple T repaired e g x.
Proof.
  intros H. destruct x; cbn [nm_simple check_simple oexpr] in *; try reflexivity.
  - rewrite (proj1 (expr_modes e g) _ H). reflexivity.
  - destruct init as [x|]; cbn [oexpr]; [rewrite (proj1 (expr_modes e g) _ H)|]; reflexivity.
  - rewrite (proj1 (expr_modes e g) _ H). reflexivity.
  - assert (E : check_expr T restored e g (EBin (ERead x) e0) = check_expr T repaired e g (EBin (ERead x) e0)).
    { cbn [check_expr]. rewrite (proj1 (expr_modes e g) _ H). reflexivity. }
    rewrite E. reflexivity.
  - destruct (check_iden_mut e g [r]); [reflexivity|].
    rewrite (proj1 (expr_modes _ g) _ H). reflexivity.
  - destruct e0 as [x|]; [|reflexivity]. rewrite (proj1 (expr_modes e g) _ H). reflexivity.
Qed.

Theorem stmt_modes :
  (forall s e g, nm_stmt mt s = true -> check_stmt T restored e g s = check_stmt T repaired e g s) /\
  (forall ss e g, nm_stmts mt ss = true -> check_stmts T restored e g ss = check_stmts T repaired e g ss) /\
  (forall a e g, nm_arms mt a = true -> check_arms T restored e g a = check_arms T repaired e g a) /\
  (forall h e g, nm_harms mt h = true -> check_harms T restored e g h = check_harms T repaired e g h).
Proof.
  apply syntax_ind; cbn [nm_stmt nm_stmts nm_arms nm_harms check_stmt check_stmts check_arms check_harms
                         m_restore restored repaired].
  - intros x e g H. apply simple_modes; exact H.
  - intros x hs IH e g H. bs H. rewrite (simple_modes _ g x N).
    destruct (check_simple T repaired _ g x) as [[e1 g1]|k]; [|reflexivity]. rewrite (IH _ _ H). reflexivity.
  - intros c t IH e g H. bs H. rewrite (proj1 (expr_modes e g) _ N), (IH _ _ H). reflexivity.
  - intros c t IHt el IHe e g H. bs H. bs N. rewrite (proj1 (expr_modes e g) _ N0), (IHt _ _ N).
    destruct (check_expr T repaired e g c); [reflexivity|].
    destruct (check_stmts T repaired e g t) as [[et g1]|k]; [|reflexivity]. rewrite (IHe _ _ H). reflexivity.
  - intros c a IH e g H. bs H. rewrite (proj1 (expr_modes e g) _ N), (IH _ _ H). reflexivity.
  - intros c b IH e g H. bs H. rewrite (proj1 (expr_modes e g) _ N), (IH _ _ H). reflexivity.
  - intros p col b IH e g H. bs H. rewrite (proj1 (expr_modes e g) _ N).
    destruct (check_expr T repaired e g col); [reflexivity|].
    destruct (check_reads _ _ p); [reflexivity|]. rewrite (IH _ _ H). reflexivity.
  - intros f ps rs ret b IH e g H.
    destruct (check_params e g ps) as [[e1 g1]|k]; [|reflexivity].
    destruct (check_declared T rs); [reflexivity|]. rewrite (IH _ _ H). reflexivity.
  - reflexivity.
  - intros s IHs ss IHss e g H. bs H. rewrite (IHs _ _ N).
    destruct (check_stmt T repaired e g s) as [[e1 g1]|k]; [|reflexivity]. apply IHss; exact H.
  - reflexivity.
  - intros b body IHb rest IHr e g H. bs H. rewrite (IHb _ _ N).
    destruct (check_stmts T repaired _ _ body) as [[be g1]|k]; [|reflexivity]. rewrite (IHr _ _ H). reflexivity.
  - reflexivity.
  - intros c b body IHb rest IHr e g H. bs H. rewrite (IHb _ _ N).
    destruct (check_stmts T repaired _ _ body) as [[be g1]|k]; [|reflexivity]. rewrite (IHr _ _ H). reflexivity.
Qed.

(** C08 for the code as it is, outside D19: no called method declares a raise *)
Theorem C08_sound_restored p e g t o :
  nm_stmts mt p = true ->
  check_program T restored p = Ok (e, g) -> ssruns T false [] p t o ->
  all_events (raise_ok (t_cls T)) [[]] [] t.
Proof.
  intros HN C R. unfold check_program in C. rewrite (proj1 (proj2 stmt_modes) p env0 [] HN) in C.
  eapply C08_sound_strict; eassumption.
Qed.

End Modes.
