(** * Lexical completeness of the environment threading (C09, C07)

    [lx_stmts] is the reference: plain lexical scoping on a stack of frames, no offsets, no global
    mapping - a use of a name is fine iff a definition of it comes earlier in the same or an enclosing
    block (the newest one is the one seen; function bodies see the definition point plus parameters;
    binders and loop variables live in the scope of their construct).  The theorem says that the
    checker's environment threading decides exactly this: an accepted program is lexically fine, and a
    program is rejected as "undefined" only when the reference finds an undefined use. *)
From Coq Require Import List Bool Arith PeanoNat Lia.
Import ListNotations.
From MambaModel Require Import model.Scope proofs.ScopeProps proofs.ScopeWitness.

Definition visb (st : stack) (x : var) : bool :=
  match vis st x with Some _ => true | None => false end.
Definition isok {A} (o : option A) : bool := match o with Some _ => true | None => false end.

Fixpoint lx_expr (st : stack) (x : expr) : bool :=
  match x with
  | EConst => true
  | ERead v => visb st v
  | EBin a b => lx_expr st a && lx_expr st b
  | ECall _ args => lx_exprs st args
  | EPrint args => lx_exprs st args
  | EMCall r _ args => visb st r && lx_exprs st args
  | EField r _ => visb st r
  end
with lx_exprs (st : stack) (xs : exprs) : bool :=
  match xs with ENil => true | ECons x r => lx_expr st x && lx_exprs st r end.

Definition lx_oexpr (st : stack) (o : option expr) : bool :=
  match o with Some x => lx_expr st x | None => true end.

Definition lx_simple (st : stack) (x : simple) : option stack :=
  match x with
  | XExpr e => if lx_expr st e then Some st else None
  | XDef m p init => if lx_oexpr st init then Some (run st (defs m p)) else None
  | XAssign p e => if forallb (visb st) p && lx_expr st e then Some st else None
  | XAug v e => if visb st v && lx_expr st e then Some st else None
  | XFieldSet r _ e => if visb st r && lx_expr st e then Some st else None
  | XReturn o => if lx_oexpr st o then Some st else None
  | XRaise _ => Some st
  | XPass => Some st
  end.

Fixpoint lx_stmt (st : stack) (s : stmt) : option stack :=
  match s with
  | SSimple x => lx_simple st x
  | SHandle x hs =>
    match lx_simple st x with
    | None => None
    | Some st1 => if lx_harms st1 hs then Some st1 else None
    end
  | SIf c t => if lx_expr st c && isok (lx_stmts ([] :: st) t) then Some st else None
  | SIfElse c t el =>
    if lx_expr st c && isok (lx_stmts ([] :: st) t) && isok (lx_stmts ([] :: st) el) then Some st else None
  | SMatch c a => if lx_expr st c && lx_arms st a then Some st else None
  | SWhile c b => if lx_expr st c && isok (lx_stmts ([] :: st) b) then Some st else None
  | SFor p col b =>
    if lx_expr st col && isok (lx_stmts (run ([] :: st) (defs true p)) b) then Some st else None
  | SFun _ ps _ _ b => if isok (lx_stmts (run ([] :: st) (pdefs ps)) b) then Some st else None
  end
with lx_stmts (st : stack) (ss : stmts) : option stack :=
  match ss with
  | SNil => Some st
  | SCons s r => match lx_stmt st s with None => None | Some st1 => lx_stmts st1 r end
  end
with lx_arms (st : stack) (a : arms) : bool :=
  match a with
  | ANil => true
  | ACons b body rest => isok (lx_stmts (run ([] :: st) (bdef b)) body) && lx_arms st rest
  end
with lx_harms (st : stack) (hs : harms) : bool :=
  match hs with
  | HNil => true
  | HCons _ b body rest => isok (lx_stmts (run ([] :: st) (bdef b)) body) && lx_harms st rest
  end.

Scheme expr_sind := Induction for expr Sort Prop
  with exprs_sind := Induction for exprs Sort Prop.
Combined Scheme expr_exprs_ind from expr_sind, exprs_sind.

Section Lex.
Variable T : tabs.

Lemma visb_get e g st x : WF e -> sim e st -> visb st x = isok (get_var e g x).
Proof. intros W S. unfold visb. rewrite get_var_lookup by exact W. rewrite (S x). reflexivity. Qed.

(** expressions: no error => all reads visible; first error "undefined" => some read invisible *)
Lemma lx_expr_agrees md e g st : WF e -> sim e st ->
  (forall x, (check_expr T md e g x = None -> lx_expr st x = true) /\
             (check_expr T md e g x = Some KUndef -> lx_expr st x = false)) /\
  (forall xs, (check_exprs T md e g xs = None -> lx_exprs st xs = true) /\
              (check_exprs T md e g xs = Some KUndef -> lx_exprs st xs = false)).
Proof.
  intros W S.
  assert (VG := fun x => visb_get e g st x W S).
  apply expr_exprs_ind; cbn [check_expr check_exprs lx_expr lx_exprs].
  - split; [reflexivity|discriminate].
  - intros x. rewrite VG. destruct (get_var e g x); split; cbn; congruence.
  - intros a [A1 A2] b [B1 B2]. destruct (check_expr T md e g b) as [k|] eqn:Cb.
    + split; [discriminate|]. intros H. injection H as ->. rewrite (B2 eq_refl). apply andb_false_r.
    + rewrite (B1 eq_refl), andb_true_r. split; assumption.
  - intros f args [A1 A2]. destruct (check_exprs T md e g args) as [k|] eqn:Ca.
    + split; [discriminate|]. intros H. injection H as ->. exact (A2 eq_refl).
    + split; [intros _; exact (A1 eq_refl)|].
      destruct (alook f (t_fun T)) as [[ar rs]|]; [|discriminate].
      destruct (elen args =? ar); [|discriminate].
      intros H. exfalso. clear - H. induction rs as [|c r IH]; cbn [check_raises] in H; [discriminate|].
      destruct (e_in_fun e); [|discriminate]. destruct (alook c (t_cls T)); [|discriminate].
      destruct (any_caught T c (e_caught e)); try discriminate. exact (IH H).
  - intros args [A1 A2]. split; assumption.
  - intros r m args [A1 A2]. rewrite VG. destruct (check_exprs T md e g args) as [k|] eqn:Ca.
    + split; [discriminate|]. intros H. injection H as ->. rewrite (A2 eq_refl). apply andb_false_r.
    + rewrite (A1 eq_refl), andb_true_r. destruct (get_var e g r); cbn; [|split; congruence].
      split; [reflexivity|]. destruct (m_methods md); [|discriminate].
      intros H. exfalso. clear - H. revert H.
      generalize (match alook m (t_meth T) with Some rs => rs | None => [] end). intros rs H.
      induction rs as [|c r0 IH]; cbn [check_raises] in H; [discriminate|].
      destruct (e_in_fun e); [|discriminate]. destruct (alook c (t_cls T)); [|discriminate].
      destruct (any_caught T c (e_caught e)); try discriminate. exact (IH H).
  - intros r f. rewrite VG. destruct ((r =? SELF) && mem f (e_unassigned e)).
    + split; discriminate.
    + destruct (get_var e g r); split; cbn; congruence.
  - split; [reflexivity|discriminate].
  - intros x [X1 X2] r [R1 R2]. destruct (check_expr T md e g x) as [k|] eqn:Cx.
    + split; [discriminate|]. intros H. injection H as ->. rewrite (X2 eq_refl). reflexivity.
    + rewrite (X1 eq_refl). cbn. split; assumption.
Qed.


Lemma check_raises_kind e cs : check_raises T e cs <> Some KUndef.
Proof.
  induction cs as [|c r IH]; cbn [check_raises]; [discriminate|].
  destruct (e_in_fun e); [|discriminate]. destruct (alook c (t_cls T)); [|discriminate].
  destruct (any_caught T c (e_caught e)); try discriminate. exact IH.
Qed.

Lemma check_declared_kind rs : check_declared T rs <> Some KUndef.
Proof.
  induction rs as [|c r IH]; cbn [check_declared]; [discriminate|].
  destruct (has_parent (fuel_of T) (t_cls T) c EXC); try discriminate. exact IH.
Qed.

Lemma check_params_kind ps : forall e g, check_params e g ps <> Rej KUndef.
Proof.
  induction ps as [|[m x] ps IH]; intros e g; cbn [check_params]; [discriminate|].
  destruct ((x =? SELF) && negb (e_in_class e)); [discriminate|apply IH].
Qed.

Lemma iden_mut_undef e g st p : WF e -> sim e st ->
  check_iden_mut e g p = Some KUndef -> forallb (visb st) p = false.
Proof.
  intros W S. induction p as [|x p IH]; cbn [check_iden_mut forallb]; [discriminate|].
  rewrite (visb_get e g st x W S). destruct (get_var e g x) as [[|]|]; cbn.
  - exact IH.
  - discriminate.
  - reflexivity.
Qed.

Lemma reads_agree e g st p : WF e -> sim e st ->
  (check_reads e g p = None -> forallb (visb st) p = true) /\
  (check_reads e g p = Some KUndef -> forallb (visb st) p = false).
Proof.
  intros W S. induction p as [|x p [IH1 IH2]]; cbn [check_reads forallb]; [split; [reflexivity|discriminate]|].
  rewrite (visb_get e g st x W S). destruct (get_var e g x); cbn; [split; assumption|split; congruence].
Qed.

Lemma reads_after_define m p e g : WF e -> check_reads (fst (define_all m e g p)) (snd (define_all m e g p)) p = None.
Proof.
  intros W.
  assert (W' : WF (fst (define_all m e g p))) by (apply (define_fold_WF m p (e, g)); exact W).
  assert (H : forall q, (forall x, In x q -> mem x p = true) ->
              check_reads (fst (define_all m e g p)) (snd (define_all m e g p)) q = None).
  { induction q as [|x q IH]; intros HQ; cbn [check_reads]; [reflexivity|].
    rewrite get_var_lookup by exact W'. unfold define_all. rewrite (define_fold_lookup m p (e, g) x).
    rewrite (HQ x (or_introl eq_refl)). apply IH. intros y Hy. apply HQ. right. exact Hy. }
  apply H. intros x. clear. induction p as [|y p IH]; cbn; [tauto|].
  intros [->|Hx]; [rewrite Nat.eqb_refl; reflexivity|rewrite (IH Hx); apply orb_true_r].
Qed.

Ltac kundef k := destruct k; try exact I.

Lemma lx_simple_agrees md e g x fr rr : WF e -> sim e (fr :: rr) ->
  match check_simple T md e g x with
  | Ok (e1, g1) => exists f', lx_simple (fr :: rr) x = Some (f' :: rr) /\ sim e1 (f' :: rr) /\ WF e1
  | Rej KUndef => lx_simple (fr :: rr) x = None
  | Rej _ => True
  end.
Proof.
  intros W S.
  assert (EX := fun e' (W' : WF e') (S' : sim e' (fr :: rr)) => proj1 (lx_expr_agrees md e' g (fr :: rr) W' S')).
  assert (HERE : exists f', Some (fr :: rr) = Some (f' :: rr) /\ sim e (f' :: rr) /\ WF e).
  { exists fr. auto. }
  destruct x; cbn [check_simple lx_simple].
  - (* XExpr *)
    destruct (EX e W S e0) as [A B]. destruct (check_expr T md e g e0) as [k|].
    + kundef k. rewrite (B eq_refl). reflexivity.
    + rewrite (A eq_refl). exact HERE.
  - (* XDef *)
    assert (OX : (oexpr T md e g init = None -> lx_oexpr (fr :: rr) init = true) /\
                 (oexpr T md e g init = Some KUndef -> lx_oexpr (fr :: rr) init = false)).
    { destruct init as [x|]; cbn [oexpr lx_oexpr]; [apply (EX e W S x)|split; [reflexivity|discriminate]]. }
    destruct OX as [A B]. destruct (oexpr T md e g init) as [k|] eqn:Co.
    + kundef k. rewrite (B eq_refl). reflexivity.
    + rewrite (A eq_refl).
      destruct (define_all_sim m p g W S) as [W1 [f' [R1 S1]]].
      assert (OKD : match Ok (define_all m e g p) with
                    | Ok (e1, g1) => exists f'0, Some (run (fr :: rr) (defs m p)) = Some (f'0 :: rr) /\
                                                 sim e1 (f'0 :: rr) /\ WF e1
                    | Rej _ => True end).
      { destruct (define_all m e g p) as [e1 g1]. exists f'. rewrite R1. auto. }
      destruct p; destruct init; try exact OKD; exact I.
  - (* XAssign *)
    destruct (check_iden_mut e g p) as [k|] eqn:CI.
    + kundef k. rewrite (iden_mut_undef e g (fr :: rr) p W S CI). reflexivity.
    + destruct (EX e W S e0) as [A B]. destruct (reads_agree e g (fr :: rr) p W S) as [RA RB].
      destruct (check_expr T md e g e0) as [k|].
      * kundef k. rewrite (B eq_refl). rewrite andb_false_r. reflexivity.
      * destruct (check_reads e g p) as [k|].
        -- kundef k. rewrite (RB eq_refl). reflexivity.
        -- rewrite (RA eq_refl), (A eq_refl). exact HERE.
  - (* XAug *)
    destruct (check_iden_mut e g [x]) as [k|] eqn:CI.
    + kundef k. assert (H := iden_mut_undef e g (fr :: rr) [x] W S CI). cbn [forallb] in H.
      rewrite andb_true_r in H. rewrite H. reflexivity.
    + destruct (EX e W S (EBin (ERead x) e0)) as [A B]. cbn [lx_expr] in A, B.
      destruct (check_expr T md e g (EBin (ERead x) e0)) as [k|].
      * kundef k. rewrite (B eq_refl). reflexivity.
      * rewrite (A eq_refl). exact HERE.
  - (* XFieldSet *)
    destruct (check_iden_mut e g [r]) as [k|] eqn:CI.
    + kundef k. assert (H := iden_mut_undef e g (fr :: rr) [r] W S CI). cbn [forallb] in H.
      rewrite andb_true_r in H. rewrite H. reflexivity.
    + set (e2 := if r =? SELF then set_unassigned (remove_all f (e_unassigned e)) e else e).
      assert (SS : same_scope e e2) by (unfold e2; destruct (r =? SELF); auto with scope).
      assert (W2 : WF e2) by (eapply same_scope_WF; eassumption).
      assert (S2 : sim e2 (fr :: rr)) by (eapply sim_scope; eassumption).
      destruct (EX e2 W2 S2 e0) as [A B]. destruct (check_expr T md e2 g e0) as [k|].
      * kundef k. rewrite (B eq_refl). rewrite andb_false_r. reflexivity.
      * rewrite (A eq_refl), andb_true_r, (visb_get e2 g (fr :: rr) r W2 S2).
        destruct (get_var e2 g r); cbn; [|reflexivity]. exists fr. auto.
  - (* XReturn *)
    destruct e0 as [x|]; cbn [lx_oexpr].
    + destruct (e_has_ret e); [|exact I]. destruct (EX e W S x) as [A B].
      destruct (check_expr T md e g x) as [k|].
      * kundef k. rewrite (B eq_refl). reflexivity.
      * rewrite (A eq_refl). exact HERE.
    + destruct (e_has_ret e); [exact I|]. destruct (e_in_fun e); [exact HERE|exact I].
  - (* XRaise *)
    assert (K := check_raises_kind e [c]). destruct (check_raises T e [c]) as [k|]; [|exact HERE].
    kundef k. congruence.
  - exact HERE.
Qed.

Definition LXs (s : stmt) : Prop := forall md e g fr rr, WF e -> sim e (fr :: rr) ->
  match check_stmt T md e g s with
  | Ok (e', g') => exists f', lx_stmt (fr :: rr) s = Some (f' :: rr) /\ sim e' (f' :: rr) /\ WF e'
  | Rej KUndef => lx_stmt (fr :: rr) s = None
  | Rej _ => True
  end.
Definition LXss (ss : stmts) : Prop := forall md e g fr rr, WF e -> sim e (fr :: rr) ->
  match check_stmts T md e g ss with
  | Ok (e', g') => exists f', lx_stmts (fr :: rr) ss = Some (f' :: rr) /\ sim e' (f' :: rr) /\ WF e'
  | Rej KUndef => lx_stmts (fr :: rr) ss = None
  | Rej _ => True
  end.
Definition LXa (a : arms) : Prop := forall md e g fr rr, WF e -> sim e (fr :: rr) ->
  match check_arms T md e g a with
  | Ok _ => lx_arms (fr :: rr) a = true
  | Rej KUndef => lx_arms (fr :: rr) a = false
  | Rej _ => True
  end.
Definition LXh (hs : harms) : Prop := forall md e g fr rr, WF e -> sim e (fr :: rr) ->
  match check_harms T md e g hs with
  | Ok _ => lx_harms (fr :: rr) hs = true
  | Rej KUndef => lx_harms (fr :: rr) hs = false
  | Rej _ => True
  end.

(** a body checked in its own scope: what the induction hypothesis says about [isok (lx_stmts ..)] *)
Lemma body_case (b : stmts) md e g st :
  match check_stmts T md e g b with
  | Ok (e', g') => exists f', lx_stmts st b = Some f' /\ True
  | Rej KUndef => lx_stmts st b = None
  | Rej _ => True
  end ->
  match check_stmts T md e g b with
  | Ok _ => isok (lx_stmts st b) = true
  | Rej KUndef => isok (lx_stmts st b) = false
  | Rej _ => True
  end.
Proof.
  destruct (check_stmts T md e g b) as [[e' g']|k].
  - intros [f' [-> _]]. reflexivity.
  - destruct k; auto. intros ->. reflexivity.
Qed.

Lemma body_of (b : stmts) : LXss b -> forall md e g f0 r0, WF e -> sim e (f0 :: r0) ->
  match check_stmts T md e g b with
  | Ok _ => isok (lx_stmts (f0 :: r0) b) = true
  | Rej KUndef => isok (lx_stmts (f0 :: r0) b) = false
  | Rej _ => True
  end.
Proof.
  intros IH md e g f0 r0 W S. apply body_case. specialize (IH md e g f0 r0 W S).
  destruct (check_stmts T md e g b) as [[e' g']|k]; [|exact IH].
  destruct IH as [f' [A _]]. exists (f' :: r0). auto.
Qed.

Ltac norm := change (list (var * bool)) with frame in *.

Theorem lx_agrees :
  (forall s, LXs s) /\ (forall ss, LXss ss) /\ (forall a, LXa a) /\ (forall h, LXh h).
Proof.
  apply syntax_ind.
  - (* SSimple *) intros x md e g fr rr W S. cbn [check_stmt lx_stmt]. apply lx_simple_agrees; assumption.
  - (* SHandle *)
    intros x hs IH md e g fr rr W S. cbn [check_stmt lx_stmt].
    set (ec := set_caught (e_caught e ++ hclasses hs) e).
    assert (Wc : WF ec) by (eapply same_scope_WF; [apply ss_caught|exact W]).
    assert (Sc : sim ec (fr :: rr)) by (eapply sim_scope; [apply ss_caught|exact S]).
    assert (X := lx_simple_agrees md ec g x fr rr Wc Sc).
    destruct (check_simple T md ec g x) as [[e1 g1]|k].
    + destruct X as [f' [-> [S1 W1]]].
      set (outer := if m_restore md then set_caught (e_caught e) e1 else set_caught (e_caught e1 ++ e_caught e) e1).
      assert (SS : same_scope e1 outer) by (unfold outer; destruct (m_restore md); apply ss_caught).
      assert (Wo : WF outer) by (eapply same_scope_WF; eassumption).
      assert (So : sim outer (f' :: rr)) by (eapply sim_scope; eassumption).
      specialize (IH md outer g1 f' rr Wo So).
      destruct (check_harms T md outer g1 hs) as [[u g2]|k].
      * norm; rewrite IH. exists f'. split; [reflexivity|].
        split; [eapply sim_scope; [apply ss_join|exact So]|eapply same_scope_WF; [apply ss_join|exact Wo]].
      * kundef k. norm; rewrite IH. reflexivity.
    + kundef k. norm; rewrite X. reflexivity.
  - (* SIf *)
    intros c t IH md e g fr rr W S. cbn [check_stmt lx_stmt].
    destruct (proj1 (lx_expr_agrees md e g (fr :: rr) W S) c) as [A B].
    destruct (check_expr T md e g c) as [k|].
    + kundef k. rewrite (B eq_refl). reflexivity.
    + rewrite (A eq_refl). assert (X := body_of t IH md e g [] (fr :: rr) W (sim_push S)).
      destruct (check_stmts T md e g t) as [[et g1]|k].
      * norm; rewrite X. exists fr. auto.
      * kundef k. norm; rewrite X. reflexivity.
  - (* SIfElse *)
    intros c t IHt el IHe md e g fr rr W S. cbn [check_stmt lx_stmt].
    destruct (proj1 (lx_expr_agrees md e g (fr :: rr) W S) c) as [A B].
    destruct (check_expr T md e g c) as [k|].
    + kundef k. rewrite (B eq_refl). reflexivity.
    + rewrite (A eq_refl). assert (X := body_of t IHt md e g [] (fr :: rr) W (sim_push S)).
      destruct (check_stmts T md e g t) as [[et g1]|k].
      * norm; rewrite X. assert (Y := body_of el IHe md e g1 [] (fr :: rr) W (sim_push S)).
        destruct (check_stmts T md e g1 el) as [[ee g2]|k].
        -- norm; rewrite Y. exists fr. split; [reflexivity|].
           split; [eapply sim_scope; [apply ss_unassigned|exact S]|eapply same_scope_WF; [apply ss_unassigned|exact W]].
        -- kundef k. norm; rewrite Y. reflexivity.
      * kundef k. norm; rewrite X. reflexivity.
  - (* SMatch *)
    intros c a IH md e g fr rr W S. cbn [check_stmt lx_stmt].
    destruct (proj1 (lx_expr_agrees md e g (fr :: rr) W S) c) as [A B].
    destruct (check_expr T md e g c) as [k|].
    + kundef k. rewrite (B eq_refl). reflexivity.
    + rewrite (A eq_refl). specialize (IH md e g fr rr W S).
      destruct (check_arms T md e g a) as [[u g1]|k].
      * norm; rewrite IH. exists fr. split; [reflexivity|].
        split; [eapply sim_scope; [apply ss_join|exact S]|eapply same_scope_WF; [apply ss_join|exact W]].
      * kundef k. norm; rewrite IH. reflexivity.
  - (* SWhile *)
    intros c b IH md e g fr rr W S. cbn [check_stmt lx_stmt].
    destruct (proj1 (lx_expr_agrees md e g (fr :: rr) W S) c) as [A B].
    destruct (check_expr T md e g c) as [k|].
    + kundef k. rewrite (B eq_refl). reflexivity.
    + rewrite (A eq_refl).
      assert (Wl : WF (set_in_loop true e)) by (eapply same_scope_WF; [apply ss_in_loop|exact W]).
      assert (Sl : sim (set_in_loop true e) ([] :: fr :: rr)) by (apply sim_push; eapply sim_scope; [apply ss_in_loop|exact S]).
      assert (X := body_of b IH md (set_in_loop true e) g [] (fr :: rr) Wl Sl).
      destruct (check_stmts T md (set_in_loop true e) g b) as [[eb g1]|k].
      * norm; rewrite X. exists fr. auto.
      * kundef k. norm; rewrite X. reflexivity.
  - (* SFor *)
    intros p col b IH md e g fr rr W S. cbn [check_stmt lx_stmt].
    destruct (proj1 (lx_expr_agrees md e g (fr :: rr) W S) col) as [A B].
    destruct (check_expr T md e g col) as [k|].
    + kundef k. rewrite (B eq_refl). reflexivity.
    + rewrite (A eq_refl). rewrite (reads_after_define true p e g W). norm.
      destruct (define_all_sim true p g W (sim_push S)) as [Wd [f1 [RP SP]]].
      norm; rewrite RP.
      assert (Wl : WF (set_in_loop true (fst (define_all true e g p)))) by (eapply same_scope_WF; [apply ss_in_loop|exact Wd]).
      assert (Sl : sim (set_in_loop true (fst (define_all true e g p))) (f1 :: fr :: rr))
        by (eapply sim_scope; [apply ss_in_loop|exact SP]).
      assert (X := body_of b IH md _ (snd (define_all true e g p)) f1 (fr :: rr) Wl Sl).
      destruct (check_stmts T md (set_in_loop true (fst (define_all true e g p))) (snd (define_all true e g p)) b)
        as [[eb g1]|k].
      * norm; rewrite X. exists fr. auto.
      * kundef k. norm; rewrite X. reflexivity.
  - (* SFun *)
    intros f ps rs ret b IH md e g fr rr W S. cbn [check_stmt lx_stmt].
    assert (PK := check_params_kind ps e g).
    destruct (check_params e g ps) as [[e1 g1]|k] eqn:CP; [|kundef k; congruence].
    assert (DK := check_declared_kind rs).
    destruct (check_declared T rs) as [k|]; [kundef k; congruence|].
    destruct (@check_params_sim ps e g e1 g1 [] (fr :: rr) CP W (sim_push S)) as [W1 [_ [f1 [RP SP]]]].
    norm; rewrite RP.
    match goal with |- context [check_stmts T md ?e4 g1 b] => set (e4' := e4) end.
    assert (SS : same_scope e1 e4').
    { unfold e4'. destruct ret;
        repeat (eapply same_scope_trans; [|first [apply ss_has_ret|apply ss_caught|apply ss_in_fun|apply ss_unassigned]]);
        apply same_scope_refl. }
    assert (W4 : WF e4') by (eapply same_scope_WF; eassumption).
    assert (S4 : sim e4' (f1 :: fr :: rr)) by (eapply sim_scope; eassumption).
    assert (X := body_of b IH md e4' g1 f1 (fr :: rr) W4 S4).
    destruct (check_stmts T md e4' g1 b) as [[eb g2]|k].
    + norm; rewrite X. exists fr. auto.
    + kundef k. norm; rewrite X. reflexivity.
  - (* SNil *) intros md e g fr rr W S. cbn. exists fr. auto.
  - (* SCons *)
    intros s IHs ss IHss md e g fr rr W S. cbn [check_stmts lx_stmts].
    specialize (IHs md e g fr rr W S). destruct (check_stmt T md e g s) as [[e1 g1]|k].
    + destruct IHs as [f' [-> [S1 W1]]]. apply IHss; assumption.
    + kundef k. norm; rewrite IHs. reflexivity.
  - (* ANil *) intros md e g fr rr W S. reflexivity.
  - (* ACons *)
    intros b body IHb rest IHr md e g fr rr W S. cbn [check_arms lx_arms].
    destruct (bind_arm_sim g b W (sim_push S)) as [Wb [f1 [RP SP]]]. norm; rewrite RP.
    assert (X := body_of body IHb md _ (snd (bind_arm e g b)) f1 (fr :: rr) Wb SP).
    destruct (check_stmts T md (fst (bind_arm e g b)) (snd (bind_arm e g b)) body) as [[be g1]|k].
    + norm; rewrite X. specialize (IHr md e g1 fr rr W S).
      destruct (check_arms T md e g1 rest) as [[u g2]|k]; [exact IHr|kundef k; exact IHr].
    + kundef k. norm; rewrite X. reflexivity.
  - (* HNil *) intros md e g fr rr W S. reflexivity.
  - (* HCons *)
    intros c b body IHb rest IHr md e g fr rr W S. cbn [check_harms lx_harms].
    destruct (bind_arm_sim g b W (sim_push S)) as [Wb [f1 [RP SP]]]. norm; rewrite RP.
    assert (X := body_of body IHb md _ (snd (bind_arm e g b)) f1 (fr :: rr) Wb SP).
    destruct (check_stmts T md (fst (bind_arm e g b)) (snd (bind_arm e g b)) body) as [[be g1]|k].
    + norm; rewrite X. specialize (IHr md e g1 fr rr W S).
      destruct (check_harms T md e g1 rest) as [[u g2]|k]; [exact IHr|kundef k; exact IHr].
    + kundef k. norm; rewrite X. reflexivity.
Qed.

(** accepted => lexically fine; rejected as "undefined" => the reference finds an undefined use *)
Theorem lexical_agreement md p :
  match check_program T md p with
  | Ok _ => isok (lx_stmts [[]] p) = true
  | Rej KUndef => lx_stmts [[]] p = None
  | Rej _ => True
  end.
Proof.
  unfold check_program. assert (X := proj1 (proj2 lx_agrees) p md env0 [] [] [] WF_env0 sim_env0).
  destruct (check_stmts T md env0 [] p) as [[e g]|k]; [|exact X].
  destruct X as [f' [X1 _]]. norm. rewrite X1. reflexivity.
Qed.

End Lex.
