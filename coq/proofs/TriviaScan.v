(** * Scanning a prefix in isolation (used by C14)

    If the text [pre] is lexically complete ([splittable]: no string literal left open, no
    comment running to its very end unless a line break follows, no lone carriage return at
    its end) and the text [R] that follows starts with a blank or a line break (or is empty),
    then lexing [pre ++ R] is lexing [pre] and continuing on [R] from the state reached
    ([loop_split]).  The proof is one lemma per scanner branch: what the scanner does on
    [a ++ R] is what it does on [a], with [R] appended to what is left ([scan_prefix]). *)
From Coq Require Import List Ascii ZArith Bool Lia Arith.
From MambaModel Require Import model.LexTok gen.LexTables model.Lex proofs.LexProps model.Trivia
  proofs.TriviaFuel.
Import ListNotations.
Local Open Scope Z_scope.

Definition is_eolc (c : ascii) : bool := Ascii.eqb c c_nl || Ascii.eqb c c_cr.
Definition is_stop (c : ascii) : bool := is_eolc c || Ascii.eqb c c_sp.
Definition hd_stop (r : str) : bool := match r with [] => true | c :: _ => is_stop c end.
Definition hd_eol (r : str) : bool := match r with [] => true | c :: _ => is_eolc c end.
Definition stop_free (w : str) : bool := forallb (fun c => negb (is_stop c)) w.

Definition ext (r : str) (x : scanned) : scanned :=
  match x with
  | STok t rest => STok t (rest ++ r)
  | SString c e rest => SString c e (rest ++ r)
  | SSpace rest => SSpace (rest ++ r)
  | SErr e => SErr e
  end.

(** [eol]: does a line break (or the end of input) follow the prefix? *)
Definition prefix_ok (eol : bool) (c : ascii) (a : str) : bool :=
  match scan c a with
  | SErr _ => false
  | STok (MComment _) [] => eol
  | SString content _ rest => str_eqb (c :: a) (c_quote :: content ++ c_quote :: rest)
  | _ => true
  end.

Lemma is_stop_cases x : is_stop x = true -> x = c_nl \/ x = c_cr \/ x = c_sp.
Proof.
  unfold is_stop, is_eolc. intros H. apply orb_prop in H as [H | H].
  - apply orb_prop in H as [H | H]; apply Ascii.eqb_eq in H; auto.
  - apply Ascii.eqb_eq in H; auto.
Qed.

Lemma hd_eol_stop r : hd_eol r = true -> hd_stop r = true.
Proof. destruct r as [|x r]; [reflexivity|]. cbn. unfold is_stop. intros ->. reflexivity. Qed.

(** ** prefixes and the operator table *)

Lemma starts_with_cons x w c y :
  starts_with (x :: w) (c :: y) = Ascii.eqb x c && starts_with w y.
Proof. reflexivity. Qed.
Lemma starts_with_nil_r x w : starts_with (x :: w) [] = false.
Proof. reflexivity. Qed.
Lemma starts_with_nil_l y : starts_with [] y = true.
Proof. reflexivity. Qed.

Lemma sw_app r : hd_stop r = true ->
  forall w y, stop_free w = true -> starts_with w (y ++ r) = starts_with w y.
Proof.
  intros Hr. induction w as [|x w IH]; intros y Hw; [reflexivity|].
  cbn [stop_free forallb] in Hw. apply andb_prop in Hw as [Hx Hw]. apply negb_true_iff in Hx.
  destruct y as [|c y].
  - cbn [app]. rewrite starts_with_nil_r. destruct r as [|c r]; [reflexivity|].
    rewrite starts_with_cons. cbn [hd_stop] in Hr.
    destruct (Ascii.eqb_spec x c) as [->|]; [rewrite Hr in Hx; discriminate | reflexivity].
  - cbn [app]. rewrite !starts_with_cons. rewrite (IH y Hw). reflexivity.
Qed.

Lemma starts_with_len w y : starts_with w y = true -> (length w <= length y)%nat.
Proof. intros H. apply starts_with_split in H. rewrite H, app_length. lia. Qed.

Lemma skipn_app_le {A} n (y r : list A) : (n <= length y)%nat -> skipn n (y ++ r) = skipn n y ++ r.
Proof. intros H. rewrite skipn_app. replace (n - length y)%nat with 0%nat by lia. reflexivity. Qed.

Lemma mp_app r : hd_stop r = true ->
  forall tbl y, forallb (fun wt : str * token => stop_free (fst wt)) tbl = true ->
    match_prefix tbl (y ++ r) =
    match match_prefix tbl y with Some (t, rest) => Some (t, rest ++ r) | None => None end.
Proof.
  intros Hr. induction tbl as [|[w t] tbl IH]; intros y Ht; [reflexivity|].
  cbn [forallb fst] in Ht. apply andb_prop in Ht as [Hw Ht]. cbn [match_prefix].
  rewrite (sw_app r Hr w y Hw). destruct (starts_with w y) eqn:Hs.
  - rewrite skipn_app_le by (apply starts_with_len, Hs). reflexivity.
  - apply IH, Ht.
Qed.

Definition ops_part : list (str * token) := map (fun t => (spell t, t)) op_tokens.
Lemma op_table_parts : op_table = ([c_cr; c_nl], MNL) :: ([c_nl], MNL) :: ops_part.
Proof. reflexivity. Qed.
Lemma ops_stop_free : forallb (fun wt : str * token => stop_free (fst wt)) ops_part = true.
Proof. vm_compute. reflexivity. Qed.

(** the operator table on [c :: a ++ r] when [c] is not a line break character *)
Lemma mp_ops_only c y :
  Ascii.eqb c_nl c = false ->
  (Ascii.eqb c_cr c = false \/ match y with x :: _ => Ascii.eqb c_nl x = false | [] => False end) ->
  match_prefix op_table (c :: y) = match_prefix ops_part (c :: y).
Proof.
  intros Hnl Hcr. rewrite op_table_parts. cbn [match_prefix].
  assert (H1 : starts_with [c_cr; c_nl] (c :: y) = false).
  { rewrite starts_with_cons. destruct Hcr as [-> | Hy]; [reflexivity|].
    destruct y as [|x y]; [contradiction|]. rewrite starts_with_cons, Hy, andb_false_r. reflexivity. }
  assert (H2 : starts_with [c_nl] (c :: y) = false).
  { rewrite starts_with_cons, Hnl. reflexivity. }
  rewrite H1, H2. reflexivity.
Qed.

Lemma scan_nl r : scan c_nl r = STok MNL r.
Proof. reflexivity. Qed.
Lemma scan_crnl r : scan c_cr (c_nl :: r) = STok MNL r.
Proof. reflexivity. Qed.
Lemma scan_cr_nil : scan c_cr [] = SErr ErrCR.
Proof. vm_compute. reflexivity. Qed.

(** ** [take_while], numbers, strings *)

Lemma tw_app p r : forall a w b,
  take_while p a = (w, b) ->
  (b = [] -> match r with [] => True | x :: _ => p x = false end) ->
  take_while p (a ++ r) = (w, b ++ r).
Proof.
  induction a as [|c a IH]; intros w b H Hr.
  - cbn in H. inversion H; subst. specialize (Hr eq_refl). cbn [app].
    destruct r as [|x r]; [reflexivity|]. cbn [take_while]. rewrite Hr. reflexivity.
  - cbn [take_while app] in *. destruct (p c).
    + destruct (take_while p a) as [w' b'] eqn:Ht. inversion H; subst.
      rewrite (IH w' b eq_refl Hr). reflexivity.
    + inversion H; subst. reflexivity.
Qed.

Lemma stop_not_digit x : is_stop x = true -> is_digit x = false.
Proof. intros H. destruct (is_stop_cases x H) as [-> | [-> | ->]]; reflexivity. Qed.
Lemma stop_not_idchar x : is_stop x = true -> is_id_char x = false.
Proof. intros H. destruct (is_stop_cases x H) as [-> | [-> | ->]]; reflexivity. Qed.
Lemma stop_not_E x : is_stop x = true -> Ascii.eqb x c_E = false.
Proof. intros H. destruct (is_stop_cases x H) as [-> | [-> | ->]]; reflexivity. Qed.
Lemma stop_not_dot x : is_stop x = true -> Ascii.eqb x c_dot = false.
Proof. intros H. destruct (is_stop_cases x H) as [-> | [-> | ->]]; reflexivity. Qed.

Definition sn_ext (r : str) (x : str * str * bool * bool * str) : str * str * bool * bool * str :=
  let '(n, e, f, en, rest) := x in (n, e, f, en, rest ++ r).

Lemma sn_app r : hd_stop r = true ->
  forall s f1 f2 num exp fl en,
    (length s < f1)%nat -> (length (s ++ r) < f2)%nat ->
    scan_number f2 num exp fl en (s ++ r) = sn_ext r (scan_number f1 num exp fl en s).
Proof.
  intros Hr. induction s as [|c s IH]; intros f1 f2 num exp fl en H1 H2.
  - destruct f1 as [|f1]; [cbn in H1; lia|]. destruct f2 as [|f2]; [lia|].
    cbn [app scan_number sn_ext]. destruct r as [|x r]; [reflexivity|]. cbn [hd_stop] in Hr.
    rewrite (stop_not_digit x Hr), (stop_not_E x Hr), (stop_not_dot x Hr). reflexivity.
  - destruct f1 as [|f1]; [cbn in H1; lia|]. destruct f2 as [|f2]; [lia|].
    cbn [length app] in *. cbn [scan_number].
    assert (L1 : (length s < f1)%nat) by lia. assert (L2 : (length (s ++ r) < f2)%nat) by lia.
    destruct (is_digit c).
    + destruct en; apply IH; assumption.
    + destruct (Ascii.eqb c c_E).
      * destruct en; [reflexivity|]. apply IH; assumption.
      * destruct (Ascii.eqb c c_dot); [|reflexivity].
        destruct (fl || en); [reflexivity|].
        destruct s as [|c2 s2].
        -- cbn [app]. destruct r as [|x r]; [apply (IH f1 f2); assumption|].
           cbn [hd_stop] in Hr. rewrite (stop_not_dot x Hr). apply (IH f1 f2); assumption.
        -- cbn [app]. destruct (Ascii.eqb c2 c_dot); [reflexivity|]. apply (IH f1 f2); assumption.
Qed.

Lemma ss_app r : forall s st st' rest,
  scan_string st s = (st', rest) ->
  (length (s_content st') + length rest < length (s_content st) + length s)%nat ->
  scan_string st (s ++ r) = (st', rest ++ r).
Proof.
  induction s as [|c s IH]; intros st st' rest H Hl.
  - cbn in H. inversion H; subst. cbn in Hl. lia.
  - cbn [app]. rewrite scan_string_cons in *. destruct (ss_closing st c).
    + inversion H; subst. reflexivity.
    + apply IH; [exact H|]. rewrite ss_step_content, app_length. cbn [length] in *. lia.
Qed.

(** ** the scanner on a prefix *)

Theorem scan_prefix c a r :
  hd_stop r = true -> prefix_ok (hd_eol r) c a = true -> scan c (a ++ r) = ext r (scan c a).
Proof.
  intros Hr Hok.
  destruct (Ascii.eqb_spec c_nl c) as [<-|Hnl]; [rewrite !scan_nl; reflexivity|].
  apply Ascii.eqb_neq in Hnl.
  assert (Hcr : Ascii.eqb c_cr c = false \/
                match a with x :: _ => Ascii.eqb c_nl x = false | [] => False end
                \/ exists a', c = c_cr /\ a = c_nl :: a').
  { destruct (Ascii.eqb_spec c_cr c) as [<-|Hc]; [|left; reflexivity]. right.
    destruct a as [|x a]; [unfold prefix_ok in Hok; rewrite scan_cr_nil in Hok; discriminate|].
    destruct (Ascii.eqb_spec c_nl x) as [<-|Hx]; [right; exists a; split; reflexivity | left; reflexivity]. }
  destruct Hcr as [Hcr | [Hcr | (a' & -> & ->)]]; [| | cbn [app]; rewrite !scan_crnl; reflexivity].
  all: unfold prefix_ok in Hok; unfold scan in *.
  all: rewrite (mp_ops_only c (a ++ r) Hnl) by
      (first [left; exact Hcr | right; destruct a as [|x a]; [contradiction | exact Hcr]]).
  all: rewrite (mp_ops_only c a Hnl) in * by (first [left; exact Hcr | right; exact Hcr]).
  all: change (c :: a ++ r) with ((c :: a) ++ r); rewrite (mp_app r Hr ops_part (c :: a) ops_stop_free).
  all: destruct (match_prefix ops_part (c :: a)) as [[t0 rest0]|]; [reflexivity|].
  all: destruct (Ascii.eqb c c_hash);
    [ destruct (take_while not_eol a) as [cm rest] eqn:Ht;
      rewrite (tw_app not_eol r a cm rest Ht);
      [ reflexivity
      | intros ->; destruct r as [|x r]; [exact I|]; cbn [hd_eol] in Hok;
        unfold not_eol; unfold is_eolc in Hok; apply orb_prop in Hok as [-> | ->];
        [reflexivity | apply andb_false_r] ] | ].
  all: destruct (Ascii.eqb c c_quote);
    [ fold ss0 in *; destruct (scan_string ss0 a) as [st rest] eqn:Hs;
      apply str_eqb_eq in Hok; injection Hok as _ Ha;
      rewrite (ss_app r a ss0 st rest Hs);
      [ reflexivity
      | apply (f_equal (@length _)) in Ha; rewrite app_length in Ha; cbn [length s_content ss0] in *; lia ] | ].
  all: destruct (Ascii.eqb c c_sp); [reflexivity|].
  all: destruct (Ascii.eqb c c_cr); [discriminate Hok|].
  all: destruct (Ascii.eqb c (ch 33)); [discriminate Hok|].
  all: destruct (is_digit c);
    [ rewrite (sn_app r Hr a (S (length a)) (S (length (a ++ r))) [c] [] false false) by lia;
      destruct (scan_number (S (length a)) [c] [] false false a) as [[[[number exp] float] e_num] rest];
      reflexivity | ].
  all: destruct (is_id_start c); [|discriminate Hok].
  all: destruct (take_while is_id_char a) as [w rest] eqn:Ht;
    rewrite (tw_app is_id_char r a w rest Ht);
    [ reflexivity
    | intros _; destruct r as [|x r]; [exact I | apply stop_not_idchar, Hr] ].
Qed.

(** ** the loop on a prefix *)

Definition scan_rest (x : scanned) : option str :=
  match x with SErr _ => None | SSpace rest | STok _ rest | SString _ _ rest => Some rest end.

(** every scanner step inside [s] is insensitive to what follows [s] *)
Fixpoint splittable (eol : bool) (fuel : nat) (s : str) : bool :=
  match fuel with
  | O => true
  | S fuel =>
      match s with
      | [] => true
      | c :: r =>
          prefix_ok eol c r &&
          match scan_rest (scan c r) with Some rest => splittable eol fuel rest | None => true end
      end
  end.

Definition ext_step (r : str) (x : stepres) : stepres :=
  match x with Next rest st out => Next (rest ++ r) st out | other => other end.

Lemma step_ext d c a r st :
  scan c (a ++ r) = ext r (scan c a) -> step d c (a ++ r) st = ext_step r (step d c a st).
Proof.
  intros H. unfold step. rewrite H.
  destruct (scan c a) as [t rest | content exprs rest | rest | e]; cbn [ext ext_step].
  - destruct (state_token st t); reflexivity.
  - destruct (is_docstring_arm content); [destruct (state_token st (string_tok content)); reflexivity|].
    destruct (nest_all d (pos st) exprs) as [[inn|]|e]; try reflexivity.
    destruct (emit_str st content inn); reflexivity.
  - reflexivity.
  - reflexivity.
Qed.

Lemma step_next_rest d c a st rest st1 out :
  step d c a st = Next rest st1 out -> scan_rest (scan c a) = Some rest.
Proof.
  unfold step. destruct (scan c a) as [t rest0 | content exprs rest0 | rest0 | e]; cbn [scan_rest].
  - destruct (state_token st t). intros H. inversion H. reflexivity.
  - destruct (is_docstring_arm content).
    + destruct (state_token st (string_tok content)). intros H. inversion H. reflexivity.
    + destruct (nest_all d (pos st) exprs) as [[inn|]|e]; try discriminate.
      destruct (emit_str st content inn). intros H. inversion H. reflexivity.
  - intros H. inversion H. reflexivity.
  - discriminate.
Qed.

Lemma loop_split fuel : forall pre st acc st' acc' R,
  hd_stop R = true -> splittable (hd_eol R) fuel pre = true ->
  tok_loop fuel pre st acc = inl (inl (st', acc')) ->
  tok_loop (fuel + S (length R)) (pre ++ R) st acc = tok_loop (S (length R)) R st' acc'.
Proof.
  induction fuel as [|fuel IH]; intros pre st acc st' acc' R HR Hs H.
  - rewrite tok_loop_O in H. discriminate H.
  - destruct pre as [|c a].
    + rewrite tok_loop_nil in H. inversion H; subst. cbn [app]. apply loop_fuel. lia.
    + cbn [splittable] in Hs. apply andb_prop in Hs as [Hok Hrest].
      cbn [app plus]. rewrite tok_loop_step in *.
      rewrite (step_ext _ c a R st (scan_prefix c a R HR Hok)).
      assert (Hne : step (direct fuel) c a st <> OOF).
      { intros E. rewrite E in H. discriminate H. }
      rewrite (step_mono (direct fuel) (direct (fuel + S (length R))) c a st); [|
        intros e x; apply direct_mono; lia | exact Hne].
      destruct (step (direct fuel) c a st) as [e| |rest st1 out] eqn:Hst; try discriminate H.
      cbn [ext_step]. rewrite (step_next_rest _ _ _ _ _ _ _ Hst) in Hrest.
      apply IH; assumption.
Qed.

(** lexing [pre ++ R] = lexing [pre], then [R] from the state reached *)
Theorem split_run pre R st acc st' acc' F :
  hd_stop R = true -> splittable (hd_eol R) (S (length pre)) pre = true ->
  tok_loop (S (length pre)) pre st acc = inl (inl (st', acc')) ->
  (length (pre ++ R) < F)%nat ->
  tok_loop F (pre ++ R) st acc = tok_loop (S (length R)) R st' acc'.
Proof.
  intros HR Hs H HF. rewrite <- (loop_split _ pre st acc st' acc' R HR Hs H).
  rewrite (loop_fuel F) by exact HF. symmetry. apply loop_fuel. rewrite app_length. lia.
Qed.

(** ** blanks, comments and lone carriage returns *)

Definition first_not (c : ascii) (tbl : list (str * token)) : bool :=
  forallb (fun wt : str * token =>
             match fst wt with x :: _ => negb (Ascii.eqb x c) | [] => false end) tbl.

Lemma mp_first tbl c r : first_not c tbl = true -> match_prefix tbl (c :: r) = None.
Proof.
  induction tbl as [|[w t] tbl IH]; intros H; [reflexivity|].
  cbn [first_not forallb fst] in H. apply andb_prop in H as [Hw H]. cbn [match_prefix].
  destruct w as [|x w]; [discriminate|]. rewrite starts_with_cons.
  apply negb_true_iff in Hw. rewrite Hw. cbn [andb]. apply IH, H.
Qed.

Lemma scan_cr_other x r : Ascii.eqb c_nl x = false -> scan c_cr (x :: r) = SErr ErrCR.
Proof.
  intros Hx. unfold scan. rewrite (mp_ops_only c_cr (x :: r) eq_refl) by (right; exact Hx).
  rewrite (mp_first ops_part c_cr) by (vm_compute; reflexivity). reflexivity.
Qed.

Lemma scan_sp r : scan c_sp r = SSpace r.
Proof.
  unfold scan. rewrite (mp_ops_only c_sp r eq_refl) by (left; reflexivity).
  rewrite (mp_first ops_part c_sp) by (vm_compute; reflexivity). reflexivity.
Qed.

Lemma tw_full p a : forallb p a = true -> take_while p a = (a, []).
Proof.
  induction a as [|c a IH]; [reflexivity|]. cbn [forallb take_while]. intros H.
  apply andb_prop in H as [Hc Ha]. rewrite Hc, (IH Ha). reflexivity.
Qed.

Lemma scan_hash text R :
  no_eol text = true -> hd_eol R = true -> scan c_hash (text ++ R) = STok (MComment text) R.
Proof.
  intros Ht HR. unfold scan. rewrite (mp_ops_only c_hash (text ++ R) eq_refl) by (left; reflexivity).
  rewrite (mp_first ops_part c_hash) by (vm_compute; reflexivity).
  change (Ascii.eqb c_hash c_hash) with true. cbv iota.
  rewrite (tw_app not_eol R text text [] (tw_full _ _ Ht)); [reflexivity|].
  intros _. destruct R as [|x R]; [exact I|]. cbn [hd_eol] in HR. unfold not_eol.
  unfold is_eolc in HR. apply orb_prop in HR as [-> | ->]; [reflexivity | apply andb_false_r].
Qed.
