(** * C17 - what [assemble_class] (the model of [extract_class]) does to the methods of a class body

    The body statements are keyed by name in a map, the constructor is synthesised and put back
    under the key [__init__], and the values are sorted by their (slot, kind) position.  Provided no
    statement shares its key with a function of the body,
    - every function other than [__init__] comes out exactly once, in source order ([assemble_methods]);
    - exactly one [__init__] comes out when one is synthesised, else the explicit ones ([assemble_ctor]). *)
From Coq Require Import List String Bool Arith Lia Sorting.Sorted.
From MambaModel Require Import model.Core gen.Names model.Convert model.Api proofs.ApiBase.
Import ListNotations.
Local Open Scope string_scope.
Local Open Scope list_scope.

(** ** Keys *)

Definition skey (s : core) : core := fst (stmt_entry 0 s).
Lemma stmt_entry_key i s : fst (stmt_entry i s) = skey s. Proof. destruct s; reflexivity. Qed.
Lemma stmt_entry_stmt i s : snd (snd (stmt_entry i s)) = s. Proof. destruct s; reflexivity. Qed.
Lemma stmt_entry_pos_fun i s : isfun s = true -> fst (snd (stmt_entry i s)) = (i + 2, 2).
Proof. destruct s; try discriminate; reflexivity. Qed.
Lemma skey_fun s f : fsig_py s = Some f -> skey s = Id (fst f).
Proof. destruct s; try discriminate; intros H; injection H as <-; reflexivity. Qed.

Lemma key_eqb_sym a b : key_eqb a b = key_eqb b a.
Proof. destruct a, b; try reflexivity. apply String.eqb_sym. Qed.
Lemma key_eqb_trans a b c : key_eqb a b = true -> key_eqb b c = key_eqb a c.
Proof.
  destruct a; try discriminate. destruct b; try discriminate. cbn [key_eqb]. intros H.
  apply String.eqb_eq in H. subst. reflexivity.
Qed.

(** ** The map as a fold over the entries *)

Fixpoint entries_from (i : nat) (l : list core) : list entry :=
  match l with [] => [] | s :: r => stmt_entry i s :: entries_from (S i) r end.
Definition ins (m : list entry) (e : entry) : list entry := hm_insert (fst e) (snd e) m.

Lemma body_entries_fold l : forall i m, body_entries i l m = fold_left ins (entries_from i l) m.
Proof.
  induction l as [|s l IH]; intros i m; [reflexivity|]. cbn [body_entries entries_from fold_left].
  destruct (stmt_entry i s) as [k v]. rewrite IH. reflexivity.
Qed.

Lemma entries_stmts l : forall i, map (fun e => snd (snd e)) (entries_from i l) = l.
Proof. induction l as [|s l IH]; intros i; [reflexivity|]. cbn [entries_from map]. rewrite stmt_entry_stmt, IH. reflexivity. Qed.

Lemma in_entries e l : forall i, In e (entries_from i l) -> exists k s, In s l /\ e = stmt_entry k s.
Proof.
  induction l as [|s l IH]; intros i; [intros []|]. cbn [entries_from]. intros [<- | H].
  - exists i, s. split; [left; reflexivity | reflexivity].
  - destruct (IH _ H) as (k & s' & Hs & ->). exists k, s'. split; [right; exact Hs | reflexivity].
Qed.

Lemma in_hm_insert e k v m : In e (hm_insert k v m) -> e = (k, v) \/ In e m.
Proof.
  induction m as [|[k' v'] m IH]; cbn [hm_insert].
  - intros [<- | []]. left. reflexivity.
  - destruct (key_eqb k k').
    + intros [<- | H]; [left; reflexivity | right; right; exact H].
    + intros [<- | H]; [right; left; reflexivity|]. destruct (IH H) as [-> | H']; [left; reflexivity | right; right; exact H'].
Qed.

Lemma in_fold e es : forall m, In e (fold_left ins es m) -> In e es \/ In e m.
Proof.
  induction es as [|x es IH]; intros m; cbn [fold_left]; [intros H; right; exact H|].
  intros H. destruct (IH _ H) as [H1 | H1]; [left; right; exact H1|].
  unfold ins in H1. apply in_hm_insert in H1. destruct H1 as [-> | H1].
  - left. left. destruct x; reflexivity.
  - right. exact H1.
Qed.

(** ** Filtering the values of the map *)

Section Filter.
  Variable P : (nat * nat) * core -> bool.

  Lemma filter_hm_insert k v m :
    (P v = true -> forall e, In e m -> key_eqb k (fst e) = false) ->
    (forall e, In e m -> P (snd e) = true -> key_eqb k (fst e) = false) ->
    filter P (map snd (hm_insert k v m)) = filter P (map snd m) ++ (if P v then [v] else []).
  Proof.
    induction m as [|[k' v'] m IH]; intros H1 H2; cbn [hm_insert map filter fst snd]; [destruct (P v); reflexivity|].
    destruct (key_eqb k k') eqn:E.
    - assert (Pv' : P v' = false).
      { destruct (P v') eqn:E'; [|reflexivity]. specialize (H2 (k', v') (or_introl eq_refl) E'). cbn [fst] in H2. congruence. }
      assert (Pv : P v = false).
      { destruct (P v) eqn:E'; [|reflexivity]. specialize (H1 eq_refl (k', v') (or_introl eq_refl)). cbn [fst] in H1. congruence. }
      cbn [map filter snd]. rewrite Pv, Pv', app_nil_r. reflexivity.
    - cbn [map filter snd]. rewrite IH.
      + destruct (P v'); reflexivity.
      + intros Hv e He. apply (H1 Hv). right. exact He.
      + intros e He. apply H2. right. exact He.
  Qed.

  (** no entry shares its key with a [P]-entry *)
  Fixpoint kok_e (es : list entry) : Prop :=
    match es with
    | [] => True
    | e :: r => (forall e', In e' r -> P (snd e) || P (snd e') = true -> key_eqb (fst e') (fst e) = false) /\ kok_e r
    end.

  Lemma filter_fold es : forall m,
    kok_e es ->
    (forall e e', In e es -> In e' m -> P (snd e) || P (snd e') = true -> key_eqb (fst e) (fst e') = false) ->
    filter P (map snd (fold_left ins es m)) = filter P (map snd m) ++ filter P (map snd es).
  Proof.
    induction es as [|x es IH]; intros m Hk Hm; cbn [fold_left map filter]; [rewrite app_nil_r; reflexivity|].
    destruct Hk as [Hx Hk]. rewrite IH; [|exact Hk|].
    - unfold ins. rewrite filter_hm_insert.
      + rewrite <- app_assoc. destruct (P (snd x)); reflexivity.
      + intros Hv e He. apply (Hm x e (or_introl eq_refl) He). rewrite Hv. reflexivity.
      + intros e He Hp. apply (Hm x e (or_introl eq_refl) He). rewrite Hp. apply orb_true_r.
    - intros e e' He He' Hp. unfold ins in He'. apply in_hm_insert in He'. destruct He' as [-> | He'].
      + cbn [fst snd] in *. apply Hx; [exact He|]. rewrite orb_comm. exact Hp.
      + apply Hm; [right; exact He | exact He' | exact Hp].
  Qed.
End Filter.

Lemma kok_e_weaken (P Q : (nat * nat) * core -> bool) es :
  (forall v, Q v = true -> P v = true) -> kok_e P es -> kok_e Q es.
Proof.
  intros HPQ. induction es as [|e es IH]; [trivial|]. intros [H1 H2]. split; [|apply IH, H2].
  intros e' He' Hq. apply H1; [exact He'|]. apply orb_true_iff in Hq. apply orb_true_iff.
  destruct Hq as [Hq | Hq]; [left | right]; apply HPQ, Hq.
Qed.

(** ** Unique keys *)

Fixpoint uniq (m : list entry) : Prop :=
  match m with [] => True | e :: r => (forall e', In e' r -> key_eqb (fst e) (fst e') = false) /\ uniq r end.

Lemma uniq_insert k v m : uniq m -> uniq (hm_insert k v m).
Proof.
  induction m as [|[k' v'] m IH]; cbn [hm_insert]; [intros _; split; [intros e []|exact I]|].
  intros [H1 H2]. destruct (key_eqb k k') eqn:E.
  - split; [|exact H2]. intros e' He'. cbn [fst]. rewrite <- (key_eqb_trans _ _ _ E). apply (H1 e' He').
  - split; [|apply IH, H2]. intros e' He'. apply in_hm_insert in He'. destruct He' as [-> | He'].
    + cbn [fst]. rewrite key_eqb_sym. exact E.
    + apply (H1 e' He').
Qed.

Lemma uniq_fold es : forall m, uniq m -> uniq (fold_left ins es m).
Proof. induction es as [|x es IH]; intros m H; [exact H|]. cbn [fold_left]. apply IH, uniq_insert, H. Qed.

Lemma filter_none {X} (P : X -> bool) l : (forall x, In x l -> P x = false) -> filter P l = [].
Proof.
  induction l as [|x l IH]; intros H; [reflexivity|]. cbn [filter]. rewrite (H x (or_introl eq_refl)).
  apply IH. intros y Hy. apply H. right. exact Hy.
Qed.

(** inserting a [Q]-value under the key that all [Q]-entries carry leaves exactly that one *)
Lemma filter_insert_only (Q : (nat * nat) * core -> bool) k v m :
  uniq m -> Q v = true -> (forall e, In e m -> Q (snd e) = true -> key_eqb k (fst e) = true) ->
  filter Q (map snd (hm_insert k v m)) = [v].
Proof.
  induction m as [|[k' v'] m IH]; intros Hu Hv Hq; cbn [hm_insert map filter snd]; [rewrite Hv; reflexivity|].
  destruct Hu as [Hu1 Hu2]. destruct (key_eqb k k') eqn:E.
  - cbn [map filter snd]. rewrite Hv. f_equal. apply filter_none. intros x Hx.
    apply in_map_iff in Hx. destruct Hx as (e & <- & He).
    destruct (Q (snd e)) eqn:Eq; [|reflexivity].
    pose proof (Hq e (or_intror He) Eq) as H1. pose proof (Hu1 e He) as H2. cbn [fst] in H2.
    rewrite <- (key_eqb_trans _ _ _ E) in H1. congruence.
  - cbn [map filter snd].
    assert (Q v' = false) as ->.
    { destruct (Q v') eqn:Eq; [|reflexivity]. specialize (Hq (k', v') (or_introl eq_refl) Eq). cbn [fst] in Hq. congruence. }
    apply IH; [exact Hu2 | exact Hv|]. intros e He. apply Hq. right. exact He.
Qed.

(** ** Sorting by position *)

Lemma pos_ltb_spec p q :
  pos_ltb p q = true <-> fst p < fst q \/ (fst p = fst q /\ snd p < snd q).
Proof.
  unfold pos_ltb. rewrite orb_true_iff, andb_true_iff, !Nat.ltb_lt, Nat.eqb_eq. reflexivity.
Qed.
Lemma pos_ltb_false p q :
  pos_ltb p q = false <-> ~ (fst p < fst q \/ (fst p = fst q /\ snd p < snd q)).
Proof. rewrite <- pos_ltb_spec. destruct (pos_ltb p q); split; congruence. Qed.

Definition value := ((nat * nat) * core)%type.
Definition vle (x y : value) : Prop := pos_ltb (fst y) (fst x) = false.
Definition sorted (l : list value) : Prop := StronglySorted vle l.

Lemma insert_in e l x : In x (insert_by_pos e l) -> x = e \/ In x l.
Proof.
  induction l as [|y l IH]; cbn [insert_by_pos]; [intros [<- | []]; left; reflexivity|].
  destruct (pos_ltb (fst e) (fst y)).
  - intros [<- | H]; [left; reflexivity | right; exact H].
  - intros [<- | H]; [right; left; reflexivity|]. destruct (IH H) as [-> | H']; [left; reflexivity | right; right; exact H'].
Qed.

Lemma insert_sorted e l : sorted l -> sorted (insert_by_pos e l).
Proof.
  induction 1 as [|y l Hs IH Hy]; cbn [insert_by_pos]; [constructor; constructor|].
  destruct (pos_ltb (fst e) (fst y)) eqn:E.
  - constructor; [constructor; assumption|]. constructor.
    + unfold vle. apply pos_ltb_false. apply pos_ltb_spec in E. lia.
    + rewrite Forall_forall in *. intros z Hz. specialize (Hy z Hz). unfold vle in *.
      apply pos_ltb_false. apply pos_ltb_false in Hy. apply pos_ltb_spec in E. lia.
  - constructor; [exact IH|]. rewrite Forall_forall in *. intros z Hz. apply insert_in in Hz.
    destruct Hz as [-> | Hz]; [|apply Hy, Hz]. unfold vle. apply pos_ltb_false. apply pos_ltb_false in E.
    intros H. apply E. clear E. destruct (Nat.lt_trichotomy (fst (fst e)) (fst (fst y))) as [H1 | [H1 | H1]]; lia.
Qed.

Lemma sort_sorted l : sorted (sort_by_pos l).
Proof. induction l as [|x l IH]; [constructor|]. apply insert_sorted, IH. Qed.

Lemma insert_head e l : (forall y, In y l -> pos_ltb (fst e) (fst y) = true) -> insert_by_pos e l = e :: l.
Proof. destruct l as [|y l]; [reflexivity|]. intros H. cbn [insert_by_pos]. rewrite (H y (or_introl eq_refl)). reflexivity. Qed.

Lemma filter_insert (P : value -> bool) e l :
  sorted l -> filter P (insert_by_pos e l) = if P e then insert_by_pos e (filter P l) else filter P l.
Proof.
  induction 1 as [|y l Hs IH Hy]; cbn [insert_by_pos filter]; [destruct (P e); reflexivity|].
  destruct (pos_ltb (fst e) (fst y)) eqn:E.
  - cbn [filter]. destruct (P e) eqn:Pe; [|reflexivity].
    rewrite insert_head; [reflexivity|]. intros z Hz.
    assert (Hz' : In z (y :: l)) by (change (filter P (y :: l)) with (if P y then y :: filter P l else filter P l) in Hz;
      destruct (P y); [destruct Hz as [<- | Hz]; [left; reflexivity | right; apply filter_In in Hz; apply Hz]
                      | right; apply filter_In in Hz; apply Hz]).
    destruct Hz' as [<- | Hz']; [exact E|]. rewrite Forall_forall in Hy. specialize (Hy z Hz'). unfold vle in Hy.
    apply pos_ltb_spec. apply pos_ltb_spec in E. apply pos_ltb_false in Hy. lia.
  - cbn [filter]. rewrite IH. destruct (P e), (P y); cbn [insert_by_pos]; rewrite ?E; reflexivity.
Qed.

Lemma filter_sort (P : value -> bool) l : filter P (sort_by_pos l) = sort_by_pos (filter P l).
Proof.
  induction l as [|x l IH]; [reflexivity|]. cbn [sort_by_pos fold_right filter].
  change (fold_right insert_by_pos [] l) with (sort_by_pos l).
  rewrite filter_insert by apply sort_sorted. rewrite IH. destruct (P x); reflexivity.
Qed.

(** slots strictly ascending from a bound *)
Fixpoint ascf (n : nat) (l : list value) : Prop :=
  match l with [] => True | x :: r => n <= fst (fst x) /\ ascf (S (fst (fst x))) r end.
Lemma ascf_weaken l : forall n m, m <= n -> ascf n l -> ascf m l.
Proof. destruct l as [|x l]; intros n m H; [trivial|]. cbn [ascf]. intros [H1 H2]. split; [lia | exact H2]. Qed.
Lemma ascf_in l : forall n x, ascf n l -> In x l -> n <= fst (fst x).
Proof.
  induction l as [|y l IH]; intros n x; [intros _ []|]. cbn [ascf]. intros [H1 H2] [<- | Hx]; [exact H1|].
  specialize (IH _ x H2 Hx). lia.
Qed.
Lemma sort_ascf l : forall n, ascf n l -> sort_by_pos l = l.
Proof.
  induction l as [|x l IH]; intros n; [reflexivity|]. cbn [ascf]. intros [H1 H2].
  cbn [sort_by_pos fold_right]. change (fold_right insert_by_pos [] l) with (sort_by_pos l).
  rewrite (IH _ H2). apply insert_head. intros y Hy. pose proof (ascf_in _ _ _ H2 Hy). apply pos_ltb_spec. lia.
Qed.

Lemma ascf_filter_entries (P : value -> bool) l : forall i,
  (forall v, P v = true -> isfun (snd v) = true) ->
  ascf (i + 2) (filter P (map snd (entries_from i l))).
Proof.
  induction l as [|s l IH]; intros i HP; [exact I|]. cbn [entries_from map filter].
  destruct (P (snd (stmt_entry i s))) eqn:E.
  - cbn [ascf]. pose proof (HP _ E) as Hf. rewrite stmt_entry_stmt in Hf.
    rewrite (stmt_entry_pos_fun i s Hf). cbn [fst]. split; [lia|].
    apply (ascf_weaken _ (S i + 2)); [lia|]. apply IH, HP.
  - apply (ascf_weaken _ (S i + 2)); [lia|]. apply IH, HP.
Qed.

(** ** The assembled class body *)

Definition is_meth (s : core) : bool := match fsig_py s with Some f => negb (is_init f) | None => false end.
Definition is_inits (s : core) : bool := match fsig_py s with Some f => is_init f | None => false end.

Lemma fsig_isfun s f : fsig_py s = Some f -> isfun s = true.
Proof. destruct s; try discriminate; reflexivity. Qed.
Lemma is_meth_isfun s : is_meth s = true -> isfun s = true.
Proof. unfold is_meth. destruct (fsig_py s) eqn:E; [intros _; exact (fsig_isfun _ _ E) | discriminate]. Qed.
Lemma is_inits_isfun s : is_inits s = true -> isfun s = true.
Proof. unfold is_inits. destruct (fsig_py s) eqn:E; [intros _; exact (fsig_isfun _ _ E) | discriminate]. Qed.
Lemma is_inits_key s : is_inits s = true -> skey s = Id n_init.
Proof.
  unfold is_inits. destruct (fsig_py s) as [f|] eqn:E; [|discriminate]. intros H.
  rewrite (skey_fun _ _ E). unfold is_init in H. apply String.eqb_eq in H. rewrite H. reflexivity.
Qed.
Lemma is_meth_key s : is_meth s = true -> key_eqb (Id n_init) (skey s) = false.
Proof.
  unfold is_meth. destruct (fsig_py s) as [f|] eqn:E; [|discriminate]. intros H.
  rewrite (skey_fun _ _ E). cbn [key_eqb]. unfold is_init in H. apply negb_true_iff in H.
  rewrite String.eqb_sym. exact H.
Qed.

(** no statement of the body shares its key with a function of the body *)
Definition kok (cs : list core) : Prop := kok_e (fun v => isfun (snd v)) (entries_from 0 cs).

Definition old_init (cs : list core) : option core :=
  match hm_get (Id n_init) (body_entries 0 cs []) with Some (_, f) => Some f | None => None end.

Lemma filter_map_snd {X Y} (P : Y -> bool) (l : list (X * Y)) :
  filter P (map snd l) = map snd (filter (fun v => P (snd v)) l).
Proof. induction l as [|x l IH]; [reflexivity|]. cbn [map filter]. destruct (P (snd x)); cbn [map]; rewrite IH; reflexivity. Qed.

Lemma filter_default (P : core -> bool) l :
  P Pass = false -> filter P (match l with [] => [Pass] | _ => l end) = filter P l.
Proof. intros H. destruct l; [cbn [filter]; rewrite H; reflexivity | reflexivity]. Qed.

Lemma values_stmts l i : map snd (map snd (entries_from i l)) = l.
Proof. rewrite map_map. apply entries_stmts. Qed.

(** the synthesised constructor is inserted (or not) under the key [__init__] *)
Lemma assemble_unfold cs ca ps pn body :
  assemble_class cs ca ps = Some (pn, body) ->
  exists m', body = (let l := map snd (sort_by_pos (map snd m')) in match l with [] => [Pass] | _ => l end) /\
             pn = flat_map (fun o => match o with Some x => [x] | None => [] end) (map parent_name ps) /\
             existsb (fun o => match o with None => true | Some _ => false end) (map parent_name ps) = false /\
             match class_init (old_init cs) ca ps with
             | Some ni => exists pos, m' = hm_insert (Id n_init) (pos, ni) (body_entries 0 cs [])
             | None => m' = body_entries 0 cs []
             end.
Proof.
  unfold assemble_class, old_init. cbv zeta.
  set (m := body_entries 0 cs []).
  set (oi := match hm_get (Id n_init) m with Some (_, f) => Some f | None => None end).
  destruct (existsb _ (map parent_name ps)) eqn:Ex; [discriminate|].
  intros H. injection H as <- <-.
  destruct (class_init oi ca ps) as [ni|].
  - eexists. split; [reflexivity|]. split; [reflexivity|]. split; [reflexivity|]. eexists. reflexivity.
  - exists m. repeat split; reflexivity.
Qed.

Lemma class_init_shape o ca ps ni :
  class_init o ca ps = Some ni -> exists args sts, ni = FunDef [] n_init args None (Block sts).
Proof.
  unfold class_init. cbv zeta.
  destruct (match o with
            | Some (FunDef _ _ arg _ body) => (arg, (map fst (map parent_init ps) ++ block_stmts body)%list)
            | Some _ => ([], map fst (map parent_init ps))
            | None => (ca, map fst (map parent_init ps))
            end) as [args statements].
  match goal with |- match ?l with [] => _ | _ => _ end = _ -> _ => destruct l end; [discriminate|].
  intros H. injection H as <-. eexists. eexists. reflexivity.
Qed.

Lemma somes_all (l : list (option core)) :
  existsb (fun o => match o with None => true | Some _ => false end) l = false ->
  l = map Some (flat_map (fun o => match o with Some x => [x] | None => [] end) l).
Proof.
  induction l as [|o l IH]; [reflexivity|]. cbn [existsb]. intros Hex.
  apply orb_false_elim in Hex. destruct Hex as [Ho Hl]. destruct o; [|discriminate].
  cbn [flat_map app map]. rewrite <- (IH Hl). reflexivity.
Qed.

Section Assemble.
  Variables (cs ca ps pn body : list core).
  Hypothesis Has : assemble_class cs ca ps = Some (pn, body).
  Hypothesis Hk : kok cs.

  Let m := body_entries 0 cs [].

  Lemma m_fold : m = fold_left ins (entries_from 0 cs) []. Proof. apply body_entries_fold. Qed.

  Lemma m_entries e : In e m -> exists k s, In s cs /\ e = stmt_entry k s.
  Proof.
    rewrite m_fold. intros H. apply in_fold in H. destruct H as [H | []]. apply (in_entries _ _ _ H).
  Qed.

  Lemma m_uniq : uniq m. Proof. rewrite m_fold. apply uniq_fold. exact I. Qed.

  Lemma m_filter (P : value -> bool) :
    (forall v, P v = true -> isfun (snd v) = true) ->
    filter P (map snd m) = filter P (map snd (entries_from 0 cs)).
  Proof.
    intros HP. rewrite m_fold, filter_fold; [reflexivity | | intros e e' _ []].
    apply (kok_e_weaken (fun v => isfun (snd v))); [exact HP | exact Hk].
  Qed.

  (** [methods_preserved]: every function of the body other than [__init__] appears exactly once in the
      class, in source order *)
  Lemma assemble_methods : filter is_meth body = filter is_meth cs.
  Proof.
    destruct (assemble_unfold _ _ _ _ _ Has) as (m' & -> & _ & _ & Hm').
    cbv zeta. rewrite filter_default by reflexivity. rewrite filter_map_snd, filter_sort.
    pose (P := fun v : value => is_meth (snd v)).
    change (map snd (sort_by_pos (filter P (map snd m'))) = filter is_meth cs).
    assert (HP : forall v, P v = true -> isfun (snd v) = true) by (intros v; apply is_meth_isfun).
    assert (Hv : filter P (map snd m') = filter P (map snd m)).
    { destruct (class_init (old_init cs) ca ps) as [ni|] eqn:Eci; [|subst m'; reflexivity].
      destruct Hm' as (pos & ->). fold m.
      destruct (class_init_shape _ _ _ _ Eci) as (args & sts & ->).
      assert (Pn : P (pos, FunDef [] n_init args None (Block sts)) = false) by reflexivity.
      rewrite filter_hm_insert.
      - rewrite Pn. apply app_nil_r.
      - rewrite Pn. discriminate.
      - intros e He Hp. destruct (m_entries e He) as (k & s & _ & ->). rewrite stmt_entry_key.
        unfold P in Hp. rewrite stmt_entry_stmt in Hp. apply is_meth_key, Hp. }
    rewrite Hv, (m_filter P HP), (sort_ascf _ (0 + 2)) by (apply ascf_filter_entries, HP).
    transitivity (filter is_meth (map snd (map snd (entries_from 0 cs))));
      [symmetry; apply filter_map_snd | rewrite values_stmts; reflexivity].
  Qed.

  (** the constructor: the synthesised one if there is one (it replaces an explicit one), else the explicit ones *)
  Lemma assemble_ctor :
    filter is_inits body =
    match class_init (old_init cs) ca ps with Some ni => [ni] | None => filter is_inits cs end.
  Proof.
    destruct (assemble_unfold _ _ _ _ _ Has) as (m' & -> & _ & _ & Hm').
    cbv zeta. rewrite filter_default by reflexivity. rewrite filter_map_snd, filter_sort.
    pose (Q := fun v : value => is_inits (snd v)).
    change (map snd (sort_by_pos (filter Q (map snd m'))) =
            match class_init (old_init cs) ca ps with Some ni => [ni] | None => filter is_inits cs end).
    assert (HQ : forall v, Q v = true -> isfun (snd v) = true) by (intros v; apply is_inits_isfun).
    destruct (class_init (old_init cs) ca ps) as [ni|] eqn:Eci.
    - destruct Hm' as (pos & ->). fold m.
      destruct (class_init_shape _ _ _ _ Eci) as (args & sts & ->).
      rewrite (filter_insert_only Q); [reflexivity | apply m_uniq | reflexivity|].
      intros e He Hq. destruct (m_entries e He) as (k & s & _ & ->). rewrite stmt_entry_key.
      unfold Q in Hq. rewrite stmt_entry_stmt in Hq. rewrite (is_inits_key _ Hq). apply String.eqb_refl.
    - subst m'. fold m. rewrite (m_filter Q HQ), (sort_ascf _ (0 + 2)) by (apply ascf_filter_entries, HQ).
      transitivity (filter is_inits (map snd (map snd (entries_from 0 cs))));
        [symmetry; apply filter_map_snd | rewrite values_stmts; reflexivity].
  Qed.

  Lemma assemble_parents : map parent_name ps = map Some pn.
  Proof.
    destruct (assemble_unfold _ _ _ _ _ Has) as (m' & _ & -> & Hex & _). apply somes_all, Hex.
  Qed.
End Assemble.

(** ** The explicit constructor found in the map *)

Lemma get_insert s k' v m :
  hm_get (Id s) (hm_insert k' v m) = if key_eqb (Id s) k' then Some v else hm_get (Id s) m.
Proof.
  induction m as [|[k2 v2] m IH]; cbn [hm_insert hm_get]; [reflexivity|].
  destruct (key_eqb k' k2) eqn:E; cbn [hm_get].
  - destruct (key_eqb (Id s) k') eqn:E1; [reflexivity|].
    assert (key_eqb (Id s) k2 = false) as ->; [|reflexivity].
    rewrite (key_eqb_sym (Id s) k2), (key_eqb_trans _ _ (Id s) E), key_eqb_sym. exact E1.
  - rewrite IH. destruct (key_eqb (Id s) k2) eqn:E2, (key_eqb (Id s) k') eqn:E1; try reflexivity.
    exfalso. rewrite key_eqb_sym in E1. rewrite (key_eqb_trans _ _ _ E1) in E2. congruence.
Qed.

Fixpoint get_last (s : string) (es : list entry) : option value :=
  match es with
  | [] => None
  | e :: r => match get_last s r with
              | Some v => Some v
              | None => if key_eqb (Id s) (fst e) then Some (snd e) else None
              end
  end.

Lemma get_fold s es : forall m,
  hm_get (Id s) (fold_left ins es m) = match get_last s es with Some v => Some v | None => hm_get (Id s) m end.
Proof.
  induction es as [|x es IH]; intros m; [reflexivity|]. cbn [fold_left get_last]. rewrite IH.
  unfold ins. rewrite get_insert. destruct (get_last s es); [reflexivity|].
  destruct (key_eqb (Id s) (fst x)); reflexivity.
Qed.

(** the last statement filed under a key *)
Fixpoint last_keyed (s : string) (cs : list core) : option core :=
  match cs with
  | [] => None
  | c :: r => match last_keyed s r with
              | Some x => Some x
              | None => if key_eqb (Id s) (skey c) then Some c else None
              end
  end.

Lemma get_last_stmts s cs : forall i,
  match get_last s (entries_from i cs) with Some (_, f) => Some f | None => None end = last_keyed s cs.
Proof.
  induction cs as [|c cs IH]; intros i; [reflexivity|]. cbn [entries_from get_last last_keyed].
  specialize (IH (S i)). destruct (get_last s (entries_from (S i) cs)) as [[p f]|].
  - rewrite <- IH. reflexivity.
  - rewrite <- IH, stmt_entry_key. destruct (key_eqb (Id s) (skey c)); [|reflexivity].
    destruct (snd (stmt_entry i c)) as [p f] eqn:E. pose proof (stmt_entry_stmt i c) as H. rewrite E in H.
    cbn [snd] in H. rewrite H. reflexivity.
Qed.

Lemma old_init_last cs : old_init cs = last_keyed n_init cs.
Proof.
  unfold old_init. rewrite body_entries_fold, get_fold. cbn [hm_get].
  rewrite <- (get_last_stmts n_init cs 0). destruct (get_last n_init (entries_from 0 cs)) as [[p f]|]; reflexivity.
Qed.

(** the condition of [assemble_methods], on the statements themselves *)
Fixpoint kokc (cs : list core) : Prop :=
  match cs with
  | [] => True
  | c :: r => (forall c', In c' r -> isfun c || isfun c' = true -> key_eqb (skey c') (skey c) = false) /\ kokc r
  end.

Lemma kokc_kok cs : forall i, kokc cs -> kok_e (fun v => isfun (snd v)) (entries_from i cs).
Proof.
  induction cs as [|c cs IH]; intros i; [trivial|]. cbn [kokc entries_from kok_e]. intros [H1 H2].
  split; [|apply IH, H2]. intros e' He'. destruct (in_entries _ _ _ He') as (k & s & Hs & ->).
  rewrite !stmt_entry_key, !stmt_entry_stmt. apply H1, Hs.
Qed.

Lemma last_keyed_none s cs : (forall c, In c cs -> key_eqb (Id s) (skey c) = false) -> last_keyed s cs = None.
Proof.
  induction cs as [|c cs IH]; intros H; [reflexivity|]. cbn [last_keyed].
  rewrite IH by (intros c' Hc'; apply H; right; exact Hc'). rewrite (H c (or_introl eq_refl)). reflexivity.
Qed.

Lemma last_keyed_fun s cs c :
  kokc cs -> In c cs -> isfun c = true -> skey c = Id s -> last_keyed s cs = Some c.
Proof.
  induction cs as [|x cs IH]; intros Hk Hin Hf Hs; [destruct Hin|]. destruct Hk as [Hx Hk]. cbn [last_keyed].
  destruct Hin as [-> | Hin].
  - rewrite last_keyed_none.
    + rewrite Hs. cbn [key_eqb]. rewrite String.eqb_refl. reflexivity.
    + intros c' Hc'. rewrite <- Hs, key_eqb_sym. apply Hx; [exact Hc'|]. rewrite Hf. reflexivity.
  - rewrite (IH Hk Hin Hf Hs). reflexivity.
Qed.

(** ** [init_signature]: the signature of the synthesised constructor *)

Definition first_is_self_core (args : list core) : bool :=
  match args with FunArg _ (Id lit) _ _ :: _ => String.eqb lit n_self_ | _ => false end.

Definition init_args (o : option core) (ca : list core) : list core :=
  match o with Some (FunDef _ _ arg _ _) => arg | Some _ => [] | None => ca end.

(** the parameters are those of the explicit [__init__] if the body has one - the class arguments are then
    NOT parameters -, else the class arguments; [self] is put in front unless it is there already *)
Lemma class_init_sig o ca ps ni :
  class_init o ca ps = Some ni ->
  fsig_py ni = Some (n_init, map param_py (let args := init_args o ca in
                                            if first_is_self_core args then args else Id n_self_ :: args)).
Proof.
  unfold class_init, init_args, first_is_self_core. cbv zeta.
  destruct o as [[]|]; cbn beta iota;
    match goal with |- match ?l with [] => _ | _ => _ end = _ -> _ => destruct l end;
    try discriminate; intros H; injection H as <-; reflexivity.
Qed.

Lemma first_is_self_params args :
  forallb funarg_id args = true -> first_is_self_core args = first_is_self (map param_py args).
Proof.
  destruct args as [|a r]; [reflexivity|]. cbn [forallb]. intros H. apply andb_prop in H. destruct H as [H _].
  destruct a; try discriminate H. destruct a; try discriminate H. reflexivity.
Qed.

Lemma init_params args :
  forallb funarg_id args = true ->
  map param_py (if first_is_self_core args then args else Id n_self_ :: args) = with_self (map param_py args).
Proof.
  intros H. unfold with_self. rewrite <- (first_is_self_params args H).
  destruct (first_is_self_core args); reflexivity.
Qed.

(** without an explicit constructor one is synthesised exactly when there are class arguments or parents *)
Lemma class_init_none_iff ca ps :
  forallb funarg_id ca = true -> (class_init None ca ps = None <-> ca = [] /\ ps = []).
Proof.
  intros Hca. unfold class_init. cbv zeta. split.
  - destruct ps as [|p ps].
    + cbn [map app]. destruct ca as [|a ca]; [intros _; split; reflexivity|].
      cbn [forallb] in Hca. apply andb_prop in Hca. destruct Hca as [Ha _].
      destruct a; try discriminate Ha. cbn [flat_map app filter existsb negb map]. discriminate.
    + cbn [map fst app]. discriminate.
  - intros [-> ->]. reflexivity.
Qed.

(** exactly when the class arguments are (not) the constructor's parameters *)
Lemma class_args_kept ca ps ni :
  class_init None ca ps = Some ni -> forallb funarg_id ca = true ->
  fsig_py ni = Some (n_init, with_self (map param_py ca)).
Proof.
  intros H Hf. rewrite (class_init_sig _ _ _ _ H). cbv zeta. cbn [init_args]. rewrite (init_params ca Hf). reflexivity.
Qed.

Lemma class_args_lost d id arg t b ca ps ni :
  class_init (Some (FunDef d id arg t b)) ca ps = Some ni -> forallb funarg_id arg = true ->
  fsig_py ni = Some (n_init, with_self (map param_py arg)).
Proof.
  intros H Hf. rewrite (class_init_sig _ _ _ _ H). cbv zeta. cbn [init_args]. rewrite (init_params arg Hf). reflexivity.
Qed.

(** a class FIELD called [__init__] is taken for the old constructor: the synthesised one has no parameters *)
Lemma init_field_clobbers v t e ca ps ni :
  class_init (Some (VarDef v t e)) ca ps = Some ni -> fsig_py ni = Some (n_init, [self_param]).
Proof. intros H. rewrite (class_init_sig _ _ _ _ H). reflexivity. Qed.
