(** * TagSound: core expressions that are typable do not go wrong, and evaluate to a tag their type admits

    [C04_partial]: for any class table and signature table that pass the decidable side conditions [tables_ok]
    (operators sound on the core types, joins and [?] preserve tags), every typable core expression - literals,
    variables, binary operators through the dunder signatures, not / and / or, [x ? d], if-expressions, f-strings, at any
    nesting - evaluated in an environment whose variables carry tags admitted by their declared core types, has no
    outcome that goes wrong (no NameError: every variable is bound; no TypeError: every operator application is one
    Python performs), and every outcome carries a tag admitted by the synthesised type.
    [tables_ok] holds of the regenerated table without the five known rows and fails with them (TagSoundOk below). *)
From Coq Require Import List String Bool ZArith.
From MambaModel Require Import model.Types model.TypingSig model.PyOps model.Typing model.TagSem
  proofs.TypesProps proofs.TypingProps.
Import ListNotations.
Local Open Scope string_scope.
Local Open Scope list_scope.

Lemma tag_eqb_eq a b : tag_eqb a b = true -> a = b.
Proof. destruct a, b; cbn; intros H; try discriminate; reflexivity. Qed.

Lemma mem_In g l : mem g l = true -> In g l.
Proof. unfold mem. intros H. apply existsb_exists in H as [x [Hx E]]. apply tag_eqb_eq in E. subst. exact Hx. Qed.

Lemma subset_In a b g : subset a b = true -> In g a -> In g b.
Proof. unfold subset. intros H HI. rewrite forallb_forall in H. apply mem_In. exact (H g HI). Qed.

Lemma in_core_In t : in_core t = true -> In t core_tys.
Proof.
  unfold in_core. intros H. apply existsb_exists in H as [u [Hu E]].
  assert (t = u); [|subst; exact Hu].
  cbn in Hu. repeat (destruct Hu as [<- | Hu]; [apply ty_eqb_plain_l in E; exact E|]). destruct Hu.
Qed.

Section Sound.
  Variable cx : ctx.
  Variable sigs : list msig.
  Variable funs : list fsig.
  Variable fields : list (string * string * ty).
  Hypothesis Hok : tables_ok cx sigs = true.
  Notation has_type := (has_type cx sigs funs fields).
  Notation meth_ok := (meth_ok cx sigs).

  Definition core_denv (d : denv) : Prop := forall x v, dlookup d x = Some v -> In (d_ty v) core_tys.
  Definition env_tags (rho : list (string * tag)) (d : denv) : Prop :=
    forall x v, dlookup d x = Some v -> exists g, assoc rho x = Some g /\ In g (tags_of_ty (d_ty v)).
  Definition good (t : ty) (os : list outcome) : Prop :=
    forall o, In o os -> exists g, o = Some g /\ In g (tags_of_ty t).

  Lemma Hops : ops_sound_b cx sigs = true.
  Proof. pose proof Hok as H. unfold tables_ok in H. apply andb_prop in H as [H H4]. apply andb_prop in H as [H H3]. apply andb_prop in H as [H1 H2]. exact H1. Qed.
  Lemma Hjoin : join_ok_b cx = true.
  Proof. pose proof Hok as H. unfold tables_ok in H. apply andb_prop in H as [H H4]. apply andb_prop in H as [H H3]. apply andb_prop in H as [H1 H2]. exact H2. Qed.
  Lemma Hquest : quest_ok_b cx = true.
  Proof. pose proof Hok as H. unfold tables_ok in H. apply andb_prop in H as [H H4]. apply andb_prop in H as [H H3]. apply andb_prop in H as [H1 H2]. exact H3. Qed.
  Lemma Hbool : bool_recv_ok_b cx sigs = true.
  Proof. pose proof Hok as H. unfold tables_ok in H. apply andb_prop in H as [H H4]. apply andb_prop in H as [H H3]. apply andb_prop in H as [H1 H2]. exact H4. Qed.

  Lemma op_sound tl tr m t :
    In tl core_tys -> In tr core_tys -> In m binops -> meth_ok tl m [tr] t ->
    In t core_tys /\
    forall a b, In a (tags_of_ty tl) -> In b (tags_of_ty tr) ->
                exists rs, py_binop m a b = Some rs /\ forall g, In g rs -> In g (tags_of_ty t).
  Proof.
    intros Hl Hr Hm HM.
    destruct (call_complete cx sigs (tl, false) m [(tr, false)] t HM) as [obls [EC DC]].
    pose proof Hops as H. unfold ops_sound_b in H. rewrite forallb_forall in H. specialize (H tl Hl).
    rewrite forallb_forall in H. specialize (H tr Hr). rewrite forallb_forall in H. specialize (H m Hm).
    rewrite EC, DC in H. apply andb_prop in H as [Hc Ht]. split; [apply in_core_In; exact Hc|].
    intros a b Ha Hb. rewrite forallb_forall in Ht. specialize (Ht a Ha). rewrite forallb_forall in Ht. specialize (Ht b Hb).
    destruct (py_binop m a b) as [rs|]; [|discriminate]. exists rs. split; [reflexivity|].
    intros g Hg. exact (subset_In rs _ g Ht Hg).
  Qed.

  Lemma bool_recv t rt : In t core_tys -> meth_ok t "__bool__" [] rt -> forall g, In g (tags_of_ty t) -> In g (tags_of_ty tBool).
  Proof.
    intros Ht HM g Hg. destruct (call_complete cx sigs (t, false) "__bool__" [] rt HM) as [obls [EC DC]].
    pose proof Hbool as H. unfold bool_recv_ok_b in H. rewrite forallb_forall in H. specialize (H t Ht).
    rewrite EC, DC in H. exact (subset_In _ _ g H Hg).
  Qed.

  Lemma join_sound a b t : In a core_tys -> In b core_tys -> join_ty cx a b = Some t ->
    In t core_tys /\ (forall g, In g (tags_of_ty a) -> In g (tags_of_ty t)) /\ (forall g, In g (tags_of_ty b) -> In g (tags_of_ty t)).
  Proof.
    intros Ha Hb EJ. pose proof Hjoin as H. unfold join_ok_b in H. rewrite forallb_forall in H. specialize (H a Ha).
    rewrite forallb_forall in H. specialize (H b Hb). rewrite EJ in H.
    apply andb_prop in H as [H H2]. apply andb_prop in H as [Hc H1].
    split; [apply in_core_In; exact Hc|]. split; intros g Hg; [exact (subset_In _ _ g H1 Hg) | exact (subset_In _ _ g H2 Hg)].
  Qed.

  Lemma quest_sound tx td t : In tx core_tys -> In td core_tys -> join_ty cx (strip_null tx) td = Some t ->
    In t core_tys /\ (forall g, In g (tags_of_ty tx) -> g = GNone \/ In g (tags_of_ty t)) /\
    (forall g, In g (tags_of_ty td) -> In g (tags_of_ty t)).
  Proof.
    intros Ha Hb EJ. pose proof Hquest as H. unfold quest_ok_b in H. rewrite forallb_forall in H. specialize (H tx Ha).
    rewrite forallb_forall in H. specialize (H td Hb). rewrite EJ in H.
    apply andb_prop in H as [H H2]. apply andb_prop in H as [Hc H1].
    split; [apply in_core_In; exact Hc|]. split.
    - intros g Hg. rewrite forallb_forall in H1. specialize (H1 g Hg). apply orb_prop in H1 as [E | E].
      + left. apply tag_eqb_eq. exact E.
      + right. apply mem_In. exact E.
    - intros g Hg. exact (subset_In _ _ g H2 Hg).
  Qed.

  Lemma binops_In m : existsb (String.eqb m) binops = true -> In m binops.
  Proof. intros H. apply existsb_exists in H as [x [Hx E]]. apply String.eqb_eq in E. subst. exact Hx. Qed.

  (** progress and preservation on tags *)
  Theorem tag_sound : forall e d rho t,
    core_e e = true -> core_denv d -> env_tags rho d -> has_type d e t ->
    In t core_tys /\ good t (aeval rho e).
  Proof.
    induction e using expr_ind'; intros d rho t0 HC HD HE HT; cbn [core_e] in HC; try discriminate;
      inversion HT; subst; clear HT.
    - split; [cbn; tauto|]. intros o [<- | []]. exists GInt. split; [reflexivity|cbn; tauto].
    - split; [cbn; tauto|]. intros o [<- | []]. exists GFloat. split; [reflexivity|cbn; tauto].
    - split; [cbn; tauto|]. intros o [<- | []]. exists GStr. split; [reflexivity|cbn; tauto].
    - split; [cbn; tauto|]. intros o [<- | []]. exists GBool. split; [reflexivity|cbn; tauto].
    - split; [cbn; tauto|]. intros o [<- | []]. exists GNone. split; [reflexivity|cbn; tauto].
    - (* Var *) split; [exact (HD x v ltac:(eassumption))|]. destruct (HE x v ltac:(eassumption)) as [g [Eg Hg]].
      cbn [aeval]. rewrite Eg. intros o [<- | []]. exists g. split; [reflexivity|exact Hg].
    - (* Op *) apply andb_prop in HC as [HC Hr]. apply andb_prop in HC as [Hm Hl].
      destruct (IHe1 d rho tl Hl HD HE ltac:(eassumption)) as [Cl Gl]. destruct (IHe2 d rho tr Hr HD HE ltac:(eassumption)) as [Cr Gr].
      destruct (op_sound tl tr m t0 Cl Cr (binops_In m Hm) ltac:(eassumption)) as [Ct Hop]. split; [exact Ct|].
      intros o Ho. cbn [aeval] in Ho. apply in_flat_map in Ho as [ol [Hol Ho]]. apply in_flat_map in Ho as [orr [Hor Ho]].
      destruct (Gl ol Hol) as [a [-> Ha]]. destruct (Gr orr Hor) as [b [-> Hb]].
      destruct (Hop a b Ha Hb) as [rs [Ers Hrs]]. rewrite Ers in Ho. apply in_map_iff in Ho as [g [<- Hg]].
      exists g. split; [reflexivity|exact (Hrs g Hg)].
    - (* Not *) destruct (IHe d rho ta HC HD HE ltac:(eassumption)) as [Ca Ga]. split; [cbn; tauto|].
      intros o Ho. cbn [aeval] in Ho. apply in_map_iff in Ho as [oa [Eo Hoa]]. destruct (Ga oa Hoa) as [g [-> _]].
      subst o. exists GBool. split; [reflexivity|cbn; tauto].
    - (* BoolOp *) apply andb_prop in HC as [Hl Hr].
      destruct (IHe1 d rho tl Hl HD HE ltac:(eassumption)) as [Cl Gl]. destruct (IHe2 d rho tr Hr HD HE ltac:(eassumption)) as [Cr Gr].
      split; [cbn; tauto|]. intros o Ho. cbn [aeval] in Ho. apply in_app_or in Ho as [Ho | Ho].
      + destruct (Gl o Ho) as [g [-> Hg]]. exists g. split; [reflexivity|exact (bool_recv tl t1 Cl ltac:(eassumption) g Hg)].
      + destruct (Gr o Ho) as [g [-> Hg]]. exists g. split; [reflexivity|exact (bool_recv tr t2 Cr ltac:(eassumption) g Hg)].
    - (* Quest *) apply andb_prop in HC as [Hx Hd].
      destruct (IHe1 d rho tx Hx HD HE ltac:(eassumption)) as [Cx Gx]. destruct (IHe2 d rho td Hd HD HE ltac:(eassumption)) as [Cd Gd].
      destruct (quest_sound tx td t0 Cx Cd ltac:(eassumption)) as [Ct [Qx Qd]]. split; [exact Ct|].
      intros o Ho. cbn [aeval] in Ho. apply in_flat_map in Ho as [ox [Hox Ho]].
      destruct (Gx ox Hox) as [g [-> Hg]].
      destruct (Qx g Hg) as [-> | Hin].
      + destruct (Gd o Ho) as [g' [-> Hg']]. exists g'. split; [reflexivity|exact (Qd g' Hg')].
      + destruct g; try (destruct Ho as [<- | []]; eexists; split; [reflexivity|exact Hin]).
        destruct (Gd o Ho) as [g' [-> Hg']]. exists g'. split; [reflexivity|exact (Qd g' Hg')].
    - (* If *) apply andb_prop in HC as [HC Hf]. apply andb_prop in HC as [Hc Ht].
      destruct (IHe1 d rho tc Hc HD HE ltac:(eassumption)) as [Cc Gc]. destruct (IHe2 d rho t1 Ht HD HE ltac:(eassumption)) as [C1 G1].
      destruct (IHe3 d rho t2 Hf HD HE ltac:(eassumption)) as [C2 G2].
      destruct (join_sound t1 t2 t0 C1 C2 ltac:(eassumption)) as [Ct [J1 J2]]. split; [exact Ct|].
      intros o Ho. cbn [aeval] in Ho. apply in_flat_map in Ho as [oc [Hoc Ho]].
      destruct (Gc oc Hoc) as [g [-> _]]. apply in_app_or in Ho as [Ho | Ho].
      + destruct (G1 o Ho) as [g' [-> Hg']]. exists g'. split; [reflexivity|exact (J1 g' Hg')].
      + destruct (G2 o Ho) as [g' [-> Hg']]. exists g'. split; [reflexivity|exact (J2 g' Hg')].
    - (* Fmt *) split; [cbn; tauto|].
      assert (HW : existsb (fun a => existsb is_wrong (aeval rho a)) es = false).
      { apply not_true_is_false. intros HX. apply existsb_exists in HX as [a [Ha HX]].
        apply existsb_exists in HX as [o [Ho HX]].
        rewrite Forall_forall in H. rewrite forallb_forall in HC.
        assert (HTa : exists ta, has_type d a ta).
        { match goal with HS : Typing.strs_ok _ _ _ _ _ es |- _ => rename HS into HSO end.
          clear - HSO Ha. induction HSO as [|e0 es0 t1 ts1 He0 Hm Hes IH]; [destruct Ha|].
          destruct Ha as [<- | Ha]; [exists t1; exact He0 | exact (IH Ha)]. }
        destruct HTa as [ta HTa]. destruct (H a Ha d rho ta (HC a Ha) HD HE HTa) as [_ Ga].
        destruct (Ga o Ho) as [g [-> _]]. discriminate. }
      intros o Ho. cbn [aeval] in Ho. rewrite HW in Ho. destruct Ho as [<- | []].
      exists GStr. split; [reflexivity|cbn; tauto].
  Qed.

  (** C04_partial: no outcome of a typable core expression goes wrong *)
  Corollary no_wrong e d rho t :
    core_e e = true -> core_denv d -> env_tags rho d -> has_type d e t -> ~ In None (aeval rho e).
  Proof.
    intros HC HD HE HT HI. destruct (tag_sound e d rho t HC HD HE HT) as [_ G]. destruct (G None HI) as [g [E _]]. discriminate.
  Qed.
End Sound.


(** * The side conditions on the regenerated tables *)
From MambaModel Require Import gen.Stubs gen.StubSigs.

Definition sound_rows : list msig := filter (fun r => negb (known_row r)) stub_sigs.

Theorem tables_ok_outside_known : tables_ok generated sound_rows = true.
Proof. vm_compute. reflexivity. Qed.

(** with the table as it is, ["a" + 1] is typable and goes wrong (as long as the D9 row admits an Int operand) *)
Definition d9_expr : expr := EOp "__add__" (EStr "a") (EInt 1%Z).
Definition d9_typable : bool :=
  match gen_e generated stub_sigs [] [] [] d9_expr with
  | Some (t, _, l) => ty_eqb t tStr && forallb (discharge generated noq) l
  | None => false
  end.

Theorem typable_goes_wrong :
  d9_typable = true ->
  exists t, has_type generated stub_sigs [] [] [] d9_expr t /\ core_e d9_expr = true /\ In None (aeval [] d9_expr).
Proof.
  unfold d9_typable. intros H.
  destruct (gen_e generated stub_sigs [] [] [] d9_expr) as [[[t lo] l]|] eqn:E; [|discriminate].
  apply andb_prop in H as [_ D]. exists t. split; [|split; [reflexivity|cbn; tauto]].
  apply (gen_e_iff generated stub_sigs [] [] [] d9_expr t). exists lo, l. split; assumption.
Qed.

(** the hypotheses of the soundness theorem are satisfiable by a non-trivial case *)
Example partial_example :
  let d := [("x", {| d_ty := opt tInt; d_mut := false |}); ("y", {| d_ty := tFloat; d_mut := false |})] in
  let e := EIf (EOp "__lt__" (EVar "y") (EInt 2%Z)) (EOp "__mul__" (EQuest (EVar "x") (EInt 3%Z)) (EInt 2%Z)) (EInt 0%Z) in
  core_e e = true /\ core_denv d /\ env_tags [("x", GNone); ("y", GInt)] d /\
  (exists t, has_type generated sound_rows [] [] d e t) /\ aeval [("x", GNone); ("y", GInt)] e = [Some GInt; Some GInt].
Proof.
  cbv zeta. split; [reflexivity|]. split.
  - intros x v H. cbn [dlookup] in H. destruct (String.eqb "x" x); cbn [dlookup] in H; [injection H as <-; vm_compute; tauto|].
    destruct (String.eqb "y" x); cbn [dlookup] in H; [injection H as <-; vm_compute; tauto|discriminate].
  - split.
    + intros x v H. cbn [dlookup] in H. destruct (String.eqb "x" x) eqn:E1; cbn [dlookup] in H.
      * injection H as <-. exists GNone. split; [cbn [assoc]; rewrite E1; reflexivity|vm_compute; tauto].
      * destruct (String.eqb "y" x) eqn:E2; cbn [dlookup] in H; [|discriminate]. injection H as <-. exists GInt.
        split; [cbn [assoc]; rewrite E1, E2; reflexivity|vm_compute; tauto].
    + split; [|vm_compute; reflexivity].
      exists tInt.
      apply (TypingProps.gen_e_iff generated sound_rows [] []
               [("x", {| v_ty := opt tInt; v_loose := false; v_mut := false |}); ("y", {| v_ty := tFloat; v_loose := false; v_mut := false |})]).
      eexists _, _. split; [vm_compute; reflexivity | vm_compute; reflexivity].
Qed.
